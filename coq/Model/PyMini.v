(* PyMini: a deep embedding of the fragment of Python in which the small imperative cores of beanquery are written
   (cursor fetch methods, the __call__ bodies of the evaluation nodes, the NULL-strict function wrapper, ...), with a
   total, executable big-step interpreter.

   Purpose: a second, *translator-based* tie between /repo and the model.  On every run harness/vf/py2mini.py takes
   the source of the selected functions from the IMPORTED beanquery objects (inspect.getsource), translates their
   Python AST node by node into a term of [fdef] below (failing closed on anything outside the fragment) and writes
   coq/Gen/Src.v.  Proofs/Src*.v then prove, for ALL inputs, that interpreting the translated body equals the
   hand-written model function the property theorems are stated over (Cursor.fetchone, Eval.eval's clause for each
   node class, ...).  A change of the source therefore changes Gen/Src.v and the theorem is re-checked against what
   the code says now.

   What the interpreter trusts (the semantics of the fragment): scalar values and their operators are those of
   Base/PyValue.v and Model/Eval.v; lists have value semantics (no aliasing: the translator only admits in-place
   mutation - pop - on a local name or an attribute of self); the only object with fields is `self`; calling an opaque
   callable (a child node, an operator, a wrapped function) consults a pure oracle; an oracle value VErr k stands
   for a raised exception and propagates. *)
From Coq Require Import String ZArith List Bool.
Import ListNotations.
From Verif Require Import Base.PyValue Model.Eval.
Open Scope string_scope.
Open Scope list_scope.
Open Scope Z_scope.

Inductive pv :=
| PV (v : value)             (* None (VNull), bool, int, Decimal, str, date *)
| PList (l : list pv)
| PTuple (l : list pv)
| PRef (n : nat)             (* an opaque callable: child node, operator function, wrapped function *)
| PSelf.                     (* the receiver *)

Definition PNone : pv := PV VNull.
Definition PInt (z : Z) : pv := PV (VInt z).
Definition PBool (b : bool) : pv := PV (VBool b).

Inductive cmpop := CIs | CIsNot | CEq | CNe | CLt | CLe | CGt | CGe | CIn | CNotIn.
Inductive bop := OAdd | OSub | OMul | OFloorDiv | OMod | ODiv.

Inductive target :=
| TName (x : string)
| TSelf (a : string).         (* self.a *)

Inductive expr :=
| XConst (v : pv)
| XName (x : string)
| XAttr (e : expr) (a : string)
| XCall (f : expr) (args : list expr) (star : option expr)     (* f(a1, .., an, *star) *)
| XLen (e : expr)
| XMethod (t : target) (m : string) (args : list expr)         (* t.m(args) on a local / self attribute: may mutate t *)
| XPrim (name : string) (args : list expr)                     (* a library function, by qualified name *)
| XTuple (es : list expr)
| XIndex (e i : expr)                                          (* e[i] *)
| XCallMethod (e : expr) (m : string) (args : list expr)       (* e.m(args) on a value that is not mutated *)
| XNeg (e : expr)                                              (* -e *)
| XCompare (e : expr) (rest : list (cmpop * expr))             (* a op1 b op2 c ... *)
| XNot (e : expr)
| XBin (op : bop) (a b : expr)
| XIfExp (c a b : expr)
| XSlice (e : expr) (lo hi : option expr)                      (* e[lo:hi] *)
| XListComp (elt : expr) (x : string) (iter : expr) (cond : option expr)   (* [elt for x in iter if cond] *)
| XList (es : list expr)
| XBoolOp (is_and : bool) (es : list expr).                     (* a and b and ..  /  a or b or .. (operand values) *)

Inductive stmt :=
| SAssign (t : target) (e : expr)
| SAug (t : target) (op : bop) (e : expr)
| SIf (c : expr) (a b : list stmt)
| SFor (x : string) (it : expr) (body : list stmt)
| SForUnpack (xs : list string) (it : expr) (body : list stmt) (* for a, b in it *)
| SUnpack (ts : list target) (e : expr)                        (* a, b = e *)
| SYield (e : expr)                                            (* generator functions: the items are collected *)
| STry (body : list stmt) (kinds : list Z) (handler : list stmt)
       (* try: body  except (kinds): handler   (kinds = []: any exception); state changes of a failed body are
          discarded, which is exact for bodies that only compute a value *)
| SReturn (e : option expr)
| SExpr (e : expr)
| SPass.

Record fdef := { f_params : list string; f_body : list stmt; f_gen : bool (* contains yield: a generator function *) }.

(* ------------------------------------------------------------------ results *)
Inductive res (A : Type) :=
| Ok (a : A)
| Exc (k : Z)          (* a Python exception of kind k (Eval.TypeError = 1, IndexError = 2, NameError = 3) *)
| Stuck.               (* outside what the interpreter models: no theorem may conclude this *)
Arguments Ok {A}. Arguments Exc {A}. Arguments Stuck {A}.

Definition IndexError : Z := 2.
Definition NameError : Z := 3.
Definition ZeroDivisionError : Z := 4.
Definition ValueError : Z := 5.
Definition OverflowError : Z := 6.
Definition AttributeError : Z := 7.
Definition KeyError : Z := 8.
Definition InvalidOperation : Z := 9.     (* decimal.InvalidOperation *)

Definition bind {A B} (r : res A) (f : A -> res B) : res B :=
  match r with Ok a => f a | Exc k => Exc k | Stuck => Stuck end.
Notation "'do' x <- r ; k" := (bind r (fun x => k)) (at level 200, x pattern, r at level 100, k at level 200).

Definition env := list (string * pv).
Fixpoint lookup (x : string) (e : env) : option pv :=
  match e with
  | [] => None
  | (y, v) :: t => if String.eqb x y then Some v else lookup x t
  end.
Fixpoint update (x : string) (v : pv) (e : env) : env :=
  match e with
  | [] => [(x, v)]
  | (y, w) :: t => if String.eqb x y then (y, v) :: t else (y, w) :: update x v t
  end.

Record st := { locals : env; fields : env }.

Definition read (s : st) (t : target) : res pv :=
  match t with
  | TName x => match lookup x (locals s) with Some v => Ok v | None => Exc NameError end
  | TSelf a => match lookup a (fields s) with Some v => Ok v | None => Stuck end
  end.
Definition write (s : st) (t : target) (v : pv) : st :=
  match t with
  | TName x => {| locals := update x v (locals s); fields := fields s |}
  | TSelf a => {| locals := locals s; fields := update a v (fields s) |}
  end.

(* ------------------------------------------------------------------ scalar semantics *)
Definition pv_truthy (v : pv) : res bool :=
  match v with
  | PV (VErr _) => Stuck
  | PV x => Ok (truthy x)
  | PList l | PTuple l => Ok (match l with [] => false | _ => true end)
  | PRef _ | PSelf => Ok true
  end.

Definition pv_is_none (v : pv) : bool := match v with PV VNull => true | _ => false end.
(* identity with the singleton True / False (bld-env, additive: these cases were Stuck) *)
Definition pv_is_bool (y : bool) (v : pv) : bool := match v with PV (VBool x) => Bool.eqb x y | _ => false end.
(* identity with an opaque object (bld-sub, additive: these cases were Stuck): two references denote the same object
   iff their numbers are equal (a translator that emits references for objects compared with `is` must give one
   number per object); a reference is never identical to a value of another shape *)
Definition pv_is_ref (j : nat) (v : pv) : bool := match v with PRef i => Nat.eqb i j | _ => false end.

(* Python == on the modelled values (scalars: Base/PyValue's val_eq between values of one kind) *)
Fixpoint pv_eqb (a b : pv) {struct a} : bool :=
  match a, b with
  | PV x, PV y =>
      if is_null x || is_null y then is_null x && is_null y
      else if rank x =? rank y then val_eq x y else false
  | PList l, PList m | PTuple l, PTuple m =>
      (fix go (l m : list pv) {struct l} : bool :=
         match l, m with
         | [], [] => true
         | x :: l', y :: m' => pv_eqb x y && go l' m'
         | _, _ => false
         end) l m
  | PRef i, PRef j => Nat.eqb i j
  | PSelf, PSelf => true
  | _, _ => false
  end.

(* comparisons between scalars are Base/PyValue's (the executor model's); `is` is only modelled against None *)
Definition compare1 (op : cmpop) (a b : pv) : res bool :=
  match op with
  | CIs => if pv_is_none b then Ok (pv_is_none a) else if pv_is_none a then Ok false
           else match b with
                | PV (VBool y) => Ok (pv_is_bool y a)    (* x is True / x is False *)
                | PRef j => Ok (pv_is_ref j a)            (* x is <opaque object> (bld-sub, additive: was Stuck) *)
                | _ => Stuck
                end
  | CIsNot => if pv_is_none b then Ok (negb (pv_is_none a)) else if pv_is_none a then Ok true
              else match b with
                   | PV (VBool y) => Ok (negb (pv_is_bool y a))
                   | PRef j => Ok (negb (pv_is_ref j a))
                   | _ => Stuck
                   end
  | CIn => match b with PList l | PTuple l => Ok (existsb (pv_eqb a) l) | _ => Stuck end
  | CNotIn => match b with PList l | PTuple l => Ok (negb (existsb (pv_eqb a) l)) | _ => Stuck end
  | _ =>
      match a, b with
      | PV x, PV y =>
          if is_null x || is_null y then
            match op with
            | CEq => Ok (is_null x && is_null y)
            | CNe => Ok (negb (is_null x && is_null y))
            | _ => Exc TypeError                       (* None < 1 *)
            end
          else if negb (rank x =? rank y) then
            match op with CEq => Ok false | CNe => Ok true | _ => Exc TypeError end
          else Ok (match op with
                   | CEq => val_eq x y | CNe => negb (val_eq x y)
                   | CLt => negb (val_le y x) | CLe => val_le x y
                   | CGt => negb (val_le x y) | _ => val_le y x
                   end)
      | _, _ => Stuck
      end
  end.

Definition bop_name (op : bop) : string :=
  match op with OAdd => "add" | OSub => "sub" | OMul => "mul" | OFloorDiv => "floordiv" | OMod => "mod" | ODiv => "truediv" end.

(* int op int (Python floor division and modulo are Coq's Z.div / Z.modulo: the remainder takes the divisor's
   sign), list + list, tuple + tuple; everything else is delegated to the primitives oracle ("binop:<name>") *)
Definition binop_builtin (op : bop) (a b : pv) : option (res pv) :=
  match a, b with
  | PV (VInt x), PV (VInt y) =>
      match op with
      | OAdd => Some (Ok (PInt (x + y)))
      | OSub => Some (Ok (PInt (x - y)))
      | OMul => Some (Ok (PInt (x * y)))
      | OFloorDiv => Some (if y =? 0 then Exc 4 else Ok (PInt (x / y)))
      | OMod => Some (if y =? 0 then Exc 4 else Ok (PInt (x mod y)))
      | ODiv => None
      end
  | PList x, PList y => match op with OAdd => Some (Ok (PList (x ++ y))) | _ => Some (Exc TypeError) end
  | PTuple x, PTuple y => match op with OAdd => Some (Ok (PTuple (x ++ y))) | _ => Some (Exc TypeError) end
  | _, _ => None
  end.

(* Python slice bounds for l[lo:hi] (step 1) *)
Definition clipz (len n : Z) : Z := if n <? 0 then Z.max 0 (len + n) else Z.min n len.
Definition slice_list {A} (l : list A) (lo hi : option Z) : list A :=
  let len := Z.of_nat (length l) in
  let a := match lo with None => 0 | Some n => clipz len n end in
  let b := match hi with None => len | Some n => clipz len n end in
  firstn (Z.to_nat (b - a)) (skipn (Z.to_nat a) l).

Definition as_bound (v : pv) : res (option Z) :=
  match v with PV VNull => Ok None | PV (VInt z) => Ok (Some z) | PV (VBool b) => Ok (Some (if b then 1 else 0))
          | _ => Exc TypeError end.

Definition pop_at (l : list pv) (i : Z) : res (pv * list pv) :=
  let len := Z.of_nat (length l) in
  let j := if i <? 0 then i + len else i in
  if (j <? 0) || (len <=? j) then Exc IndexError
  else match nth_error l (Z.to_nat j) with
       | Some x => Ok (x, firstn (Z.to_nat j) l ++ skipn (S (Z.to_nat j)) l)
       | None => Stuck
       end.

Definition index_at (l : list pv) (i : Z) : res pv :=
  let len := Z.of_nat (length l) in
  let j := if i <? 0 then i + len else i in
  if (j <? 0) || (len <=? j) then Exc IndexError
  else match nth_error l (Z.to_nat j) with Some x => Ok x | None => Stuck end.

(* reserved local in which a generator function collects what it yields *)
Definition yield_var : string := "$yield".

Section Interp.
(* calling opaque callable n on argument values; pure *)
Variable call_ref : nat -> list pv -> pv.
(* library functions by qualified name (itertools.groupby, sorted, ...), and methods other than the built-in list
   methods below as "method:<name>" applied to (receiver :: arguments), returning PTuple [receiver'; result] *)
Variable prim : string -> list pv -> res pv.

Definition binop1 (op : bop) (a b : pv) : res pv :=
  match binop_builtin op a b with
  | Some r => r
  | None => prim ("binop:" ++ bop_name op) [a; b]
  end.

(* receiver.m(args): new receiver and result *)
Definition method_call (m : string) (recv : pv) (args : list pv) : res (pv * pv) :=
  match recv, args with
  | PList l, [v] =>
      if String.eqb m "append" then Ok (PList (l ++ [v]), PNone)
      else if String.eqb m "add" then Ok (PList (if existsb (pv_eqb v) l then l else l ++ [v]), PNone)
      else if String.eqb m "extend" then
        match v with PList x | PTuple x => Ok (PList (l ++ x), PNone) | _ => Stuck end
      else if String.eqb m "pop" then
        match v with
        | PV (VInt z) => do (x, l') <- pop_at l z; Ok (PList l', x)
        | _ => Stuck
        end
      else do r <- prim ("method:" ++ m) (recv :: args);
           match r with PTuple [recv'; x] => Ok (recv', x) | _ => Stuck end
  | _, _ =>
      do r <- prim ("method:" ++ m) (recv :: args);
      match r with PTuple [recv'; x] => Ok (recv', x) | _ => Stuck end
  end.

Definition do_call (f : pv) (args : list pv) : res pv :=
  match f with
  | PRef n => match call_ref n args with PV (VErr k) => Exc k | v => Ok v end
  | _ => Stuck
  end.

Fixpoint eval (s : st) (e : expr) {struct e} : res (st * pv) :=
  match e with
  | XConst v => Ok (s, v)
  | XName x => do v <- read s (TName x); Ok (s, v)
  | XAttr o a =>
      do (s1, ov) <- eval s o;
      match ov with
      | PSelf => do v <- read s1 (TSelf a); Ok (s1, v)
      | _ => do v <- prim ("attr:" ++ a) [ov]; Ok (s1, v)
      end
  | XCall f args star =>
      do (s1, fv) <- eval s f;
      do (s2, vs) <- (fix go (s : st) (l : list expr) : res (st * list pv) :=
                         match l with
                         | [] => Ok (s, [])
                         | a :: t => do (s1, v) <- eval s a; do (s2, vs) <- go s1 t; Ok (s2, v :: vs)
                         end) s1 args;
      match star with
      | None => do r <- do_call fv vs; Ok (s2, r)
      | Some se =>
          do (s3, sv) <- eval s2 se;
          match sv with
          | PList l | PTuple l => do r <- do_call fv (vs ++ l); Ok (s3, r)
          | _ => Stuck
          end
      end
  | XLen a =>
      do (s1, v) <- eval s a;
      match v with
      | PList l | PTuple l => Ok (s1, PInt (Z.of_nat (length l)))
      | PV (VStr x) => Ok (s1, PInt (Z.of_nat (length x)))
      | PV _ => Exc TypeError
      | _ => Stuck
      end
  | XMethod t m args =>
      do (s1, vs) <- (fix go (s : st) (l : list expr) : res (st * list pv) :=
                         match l with
                         | [] => Ok (s, [])
                         | a :: t => do (s1, v) <- eval s a; do (s2, vs) <- go s1 t; Ok (s2, v :: vs)
                         end) s args;
      do recv <- read s1 t;
      do (recv', x) <- method_call m recv vs;
      Ok (write s1 t recv', x)
  | XPrim name args =>
      do (s1, vs) <- (fix go (s : st) (l : list expr) : res (st * list pv) :=
                         match l with
                         | [] => Ok (s, [])
                         | a :: t => do (s1, v) <- eval s a; do (s2, vs) <- go s1 t; Ok (s2, v :: vs)
                         end) s args;
      do r <- prim name vs; Ok (s1, r)
  | XTuple es =>
      do (s1, vs) <- (fix go (s : st) (l : list expr) : res (st * list pv) :=
                         match l with
                         | [] => Ok (s, [])
                         | a :: t => do (s1, v) <- eval s a; do (s2, vs) <- go s1 t; Ok (s2, v :: vs)
                         end) s es;
      Ok (s1, PTuple vs)
  | XIndex a i =>
      do (s1, v) <- eval s a; do (s2, iv) <- eval s1 i;
      match v, iv with
      | PList l, PV (VInt z) | PTuple l, PV (VInt z) => do x <- index_at l z; Ok (s2, x)
      | _, _ => Stuck
      end
  | XCallMethod o m args =>
      do (s1, ov) <- eval s o;
      do (s2, vs) <- (fix go (s : st) (l : list expr) : res (st * list pv) :=
                         match l with
                         | [] => Ok (s, [])
                         | a :: t => do (s1, v) <- eval s a; do (s2, vs) <- go s1 t; Ok (s2, v :: vs)
                         end) s1 args;
      do r <- prim ("call:" ++ m) (ov :: vs); Ok (s2, r)
  | XNeg a =>
      do (s1, v) <- eval s a;
      match v with
      | PV (VInt z) => Ok (s1, PInt (- z))
      | _ => do r <- prim "neg" [v]; Ok (s1, r)
      end
  | XCompare a rest =>
      do (s1, av) <- eval s a;
      (fix go (s : st) (left : pv) (l : list (cmpop * expr)) : res (st * pv) :=
         match l with
         | [] => Ok (s, PBool true)
         | (op, b) :: t =>
             do (s1, bv) <- eval s b;
             do r <- compare1 op left bv;
             if r then go s1 bv t else Ok (s1, PBool false)
         end) s1 av rest
  | XNot a =>
      do (s1, v) <- eval s a; do b <- pv_truthy v; Ok (s1, PBool (negb b))
  | XBin op a b =>
      do (s1, x) <- eval s a; do (s2, y) <- eval s1 b; do r <- binop1 op x y; Ok (s2, r)
  | XIfExp c a b =>
      do (s1, cv) <- eval s c; do t <- pv_truthy cv; if t then eval s1 a else eval s1 b
  | XSlice a lo hi =>
      do (s1, v) <- eval s a;
      do (s2, lov) <- match lo with None => Ok (s1, PNone) | Some x => eval s1 x end;
      do (s3, hiv) <- match hi with None => Ok (s2, PNone) | Some x => eval s2 x end;
      do l' <- as_bound lov; do h' <- as_bound hiv;
      match v with
      | PList l => Ok (s3, PList (slice_list l l' h'))
      | PTuple l => Ok (s3, PTuple (slice_list l l' h'))
      | PV (VStr x) => Ok (s3, PV (VStr (slice_list x l' h')))     (* str[lo:hi] (bld-env, additive: was Stuck) *)
      | _ => Stuck
      end
  | XListComp elt x it cond =>
      do (s1, iv) <- eval s it;
      match iv with
      | PList l | PTuple l =>
          (* the comprehension has its own scope: x is not visible afterwards *)
          do vs <- (fix go (l : list pv) : res (list pv) :=
                      match l with
                      | [] => Ok []
                      | v :: t =>
                          let sx := write s1 (TName x) v in
                          do keep <- match cond with
                                     | None => Ok true
                                     | Some c => do (_, cv) <- eval sx c; pv_truthy cv
                                     end;
                          if keep then do (_, r) <- eval sx elt; do rs <- go t; Ok (r :: rs)
                          else go t
                      end) l;
          Ok (s1, PList vs)
      | _ => Stuck
      end
  | XList es =>
      do (s1, vs) <- (fix go (s : st) (l : list expr) : res (st * list pv) :=
                         match l with
                         | [] => Ok (s, [])
                         | a :: t => do (s1, v) <- eval s a; do (s2, vs) <- go s1 t; Ok (s2, v :: vs)
                         end) s es;
      Ok (s1, PList vs)
  | XBoolOp is_and es =>
      (fix go (s : st) (l : list expr) : res (st * pv) :=
         match l with
         | [] => Stuck
         | [a] => eval s a
         | a :: t =>
             do (s1, v) <- eval s a; do b <- pv_truthy v;
             if Bool.eqb b is_and then go s1 t else Ok (s1, v)
         end) s es
  end.

(* statement outcome: fall through with a new state, or return a value *)
Inductive outcome := Next (s : st) | Ret (s : st) (v : pv).

Definition unpack_names (s : st) (xs : list string) (v : pv) : res st :=
  match v with
  | PTuple l | PList l =>
      (fix go (s : st) (xs : list string) (l : list pv) : res st :=
         match xs, l with
         | [], [] => Ok s
         | x :: xs', a :: l' => go (write s (TName x) a) xs' l'
         | _, _ => Exc TypeError
         end) s xs l
  | _ => Stuck
  end.

Fixpoint exec (s : st) (c : stmt) {struct c} : res outcome :=
  let block := fix block (s : st) (l : list stmt) : res outcome :=
                 match l with
                 | [] => Ok (Next s)
                 | c :: t => do o <- exec s c; match o with Next s1 => block s1 t | Ret _ _ => Ok o end
                 end in
  match c with
  | SAssign t e => do (s1, v) <- eval s e; Ok (Next (write s1 t v))
  | SAug t op e =>
      do old <- read s t; do (s1, v) <- eval s e; do r <- binop1 op old v; Ok (Next (write s1 t r))
  | SIf c a b =>
      do (s1, cv) <- eval s c; do t <- pv_truthy cv; if t then block s1 a else block s1 b
  | SFor x it body =>
      do (s1, iv) <- eval s it;
      match iv with
      | PList l | PTuple l =>
          (fix loop (s : st) (l : list pv) : res outcome :=
             match l with
             | [] => Ok (Next s)
             | v :: t =>
                 do o <- block (write s (TName x) v) body;
                 match o with Next s1 => loop s1 t | Ret _ _ => Ok o end
             end) s1 l
      | _ => Stuck
      end
  | SForUnpack xs it body =>
      do (s1, iv) <- eval s it;
      match iv with
      | PList l | PTuple l =>
          (fix loop (s : st) (l : list pv) : res outcome :=
             match l with
             | [] => Ok (Next s)
             | v :: t =>
                 do sv <- unpack_names s xs v;
                 do o <- block sv body;
                 match o with Next s1 => loop s1 t | Ret _ _ => Ok o end
             end) s1 l
      | _ => Stuck
      end
  | SUnpack ts e =>
      do (s1, v) <- eval s e;
      match v with
      | PTuple l | PList l =>
          (fix go (s : st) (ts : list target) (l : list pv) : res outcome :=
             match ts, l with
             | [], [] => Ok (Next s)
             | t :: ts', x :: l' => go (write s t x) ts' l'
             | _, _ => Exc TypeError            (* ValueError: wrong number of values to unpack *)
             end) s1 ts l
      | _ => Stuck
      end
  | SYield e =>
      do (s1, v) <- eval s e;
      match lookup yield_var (locals s1) with
      | Some (PList acc) => Ok (Next (write s1 (TName yield_var) (PList (acc ++ [v]))))
      | None => Ok (Next (write s1 (TName yield_var) (PList [v])))
      | _ => Stuck
      end
  | STry body kinds handler =>
      match block s body with
      | Exc k => if match kinds with [] => true | _ => existsb (Z.eqb k) kinds end then block s handler else Exc k
      | r => r
      end
  | SReturn None => Ok (Ret s PNone)
  | SReturn (Some e) => do (s1, v) <- eval s e; Ok (Ret s1 v)
  | SExpr e => do (s1, _) <- eval s e; Ok (Next s1)
  | SPass => Ok (Next s)
  end.

Fixpoint exec_block (s : st) (l : list stmt) : res outcome :=
  match l with
  | [] => Ok (Next s)
  | c :: t => do o <- exec s c; match o with Next s1 => exec_block s1 t | Ret _ _ => Ok o end
  end.

Fixpoint bind_params (ps : list string) (args : list pv) : option env :=
  match ps, args with
  | [], [] => Some []
  | p :: ps', a :: args' => match bind_params ps' args' with Some e => Some ((p, a) :: e) | None => None end
  | _, _ => None
  end.

(* call a translated method on a receiver with the given fields: new fields and the returned value (falling off
   the end returns None) *)
Definition call_method (f : fdef) (flds : env) (args : list pv) : res (env * pv) :=
  match bind_params (f_params f) (PSelf :: args) with
  | None => Exc TypeError
  | Some loc =>
      do o <- exec_block {| locals := loc; fields := flds |} (f_body f);
      let s' := match o with Next s => s | Ret s _ => s end in
      if f_gen f then
        (* a generator function returns the items it yielded; the value of a return statement is lost *)
        Ok (fields s', match lookup yield_var (locals s') with Some y => y | None => PList [] end)
      else match o with Next s => Ok (fields s, PNone) | Ret s v => Ok (fields s, v) end
  end.

(* call a translated PLAIN function (no receiver, no fields): the returned value (bld-env, additive) *)
Definition call_function (f : fdef) (args : list pv) : res pv :=
  match bind_params (f_params f) args with
  | None => Exc TypeError
  | Some loc =>
      do o <- exec_block {| locals := loc; fields := [] |} (f_body f);
      let s' := match o with Next s => s | Ret s _ => s end in
      if f_gen f then Ok (match lookup yield_var (locals s') with Some y => y | None => PList [] end)
      else match o with Next _ => Ok PNone | Ret _ v => Ok v end
  end.

End Interp.
