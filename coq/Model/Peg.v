(* C06 model, part 6: a generic, total (fuelled) PEG interpreter over the grammar DATA of
   Model/Grammar.v (type [grammar_t]; coq/Gen/Grammar.v is the value regenerated from
   bql.ebnf on every run).  Nothing in this file mentions a BQL rule name: the interpreter
   executes whatever rules the grammar value contains, the way TatSu 5.7.4's ParseContext
   (tatsu/contexts.py, the runtime under beanquery/parser/parser.py) executes them.

   What is mirrored (names of the TatSu methods in brackets):
   * input = list of code points; a position is a suffix of the input;
   * whitespace / `@@comments` / `@@eol_comments` skipping [Buffer.next_token] before every
     token, constant, end-of-text check and at every rule entry (unless the rule name is
     capitalised) -- NOT before a pattern [_pattern];
   * tokens [_token / Buffer.match]: `@@ignorecase`, name guard with `@@namechars`;
   * patterns [_pattern / Buffer.matchre]: a small matcher per pattern TEXT ([pat_match]);
     an unknown pattern text (also for the comment directives) fails closed;
   * sequence, ordered choice [_choice/_option/_try], optional, closure, positive closure,
     gather / join [_closure/_positive_closure/_repeat/_isolate] incl. the implicit cut
     after a separator and the "empty closure" check, group, named captures `n:`/`n+:`
     [AST._set, with the key mangling of AST._safekey], `@:` overrides, the `_define` of
     missing keys at the end of a sequence, constants, void, `$`, `{}`, lookaheads;
   * cut [_cut]: sets the flag of the innermost dynamically enclosing option (a rule call
     does not open a new cut scope); a failure in an option whose flag is set is a
     FailedCut, which no enclosing choice catches (only the left-recursion loop, a negative
     lookahead and the top level do);
   * the node a rule returns [_get_node]: the AST dict if any key was set (`@` overrides),
     else the concrete syntax value (CST) accumulated by [_append_cst/_extend_cst]
     (plain lists are spliced, closures are atoms);
   * semantic actions [_invoke_semantic_rule]: a parameter [act rule params node]
     (None = FailedSemantics: the rule fails), then the `@name` keyword check [_check_name];
   * left recursion [_recursive_call]: seed growing -- the seed of rule r at position p is
     visible to references to r at p while the body is re-run; growth stops at the first
     run that fails (also by a cut) or does not advance;
   * memoisation [_memos/_results]: results of rule applications are cached per
     (rule, position) whenever no seed is active at that position.

   Simplifications (all measured by the 4-way correspondence stream of harness/vf/c06.py):
   character classes are ASCII (Python's str.isalnum / \d / str.lower are Unicode aware);
   Python tuples are not distinguished from lists; a failed optional leaves last_node None;
   a left-recursive rule reports no cut to its caller. *)
From Coq Require Import ZArith NArith List Bool String Ascii FMapPositive.
Import ListNotations.
From Verif Require Import Model.Ast Model.Lexer Model.Grammar.
Local Open Scope Z_scope.
Local Open Scope list_scope.

(* ---------------------------------------------------------------------- *)
(* values: what TatSu calls nodes (CST values and AST dicts), plus the typed
   leaves that semantic actions produce *)

Inductive node :=
| NNone                                        (* None *)
| NStr (s : str)                               (* a str: token / pattern / constant text *)
| NTrue                                        (* the constant `True` *)
| NList (l : list node)                        (* a plain list (spliced by _extend_cst) *)
| NClos (l : list node)                        (* tatsu.contexts.closure: a list that is an atom *)
| NDict (fields : list (string * node))        (* tatsu.ast.AST *)
| NObj (ty : string) (fields : list (string * node))   (* an object built by a semantic action *)
| NInt (n : N) | NDec (m : N) (scale : nat) | NDate (y m d : N) | NBool (b : bool)
| NNullMark | NAsterisk | NOrd (desc : bool).

(* ParseState (ast, cst) + ParseContext.last_node *)
Record frame := mkF { f_ast : list (string * node); f_cst : option node; f_last : node }.
Definition fr0 : frame := mkF [] None NNone.

(* result of evaluating an expression: success (rest of input, new frame, "a cut was executed
   at the level of the enclosing option"), failure (same flag), FailedCut *)
Inductive out :=
| Ok (rest : str) (fr : frame) (cut : bool)
| Fail (cut : bool)
| FailCut.

Definition is_ok (o : out) : bool := match o with Ok _ _ _ => true | _ => false end.
Definition is_cutfail (o : out) : bool := match o with Fail true | FailCut => true | _ => false end.
Definition or_cut (c : bool) (o : out) : out :=
  match o with Ok r f c2 => Ok r f (c || c2) | Fail c2 => Fail (c || c2) | FailCut => FailCut end.

(* ---------------------------------------------------------------------- *)
(* AST dict operations *)

Fixpoint alist_get {A} (k : string) (l : list (string * A)) : option A :=
  match l with
  | [] => None
  | (k', v) :: r => if String.eqb k k' then Some v else alist_get k r
  end.
Fixpoint alist_set {A} (k : string) (v : A) (l : list (string * A)) : list (string * A) :=
  match l with
  | [] => [(k, v)]
  | (k', v') :: r => if String.eqb k k' then (k, v) :: r else (k', v') :: alist_set k v r
  end.

(* AST._safekey: a key that is an attribute of dict / AST gets a trailing underscore *)
Definition py_attrs : list string :=
  ["clear"; "copy"; "fromkeys"; "get"; "items"; "keys"; "pop"; "popitem"; "setdefault"; "update"; "values";
   "frozen"; "parseinfo"; "set_parseinfo"; "asjson"]%string.
Definition safekey (k : string) : string :=
  if existsb (String.eqb k) py_attrs then (k ++ "_")%string else k.

(* AST._set *)
Definition ast_set (force_list : bool) (ast : list (string * node)) (key : string) (v : node) :=
  let k := safekey key in
  match alist_get k ast with
  | None | Some NNone => alist_set k (if force_list then NList [v] else v) ast
  | Some (NList l) => alist_set k (NList (l ++ [v])) ast
  | Some p => alist_set k (NList [p; v]) ast
  end.

(* AST._define(keys, list_keys) *)
Definition ast_define (defs : list (string * bool)) (ast : list (string * node)) :=
  let lk := map fst (filter snd defs) in
  let sk := filter (fun k => negb (existsb (String.eqb k) lk)) (map fst (filter (fun d => negb (snd d)) defs)) in
  let def1 (v : node) (a : list (string * node)) (k : string) :=
    let k := safekey k in match alist_get k a with Some _ => a | None => alist_set k v a end in
  fold_left (def1 (NList [])) lk (fold_left (def1 NNone) sk ast).

(* the names an expression defines (Model.defines()) *)
Fixpoint defines (e : gx) : list (string * bool) :=
  match e with
  | GNamed n x => (n, false) :: defines x
  | GNamedL n x => (n, true) :: defines x
  | GSeq l | GChoice l => (fix go (l : list gx) : list (string * bool) := match l with [] => [] | x :: r => defines x ++ go r end) l
  | GOpt x | GClos x | GPClos x | GGroup x | GLook x | GNLook x | GOver x | GOverL x => defines x
  | GGather _ _ x | GJoin _ _ x => defines x
  | _ => []
  end.

Definition define_out (defs : list (string * bool)) (o : out) : out :=
  match o with
  | Ok r f c => Ok r (mkF (ast_define defs (f_ast f)) (f_cst f) (f_last f)) c
  | x => x
  end.

(* ---------------------------------------------------------------------- *)
(* CST operations *)

Definition node_of (c : option node) : node := match c with Some n => n | None => NNone end.
Definition set_last (f : frame) (n : node) : frame := mkF (f_ast f) (f_cst f) n.

(* _append_cst *)
Definition append_cst (f : frame) (n : node) : frame :=
  match n with
  | NNone => set_last f NNone
  | _ => mkF (f_ast f)
             (Some match f_cst f with
                   | None => n
                   | Some (NList l) => NList (l ++ [n])
                   | Some p => NList [p; n]
                   end) n
  end.

(* the CST part of _extend_cst *)
Definition extend (prev : option node) (n : node) : option node :=
  match n with
  | NNone => prev
  | NList l2 => Some match prev with
                     | None => n
                     | Some (NList l1) => NList (l1 ++ l2)
                     | Some p => NList (p :: l2)
                     end
  | _ => Some match prev with
              | None => n
              | Some (NList l1) => NList (l1 ++ [n])
              | Some p => NList [p; n]
              end
  end.

(* _try: _push_ast(copyast=True), last_node = None *)
Definition try_frame (f : frame) : frame := mkF (f_ast f) None NNone.
(* _merge_ast *)
Definition merge_ast (outer inner : frame) : frame :=
  mkF (f_ast inner) (extend (f_cst outer) (node_of (f_cst inner))) (node_of (f_cst inner)).
(* _push_cst / _merge_cst(extend=True) of _group *)
Definition grp_frame (f : frame) : frame := mkF (f_ast f) None (f_last f).
Definition grp_out (outer : frame) (o : out) : out :=
  match o with Ok r f c => Ok r (merge_ast outer f) c | x => x end.
(* _isolate *)
Definition iso_frame (t : frame) : frame := mkF (f_ast t) None (f_last t).
Definition clos_of_list (n : node) : node := match n with NList l => NClos l | x => x end.
Definition iso_merge (drop : bool) (t inner : frame) : frame :=
  let t' := mkF (f_ast inner) (f_cst t) (f_last inner) in
  if drop then t' else append_cst t' (clos_of_list (node_of (f_cst inner))).
(* self.cst = [self.cst] *)
Definition wrap_cst (f : frame) : frame := mkF (f_ast f) (Some (NList [node_of (f_cst f)])) (f_last f).
Definition list_of (c : option node) : list node :=
  match c with Some (NList l) => l | Some NNone | None => [] | Some x => [x] end.
(* self.cst = closure(self.cst); _merge_cst() *)
Definition close_merge (outer c : frame) : frame :=
  let cl := NClos (list_of (f_cst c)) in mkF (f_ast c) (extend (f_cst outer) cl) cl.
Definition close_out (outer : frame) (c : bool) (o : out) : out :=
  match o with
  | Ok r cf _ => Ok r (close_merge outer cf) c
  | Fail c2 => Fail (c || c2)
  | FailCut => FailCut
  end.
(* closure: self.cst = [] in a fresh CST state; positive closure: a fresh CST state *)
Definition clos_frame (f : frame) : frame := mkF (f_ast f) (Some (NList [])) (f_last f).
(* outcome of the optional first element of a closure: where to continue, or FailedCut *)
Definition first_out (s : str) (c0 : frame) (o : out) : option (str * frame) :=
  match o with
  | Ok r t _ => Some (r, merge_ast c0 (wrap_cst t))
  | Fail false => Some (s, c0)
  | _ => None
  end.

Definition opt_out (s : str) (f : frame) (o : out) : out :=
  match o with
  | Ok r t _ => Ok r (merge_ast f t) false
  | Fail false => Ok s (set_last f NNone) false
  | _ => FailCut
  end.
Definition named_out (force_list : bool) (n : string) (o : out) : out :=
  match o with
  | Ok r f c => Ok r (mkF (ast_set force_list (f_ast f) n (f_last f)) (f_cst f) (f_last f)) c
  | x => x
  end.
(* _if: a fresh AST/CST state that is discarded *)
Definition look_frame (f : frame) : frame := mkF [] None (f_last f).
Definition look_out (s : str) (f : frame) (o : out) : out :=
  match o with Ok _ _ c => Ok s f c | x => x end.
Definition nlook_out (s : str) (f : frame) (o : out) : out :=
  match o with Ok _ _ c => Fail c | Fail c => Ok s f c | FailCut => Ok s f false end.
(* _call: the node of the rule is appended to the caller's CST *)
Definition call_out (f : frame) (o : out) : out :=
  match o with Ok r rf c => Ok r (append_cst f (f_last rf)) c | x => x end.
(* _get_node *)
Definition get_node (f : frame) : node :=
  match f_ast f with
  | [] => node_of (f_cst f)
  | a => match alist_get "@" a with Some n => n | None => NDict a end
  end.

(* ---------------------------------------------------------------------- *)
(* lexical level *)

Definition is_letter (c : Z) : bool := is_upper c || is_lower c.
Definition is_alnum (c : Z) : bool := is_letter c || is_digit c.

Record lexcfg := mkLC {
  lc_ignorecase : bool;
  lc_namechars : str;
  lc_skip : str -> option str;          (* Buffer.next_token; None: unknown comment pattern *)
  lc_kws : list str                     (* @@keyword *)
}.

(* the two comment patterns of bql.ebnf, by their text *)
Definition re_block_comment : string := "(\/\*([^*]|[\r\n]|(\*+([^*\/]|[\r\n])))*\*+\/)".
Definition re_eol_comment : string := "\;[^\n]*?$".

Fixpoint skip_gen (blk eol : bool) (fuel : nat) (cs : str) : str :=
  match fuel with
  | O => cs
  | S f =>
    match cs with
    | c :: r =>
      if is_space c then skip_gen blk eol f r
      else if eol && (c =? 59) then skip_gen blk eol f (drop_line r)
      else if blk && (c =? 47) then
        match r with
        | c2 :: r2 => if c2 =? 42 then match comment_end r2 with Some r3 => skip_gen blk eol f r3 | None => cs end else cs
        | [] => cs
        end
      else cs
    | [] => []
    end
  end.

Definition dir_get (g : grammar_t) (k : string) : option string := alist_get k (fst (fst g)).

Definition cfg_of (g : grammar_t) : lexcfg :=
  let known (d : option string) (re : string) : option bool :=
    match d with None => Some false | Some p => if String.eqb p re then Some true else None end in
  mkLC (match dir_get g "ignorecase" with Some v => String.eqb v "True" | None => false end)
       (match dir_get g "namechars" with Some v => str_of_string v | None => [] end)
       (match known (dir_get g "comments") re_block_comment, known (dir_get g "eol_comments") re_eol_comment,
              dir_get g "whitespace" with
        | Some blk, Some eol, None => fun cs => Some (skip_gen blk eol (List.length cs) cs)
        | _, _, _ => fun _ => None
        end)
       (map str_of_string (snd (fst g))).

Section Lex.
Variable lc : lexcfg.

Definition name_char (c : Z) : bool := is_alnum c || existsb (Z.eqb c) (lc_namechars lc).

Fixpoint prefix_ci (ic : bool) (t cs : str) : option str :=
  match t with
  | [] => Some cs
  | a :: t' =>
    match cs with
    | c :: cs' => if (if ic then lower a =? lower c else a =? c) then prefix_ci ic t' cs' else None
    | [] => None
    end
  end.

(* Buffer.match *)
Definition tok_match (t cs : str) : option str :=
  match prefix_ci (lc_ignorecase lc) t cs with
  | Some r =>
    let partial := match t with a :: _ => is_letter a | [] => false end
                   && forallb name_char t
                   && match r with c :: _ => name_char c | [] => false end in
    if partial then None else Some r
  | None => None
  end.

(* _check_name *)
Definition is_keyword (n : node) : bool :=
  match n with
  | NStr w => let w' := if lc_ignorecase lc then map upper w else w in existsb (str_eqb w') (lc_kws lc)
  | _ => false
  end.
End Lex.

(* Buffer.matchre + match_to_find for exactly the pattern texts of bql.ebnf:
   Some (Some (value, rest)) match, Some None no match, None unknown pattern *)
Definition pat_match (p : string) (cs : str) : option (option (str * str)) :=
  if String.eqb p "[a-zA-Z_][a-zA-Z0-9_]*" then
    Some match cs with
         | c :: _ => if is_alpha c then Some (span is_word cs) else None
         | [] => None
         end
  else if String.eqb p "\d+" then
    Some match span is_digit cs with ([], _) => None | (ds, r) => Some (ds, r) end
  else if String.eqb p "(\d{4}-\d{2}-\d{2})" then
    Some match lex_date cs with
         | Some (_, _, _, r) => Some (firstn 10 cs, r)
         | None => None
         end
  else if String.eqb p "([0-9]+\.[0-9]*|[0-9]*\.[0-9]+)" then
    Some (let (ds, r) := span is_digit cs in
          match r with
          | c :: r1 =>
            if c =? 46 then
              let (fs, r2) := span is_digit r1 in
              match ds, fs with
              | [], [] => None
              | _, _ => Some (ds ++ [46] ++ fs, r2)
              end
            else None
          | [] => None
          end)
  else if String.eqb p "(\""[^\""]*\""|\'[^\']*\')" then
    Some match cs with
         | q :: r => if (q =? 34) || (q =? 39) then
                       match until_quote q r with
                       | Some (body, r') => Some (q :: body ++ [q], r')
                       | None => None
                       end
                     else None
         | [] => None
         end
  else if String.eqb p "#([a-zA-Z_][a-zA-Z0-9_]*)?" then
    Some match cs with
         | h :: r => if h =? 35 then
                       match r with
                       | c :: _ => if is_alpha c then Some (span is_word r) else Some ([], r)
                       | [] => Some ([], r)
                       end
                     else None
         | [] => None
         end
  else None.

(* ---------------------------------------------------------------------- *)
(* grammar access *)

Definition rule_name (r : rule_t) : string := let '(n, _, _, _, _) := r in n.
Definition rule_params (r : rule_t) : list string := let '(_, p, _, _, _) := r in p.
Definition rule_isname (r : rule_t) : bool := let '(_, _, b, _, _) := r in b.
Definition rule_lrec (r : rule_t) : bool := let '(_, _, _, b, _) := r in b.
Definition rule_body (r : rule_t) : gx := let '(_, _, _, _, e) := r in e.
Definition find_rule (g : grammar_t) (n : string) : option rule_t :=
  find (fun r => String.eqb (rule_name r) n) (snd g).

(* ruleinfo.name.lstrip('_')[:1].isupper() *)
Fixpoint capitalised (n : string) : bool :=
  match n with
  | EmptyString => false
  | String a r => if Ascii.eqb a "_"%char then capitalised r
                  else let c := Z.of_nat (nat_of_ascii a) in is_upper c
  end.

(* work items: an expression, the rest of a sequence, the rest of a choice, the loop of a
   closure, one application of a rule body, the seed-growing loop of a left-recursive rule *)
Inductive item :=
| IExp (e : gx)
| ISeq (l : list gx)
| IAlts (l : list gx)
| IRep (sep : option gx) (omit : bool) (x : gx)
| IRule (r : string)
| IGrow (r : string) (cur : out) (lastlen : nat).

(* seeds: (rule, length of the suffix where the rule is growing, current seed) *)
Definition seeds := list (string * nat * out).
Definition filter_seeds (n : nat) (sd : seeds) : seeds := filter (fun e => Nat.eqb (snd (fst e)) n) sd.
Fixpoint seed_find (sd : seeds) (r : string) : option out :=
  match sd with
  | [] => None
  | (r', _, o) :: sd' => if String.eqb r r' then Some o else seed_find sd' r
  end.

(* memo table: suffix length -> bucket of (rule, suffix, result) *)
Definition tbl := PositiveMap.t (list (string * str * out)).
Definition tbl_empty : tbl := PositiveMap.empty _.
Definition tkey (s : str) : positive := Pos.of_succ_nat (List.length s).
Fixpoint bucket_find (r : string) (s : str) (b : list (string * str * out)) : option out :=
  match b with
  | [] => None
  | (r', s', o) :: b' => if String.eqb r r' && str_eqb s s' then Some o else bucket_find r s b'
  end.
Definition tbl_find (tb : tbl) (r : string) (s : str) : option out :=
  match PositiveMap.find (tkey s) tb with Some b => bucket_find r s b | None => None end.
Definition tbl_add (tb : tbl) (r : string) (s : str) (o : out) : tbl :=
  let k := tkey s in
  PositiveMap.add k ((r, s, o) :: match PositiveMap.find k tb with Some b => b | None => [] end) tb.

(* the closure forms: (positive, separator, separator omitted from the result, element) *)
Definition clos_of (e : gx) : option (bool * option gx * bool * gx) :=
  match e with
  | GClos x => Some (false, None, false, x)
  | GPClos x => Some (true, None, false, x)
  | GGather p sep x => Some (p, Some sep, true, x)
  | GJoin p sep x => Some (p, Some sep, false, x)
  | _ => None
  end.
(* the capture forms: (list capture, key, expression) *)
Definition named_of (e : gx) : option (bool * string * gx) :=
  match e with
  | GNamed n x => Some (false, n, x)
  | GNamedL n x => Some (true, n, x)
  | GOver x => Some (false, "@"%string, x)
  | GOverL x => Some (true, "@"%string, x)
  | _ => None
  end.
Definition is_leaf (e : gx) : bool :=
  match e with
  | GTok _ | GPat _ | GConst _ | GCut | GVoid | GEof | GEmptyClos | GOther _ => true
  | _ => false
  end.

Section Interp.
Variable g : grammar_t.
Variable lc : lexcfg.
Variable act : string -> list string -> node -> option node.

Definition rule_skip (r : string) (s : str) : option str :=
  if capitalised r then Some s else lc_skip lc s.

Definition const_node (c : string) : node :=
  if String.eqb c "True" then NTrue else NStr (str_of_string c).

(* the expressions without sub-expressions *)
Definition leaf_step (e : gx) (s : str) (f : frame) : out :=
  match e with
  | GTok t =>
    match lc_skip lc s with
    | Some s1 => let t' := str_of_string t in
                 match tok_match lc t' s1 with
                 | Some r => Ok r (append_cst f (NStr t')) false
                 | None => Fail false
                 end
    | None => Fail false
    end
  | GPat p =>
    match pat_match p s with
    | Some (Some (v, r)) => Ok r (append_cst f (NStr v)) false
    | _ => Fail false
    end
  | GConst c =>
    match lc_skip lc s with
    | Some s1 => Ok s1 (append_cst f (const_node c)) false
    | None => Fail false
    end
  | GCut => Ok s f true
  | GVoid => Ok s (set_last f NNone) false
  | GEof =>
    match lc_skip lc s with
    | Some [] => Ok [] f false
    | _ => Fail false
    end
  | GEmptyClos => Ok s (append_cst f (NClos [])) false
  | _ => Fail false
  end.

(* end of a rule body: _get_node, the semantic action, the @name check *)
Definition rule_out (r : string) (ps : list string) (isname : bool) (o : out) : out :=
  match o with
  | Ok rest f c =>
    match act r ps (get_node f) with
    | Some n => if isname && is_keyword lc n then Fail c else Ok rest (mkF [] None n) c
    | None => Fail c
    end
  | x => x
  end.

(* which cached item stands for "rule r applied at s" *)
Definition memo_item (r : string) (s : str) : item :=
  match find_rule g r with
  | Some rl => if rule_lrec rl then IGrow r (Fail false) (S (List.length s)) else IRule r
  | None => IRule r
  end.

Definition R := seeds -> item -> str -> frame -> tbl -> option (out * tbl).

Notation "'call' x 'as' o , t 'in' k" :=
  (match x with Some (o, t) => k | None => None end) (at level 200, o ident, t ident, only parsing).

Definition stepF (rec : R) : R := fun sd it s f tb =>
  match it with
  | IExp e =>
    match e with
    | GSeq l => call rec sd (ISeq l) s f tb as o, tb1 in Some (define_out (defines e) o, tb1)
    | GChoice l => rec sd (IAlts l) s f tb
    | GOpt x => call rec sd (IExp x) s (try_frame f) tb as o, tb1 in Some (opt_out s f o, tb1)
    | GGroup x => call rec sd (IExp x) s (grp_frame f) tb as o, tb1 in Some (grp_out f o, tb1)
    | GLook x => call rec sd (IExp x) s (look_frame f) tb as o, tb1 in Some (look_out s f o, tb1)
    | GNLook x => call rec sd (IExp x) s (look_frame f) tb as o, tb1 in Some (nlook_out s f o, tb1)
    | GNamed _ _ | GNamedL _ _ | GOver _ | GOverL _ =>
      match named_of e with
      | Some (fl, n, x) => call rec sd (IExp x) s f tb as o, tb1 in Some (named_out fl n o, tb1)
      | None => Some (Fail false, tb)
      end
    | GClos _ | GPClos _ | GGather _ _ _ | GJoin _ _ _ =>
      match clos_of e with
      | Some (false, sep, omit, x) =>
        let c0 := clos_frame f in
        call rec sd (IExp x) s (try_frame c0) tb as o1, tb1 in
        match first_out s c0 o1 with
        | Some (s', c1) => call rec sd (IRep sep omit x) s' c1 tb1 as o2, tb2 in Some (close_out f false o2, tb2)
        | None => Some (FailCut, tb1)
        end
      | Some (true, sep, omit, x) =>
        call rec sd (IExp x) s (grp_frame f) tb as o1, tb1 in
        match o1 with
        | Ok r1 c1 c => call rec sd (IRep sep omit x) r1 (wrap_cst c1) tb1 as o2, tb2 in Some (close_out f c o2, tb2)
        | _ => Some (o1, tb1)
        end
      | None => Some (Fail false, tb)
      end
    | GRef r =>
      match find_rule g r with
      | None => Some (Fail false, tb)
      | Some rl =>
        if rule_lrec rl then
          match rule_skip r s with
          | None => Some (Fail false, tb)
          | Some s1 =>
            let sd1 := filter_seeds (List.length s1) sd in
            match seed_find sd1 r with
            | Some o => Some (call_out f o, tb)
            | None =>
              match sd1 with
              | [] =>
                match tbl_find tb r s1 with
                | Some o => Some (call_out f o, tb)
                | None => call rec [] (IGrow r (Fail false) (S (List.length s1))) s1 fr0 tb as o, tb1 in
                          Some (call_out f o, tbl_add tb1 r s1 o)
                end
              | _ => call rec sd1 (IGrow r (Fail false) (S (List.length s1))) s1 fr0 tb as o, tb1 in
                     Some (call_out f o, tb1)
              end
            end
          end
        else
          match filter_seeds (List.length s) sd with
          | [] =>
            match tbl_find tb r s with
            | Some o => Some (call_out f o, tb)
            | None => call rec [] (IRule r) s fr0 tb as o, tb1 in Some (call_out f o, tbl_add tb1 r s o)
            end
          | sd1 => call rec sd1 (IRule r) s fr0 tb as o, tb1 in Some (call_out f o, tb1)
          end
      end
    | _ => Some (leaf_step e s f, tb)
    end
  | ISeq l =>
    match l with
    | [] => Some (Ok s f false, tb)
    | x :: l' =>
      call rec sd (IExp x) s f tb as o1, tb1 in
      match o1 with
      | Ok r1 f1 c1 => call rec sd (ISeq l') r1 f1 tb1 as o2, tb2 in Some (or_cut c1 o2, tb2)
      | _ => Some (o1, tb1)
      end
    end
  | IAlts l =>
    match l with
    | [] => Some (Fail false, tb)
    | x :: l' =>
      call rec sd (IExp x) s (try_frame f) tb as o1, tb1 in
      match o1 with
      | Ok r1 f1 _ => Some (Ok r1 (merge_ast f f1) false, tb1)
      | Fail false => rec sd (IAlts l') s f tb1
      | _ => Some (FailCut, tb1)
      end
    end
  | IRep sep omit x =>
    let t := try_frame f in
    match sep with
    | Some sp =>
      call rec sd (IExp sp) s (iso_frame t) tb as o1, tb1 in
      match o1 with
      | Ok r1 i1 _ =>
        let t1 := iso_merge omit t i1 in
        call rec sd (IExp x) r1 (iso_frame t1) tb1 as o2, tb2 in
        match o2 with
        | Ok r2 i2 _ =>
          if Nat.ltb (List.length r2) (List.length s)
          then rec sd (IRep sep omit x) r2 (merge_ast f (iso_merge false t1 i2)) tb2
          else Some (FailCut, tb2)
        | _ => Some (FailCut, tb2)
        end
      | Fail false => Some (Ok s f false, tb1)
      | _ => Some (FailCut, tb1)
      end
    | None =>
      call rec sd (IExp x) s (iso_frame t) tb as o2, tb2 in
      match o2 with
      | Ok r2 i2 c2 =>
        if Nat.ltb (List.length r2) (List.length s)
        then rec sd (IRep sep omit x) r2 (merge_ast f (iso_merge false t i2)) tb2
        else Some (if c2 then FailCut else Ok s f false, tb2)
      | Fail false => Some (Ok s f false, tb2)
      | _ => Some (FailCut, tb2)
      end
    end
  | IRule r =>
    match find_rule g r with
    | None => Some (Fail false, tb)
    | Some rl =>
      match rule_skip r s with
      | None => Some (Fail false, tb)
      | Some s1 =>
        call rec sd (IExp (rule_body rl)) s1 fr0 tb as o, tb1 in
        Some (rule_out r (rule_params rl) (rule_isname rl) o, tb1)
      end
    end
  | IGrow r cur lastlen =>
    call rec ((r, List.length s, cur) :: sd) (IRule r) s fr0 tb as o, tb1 in
    match o with
    | Ok rest rf _ =>
      if Nat.ltb (List.length rest) lastlen
      then rec sd (IGrow r (Ok rest rf false) (List.length rest)) s fr0 tb1
      else Some (cur, tb1)
    | _ => Some (cur, tb1)
    end
  end.

Fixpoint interp (fuel : nat) : R :=
  match fuel with
  | O => fun _ _ _ _ _ => None
  | S f => stepF (interp f)
  end.

End Interp.

(* recursion depth is bounded by (grammar depth) x (nesting of the text) + lengths of
   sequences and numbers of closure / growth iterations *)
Definition fuel_of (cs : str) : nat := (2000 + 150 * List.length cs)%nat.

(* the start rule: the first rule of the grammar.  Result: None = out of fuel,
   Some None = the text is rejected, Some (Some n) = the node of the start rule *)
Definition peg_run (g : grammar_t) (act : string -> list string -> node -> option node) (cs : str)
  : option (option node) :=
  match snd g with
  | [] => Some None
  | r0 :: _ =>
    match interp g (cfg_of g) act (fuel_of cs) [] (IExp (GRef (rule_name r0))) cs fr0 tbl_empty with
    | None => None
    | Some (Ok _ f _, _) => Some (Some (f_last f))
    | Some (_, _) => Some None
    end
  end.

(* the tree before semantic actions: every rule returns its raw node *)
Definition act_id (r : string) (ps : list string) (n : node) : option node := Some n.
