(* Relational layout checkers for C16, applied (by vm_compute) to the text the
   IMPLEMENTATION writes: check_table (options, ledger precisions, description,
   rows, text) and check_csv (.., text rendered with listsep=',' unboxed, csv).
   They return 0 when every stated property holds, otherwise the code of the
   first property that fails:
     1 row arity            2 not rectangular / wrong number of lines
     3 rule lines / number of columns     4 column narrower than allowed
     5 header not centred (or cut outside narrow mode)
     6 a data line does not have the separators at the fixed offsets
     7 cell does not read back to its value   8 NULL cell is not the placeholder
     9 spacing / continuation slot not blank
    10 decimals of a column not aligned on the decimal point
    11 decimal rendered in scientific notation (no decimal point to align on)
    12 amounts of a column not aligned on the decimal point / currency
    20.. CSV (see check_csv)
   Proofs/RenderProofs.v proves check_table = 0 on the model's own output. *)
From Coq Require Import ZArith QArith List Bool Arith.
Import ListNotations.
From Verif Require Import Base.Out Base.StableSort Base.PyValue Model.Render.
Open Scope Z_scope.

Fixpoint str_eqb (a b : str) : bool :=
  match a, b with
  | [], [] => true
  | x :: a', y :: b' => (x =? y) && str_eqb a' b'
  | _, _ => false
  end.

Fixpoint forallb2 {A B} (f : A -> B -> bool) (la : list A) (lb : list B) : bool :=
  match la, lb with
  | [], [] => true
  | a :: ta, b :: tb => f a b && forallb2 f ta tb
  | _, _ => false
  end.

(* first non-zero code *)
Fixpoint first_code (l : list Z) : Z :=
  match l with [] => 0 | c :: t => if c =? 0 then first_code t else c end.
Definition guard (b : bool) (code : Z) : Z := if b then 0 else code.

(* ---------- lines ---------- *)
Fixpoint chunks (n k : nat) (s : str) : list str :=
  match n with O => [] | S n' => firstn k s :: chunks n' k (skipn k s) end.

Definition inv_lines (t : dtype) (v : cellv) : nat :=
  match t, v with TInventory, CInv l => length l | _, _ => 0%nat end.
(* lines a result row occupies: 1, or with expand the largest number of positions (at least 1) *)
Definition row_lines (o : opts) (desc : list (str * dtype)) (r : list cellv) : nat :=
  if o_expand o then Nat.max 1 (nmax (map2 (fun d v => inv_lines (snd d) v) desc r)) else 1%nat.
Definition expected_lines (o : opts) desc (rows : list (list cellv)) : nat :=
  ((if o_boxed o then 2 else 0) + 2
   + fold_right (fun r a => row_lines o desc r + (if o_spaced o then 1 else 0) + a) 0 rows)%nat.

Definition no_nl (s : str) : bool := forallb (fun c => negb (c =? 10)) s.
(* split [text] into [n] lines of one common width, each terminated by \n and containing no other \n *)
Definition split_rect (n : nat) (text : str) : option (list str) :=
  let total := length text in
  let k := (total / n)%nat in
  if ((n * k =? total) && (1 <=? k))%nat then
    let cs := chunks n k text in
    if forallb (fun c => (nth (k - 1) c 0 =? 10) && no_nl (firstn (k - 1) c)) cs
    then Some (map (firstn (k - 1)) cs) else None
  else None.

(* ---------- widths from the rule line ---------- *)
Fixpoint runs (c : Z) (cur : nat) (s : str) : list nat :=
  match s with
  | [] => match cur with O => [] | _ => [cur] end
  | x :: t => if x =? c then runs c (S cur) t
              else match cur with O => runs c 0 t | _ => cur :: runs c 0 t end
  end.
Definition widths_of (o : opts) (hline : str) : list nat :=
  if o_boxed o then map (fun r => (r - 2)%nat) (runs (rule_char o) 0 hline) else runs (rule_char o) 0 hline.

(* ---------- slots of a line ---------- *)
Fixpoint cut (seplen : nat) (ws : list nat) (s : str) : list str :=
  match ws with
  | [] => []
  | w :: t => firstn w s :: match t with [] => [] | _ :: _ => cut seplen t (skipn (w + seplen) s) end
  end.
Definition line_slots (o : opts) (ws : list nat) (line : str) : option (list str) :=
  let body := if o_boxed o then firstn (length line - 4) (skipn 2 line) else line in
  let slots := cut (length (colsep o)) ws body in
  if str_eqb line (frmt o (join (colsep o) slots)) && forallb2 (fun s w => (length s =? w)%nat) slots ws
  then Some slots else None.

Definition blank (s : str) : bool := forallb (fun c => c =? 32) s.
Fixpoint lead_spaces (s : str) : nat :=
  match s with 32 :: t => S (lead_spaces t) | _ => 0%nat end.
Definition lstrip (s : str) : str := skipn (lead_spaces s) s.
Definition rstrip (s : str) : str := rev (lstrip (rev s)).
Definition strip (s : str) : str := rstrip (lstrip s).

(* ---------- numerals ---------- *)
Fixpoint span_digits (s : str) : str * str :=
  match s with
  | c :: t => if is_digit c then let '(a, b) := span_digits t in (c :: a, b) else ([], s)
  | [] => ([], [])
  end.
(* [-]digits[.digits] -> (value, length of sign + integer part) *)
Definition parse_num (s : str) : option (dec * nat) :=
  let '(neg, s1) := match s with 45 :: t => (true, t) | _ => (false, s) end in
  let '(ip, s2) := span_digits s1 in
  match ip with
  | [] => None
  | _ =>
    let intlen := ((if neg then 1 else 0) + length ip)%nat in
    match s2 with
    | [] => option_map (fun c => (mkdec neg c 0, intlen)) (parse_nat ip)
    | 46 :: fr =>
        match fr with
        | [] => None
        | _ => if forallb is_digit fr
               then option_map (fun c => (mkdec neg c (- Z.of_nat (length fr)), intlen)) (parse_nat (ip ++ fr))
               else None
        end
    | _ => None
    end
  end.

(* coefficient of [d] rounded half-even to exponent [e] *)
Definition round_coef (d : dec) (e : Z) : Z :=
  if e <=? dexp d then dcoef d * 10 ^ (dexp d - e)
  else let p := 10 ^ (e - dexp d) in
       let q := dcoef d / p in let r := dcoef d mod p in
       if (p <? 2 * r) || ((p =? 2 * r) && Z.odd q) then q + 1 else q.

Fixpoint lookup (k : str) (l : list (str * Z)) : option Z :=
  match l with [] => None | (k', v) :: t => if str_eqb k k' then Some v else lookup k t end.

(* tokens with their offsets; characters for which [sepc] holds separate tokens *)
Fixpoint tokens_from (sepc : Z -> bool) (off : nat) (cur : str) (s : str) : list (nat * str) :=
  match s with
  | [] => match cur with [] => [] | _ => [((off - length cur)%nat, rev cur)] end
  | c :: t => if sepc c
              then match cur with [] => tokens_from sepc (S off) [] t
                   | _ => ((off - length cur)%nat, rev cur) :: tokens_from sepc (S off) [] t end
              else tokens_from sepc (S off) (c :: cur) t
  end.
Definition tokens (sepc : Z -> bool) (s : str) : list (nat * str) := tokens_from sepc 0 [] s.

(* an amount shown as [numtok] [curtok]: same currency, the number is the value rounded
   (half even) to the shown precision, which is the ledger's when the ledger knows the currency
   and otherwise loses no digit of the value *)
Definition amount_ok (prec : list (str * Z)) (a : amt) (numtok curtok : str) : bool :=
  str_eqb curtok (snd a) &&
  match parse_num numtok with
  | Some (d', _) =>
      Bool.eqb (dneg d') (dneg (fst a)) && (dcoef d' =? round_coef (fst a) (dexp d')) &&
      match lookup (snd a) prec with Some k => dexp d' =? - k | None => dexp d' <=? dexp (fst a) end
  | None => false
  end.

(* anchors of an amount: column of its decimal point, column of its currency *)
Definition amt_anchor (numtok : nat * str) (curtok : nat * str) : list nat :=
  match parse_num (snd numtok) with
  | Some (_, il) => [(fst numtok + il)%nat; fst curtok]
  | None => []
  end.

(* expected positions against a token stream: -> (ok, anchors of units, anchors of costs) *)
Fixpoint match_positions (prec : list (str * Z)) (ps : list posn) (toks : list (nat * str))
  : bool * list (list nat) * list (list nat) :=
  match ps with
  | [] => (match toks with [] => true | _ => false end, [], [])
  | p :: ps' =>
      match toks with
      | n :: c :: rest =>
          let uok := amount_ok prec (p_units p) (snd n) (snd c) in
          match p_cost p with
          | None => let '(ok, ua, ca) := match_positions prec ps' rest in
                    (uok && ok, amt_anchor n c :: ua, ca)
          | Some k =>
              match rest with
              | n2 :: c2 :: rest2 =>
                  let '(ok, ua, ca) := match_positions prec ps' rest2 in
                  (uok && amount_ok prec k (snd n2) (snd c2) && ok, amt_anchor n c :: ua, amt_anchor n2 c2 :: ca)
              | _ => (false, [], [])
              end
          end
      | _ => (false, [], [])
      end
  end.

Definition count_occ_z (c : Z) (s : str) : nat := length (filter (fun x => x =? c) s).
Definition braces_ok (ps : list posn) (slot : str) : bool :=
  let n := length (filter (fun p => match p_cost p with Some _ => true | None => false end) ps) in
  ((count_occ_z 123 slot =? n) && (count_occ_z 125 slot =? n))%nat.

Definition is_space (c : Z) : bool := c =? 32.
Definition pos_sep (listsep : str) (c : Z) : bool :=
  (c =? 32) || (c =? 123) || (c =? 125) || existsb (fun x => x =? c) listsep.

(* ---------- one cell ---------- *)
(* result: code, anchors (list of alignment columns that must agree down the column) *)
Definition cell_check (o : opts) (prec : list (str * Z)) (t : dtype) (w : nat) (v : cellv) (line : nat) (slot : str)
  : Z * list (list nat) :=
  match v with
  | CNull => (guard (str_eqb slot (match line with O => pad (align_of t) w (o_null o) | _ => spaces w end)) 8, [])
  | _ =>
    match t, v with
    | TInventory, CInv l =>
        if o_expand o then
          match nth_error (sort_pos l) line with
          | Some p => let '(ok, ua, ca) := match_positions prec [p] (tokens (pos_sep []) slot) in
                      (guard (ok && braces_ok [p] slot) 7, ua ++ map (fun a => 0%nat :: a) ca)
          | None => (guard (blank slot) 9, [])
          end
        else
          let '(ok, _, _) := match_positions prec (sort_pos l) (tokens (pos_sep (o_listsep o)) slot) in
          (guard (ok && braces_ok (sort_pos l) slot) 7, [])
    | _, _ =>
      match line with
      | S _ => (guard (blank slot) 9, [])
      | O =>
        match t, v with
        | TInt, CInt z => (guard (str_eqb slot (rjust w (show_int z))) 7, [])
        | TBool, CBool b => (guard (str_eqb slot (ljust w (if b then s_true else s_false))) 7, [])
        | TStr, CStr s => (guard (str_eqb slot (ljust w s)) 7, [])
        | TDate, CDate y m d => (guard (str_eqb slot (ljust w (date_str y m d))) 7, [])
        | TSet, CSet l => (guard (str_eqb slot (ljust w (set_format (o_listsep o) l))) 7, [])
        | TObject, _ => (guard (scalar v && str_eqb slot (ljust w (py_str v))) 7, [])
        | TDecimal, CDec d =>
            let l := lead_spaces slot in
            if negb (str_eqb slot (ljust w (spaces l ++ dec_str d))) then (7, [])
            else if negb (dec_positional d) then (11, [])
            else (0, [[(l + Z.to_nat (dec_intw d))%nat]])
        | TAmount, CAmt a =>
            match tokens is_space slot with
            | [n; c] => (guard (amount_ok prec a (snd n) (snd c)) 7, [amt_anchor n c])
            | _ => (7, [])
            end
        | TPosition, CPos p =>
            let '(ok, ua, ca) := match_positions prec [p] (tokens (pos_sep []) slot) in
            (guard (ok && braces_ok [p] slot) 7, ua ++ map (fun a => 0%nat :: a) ca)
        | _, _ => (7, [])
        end
      end
    end
  end.

(* anchors of one kind (same length) must all be equal *)
Fixpoint list_nat_eqb (a b : list nat) : bool :=
  match a, b with
  | [], [] => true
  | x :: a', y :: b' => (x =? y)%nat && list_nat_eqb a' b'
  | _, _ => false
  end.
Definition anchors_agree (l : list (list nat)) : bool :=
  forallb (fun k => match filter (fun a => (length a =? k)%nat) l with
                    | [] => true
                    | a :: t => forallb (list_nat_eqb a) t
                    end) [1; 2; 3]%nat.

(* ---------- the rows ---------- *)
(* check the [n] lines of one row; returns codes and per-column anchors *)
Definition row_check (o : opts) prec (desc : list (str * dtype)) (ws : list nat) (r : list cellv)
           (lines : list str) : Z * list (list (list nat)) :=
  let per_line := map2 (fun (i : nat) (line : str) =>
      match line_slots o ws line with
      | None => (6, map (fun _ => []) desc)
      | Some slots =>
          let cs := map2 (fun (dw : (str * dtype) * nat) (vs : cellv * str) =>
                            cell_check o prec (snd (fst dw)) (snd dw) (fst vs) i (snd vs))
                         (combine desc ws) (combine r slots) in
          (first_code (map fst cs), map snd cs)
      end) (seq 0 (length lines)) lines in
  (first_code (map fst per_line),
   fold_right (fun a acc => map2 (fun x y => x ++ y) a acc) (map (fun _ => []) desc) (map snd per_line)).

Fixpoint rows_check (o : opts) prec desc (ws : list nat) (rows : list (list cellv)) (lines : list str)
  : Z * list (list (list nat)) :=
  match rows with
  | [] => (guard (match lines with [] => true | _ => false end) 2, map (fun _ => []) desc)
  | r :: rest =>
      let n := row_lines o desc r in
      let '(c1, a1) := row_check o prec desc ws r (firstn n lines) in
      let lines1 := skipn n lines in
      let '(c2, lines2) :=
        if o_spaced o then
          match lines1 with
          | sp :: l2 => (match line_slots o ws sp with
                         | Some slots => guard (forallb blank slots) 9
                         | None => 6 end, l2)
          | [] => (2, [])
          end
        else (0, lines1) in
      let '(c3, a3) := rows_check o prec desc ws rest lines2 in
      (first_code [c1; c2; c3], map2 (fun x y => x ++ y) a1 a3)
  end.

Definition header_ok (w : nat) (h : str) (slot : str) : bool :=
  let h' := firstn w h in
  let marg := (w - length h')%nat in
  str_eqb slot (spaces (marg / 2) ++ h' ++ spaces (marg - marg / 2)) ||
  str_eqb slot (spaces (marg - marg / 2) ++ h' ++ spaces (marg / 2)).

Definition width_ok (o : opts) (h : str) (w : nat) : bool :=
  ((1 <=? w) && (length (o_null o) <=? w) && (o_narrow o || (length h <=? w)))%nat.

Definition check_table_code (o : opts) (prec : list (str * Z)) (desc : list (str * dtype))
           (rows : list (list cellv)) (text : str) : Z :=
  if negb (forallb (fun r => (length r =? length desc)%nat) rows) then 1 else
  match split_rect (expected_lines o desc rows) text with
  | None => 2
  | Some lines =>
    let b := if o_boxed o then 1%nat else 0%nat in
    let hl := nth (b + 1) lines [] in
    let ws := widths_of o hl in
    if negb ((length ws =? length desc)%nat && str_eqb hl (h_line o ws)
             && (negb (o_boxed o) || (str_eqb (nth 0 lines []) (top_line o ws)
                                      && str_eqb (last lines []) (bottom_line o ws)))) then 3 else
    if negb (forallb2 (fun d w => width_ok o (fst d) w) desc ws) then 4 else
    match line_slots o ws (nth b lines []) with
    | None => 5
    | Some hs =>
      if negb (forallb2 (fun (dw : (str * dtype) * nat) s => header_ok (snd dw) (fst (fst dw)) s) (combine desc ws) hs) then 5 else
      let body := firstn (length lines - (b + 2) - b) (skipn (b + 2) lines) in
      let '(c, anchors) := rows_check o prec desc ws rows body in
      if negb (c =? 0) then c else
      first_code (map2 (fun (d : str * dtype) a =>
                          guard (anchors_agree a) (match snd d with TDecimal => 10 | _ => 12 end)) desc anchors)
    end
  end.

Definition check_table o prec desc rows text : bool := check_table_code o prec desc rows text =? 0.

(* ---------- CSV ---------- *)
Fixpoint csv_parse (s : str) (inq : bool) (field : str) (rec : list str) : list (list str) :=
  match s with
  | [] => match field, rec with [], [] => [] | _, _ => [rev (rev field :: rec)] end
  | c :: t =>
    if inq then
      match c, t with
      | 34, 34 :: t' => csv_parse t' true (34 :: field) rec
      | 34, _ => csv_parse t false field rec
      | _, _ => csv_parse t true (c :: field) rec
      end
    else if c =? 44 then csv_parse t false [] (rev field :: rec)
    else if c =? 34 then csv_parse t true field rec
    else if c =? 13 then csv_parse t false field rec
    else if c =? 10 then rev (rev field :: rec) :: csv_parse t false [] []
    else csv_parse t false (c :: field) rec
  end.
Definition csv_read (s : str) : list (list str) := csv_parse s false [] [].

(* codes: 20 the comparison text is not a table; 21 number of records; 22 header record;
   23 fields per record; 24 a field differs from the text cell (padding aside) *)
Definition check_csv_code (o : opts) (desc : list (str * dtype)) (rows : list (list cellv))
           (text csv : str) : Z :=
  let o' := mkopts false false false (o_expand o) (o_narrow o) (o_null o) [44] in
  match split_rect (expected_lines o' desc rows) text with
  | None => 20
  | Some lines =>
    let ws := widths_of o' (nth 1 lines []) in
    let recs := csv_read csv in
    let data := skipn 2 lines in
    match recs with
    | [] => 21
    | hd :: recs' =>
      if negb (length recs' =? length data)%nat then 21 else
      if negb (forallb2 str_eqb hd (map fst desc)) then 22 else
      if negb (forallb (fun r => (length r =? length desc)%nat) recs') then 23 else
      first_code (map2 (fun (r : list str) (line : str) =>
                          match line_slots o' ws line with
                          | None => 20
                          | Some slots => guard (forallb2 (fun f s => str_eqb (strip f) (strip s)) r slots) 24
                          end) recs' data)
    end
  end.
Definition check_csv o desc rows text csv : bool := check_csv_code o desc rows text csv =? 0.

Definition check_table_out o prec desc rows text : out := ON (check_table_code o prec desc rows text).
Definition check_csv_out o (prec : list (str * Z)) desc rows text csv : out := ON (check_csv_code o desc rows text csv).

(* ---------- reading a date cell back: Y-MM-DD ---------- *)
Fixpoint split_on (c : Z) (s : str) : list str :=
  match s with
  | [] => [[]]
  | x :: t => if x =? c then [] :: split_on c t
              else match split_on c t with h :: r => (x :: h) :: r | [] => [[x]] end
  end.
Definition parse_date (s : str) : option (Z * Z * Z) :=
  match split_on 45 s with
  | [a; b; c] =>
      match parse_nat a, parse_nat b, parse_nat c with
      | Some y, Some m, Some d => Some (y, m, d)
      | _, _, _ => None
      end
  | _ => None
  end.
