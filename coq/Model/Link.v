(* Link between the compiler model (Model/Compile.v) and the executor model (Model/Eval.v, Exec.v, Order.v,
   Subquery.v, Pivot.v): compiled nodes and queries are lowered to the executor's syntax, so that a statement is
   compiled AND executed inside Coq ([run_stmt]).  The lowering covers the subset Eval.v models and refuses
   (None) everything else; it is validated, not trusted: a lowered query is returned only if Model/Typing.v
   assigns every lowered target the datatype the compiler announced.  Folded constants (CFold) are lowered to the
   call they were folded from, so the executor model recomputes them: the link does not trust the compiler's
   constant folding either. *)
From Coq Require Import String ZArith List Bool.
Import ListNotations.
From Verif Require Import Base.Out Base.PyValue Base.Decimal.
From Verif Require Import Model.Compile.
From Verif Require Model.Eval Model.Exec Model.Order Model.Subquery Model.Pivot Model.Typing.
Module Ev := Verif.Model.Eval.     (* `Eval` is a vernacular keyword *)
Open Scope string_scope.
Open Scope list_scope.

Definition enode := Ev.enode.

(* ------------------------------------------------------------------ operators and functions by name + declared input types *)
Definition is_numt (t : string) : bool := (t =? "int") || (t =? "Decimal").

Definition lower_unop (op : string) : option Ev.unop :=
  if op =? "Not" then Some Ev.UNot else if op =? "Neg" then Some Ev.UNeg
  else if op =? "IsNull" then Some Ev.UIsNull else if op =? "IsNotNull" then Some Ev.UIsNotNull else None.

Definition lower_binop (op : string) (ins : list string) : option Ev.binop :=
  match ins with
  | [a; b] =>
      let num := is_numt a && is_numt b in
      if op =? "Add" then
        if num then Some Ev.BAdd
        else if (a =? "date") && (b =? "int") then Some Ev.BAddDateInt
        else if (a =? "int") && (b =? "date") then Some Ev.BAddIntDate else None
      else if op =? "Sub" then
        if num then Some Ev.BSub
        else if (a =? "date") && (b =? "int") then Some Ev.BSubDateInt
        else if (a =? "date") && (b =? "date") then Some Ev.BSubDateDate else None
      else if op =? "Mul" then (if num then Some Ev.BMul else None)
      else if op =? "Div" then
        (if (a =? "int") && (b =? "int") then Some Ev.BDivInt else if num then Some Ev.BDiv else None)
      else if op =? "Mod" then (if num then Some Ev.BMod else None)
      else if op =? "Equal" then Some Ev.BEq
      else if op =? "NotEqual" then Some Ev.BNe
      else if op =? "Less" then Some Ev.BLt
      else if op =? "LessEq" then Some Ev.BLe
      else if op =? "Greater" then Some Ev.BGt
      else if op =? "GreaterEq" then Some Ev.BGe
      else if op =? "Match" then (if (a =? "str") && (b =? "str") then Some Ev.BMatch else None)
      else if op =? "NotMatch" then (if (a =? "str") && (b =? "str") then Some Ev.BNotMatch else None)
      else None
  | _ => None
  end.

Definition str_list_eqb (a b : list string) : bool := Typing.list_eqb a b.

Definition lower_func (f : string) (ins : list string) : option Ev.func :=
  if (f =? "abs") && str_list_eqb ins ["Decimal"] then Some Ev.FAbs
  else if (f =? "neg") && str_list_eqb ins ["Decimal"] then Some Ev.FNeg
  else if (f =? "safediv") && (str_list_eqb ins ["Decimal"; "int"] || str_list_eqb ins ["Decimal"; "Decimal"])
       then Some Ev.FSafediv
  else if (f =? "length") && str_list_eqb ins ["str"] then Some Ev.FLength
  else if (f =? "upper") && str_list_eqb ins ["str"] then Some Ev.FUpper
  else if (f =? "lower") && str_list_eqb ins ["str"] then Some Ev.FLower
  else if (f =? "bool") && str_list_eqb ins ["any"] then Some Ev.FBool
  else if (f =? "int") && str_list_eqb ins ["Decimal"] then Some Ev.FIntOfDec
  else if (f =? "decimal") && str_list_eqb ins ["int"] then Some Ev.FDecOfInt
  else if (f =? "substr") && str_list_eqb ins ["str"; "int"; "int"] then Some Ev.FSubstr
  (* the C18 library (Model/Dates.v, Model/StrFuncs.v through Eval.apply_func), by registered overload; the
     overloads Typing.func_dom leaves untyped (they can raise) are named here too, the validation of
     lower_query then refuses the statement *)
  else if (f =? "year") && str_list_eqb ins ["date"] then Some Ev.FYear
  else if (f =? "month") && str_list_eqb ins ["date"] then Some Ev.FMonth
  else if (f =? "day") && str_list_eqb ins ["date"] then Some Ev.FDay
  else if (f =? "yearmonth") && str_list_eqb ins ["date"] then Some Ev.FYearmonth
  else if (f =? "quarter") && str_list_eqb ins ["date"] then Some Ev.FQuarter
  else if (f =? "weekday") && str_list_eqb ins ["date"] then Some Ev.FWeekday
  else if (f =? "date_add") && str_list_eqb ins ["date"; "int"] then Some Ev.FDateAdd
  else if (f =? "date_diff") && str_list_eqb ins ["date"; "date"] then Some Ev.FDateDiff
  else if (f =? "date_trunc") && str_list_eqb ins ["str"; "date"] then Some Ev.FDateTrunc
  else if (f =? "date_part") && str_list_eqb ins ["str"; "date"] then Some Ev.FDatePart
  else if (f =? "date_bin") && str_list_eqb ins ["str"; "date"; "date"] then Some Ev.FDateBin
  else if (f =? "date") && str_list_eqb ins ["int"; "int"; "int"] then Some Ev.FDateYmd
  else if (f =? "date") && (str_list_eqb ins ["date"] || str_list_eqb ins ["str"] || str_list_eqb ins ["object"])
       then Some Ev.FDate
  else if (f =? "str") && str_list_eqb ins ["any"] then Some Ev.FStr
  else if (f =? "int") && (str_list_eqb ins ["int"] || str_list_eqb ins ["bool"] || str_list_eqb ins ["str"]
                           || str_list_eqb ins ["object"]) then Some Ev.FInt
  else if (f =? "decimal") && (str_list_eqb ins ["Decimal"] || str_list_eqb ins ["bool"] || str_list_eqb ins ["str"]
                               || str_list_eqb ins ["object"]) then Some Ev.FDecimal
  else if (f =? "splitcomp") && str_list_eqb ins ["str"; "str"; "int"] then Some Ev.FSplitcomp
  else if (f =? "maxwidth") && str_list_eqb ins ["str"; "int"] then Some Ev.FMaxwidth
  else if (f =? "root") && str_list_eqb ins ["str"; "int"] then Some Ev.FRoot
  else if (f =? "root") && str_list_eqb ins ["str"] then Some Ev.FRoot1
  else if (f =? "parent") && str_list_eqb ins ["str"] then Some Ev.FParent
  else if (f =? "leaf") && str_list_eqb ins ["str"] then Some Ev.FLeaf
  else if (f =? "round") && str_list_eqb ins ["int"; "int"] then Some Ev.FRoundInt
  else if (f =? "round") && str_list_eqb ins ["int"] then Some Ev.FRoundInt1
  else if (f =? "round") && str_list_eqb ins ["Decimal"; "int"] then Some Ev.FRoundDec
  else if (f =? "round") && str_list_eqb ins ["Decimal"] then Some Ev.FRoundDec1
  else None.

Definition is_operator (name : string) : bool :=
  match assoc name R.operators with Some _ => true | None => false end.

Definition overload_at (name : string) (i : nat) : option overload :=
  nth_error (overloads (if is_operator name then R.operators else R.functions) name) i.

(* the executor node of one operator / scalar function overload applied to lowered operands *)
Definition lower_call (name : string) (ins : list string) (args : list enode) : option enode :=
  if is_operator name then
    match args with
    | [x] => match lower_unop name with Some u => Some (Ev.EUnary u x) | None => None end
    | [x; y] => match lower_binop name ins with Some b => Some (Ev.EBinary b x y) | None => None end
    | [a; lo; hi] => if name =? "Between" then Some (Ev.EBetween a lo hi) else None
    | _ => None
    end
  else match lower_func name ins with Some f => Some (Ev.EFunc f args) | None => None end.

Definition is_err (v : value) : bool := match v with VErr _ => true | _ => false end.

(* a constant; a folded constant (CFold) is lowered to the CALL it was folded from, on its (constant) operands, so
   that the executor model recomputes it and Typing.v sees the announced datatype (bool(NULL) is a bool, its value
   NULL); if the call evaluates to an exception value the compiler itself would have raised: not lowerable *)
Fixpoint fold_node (v : cval) : option enode :=
  match v with
  | CScalar x => Some (Ev.EConst x)
  | CListV _ => None
  | CFold f i args =>
      match (fix go (l : list cval) : option (list enode) :=
               match l with
               | [] => Some []
               | x :: t => match fold_node x, go t with Some a, Some r => Some (a :: r) | _, _ => None end
               end) args with
      | None => None
      | Some es =>
          match overload_at f i with
          | None => None
          | Some o =>
              match lower_call f (ov_ins o) es with
              | None => None
              | Some e => if is_err (Ev.eval [] [] e) then None else Some e
              end
          end
      end
  end.

Fixpoint col_index (name : string) (cols : list (string * ty)) (i : nat) : option nat :=
  match cols with
  | [] => None
  | (n, _) :: t => if name =? n then Some i else col_index name t (S i)
  end.

Definition lower_aggf (fname : string) (ins : list string) : option Exec.aggf :=
  if fname =? "count" then (if str_list_eqb ins ["*"] then Some Exec.ACountStar else Some Exec.ACount)
  else if fname =? "sum" then
    (if str_list_eqb ins ["int"] then Some (Exec.ASum (VInt 0))
     else if str_list_eqb ins ["Decimal"] then Some (Exec.ASum (VDec (mkdec false 0 0))) else None)
  else if fname =? "first" then Some Exec.AFirst
  else if fname =? "last" then Some Exec.ALast
  else if fname =? "min" then Some Exec.AMin
  else if fname =? "max" then Some Exec.AMax
  else None.

(* an allocated aggregate with the datatype the compiler announced for it *)
Definition aggs := list (Exec.agg * ty).

(* [lower cols h n]: the executor node of n; aggregate nodes get the handles h, h+1, ... in tree order
   (Allocator.allocate over get_columns_and_aggregates) *)
Fixpoint lower (cols : list (string * ty)) (h : nat) (n : cnode) {struct n} : option (enode * aggs) :=
  let many := fix many (h : nat) (l : list cnode) : option (list enode * aggs) :=
                match l with
                | [] => Some ([], [])
                | x :: t =>
                    match lower cols h x with
                    | Some (e, a) => match many (h + length a)%nat t with
                                     | Some (es, a') => Some (e :: es, a ++ a')
                                     | None => None
                                     end
                    | None => None
                    end
                end in
  match n with
  | NConst v _ => match fold_node v with Some e => Some (e, []) | None => None end
  | NCol name _ => match col_index name cols 0 with Some i => Some (Ev.ECol i, []) | None => None end
  | NOp op i args _ =>
      if is_in_op op then
        match args with
        | [x; NConst (CListV l) _] =>
            match lower cols h x with
            | Some (e, a) => Some (Ev.EIn (op =? "NotIn") e (Some l), a)
            | None => None
            end
        | [x; NConst (CScalar VNull) _] =>     (* a subquery that returned no row evaluates to None *)
            match lower cols h x with
            | Some (e, a) => Some (Ev.EIn (op =? "NotIn") e None, a)
            | None => None
            end
        | _ => None                         (* IN over a column, or a subquery that could not be run: outside Eval.v *)
        end
      else
        match overload_at op i, many h args with
        | Some o, Some (es, a) => match lower_call op (ov_ins o) es with Some e => Some (e, a) | None => None end
        | _, _ => None
        end
  | NAnd args => match many h args with Some (es, a) => Some (Ev.EAnd es, a) | None => None end
  | NOr args => match many h args with Some (es, a) => Some (Ev.EOr es, a) | None => None end
  | NCoalesce args _ => match many h args with Some (es, a) => Some (Ev.ECoalesce es, a) | None => None end
  | NFunc f i args dt agg =>
      match overload_at f i with
      | None => None
      | Some o =>
          if agg then
            match lower_aggf f (ov_ins o), args with
            | Some af, [x] =>
                if str_list_eqb (ov_ins o) ["*"] then Some (Ev.EAgg h, [(Exec.Build_agg af (Ev.EConst VNull), dt)])
                else match lower cols 0 x with
                     | Some (e, []) => Some (Ev.EAgg h, [(Exec.Build_agg af e, dt)])
                     | _ => None
                     end
            | _, _ => None
            end
          else
            match many h args with
            | Some (es, a) => match lower_call f (ov_ins o) es with Some e => Some (e, a) | None => None end
            | None => None
            end
      end
  | _ => None
  end.

Definition lower_node (tbl : table) (n : cnode) : option enode :=
  match lower (t_cols tbl) 0 n with Some (e, []) => Some e | _ => None end.

(* ------------------------------------------------------------------ queries *)
Definition named_t (t : ctarget) : bool := match ct_name t with Some _ => true | None => false end.

Definition vis_indexes (ts : list ctarget) : list nat :=
  flat_map (fun '(i, t) => if named_t t then [i] else []) (combine (seq 0 (length ts)) ts).

(* targets in order; the targets that are not grouped allocate their aggregates (execute_select) *)
Fixpoint lower_targets (cols : list (string * ty)) (group : option (list nat)) (idx : nat) (h : nat)
         (ts : list ctarget) : option (list enode * aggs) :=
  match ts with
  | [] => Some ([], [])
  | t :: rest =>
      let grouped := match group with Some g => mem_nat idx g | None => true end in
      match lower cols h (ct_expr t) with
      | Some (e, a) =>
          if grouped && negb (Nat.eqb (length a) 0) then None      (* a grouped / non-aggregate target has no aggregate *)
          else match lower_targets cols group (S idx) (h + length a)%nat rest with
               | Some (es, a') => Some (e :: es, a ++ a')
               | None => None
               end
      | None => None
      end
  end.

Fixpoint all_some {A} (l : list (option A)) : option (list A) :=
  match l with
  | [] => Some []
  | None :: _ => None
  | Some a :: t => match all_some t with Some r => Some (a :: r) | None => None end
  end.

Definition ty_is (o : option Typing.ty) (name : string) : bool :=
  match o with Some t => Typing.ty_name t =? name | None => false end.

(* validation against Model/Typing.v: column types are modelled, every aggregate and every target gets the
   datatype the compiler announced, the WHERE clause is typable *)
Definition types_agree (tbl : table) (q : cquery) (wh : option enode) (es : list enode) (ags : aggs) : bool :=
  match all_some (map (fun c => Typing.ty_of_name (snd c)) (t_cols tbl)) with
  | None => false
  | Some colsT =>
      match all_some (map (fun a => Typing.agg_type colsT (fst a)) ags) with
      | None => false
      | Some aggT =>
          forallb (fun '(a, t) => ty_is (Some t) (snd a)) (combine ags aggT)
          && Nat.eqb (length es) (length (cq_targets q))
          && forallb (fun '(e, t) => ty_is (Typing.type_of colsT aggT e) (dtype (ct_expr t))) (combine es (cq_targets q))
          && match wh with Some w => match Typing.type_of colsT [] w with Some _ => true | None => false end | None => true end
      end
  end.

Definition lower_query (q : cquery) : option Exec.query :=
  let tbl := cq_table q in
  match (match cq_where q with
         | Some w => match lower_node tbl w with Some e => Some (Some e) | None => None end
         | None => Some None
         end),
        lower_targets (t_cols tbl) (cq_group q) 0 0 (cq_targets q) with
  | Some wh, Some (es, ags) =>
      if types_agree tbl q wh es ags then
        Some {| Exec.q_where := wh; Exec.q_targets := es; Exec.q_group := cq_group q; Exec.q_aggs := map fst ags;
                Exec.q_having := cq_having q; Exec.q_order := cq_order q; Exec.q_vis := vis_indexes (cq_targets q);
                Exec.q_distinct := cq_distinct q; Exec.q_limit := cq_limit q |}
      else None
  | _, _ => None
  end.

(* ------------------------------------------------------------------ running a statement *)
Definition data := list (string * list row).

Inductive rres :=
| RRows (types : list ty) (rows : list row)     (* description datatypes, fetched rows *)
| RErr (e : cerr)                               (* rejected by the compiler *)
| RRaise                                        (* an evaluation produced an exception value (TypeError at execution) *)
| RNot (stage : Z).                             (* not lowerable: 1 FROM form / table without data, 2 PRINT, 3 nodes or typing *)

(* LIMIT n cuts nothing when n >= number of table rows (every result row stems from at least one table row);
   this keeps [firstn (Z.to_nat n)] away from sys.maxsize-like limits *)
Definition clamp_limit (q : Exec.query) (nrows : nat) : Exec.query :=
  {| Exec.q_where := Exec.q_where q; Exec.q_targets := Exec.q_targets q; Exec.q_group := Exec.q_group q;
     Exec.q_aggs := Exec.q_aggs q; Exec.q_having := Exec.q_having q; Exec.q_order := Exec.q_order q;
     Exec.q_vis := Exec.q_vis q; Exec.q_distinct := Exec.q_distinct q;
     Exec.q_limit := match Exec.q_limit q with
                     | Some n => if (Z.of_nat nrows <=? n)%Z then None else Some n
                     | None => None
                     end |}.

(* rows of a FROM-subquery as the enclosing query sees them: one cell per column of the SubqueryTable, read at the
   index of the LAST visible target of that name (SubqueryTable.__init__) *)
Definition subquery_rows (inner : cquery) (rows : list row) : list row :=
  let names := names_of (cq_targets inner) in
  map (fun r => map (fun c => match assoc_last (fst c) names with Some i => cell i r | None => VNull end)
                    (t_cols (subquery_table inner))) rows.

Definition exec_query (q : cquery) (xq : Exec.query) (table : list row) : rres :=
  let xq := clamp_limit xq (length table) in
  if Exec.has_err (Exec.exec_rows xq table) then RRaise
  else
    let rows := Exec.exec xq table in
    let types := map (fun t => dtype (ct_expr t)) (visible (cq_targets q)) in
    match cq_pivots q with
    | None => RRows types rows
    | Some (c1, c2) =>
        (* description of the pivoted table: the first pivot column, then one block of the other columns per key *)
        let '(header, prows) := Pivot.pivot (length types) c1 c2 rows in
        RRows (map (fun hd => match hd with
                              | None => nth c1 types ""
                              | Some (_, c) => nth c types ""
                              end) header) prows
    end.

(* EvalConstantSubquery1D.__call__: [row[0] for row in rows], or None when the subquery returns no row *)
Definition subquery_items (rows : list row) : cval :=
  match Subquery.items_of rows with
  | Some l => CListV l
  | None => CScalar VNull
  end.

Section Run.
Variable sch : schema.
Variable pv : pvals.
Variable dat : data.

(* [go e tbl] = (e with every `x IN (subquery)` whose subquery could be run replaced by `x IN <its items>`,
                 the query and the result of e when e is a SELECT).
   FROM-subqueries are run first and feed the enclosing query (SubqueryTable.__iter__); IN-subqueries are run over
   the table of the enclosing SELECT and inlined as constants, which is what EvalConstantSubquery1D evaluates to. *)
Fixpoint go (e : expr) (tbl : table) {struct e} : expr * (option cquery * rres) :=
  let none := (None, RErr ESubqueryPosition) in
  let many := fix many (l : list expr) : list expr :=
                match l with [] => [] | x :: t => fst (go x tbl) :: many t end in
  match e with
  | EFunction f args => (EFunction f (many args), none)
  | EAnd args => (EAnd (many args), none)
  | EOr args => (EOr (many args), none)
  | EAttribute x n => (EAttribute (fst (go x tbl)) n, none)
  | ESubscript x k => (ESubscript (fst (go x tbl)) k, none)
  | EUnary op x => (EUnary op (fst (go x tbl)), none)
  | EBetween a lo hi => (EBetween (fst (go a tbl)) (fst (go lo tbl)) (fst (go hi tbl)), none)
  | EBinary op l r =>
      let l' := fst (go l tbl) in
      if is_in_op op then
        match r with
        | ESelect _ _ _ _ _ _ _ _ _ =>
            match snd (go r tbl) with
            | (Some _, RRows _ rows) => (EBinary op l' (EConstant (subquery_items rows)), none)
            | _ => (EBinary op l' r, none)          (* stays a subquery: refused by the lowering *)
            end
        | _ => (EBinary op l' (fst (go r tbl)), none)
        end
      else (EBinary op l' (fst (go r tbl)), none)
  | ESelect targets fk fe wh grp ord piv lim dist =>
      match comp sch pv e tbl with
      | Err er => (e, (None, RErr er))
      | Ok (RNode _) => (e, none)
      | Ok (RQuery q) =>
          let tb := cq_table q in
          let e' :=
            ESelect (match targets with
                     | Some l => Some ((fix tl (l : list (expr * option string * string)) :=
                                          match l with
                                          | [] => []
                                          | (x, a, t) :: r => (fst (go x tb), a, t) :: tl r
                                          end) l)
                     | None => None
                     end)
                    fk fe
                    (match wh with Some x => Some (fst (go x tb)) | None => None end)
                    (match grp with
                     | Some (cols, having) =>
                         Some ((fix gl (l : list (Z + expr)) :=
                                  match l with
                                  | [] => []
                                  | inl z :: r => inl z :: gl r
                                  | inr x :: r => inr (fst (go x tb)) :: gl r
                                  end) cols,
                               match having with Some h => Some (fst (go h tb)) | None => None end)
                     | None => None
                     end)
                    ((fix ol (l : list ((Z + expr) * bool)) :=
                        match l with
                        | [] => []
                        | (inl z, d) :: r => (inl z, d) :: ol r
                        | (inr x, d) :: r => (inr (fst (go x tb)), d) :: ol r
                        end) ord)
                    piv lim dist in
          let source :=
            match fk with
            | FKTable n => match assoc n dat with Some rows => inl rows | None => inr (RNot 1) end
            | FKSelect =>
                match fe with
                | Some sub =>
                    match snd (go sub tbl) with
                    | (Some qi, RRows _ rows) => inl (subquery_rows qi rows)
                    | (_, RRaise) => inr RRaise
                    | (_, RNot s) => inr (RNot s)
                    | (_, _) => inr (RNot 1)
                    end
                | None => inr (RNot 1)
                end
            | _ => inr (RNot 1)               (* no FROM / FROM expression: the Beancount postings table *)
            end in
          match source with
          | inr r => (e', (Some q, r))
          | inl rows =>
              match comp sch pv e' tbl with
              | Ok (RQuery q') =>
                  match lower_query q' with
                  | Some xq => (e', (Some q, exec_query q' xq rows))
                  | None => (e', (Some q, RNot 3))
                  end
              | _ => (e', (Some q, RNot 3))
              end
          end
      end
  | _ => (e, none)
  end.

Definition run_select (e : expr) (tbl : table) : option cquery * rres := snd (go e tbl).
End Run.

Definition run (sch : schema) (p : params) (dat : data) (s : stmt) : rres :=
  match compile sch p s with
  | Err e => RErr e
  | Ok (CPrint _ _) => RNot 2
  | Ok (CSelect _) =>
      match bind_params p (stmt_placeholders s) with
      | Err e => RErr e
      | Ok pv =>
          let postings := default_table sch "postings" in
          match s with
          | SSelect e => snd (run_select sch pv dat e postings)
          | SBalances f fk fe wh => snd (run_select sch pv dat (transform_balances f fk fe wh) postings)
          | SJournal a f fk fe => snd (run_select sch pv dat (transform_journal a f fk fe) postings)
          | SPrint _ _ => RNot 2
          end
      end
  end.

(* compile >>= lower >>= exec: the fetched rows, the compiler's error, or None when the statement is outside
   the lowerable subset (or its evaluation raises) *)
Definition run_stmt (sch : schema) (p : params) (dat : data) (s : stmt) : option (list row + cerr) :=
  match run sch p dat s with
  | RRows _ rows => Some (inl rows)
  | RErr e => Some (inr e)
  | RRaise | RNot _ => None
  end.

(* ------------------------------------------------------------------ serialisation *)
Definition run_out (user : schema) (dat : data) (p : params) (s : stmt) : out :=
  match run (user ++ snapshot_schema) p dat s with
  | RRows types rows => OL [ON 0%Z; OL (map o_string types); o_rows rows]
  | RErr e => OL [ON 1%Z; ON (cerr_code e)]
  | RRaise => OL [ON 2%Z]
  | RNot s => OL [ON 3%Z; ON s]
  end.
