(* C06 model, part 2: tokens and the lexer.

   TatSu parsers are scannerless: before every token / pattern the generated
   parser skips `@@eol_comments`, `@@comments` and whitespace (Buffer.next_token)
   and then matches a literal token (case-insensitively, with the name guard:
   an alphanumeric token does not match when an alphanumeric character or '_'
   follows) or a regular expression (anchored prefix match).  This file factors
   that into a lexer producing the token alphabet of bql.ebnf.  Where the
   grammar tries several lexical forms at one position the lexer tries them in
   the grammar's order (date, decimal, integer; keyword before identifier).

   Deliberate context-free approximations (the scannerless parser decides by
   context, a lexer cannot): see DIFF notes below; they only concern texts the
   printer never produces. *)
From Coq Require Import ZArith NArith List Bool String Ascii.
Import ListNotations.
From Verif Require Import Model.Ast.
Local Open Scope Z_scope.

Inductive kw :=
| KAND | KAS | KASC | KBY | KDESC | KDISTINCT | KFALSE | KFROM | KGROUP | KHAVING | KIN | KIS
| KLIMIT | KNOT | KOR | KORDER | KPIVOT | KSELECT | KTRUE | KWHERE | KBALANCES | KJOURNAL | KPRINT.

Inductive token :=
| TKw (k : kw)                 (* reserved word (@@keyword), any letter case *)
| TId (s : str)                (* identifier /[a-zA-Z_][a-zA-Z0-9_]*/, lower-cased, not reserved *)
| TInt (n : N)                 (* /\d+/ *)
| TDec (lead : bool) (m : N) (scale : nat)  (* decimal; lead: an integer part is written *)
| TDate (y m d : N)            (* /\d{4}-\d{2}-\d{2}/, a valid calendar date *)
| TStr (s : str)               (* string in double or single quotes: the text between them *)
| TTable (s : str)             (* # followed by an optional identifier, case kept *)
| TPlaceS                      (* %s *)
| TPlaceN (s : str)            (* %(name)s *)
| TLP | TRP | TLB | TRB | TComma | TDot | TStar | TSlash | TPercent | TPlus | TMinus
| TLt | TLe | TGt | TGe | TEq | TNe | TTilde | TNotTilde.

Definition str_of_string (s : string) : str :=
  map (fun a => Z.of_nat (nat_of_ascii a)) (list_ascii_of_string s).

Definition kw_spelling (k : kw) : str :=
  str_of_string match k with
  | KAND => "AND" | KAS => "AS" | KASC => "ASC" | KBY => "BY" | KDESC => "DESC"
  | KDISTINCT => "DISTINCT" | KFALSE => "FALSE" | KFROM => "FROM" | KGROUP => "GROUP"
  | KHAVING => "HAVING" | KIN => "IN" | KIS => "IS" | KLIMIT => "LIMIT" | KNOT => "NOT"
  | KOR => "OR" | KORDER => "ORDER" | KPIVOT => "PIVOT" | KSELECT => "SELECT" | KTRUE => "TRUE"
  | KWHERE => "WHERE" | KBALANCES => "BALANCES" | KJOURNAL => "JOURNAL" | KPRINT => "PRINT"
  end%string.

Definition all_kw : list kw :=
  [KAND; KAS; KASC; KBY; KDESC; KDISTINCT; KFALSE; KFROM; KGROUP; KHAVING; KIN; KIS;
   KLIMIT; KNOT; KOR; KORDER; KPIVOT; KSELECT; KTRUE; KWHERE; KBALANCES; KJOURNAL; KPRINT].

(* words that the grammar uses as tokens without reserving them *)
Definition w_null := str_of_string "null".
Definition w_open := str_of_string "open".
Definition w_close := str_of_string "close".
Definition w_clear := str_of_string "clear".
Definition w_on := str_of_string "on".
Definition w_at := str_of_string "at".
Definition w_between := str_of_string "between".
Definition w_s := str_of_string "s".

(* ---------------------------------------------------------------------- *)
(* character classes *)

Definition is_digit (c : Z) : bool := (48 <=? c) && (c <=? 57).
Definition is_upper (c : Z) : bool := (65 <=? c) && (c <=? 90).
Definition is_lower (c : Z) : bool := (97 <=? c) && (c <=? 122).
Definition is_alpha (c : Z) : bool := is_upper c || is_lower c || (c =? 95).
Definition is_word (c : Z) : bool := is_alpha c || is_digit c.
Definition lower (c : Z) : Z := if is_upper c then c + 32 else c.
Definition upper (c : Z) : Z := if is_lower c then c - 32 else c.
(* Python's \s on str = str.isspace() *)
Definition is_space (c : Z) : bool :=
  ((9 <=? c) && (c <=? 13)) || ((28 <=? c) && (c <=? 32)) || (c =? 133) || (c =? 160) || (c =? 5760)
  || ((8192 <=? c) && (c <=? 8202)) || (c =? 8232) || (c =? 8233) || (c =? 8239) || (c =? 8287) || (c =? 12288).

Fixpoint span (p : Z -> bool) (cs : list Z) : list Z * list Z :=
  match cs with
  | c :: r => if p c then let (a, b) := span p r in (c :: a, b) else ([], cs)
  | [] => ([], [])
  end.

Definition digit_val (c : Z) : N := Z.to_N (c - 48).
Definition digits_val (ds : list Z) : N := fold_left (fun acc c => (acc * 10 + digit_val c)%N) ds 0%N.

Definition kw_of_word (up : str) : option kw := find (fun k => str_eqb (kw_spelling k) up) all_kw.

(* datetime.strptime(value, '%Y-%m-%d').date() succeeds *)
Definition leap (y : N) : bool := ((y mod 4 =? 0) && (negb (y mod 100 =? 0) || (y mod 400 =? 0)))%N.
Definition dim (y m : N) : N :=
  (if m =? 2 then (if leap y then 29 else 28)
   else if (m =? 4) || (m =? 6) || (m =? 9) || (m =? 11) then 30 else 31)%N.
Definition valid_date (y m d : N) : bool :=
  ((1 <=? y) && (y <=? 9999) && (1 <=? m) && (m <=? 12) && (1 <=? d) && (d <=? dim y m))%N.

(* ---------------------------------------------------------------------- *)
(* skipping: eol comments (semicolon to end of line), C-style comments, whitespace *)

Fixpoint drop_line (cs : list Z) : list Z :=
  match cs with
  | c :: r => if c =? 10 then cs else drop_line r
  | [] => []
  end.

(* after the comment opener: the text after the first star-slash, if any *)
Fixpoint comment_end (cs : list Z) : option (list Z) :=
  match cs with
  | c :: r => match r with
              | c2 :: r2 => if (c =? 42) && (c2 =? 47) then Some r2 else comment_end r
              | [] => None
              end
  | [] => None
  end.

Fixpoint skip (fuel : nat) (cs : list Z) : list Z :=
  match fuel with
  | O => cs
  | S f =>
    match cs with
    | c :: r =>
      if is_space c then skip f r
      else if c =? 59 then skip f (drop_line r)
      else if c =? 47 then
        match r with
        | c2 :: r2 => if c2 =? 42 then match comment_end r2 with Some r3 => skip f r3 | None => cs end else cs
        | [] => cs
        end
      else cs
    | [] => []
    end
  end.

(* the string body up to the closing quote *)
Fixpoint until_quote (q : Z) (cs : list Z) : option (list Z * list Z) :=
  match cs with
  | c :: r => if c =? q then Some ([], r)
              else match until_quote q r with Some (a, b) => Some (c :: a, b) | None => None end
  | [] => None
  end.

(* /\d{4}-\d{2}-\d{2}/ at the head of the text: year, month, day as written, and what follows *)
Definition lex_date (cs : list Z) : option (N * N * N * list Z) :=
  match cs with
  | a :: b :: c :: d :: h1 :: e :: f :: h2 :: g :: h :: r =>
    if is_digit a && is_digit b && is_digit c && is_digit d && (h1 =? 45) && is_digit e && is_digit f
       && (h2 =? 45) && is_digit g && is_digit h
    then Some (digits_val [a; b; c; d], digits_val [e; f], digits_val [g; h], r) else None
  | _ => None
  end.

(* decimal /([0-9]+\.[0-9]*|[0-9]*\.[0-9]+)/ with an integer part, else integer /\d+/ *)
Definition lex_decint (cs : list Z) : option (token * list Z) :=
  let (ds, r) := span is_digit cs in
  match r with
  | c :: r1 =>
    if c =? 46 then let (fs, r2) := span is_digit r1 in
                    Some (TDec true (digits_val (ds ++ fs)) (List.length fs), r2)
    else Some (TInt (digits_val ds), r)
  | [] => Some (TInt (digits_val ds), r)
  end.

Definition lex_number (cs : list Z) : option (token * list Z) :=
  match lex_date cs with
  | Some (y, m, d, r) =>
    (* the date rule fails on a non-calendar date (semantic action), the next alternatives are tried *)
    if valid_date y m d then Some (TDate y m d, r) else lex_decint cs
  | None => lex_decint cs
  end.

(* One token at [c :: r]; [c] is not skippable.  [sk] skips blanks/comments
   (needed inside `%( name )s`). *)
Definition lex_one (sk : list Z -> list Z) (c : Z) (r : list Z) : option (token * list Z) :=
  if is_digit c then lex_number (c :: r)
  else if is_alpha c then
    let (w, r1) := span is_word (c :: r) in
    match kw_of_word (map upper w) with
    | Some k => Some (TKw k, r1)
    | None => Some (TId (map lower w), r1)
    end
  else if c =? 46 then
    match r with
    | d :: _ => if is_digit d then let (fs, r1) := span is_digit r in
                                   Some (TDec false (digits_val fs) (List.length fs), r1)
                else Some (TDot, r)
    | [] => Some (TDot, r)
    end
  else if (c =? 34) || (c =? 39) then
    match until_quote c r with
    | Some (s, r1) => Some (TStr s, r1)
    | None => None
    end
  else if c =? 35 then
    match r with
    | d :: _ => if is_alpha d then let (w, r1) := span is_word r in Some (TTable w, r1)
                else Some (TTable [], r)
    | [] => Some (TTable [], r)
    end
  else if c =? 37 then
    (* DIFF: `%s` directly followed by a word character is lexed as `%` + word
       (`a %sum` is Mod(a, sum) for TatSu too; `SELECT %sAS x` is accepted by
       TatSu only). `%( name )s` is one token when the whole form is present. *)
    match r with
    | d :: r1 =>
      if lower d =? 115 then
        match r1 with
        | e :: _ => if is_word e then Some (TPercent, r) else Some (TPlaceS, r1)
        | [] => Some (TPlaceS, r1)
        end
      else if d =? 40 then
        match sk r1 with
        | e :: r2 =>
          if is_alpha e then
            let (w, r3) := span is_word (e :: r2) in
            match sk r3 with
            | p :: q :: r4 =>
              if (p =? 41) && (lower q =? 115) then
                match kw_of_word (map upper w) with
                | Some _ => None
                | None => Some (TPlaceN (map lower w), r4)
                end
              else Some (TPercent, r)
            | _ => Some (TPercent, r)
            end
          else Some (TPercent, r)
        | [] => Some (TPercent, r)
        end
      else Some (TPercent, r)
    | [] => Some (TPercent, r)
    end
  else if c =? 40 then Some (TLP, r)
  else if c =? 41 then Some (TRP, r)
  else if c =? 91 then Some (TLB, r)
  else if c =? 93 then Some (TRB, r)
  else if c =? 44 then Some (TComma, r)
  else if c =? 42 then Some (TStar, r)
  else if c =? 47 then Some (TSlash, r)
  else if c =? 43 then Some (TPlus, r)
  else if c =? 45 then Some (TMinus, r)
  else if c =? 61 then Some (TEq, r)
  else if c =? 126 then Some (TTilde, r)
  else if c =? 60 then
    match r with d :: r1 => if d =? 61 then Some (TLe, r1) else Some (TLt, r) | [] => Some (TLt, r) end
  else if c =? 62 then
    match r with d :: r1 => if d =? 61 then Some (TGe, r1) else Some (TGt, r) | [] => Some (TGt, r) end
  else if c =? 33 then
    match r with
    | d :: r1 => if d =? 61 then Some (TNe, r1) else if d =? 126 then Some (TNotTilde, r1) else None
    | [] => None
    end
  else None.

Fixpoint lex_loop (fuel : nat) (cs : list Z) (acc : list token) : option (list token) :=
  match fuel with
  | O => None
  | S f =>
    match skip (List.length cs) cs with
    | [] => Some (rev acc)
    | c :: r =>
      match lex_one (fun x => skip (List.length x) x) c r with
      | Some (t, r') => lex_loop f r' (t :: acc)
      | None => None
      end
    end
  end.

Definition lex (cs : list Z) : option (list token) := lex_loop (S (List.length cs)) cs [].

(* ---------------------------------------------------------------------- *)
(* canonical spelling of a token *)

Fixpoint digits_fuel (fuel : nat) (n : N) (acc : list Z) : list Z :=
  match fuel with
  | O => acc
  | S f => if (n <? 10)%N then (48 + Z.of_N n) :: acc
           else digits_fuel f (n / 10)%N ((48 + Z.of_N (n mod 10)%N) :: acc)
  end.
Definition digits (n : N) : list Z := digits_fuel (S (N.size_nat n)) n [].

(* at least [w] digits, zero padded on the left *)
Definition pad (w : nat) (ds : list Z) : list Z := repeat 48 (w - List.length ds) ++ ds.

Definition render_tok (t : token) : str :=
  match t with
  | TKw k => kw_spelling k
  | TId s => s
  | TInt n => digits n
  | TDec lead m sc =>
      let ds := pad (if lead then S sc else sc) (digits m) in
      firstn (List.length ds - sc) ds ++ [46] ++ skipn (List.length ds - sc) ds
  | TDate y m d => pad 4 (digits y) ++ [45] ++ pad 2 (digits m) ++ [45] ++ pad 2 (digits d)
  | TStr s => let q := if existsb (fun c => c =? 39) s then 34 else 39 in q :: s ++ [q]
  | TTable s => 35 :: s
  | TPlaceS => [37; 115]
  | TPlaceN s => [37; 40] ++ s ++ [41; 115]
  | TLP => [40] | TRP => [41] | TLB => [91] | TRB => [93] | TComma => [44] | TDot => [46]
  | TStar => [42] | TSlash => [47] | TPercent => [37] | TPlus => [43] | TMinus => [45]
  | TLt => [60] | TLe => [60; 61] | TGt => [62] | TGe => [62; 61] | TEq => [61] | TNe => [33; 61]
  | TTilde => [126] | TNotTilde => [33; 126]
  end.

(* canonical text: one blank between tokens *)
Definition render (ts : list token) : str := List.concat (map (fun t => render_tok t ++ [32]) ts).

(* a token the lexer can produce and that its canonical spelling lexes back to *)
Definition ident_ok (s : str) : bool :=
  match s with
  | c :: _ => (is_lower c || (c =? 95)) && forallb (fun x => is_lower x || is_digit x || (x =? 95)) s
              && match kw_of_word (map upper s) with Some _ => false | None => true end
  | [] => false
  end.
Definition table_ok (s : str) : bool :=
  match s with c :: _ => is_alpha c && forallb is_word s | [] => true end.
Definition tok_ok (t : token) : bool :=
  match t with
  | TId s | TPlaceN s => ident_ok s
  | TDec lead m sc => if lead then true else (1 <=? sc)%nat && (List.length (digits m) <=? sc)%nat
  | TDate y m d => valid_date y m d
  | TStr s => negb (existsb (fun c => c =? 34) s && existsb (fun c => c =? 39) s)
  | TTable s => table_ok s
  | _ => true
  end.
