(* Model of beanquery/shell.py (Settings, DispatchingShell, BQLShell, main) and of the
   format plugins render/text.py, render/csv.py, following the code's shape.

   Strings are lists of code points.  Everything the shell delegates to the rest of
   beanquery (parser, compiler/executor, numberify, render_text, render_csv, PRINT,
   the informational commands) is a field of a [World] record: the theorems hold for
   every world, the correspondence run instantiates it with symbolic terms that the
   harness interprets through beanquery's public API.

   Python exceptions leaving [onecmd] are values: the last event of a step is [ERaise e]. *)
From Coq Require Import ZArith List Bool String Ascii DecimalString.
Import ListNotations.
From Verif Require Import Base.Out.
Open Scope list_scope.
Open Scope Z_scope.

Definition str := list Z.

Fixpoint s2z (s : string) : str :=
  match s with
  | EmptyString => []
  | String a r => Z.of_N (N_of_ascii a) :: s2z r
  end.

Fixpoint str_eqb (a b : str) : bool :=
  match a, b with
  | [], [] => true
  | x :: a', y :: b' => (x =? y) && str_eqb a' b'
  | _, _ => false
  end.

Definition mem (x : str) (l : list str) : bool := existsb (str_eqb x) l.

Fixpoint dropwhile (f : Z -> bool) (l : str) : str :=
  match l with
  | [] => []
  | c :: t => if f c then dropwhile f t else l
  end.

Fixpoint takewhile (f : Z -> bool) (l : str) : str :=
  match l with
  | [] => []
  | c :: t => if f c then c :: takewhile f t else []
  end.

(* ---- Python str methods used by the shell ---- *)

(* str.isspace per code point (what str.strip() removes) *)
Definition py_isspace (c : Z) : bool :=
  ((9 <=? c) && (c <=? 13)) || ((28 <=? c) && (c <=? 32)) || (c =? 133) || (c =? 160)
  || (c =? 5760) || ((8192 <=? c) && (c <=? 8202)) || (c =? 8232) || (c =? 8233)
  || (c =? 8239) || (c =? 8287) || (c =? 12288).

Definition lstrip_by (f : Z -> bool) (l : str) : str := dropwhile f l.
Definition rstrip_by (f : Z -> bool) (l : str) : str := rev (dropwhile f (rev l)).
Definition strip (l : str) : str := rstrip_by py_isspace (lstrip_by py_isspace l).

(* str.lower() on the ASCII range (exact for command names, which consist of
   cmd.IDENTCHARS, and for the membership tests of _parse_bool) *)
Definition lower_c (c : Z) : Z := if (65 <=? c) && (c <=? 90) then c + 32 else c.
Definition lower (l : str) : str := map lower_c l.

Definition starts_with (p l : str) : bool := str_eqb p (firstn (List.length p) l).

(* repr(str) *)
Definition hexdigit (n : Z) : Z := if n <? 10 then 48 + n else 87 + n.
Definition has (c : Z) (l : str) : bool := existsb (Z.eqb c) l.
Definition repr_char (q c : Z) : str :=
  if (c =? q) || (c =? 92) then [92; c]
  else if c =? 9 then [92; 116]
  else if c =? 10 then [92; 110]
  else if c =? 13 then [92; 114]
  else if (c <? 32) || ((127 <=? c) && (c <=? 160)) || (c =? 173) then [92; 120; hexdigit (c / 16); hexdigit (c mod 16)]
  else [c].
Definition py_repr (s : str) : str :=
  let q := if has 39 s && negb (has 34 s) then 34 else 39 in
  q :: flat_map (repr_char q) s ++ [q].

Definition Z_to_str (z : Z) : str := s2z (NilEmpty.string_of_int (Z.to_int z)).

(* int(str): optional sign, decimal digits, single underscores between digits *)
Definition is_digit (c : Z) : bool := (48 <=? c) && (c <=? 57).
Fixpoint digits_go (l : str) (acc : Z) (prev_digit : bool) : option Z :=
  match l with
  | [] => if prev_digit then Some acc else None
  | c :: t =>
      if is_digit c then digits_go t (acc * 10 + (c - 48)) true
      else if (c =? 95) && prev_digit then
        match t with [] => None | _ => digits_go t acc false end
      else None
  end.
Definition py_int (s : str) : option Z :=
  match strip s with
  | [] => None
  | c :: t =>
      if c =? 45 then option_map Z.opp (digits_go t 0 false)
      else if c =? 43 then digits_go t 0 false
      else digits_go (c :: t) 0 false
  end.

(* ---- shlex.split(s) (posix, whitespace_split, no comments) ---- *)
Inductive shst := S0 | SA | SQ (q : Z) | SE (dq : bool).
Inductive shres := ShOk (l : list str) | ShNoQuote | ShNoEscaped.

Definition sh_ws (c : Z) : bool := (c =? 32) || (c =? 9) || (c =? 13) || (c =? 10).
Definition sh_quote (c : Z) : bool := (c =? 39) || (c =? 34).

(* tok and acc are kept reversed *)
Fixpoint shlex_go (l : str) (st : shst) (tok : str) (quoted : bool) (acc : list str) : shres :=
  match l with
  | [] =>
      match st with
      | SQ _ => ShNoQuote
      | SE _ => ShNoEscaped
      | S0 => ShOk (rev acc)
      | SA => ShOk (rev (match tok, quoted with [], false => acc | _, _ => rev tok :: acc end))
      end
  | c :: t =>
      match st with
      | S0 =>
          if sh_ws c then shlex_go t S0 [] false acc
          else if c =? 92 then shlex_go t (SE false) [] false acc
          else if sh_quote c then shlex_go t (SQ c) [] false acc
          else shlex_go t SA [c] false acc
      | SA =>
          if sh_ws c then
            match tok, quoted with
            | [], false => shlex_go t S0 [] false acc
            | _, _ => shlex_go t S0 [] false (rev tok :: acc)
            end
          else if sh_quote c then shlex_go t (SQ c) tok quoted acc
          else if c =? 92 then shlex_go t (SE false) tok quoted acc
          else shlex_go t SA (c :: tok) quoted acc
      | SQ q =>
          if c =? q then shlex_go t SA tok true acc
          else if (c =? 92) && (q =? 34) then shlex_go t (SE true) tok true acc
          else shlex_go t (SQ q) (c :: tok) true acc
      | SE dq =>
          let tok' := if dq && negb (c =? 92) && negb (c =? 34) then c :: 92 :: tok else c :: tok in
          shlex_go t (if dq then SQ 34 else SA) tok' quoted acc
      end
  end.

Definition shlex_split (s : str) : shres := shlex_go s S0 [] false [].

(* ---- Settings: a typed store ---- *)
Inductive ty := TBool | TStr | TInt.
Inductive value := SBool (b : bool) | SStr (s : str) | SInt (z : Z).

Definition type_of (v : value) : ty :=
  match v with SBool _ => TBool | SStr _ => TStr | SInt _ => TInt end.

(* dataclasses.fields(Settings): name, type, default — re-generated from the live class
   into Gen/Settings.v; Properties/C19.v checks that both lists are equal. *)
Definition settings : list (str * ty * value) :=
  [ (s2z "boxed", TBool, SBool false);
    (s2z "expand", TBool, SBool false);
    (s2z "format", TStr, SStr (s2z "text"));
    (s2z "narrow", TBool, SBool true);
    (s2z "nullvalue", TStr, SStr []);
    (s2z "numberify", TBool, SBool false);
    (s2z "pager", TBool, SBool true);
    (s2z "spaced", TBool, SBool false);
    (s2z "unicode", TBool, SBool false) ].

(* keys of FORMATS (modules of beanquery.render) *)
Definition formats : list str := [s2z "csv"; s2z "text"].
(* Settings._parse_<x> methods *)
Definition parsers : list str := [s2z "bool"; s2z "format"].
(* do_<x> methods of BQLShell *)
Definition commands : list str :=
  map s2z ["EOF"; "clear"; "describe"; "errors"; "exit"; "explain"; "help"; "history";
           "parse"; "quit"; "reload"; "run"; "set"; "tables"]%string.
(* the names onecmd still accepts without the dot *)
Definition legacy : list str :=
  map s2z ["clear"; "errors"; "exit"; "help"; "history"; "parse"; "quit"; "run"; "set"]%string.
(* BQL statement keywords (grammar rule [statement]) *)
Definition statement_keywords : list str := map s2z ["select"; "balances"; "journal"; "print"]%string.

Definition state := list (str * value).
Definition init_state : state := map (fun x => (fst (fst x), snd x)) settings.

Fixpoint lookup (st : state) (name : str) : option value :=
  match st with
  | [] => None
  | (n, v) :: t => if str_eqb n name then Some v else lookup t name
  end.

Fixpoint update (st : state) (name : str) (v : value) : state :=
  match st with
  | [] => []
  | (n, w) :: t => if str_eqb n name then (n, v) :: t else (n, w) :: update t name v
  end.

Definition get_bool (st : state) (name : string) : bool :=
  match lookup st (s2z name) with Some (SBool b) => b | _ => false end.
Definition get_str (st : state) (name : string) : str :=
  match lookup st (s2z name) with Some (SStr s) => s | _ => [] end.

(* Settings._parse_bool *)
Definition parse_bool (v : str) : str + bool :=
  let norm := lower (strip v) in
  if mem norm (map s2z ["1"; "true"; "t"; "yes"; "y"; "on"]%string) then inr true
  else if mem norm (map s2z ["0"; "false"; "f"; "no"; "n"; "off"]%string) then inr false
  else inl ([34] ++ v ++ s2z """ is not a valid boolean").

(* Settings._parse_format *)
Definition parse_format (v : str) : str + str :=
  if mem v formats then inr v else inl ([34] ++ v ++ s2z """ is not a valid format").

(* Settings.setstr: parser chosen by field NAME first (_parse_<name>), then by the
   type of the current value (_parse_<type>), else the type's constructor *)
Definition parse_value (name : str) (t : ty) (v : str) : str + value :=
  if mem name parsers then
    if str_eqb name (s2z "format") then
      match parse_format v with inl m => inl m | inr s => inr (SStr s) end
    else match parse_bool v with inl m => inl m | inr b => inr (SBool b) end
  else
    match t with
    | TBool => match parse_bool v with inl m => inl m | inr b => inr (SBool b) end
    | TStr => inr (SStr v)
    | TInt => match py_int v with
              | Some z => inr (SInt z)
              | None => inl (s2z "invalid literal for int() with base 10: " ++ py_repr v)
              end
    end.

(* Settings.getstr *)
Definition getstr (v : value) : str :=
  match v with
  | SStr s => py_repr s
  | SBool b => if b then s2z "true" else s2z "false"
  | SInt z => Z_to_str z
  end.

(* ---- cmd.Cmd.parseline + DispatchingShell.parseline/onecmd ---- *)
Definition identchar (c : Z) : bool :=
  ((97 <=? c) && (c <=? 122)) || ((65 <=? c) && (c <=? 90)) || ((48 <=? c) && (c <=? 57))
  || (c =? 95) || (c =? 46).

Inductive cls :=
| Empty                                   (* nothing happens *)
| Query (text : str)                      (* self.execute(text) *)
| Command (warn : bool) (name arg : str). (* do_<name>(arg), after the deprecation warning if [warn] *)

(* cmd.Cmd.parseline: (cmd, arg, line); None when it returns cmd None *)
Definition cmd_parseline (line : str) : option (str * str * str) :=
  let line := strip line in
  let go (line : str) := Some (takewhile identchar line, strip (dropwhile identchar line), line) in
  match line with
  | [] => None
  | c :: rest =>
      if c =? 63 then go (s2z "help " ++ rest)
      else if c =? 33 then
        if mem (s2z "shell") commands then go (s2z "shell " ++ rest) else None
      else go line
  end.

Definition classify (line : str) : cls :=
  match cmd_parseline line with
  | None => Empty
  | Some (cmd, arg, line) =>
      match cmd with
      | [] => Empty
      | _ =>
        let cmd := match cmd with c0 :: r => if c0 =? 46 then r else cmd | [] => cmd end in
        let line := if str_eqb cmd (s2z "EOF") then s2z ".EOF" else line in
        match cmd with
        | [] => Empty
        | _ =>
          if starts_with [46] line then Command false cmd arg
          else
            let cmd := lower cmd in
            if mem cmd legacy then Command true cmd arg else Query line
        end
      end
  end.

(* ---- the world outside the shell ---- *)
Inductive kind := KSelect | KBalances | KJournal | KPrint.
Inductive fromkind := FNone | FTable | FSubselect | FFrom.   (* statement.from_clause *)
Inductive closekind := CNone | CTrue | CDate.                 (* from_clause.close *)

Record query_directive := { q_name : str; q_text : str; q_date : Z }.

Record World := {
  stmt : Type; result : Type; text : Type; wexn : Type;
  lit : str -> text;                          (* literal text written by the shell itself *)
  parse : str -> wexn + stmt;                 (* context.parse *)
  skind : stmt -> kind;
  sfrom : stmt -> fromkind;
  sclose : stmt -> closekind;
  set_close : stmt -> Z -> stmt;              (* statement.from_clause.close = date *)
  run_query : stmt -> wexn + result;          (* context.execute(statement): description + fetchall() *)
  numberify : result -> result;               (* numberify_results(desc, rows, dcontext.build()) *)
  is_empty : result -> bool;                  (* not rows *)
  render_text : bool -> bool -> bool -> str -> bool -> bool -> result -> text;
                                              (* expand boxed spaced nullvalue narrow unicode *)
  render_csv : bool -> str -> result -> text; (* expand nullvalue *)
  print_entries : stmt -> wexn + text;        (* execute_print(compile(statement), out) *)
  directives : list query_directive;          (* the query directives of the ledger, in entry order *)
  ledger_errors : option text;                (* printer.print_errors(context.errors), None when there are none *)
}.

Inductive chan := Outfile | Stdout | Stderr.

Inductive exn (W : World) :=
| XWorld (e : wexn W)
| XValue (msg : str)       (* ValueError from shlex.split *)
| XIndex                    (* components[0] of an empty list *)
| XNotImplemented.          (* format not in FORMATS at render time *)

Inductive event (W : World) :=
| EText (c : chan) (t : text W)
| EWarn (msg : str)                 (* warnings.warn(msg) -> shell.warning -> stderr *)
| EAux (name arg : str)             (* informational command, output not modelled *)
| ERaise (e : exn W).

Arguments XWorld {W}. Arguments XValue {W}. Arguments XIndex {W}. Arguments XNotImplemented {W}.
Arguments EText {W}. Arguments EWarn {W}. Arguments EAux {W}. Arguments ERaise {W}.

Section Shell.
Variable W : World.
Variable quiet : bool.   (* the shell was started with --no-errors *)

Definition say (c : chan) (s : str) : event W := EText c (lit W s).
(* print(s, file=...) *)
Definition println (c : chan) (s : str) : event W := say c (s ++ [10]).
(* self.error(message), colours stripped in batch mode *)
Definition error (msg : str) : event W := println Stderr (s2z "error: " ++ msg).

(* render/text.py and render/csv.py [render] as called by on_Select:
   render(desc, rows, out, dcontext=dcontext, **settings.todict()) *)
Definition render_format (st : state) (r : result W) : option (text W) :=
  let fmt := get_str st "format" in
  if str_eqb fmt (s2z "text") then
    Some (if is_empty W r then lit W (s2z "(empty)" ++ [10])
          else render_text W (get_bool st "expand") (get_bool st "boxed") (get_bool st "spaced")
                 (get_str st "nullvalue") (get_bool st "narrow") (get_bool st "unicode") r)
  else if str_eqb fmt (s2z "csv") then
    Some (render_csv W (get_bool st "expand") (get_str st "nullvalue") r)
  else None.

(* BQLShell.parse: the default CLOSE date *)
Definition with_default_close (s : stmt W) (d : option Z) : stmt W :=
  match d, skind W s, sfrom W s, sclose W s with
  | Some d, KSelect, FFrom, CNone => set_close W s d
  | _, _, _, _ => s
  end.

(* on_Select / on_Journal / on_Balances / on_Print *)
Definition on_statement (st : state) (s : stmt W) : list (event W) :=
  match skind W s with
  | KPrint =>
      match print_entries W s with
      | inl e => [ERaise (XWorld e)]
      | inr t => [EText Outfile t]
      end
  | _ =>
      match run_query W s with
      | inl e => [ERaise (XWorld e)]
      | inr r =>
          let r := if get_bool st "numberify" then numberify W r else r in
          match render_format st r with
          | Some t => [EText Outfile t]
          | None => [ERaise XNotImplemented]
          end
      end
  end.

(* DispatchingShell.execute(query, default_close_date=...) *)
Definition execute (st : state) (q : str) (close : option Z) : list (event W) :=
  match parse W q with
  | inl e => [ERaise (XWorld e)]
  | inr s => on_statement st (with_default_close s close)
  end.

Definition raised (evs : list (event W)) : bool :=
  match rev evs with ERaise _ :: _ => true | _ => false end.

(* do_set *)
Definition echo (name : str) (v : value) : event W :=
  println Outfile (name ++ s2z ": " ++ getstr v).

Definition no_such_variable (name : str) : event W :=
  error (s2z "variable """ ++ name ++ s2z """ does not exist").

Definition do_set (st : state) (arg : str) : state * list (event W) :=
  match arg with
  | [] => (st, map (fun nv => echo (fst nv) (snd nv)) st)
  | _ =>
    match shlex_split arg with
    | ShNoQuote => (st, [ERaise (XValue (s2z "No closing quotation"))])
    | ShNoEscaped => (st, [ERaise (XValue (s2z "No escaped character"))])
    | ShOk [] => (st, [ERaise XIndex])
    | ShOk [name] =>
        match lookup st name with
        | Some v => (st, [echo name v])
        | None => (st, [no_such_variable name])
        end
    | ShOk [name; v] =>
        match lookup st name with
        | None => (st, [no_such_variable name])
        | Some cur =>
            match parse_value name (type_of cur) v with
            | inl msg => (st, [error msg])
            | inr new => (update st name new, [])
            end
        end
    | ShOk _ => (st, [error (s2z "invalid number of arguments")])
    end
  end.

(* sorted() on names: insertion sort by code points; names are unique dict keys *)
Fixpoint str_le (a b : str) : bool :=
  match a, b with
  | [], _ => true
  | _ :: _, [] => false
  | x :: a', y :: b' => if x <? y then true else if y <? x then false else str_le a' b'
  end.
Fixpoint insert_q (q : query_directive) (l : list query_directive) : list query_directive :=
  match l with
  | [] => [q]
  | h :: t => if str_le (q_name q) (q_name h) then q :: l else h :: insert_q q t
  end.
Definition sort_q (l : list query_directive) : list query_directive := fold_right insert_q [] l.

(* _extract_queries: setdefault keeps the first directive of each name *)
Fixpoint dedup_q (seen : list str) (l : list query_directive) : list query_directive :=
  match l with
  | [] => []
  | q :: t => if mem (q_name q) seen then dedup_q seen t else q :: dedup_q (q_name q :: seen) t
  end.
Definition named_queries : list query_directive := dedup_q [] (directives W).

(* _extract_queries warns about every later directive that reuses a name *)
Fixpoint dup_warnings (seen : list str) (l : list query_directive) : list (event W) :=
  match l with
  | [] => []
  | q :: t =>
      if mem (q_name q) seen
      then EWarn (s2z "duplicate query name """ ++ q_name q ++ [34]) :: dup_warnings seen t
      else dup_warnings (q_name q :: seen) t
  end.

(* do_reload (batch mode: no statistics) *)
Definition do_reload : list (event W) :=
  dup_warnings [] (directives W) ++
  match ledger_errors W with
  | Some r => if quiet then [] else [EText Stderr r]
  | None => []
  end.

(* do_errors *)
Definition do_errors : list (event W) :=
  match ledger_errors W with
  | Some r => [EText Stdout r]
  | None => [println Outfile (s2z "(no errors)")]
  end.

Definition find_query (name : str) : option query_directive :=
  find (fun q => str_eqb (q_name q) name) named_queries.

(* the loop of `.run *`: stops at the first exception *)
Fixpoint run_all (st : state) (l : list query_directive) : list (event W) :=
  match l with
  | [] => []
  | q :: t =>
      let evs := execute st (q_text q) (Some (q_date q)) in
      println Stdout (q_name q ++ [58]) :: evs ++
      (if raised evs then [] else println Stdout [] :: println Stdout [] :: run_all st t)
  end.

Definition run_strip (c : Z) : bool := (c =? 59) || (c =? 32) || (c =? 9).
Fixpoint join_nl (l : list str) : str :=
  match l with
  | [] => []
  | [x] => x
  | x :: t => x ++ [10] ++ join_nl t
  end.

Definition do_run (st : state) (arg : str) : list (event W) :=
  let arg := rstrip_by run_strip arg in
  match arg with
  | [] =>
      match named_queries with
      | [] => []
      | _ => [println Stdout (join_nl (map q_name (sort_q named_queries)))]
      end
  | _ =>
    if str_eqb arg [42] then run_all st (sort_q named_queries)
    else
      match shlex_split arg with
      | ShNoQuote => [ERaise (XValue (s2z "No closing quotation"))]
      | ShNoEscaped => [ERaise (XValue (s2z "No escaped character"))]
      | ShOk [] => [ERaise (XValue (s2z "not enough values to unpack (expected at least 1, got 0)"))]
      | ShOk [name] =>
          match find_query name with
          | None => [error (s2z "query """ ++ name ++ s2z """ not found")]
          | Some q => execute st (q_text q) (Some (q_date q))
          end
      | ShOk _ => [error (s2z "too many arguments for ""run"" command")]
      end
  end.

Definition deprecation (cmd : str) : event W :=
  EWarn (s2z "commands without ""."" prefix are deprecated. use """ ++ [46] ++ cmd ++ s2z """ instead").

(* onecmd: new state, what was written, and the return value (True = leave the loop) *)
Definition step (st : state) (line : str) : state * list (event W) * bool :=
  match classify line with
  | Empty => (st, [], false)
  | Query q => (st, execute st q None, false)
  | Command warn name arg =>
      let pre := if warn then [deprecation name] else [] in
      if negb (mem name commands) then
        (st, pre ++ [error (s2z "unknown command """ ++ name ++ [34])], false)
      else if str_eqb name (s2z "set") then
        let '(st', evs) := do_set st arg in (st', pre ++ evs, false)
      else if str_eqb name (s2z "run") then (st, pre ++ do_run st arg, false)
      else if str_eqb name (s2z "exit") || str_eqb name (s2z "quit") then (st, pre, true)
      else if str_eqb name (s2z "EOF") then (st, pre ++ [println Outfile (s2z "exit")], true)
      else if str_eqb name (s2z "reload") then (st, pre ++ do_reload, false)
      else if str_eqb name (s2z "errors") then (st, pre ++ do_errors, false)
      else (st, pre ++ [EAux name arg], false)
  end.

(* a session: cmdloop stops when onecmd returns True; an exception ends a batch run *)
Fixpoint run_lines (st : state) (lines : list str) : state * list (list (event W)) :=
  match lines with
  | [] => (st, [])
  | l :: t =>
      let '(st', evs, stop) := step st l in
      if stop then (st', [evs])
      else let '(st'', rest) := run_lines st' t in (st'', evs :: rest)
  end.

(* ---- command line entry point (shell.main, batch mode) ---- *)
Record cli := {
  c_format : str;          (* -f, click.Choice(FORMATS), default 'text' *)
  c_numberify : bool;      (* -m *)
  c_output : option str;   (* -o FILE; None = standard output *)
  c_quiet : bool;          (* -q *)
  c_query : list str;      (* QUERY words *)
  c_stdin : str;           (* read when no QUERY is given *)
}.

(* Settings(format=format, numberify=numberify) *)
Definition cli_state (c : cli) : state :=
  update (update init_state (s2z "format") (SStr (c_format c))) (s2z "numberify") (SBool (c_numberify c)).

Fixpoint join_sp (l : list str) : str :=
  match l with
  | [] => []
  | [x] => x
  | x :: t => x ++ [32] ++ join_sp t
  end.

Definition cli_line (c : cli) : str :=
  match c_query c with [] => c_stdin c | q => join_sp q end.

End Shell.

(* shell.main in batch mode: what constructing the shell writes (do_reload), where [Outfile]
   events go (None = standard output), and the events of the one command *)
Definition cli_run (W : World) (c : cli) : list (event W) * option str * list (event W) :=
  (do_reload W (c_quiet c), c_output c, snd (fst (step W (c_quiet c) (cli_state c) (cli_line c)))).


(* ------------------------------------------------------------------------- *)
(* Symbolic world used by the correspondence run.  A statement is an index into a
   table of facts about the query texts of the session that the harness obtained from
   beanquery's parser/executor; results and rendered texts are terms the harness
   interprets with the public API. *)
Record qfact := {
  f_text : str; f_parse_ok : bool; f_kind : kind; f_from : fromkind; f_close : closekind;
  f_ok : bool; f_ok_closed : bool;            (* does execution succeed (without / with default close) *)
  f_empty : bool; f_empty_closed : bool;      (* is the result empty *)
}.

Fixpoint find_fact (tbl : list qfact) (t : str) (i : Z) : option (Z * qfact) :=
  match tbl with
  | [] => None
  | f :: r => if str_eqb (f_text f) t then Some (i, f) else find_fact r t (i + 1)
  end.

Definition o_optZ (o : option Z) : out := match o with None => OL [] | Some z => OL [ON z] end.

Record sstmt := { ss_id : Z; ss_fact : qfact; ss_close : option Z }.
Record sres := { sr_stmt : sstmt; sr_numberified : bool }.

Definition o_sstmt (s : sstmt) : out := OL [ON (ss_id s); o_optZ (ss_close s)].
Definition o_sres (r : sres) : out := OL [o_sstmt (sr_stmt r); o_bool (sr_numberified r)].

Definition sym_world (tbl : list qfact) (qs : list query_directive) (errs : bool) : World := {|
  stmt := sstmt; result := sres; text := out; wexn := out;
  lit := fun s => OL [ON 0; o_str s];
  parse := fun t =>
    match find_fact tbl t 0 with
    | None => inl (OL [ON 9; o_str t])
    | Some (i, f) => if f_parse_ok f then inr {| ss_id := i; ss_fact := f; ss_close := None |}
                     else inl (OL [ON 0; ON i])
    end;
  skind := fun s => f_kind (ss_fact s);
  sfrom := fun s => f_from (ss_fact s);
  sclose := fun s => f_close (ss_fact s);
  set_close := fun s d => {| ss_id := ss_id s; ss_fact := ss_fact s; ss_close := Some d |};
  run_query := fun s =>
    if match ss_close s with None => f_ok (ss_fact s) | Some _ => f_ok_closed (ss_fact s) end
    then inr {| sr_stmt := s; sr_numberified := false |}
    else inl (OL [ON 1; o_sstmt s]);
  numberify := fun r => {| sr_stmt := sr_stmt r; sr_numberified := true |};
  is_empty := fun r =>
    match ss_close (sr_stmt r) with
    | None => f_empty (ss_fact (sr_stmt r))
    | Some _ => f_empty_closed (ss_fact (sr_stmt r))
    end;
  render_text := fun expand boxed spaced nullvalue narrow unicode r =>
    OL [ON 1; o_bool expand; o_bool boxed; o_bool spaced; o_str nullvalue; o_bool narrow; o_bool unicode; o_sres r];
  render_csv := fun expand nullvalue r => OL [ON 2; o_bool expand; o_str nullvalue; o_sres r];
  print_entries := fun s =>
    if match ss_close s with None => f_ok (ss_fact s) | Some _ => f_ok_closed (ss_fact s) end
    then inr (OL [ON 3; o_sstmt s]) else inl (OL [ON 1; o_sstmt s]);
  directives := qs;
  ledger_errors := if errs then Some (OL [ON 4]) else None;
|}.

Definition o_chan (c : chan) : out := ON (match c with Outfile => 0 | Stdout => 1 | Stderr => 2 end).

Definition o_exn {W : World} (f : wexn W -> out) (e : exn W) : out :=
  match e with
  | XWorld e => OL [ON 0; f e]
  | XValue m => OL [ON 1; o_str m]
  | XIndex => OL [ON 2]
  | XNotImplemented => OL [ON 3]
  end.

Definition o_event {W : World} (ft : text W -> out) (fe : wexn W -> out) (e : event W) : out :=
  match e with
  | EText c t => OL [ON 0; o_chan c; ft t]
  | EWarn m => OL [ON 1; o_str m]
  | EAux n a => OL [ON 2; o_str n; o_str a]
  | ERaise x => OL [ON 3; o_exn fe x]
  end.

Definition o_value (v : value) : out :=
  match v with
  | SBool b => OL [ON 0; o_bool b]
  | SStr s => OL [ON 1; o_str s]
  | SInt z => OL [ON 2; ON z]
  end.

Definition o_state (st : state) : out := o_list (fun nv => OL [o_str (fst nv); o_value (snd nv)]) st.

(* run a session from a given state: per line (events, stop flag, state afterwards) *)
Fixpoint session (W : World) (quiet : bool) (ft : text W -> out) (fe : wexn W -> out) (st : state) (lines : list str) : list out :=
  match lines with
  | [] => []
  | l :: t =>
      let '(st', evs, stop) := step W quiet st l in
      OL [o_list (o_event ft fe) evs; o_bool stop; o_state st'] :: session W quiet ft fe st' t
  end.

Definition session_out (tbl : list qfact) (qs : list query_directive) (errs quiet : bool) (st : state) (lines : list str) : out :=
  OL (session (sym_world tbl qs errs) quiet (fun t => t) (fun e => e) st lines).

(* a session during which the ledger file is rewritten and reloaded: each segment starts at the
   `.reload` that picks up a rewritten file and runs in the world of that file; the settings carry over *)
Fixpoint final_state (W : World) (quiet : bool) (st : state) (lines : list str) : state :=
  match lines with
  | [] => st
  | l :: t => final_state W quiet (fst (fst (step W quiet st l))) t
  end.

Fixpoint chain (quiet : bool) (st : state)
  (segs : list (list qfact * list query_directive * bool * list str)) : list out :=
  match segs with
  | [] => []
  | (tbl, qs, errs, lines) :: t =>
      let W := sym_world tbl qs errs in
      (session W quiet (fun x => x) (fun e => e) st lines ++ chain quiet (final_state W quiet st lines) t)%list
  end.

Definition chain_out (quiet : bool) (st : state)
  (segs : list (list qfact * list query_directive * bool * list str)) : out := OL (chain quiet st segs).

Definition cli_out (tbl : list qfact) (qs : list query_directive) (errs : bool) (c : cli) : out :=
  let '(startup, target, evs) := cli_run (sym_world tbl qs errs) c in
  OL [o_list (@o_event (sym_world tbl qs errs) (fun t => t) (fun e => e)) startup; o_option o_str target;
      o_list (@o_event (sym_world tbl qs errs) (fun t => t) (fun e => e)) evs; o_state (cli_state c)].

Definition classify_out (line : str) : out :=
  match classify line with
  | Empty => OL [ON 0]
  | Query q => OL [ON 1; o_str q]
  | Command w n a => OL [ON 2; o_bool w; o_str n; o_str a]
  end.

Definition shlex_out (s : str) : out :=
  match shlex_split s with
  | ShOk l => OL [ON 0; o_list o_str l]
  | ShNoQuote => OL [ON 1]
  | ShNoEscaped => OL [ON 2]
  end.

Definition int_out (s : str) : out := o_option ON (py_int s).
Definition repr_out (s : str) : out := o_str (py_repr s).
Definition strip_out (s : str) : out := o_str (strip s).
