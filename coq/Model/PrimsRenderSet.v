(* Primitive semantics for the translated SetRenderer / EnumRenderer (group `renderset`, Gen/SrcRenderSet.v; bld-render5).
   A set of str is  PList (map enc_s l)  - its elements in an arbitrary order (what iterating the set yields);
   sorted(set) = Render.sort_strs; sum(list of int) is the left fold of + from 0; sep.join(list of str) = Render.join;
   ctx.listsep reads the RenderContext encoding of PrimsRender (enc_ctx).  An Enum member is  PTuple [47; its name]
   and `.name` reads it.  str / max: PrimsRender.prims_render.  Part of the trusted base of C16_source_set_* / _enum_*. *)
From Coq Require Import String ZArith List Bool.
Import ListNotations.
From Verif Require Import Base.Decimal Base.PyValue Model.Eval Model.PyMini Model.Render Model.PrimsRender Model.PrimsRenderCost.
Open Scope string_scope.
Open Scope list_scope.
Open Scope Z_scope.

Definition enc_set (l : list str) : pv := PList (map enc_s l).
Definition enc_enum (name : str) : pv := PTuple [PInt 47; PV (VStr name)].

Definition prims_set (name : string) (args : list pv) : res pv :=
  if String.eqb name "attr:listsep" then
    match args with [PTuple [PV (VInt 61); _; _; PV (VStr sep); _; _]] => Ok (PV (VStr sep)) | _ => Stuck end
  else if String.eqb name "attr:name" then
    match args with [PTuple [PV (VInt 47); PV (VStr n)]] => Ok (PV (VStr n)) | _ => Stuck end
  else if String.eqb name "builtins.sum" then
    match args with
    | [PList l] => match n_map_opt as_int l with Some zs => Ok (PInt (fold_left Z.add zs 0)) | None => Stuck end
    | _ => Stuck
    end
  else if String.eqb name "builtins.sorted" then
    match args with
    | [PList l] => match n_map_opt dec_s l with Some ss => Ok (PList (map enc_s (sort_strs ss))) | None => Stuck end
    | _ => Stuck
    end
  else if String.eqb name "call:join" then
    match args with
    | [PV (VStr sep); PList l] => match n_map_opt dec_s l with Some ss => Ok (PV (VStr (join sep ss))) | None => Stuck end
    | _ => Stuck
    end
  else prims_render name args.

(* InventoryRenderer.positionsortkey (a plain function of a position): a Position is  PTuple [44; units; cost-or-None]  with
   units an Amount (PrimsRender.enc_amt) and cost a FULL Cost (PrimsRenderCost.enc_cost: number, currency, date, label);
   -x on a Decimal is Base.Decimal.dec_neg.  Everything else: Stuck. *)
Definition enc_fpos (u : amt) (c : option cost) : pv :=
  PTuple [PInt 44; enc_amt u; match c with Some k => enc_cost k | None => PNone end].

Definition prims_invkey (name : string) (args : list pv) : res pv :=
  if String.eqb name "attr:units" then
    match args with [PTuple [PV (VInt 44); u; _]] => Ok u | _ => Stuck end
  else if String.eqb name "attr:cost" then
    match args with [PTuple [PV (VInt 44); _; c]] => Ok c | _ => Stuck end
  else if String.eqb name "attr:currency" then
    match args with
    | [PTuple [PV (VInt 43); _; c]] => Ok c
    | [PTuple [PV (VInt 46); _; c; _; _]] => Ok c
    | _ => Stuck
    end
  else if String.eqb name "attr:number" then
    match args with
    | [PTuple [PV (VInt 43); n; _]] => Ok n
    | [PTuple [PV (VInt 46); n; _; _; _]] => Ok n
    | _ => Stuck
    end
  else if String.eqb name "attr:date" then
    match args with [PTuple [PV (VInt 46); _; _; d; _]] => Ok d | _ => Stuck end
  else if String.eqb name "neg" then
    match args with [PV (VDec d)] => Ok (PV (VDec (dec_neg d))) | _ => Stuck end
  else Stuck.

(* the key the model side names: (currency, -number, (cost currency, -cost number, cost date) or ()) *)
Definition inv_sortkey (u : amt) (c : option cost) : pv :=
  PTuple [enc_s (snd u); PV (VDec (dec_neg (fst u)));
          match c with
          | Some k => PTuple [enc_s (snd (c_amt k)); PV (VDec (dec_neg (fst (c_amt k)))); enc_odate (c_date k)]
          | None => PTuple []
          end].
