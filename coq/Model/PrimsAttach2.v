(* Primitive semantics and model of group `attach2` (C09, bld-inv2): beanquery.sources.beancount.attach
   (Gen/SrcAttach2.v).  Definitions only; proofs in Proofs/SrcAttach2.v.

   Encodings (PrimsApi's, the ones Model/PrimsAttach.new_connection uses): a dict is [pdict items] =
   PTuple [tag; PList [PTuple [k; v]; ..]] in insertion order; a list is a PList; a table class is an opaque callable
   (PRef k), calling it gives whatever value the oracle call_ref returns (the table object).

   Trusted here: what the three container operations the translated body performs do
     "dict.set"    [d; k; v]   d[k] = v: the value of an existing key is replaced IN PLACE (the key keeps its position,
                               no second item), a new key is appended at the end
     "dict.update" [d; o]      d.update(o) for a dict o: d[k] = v for the items of o, in o's order
     "list.extend" [l; x]      l.extend(x) for a list x: concatenation
   (on arguments of another shape - d.update(None), l.extend(None) raise TypeError in Python - the primitive is Stuck:
   the theorems assume the shapes), that the `name` of a class in the module's TABLES is what the generated table
   attach2_tables records from the live class ("attr:name" on an opaque callable, through [tname]), and that
   urlparse(dsn).path is an uninterpreted value [msg "attr:path" [object]]. *)
From Coq Require Import String Ascii ZArith List Bool.
Import ListNotations.
From Verif Require Import Base.PyValue Model.Eval Model.PyMini Model.PrimsApi.
Open Scope string_scope.
Open Scope list_scope.
Open Scope Z_scope.

Fixpoint raw_set (l : list pv) (k v : pv) : list pv :=
  match l with
  | [] => [PTuple [k; v]]
  | PTuple [k'; v'] :: t => if key_eqb k k' then PTuple [k'; v] :: t else PTuple [k'; v'] :: raw_set t k v
  | x :: t => x :: raw_set t k v
  end.

Definition raw_update (l o : list pv) : list pv :=
  fold_left (fun acc kv => match kv with PTuple [k; v] => raw_set acc k v | _ => acc end) o l.

Definition tname_of (tabs : list (nat * string * string)) (k : nat) : option string :=
  match find (fun t => Nat.eqb (fst (fst t)) k) tabs with Some t => Some (snd t) | None => None end.

(* MODEL of what attach does to connection.tables: one item store per element of TABLES, in list order, under the
   class's own name, the value being the class called on (entries, options) *)
Definition register_tables (tabs : list (nat * string * string)) (mk : nat -> pv) (l : list pv) : list pv :=
  fold_left (fun acc t => raw_set acc (PStr (snd t)) (mk (fst (fst t)))) tabs l.

(* the keys of an encoded dict *)
Definition raw_keys (l : list pv) : list pv :=
  flat_map (fun x => match x with PTuple [k; _] => [k] | _ => [] end) l.

Section Prims.
Variable msg : string -> list pv -> pv.
Variable tname : nat -> option string.

Definition prim_attach2 (name : string) (args : list pv) : res pv :=
  if String.eqb name "dict.set" then
    match args with [PTuple [tag; PList l]; k; v] => Ok (PTuple [tag; PList (raw_set l k v)]) | _ => Stuck end
  else if String.eqb name "dict.update" then
    match args with
    | [PTuple [tag; PList l]; PTuple [_; PList o]] => Ok (PTuple [tag; PList (raw_update l o)])
    | _ => Stuck
    end
  else if String.eqb name "list.extend" then
    match args with [PList a; PList b] => Ok (PList (a ++ b)) | _ => Stuck end
  else if String.eqb name "attr:name" then
    match args with
    | [PRef k] => match tname k with Some n => Ok (PStr n) | None => Stuck end
    | _ => Stuck
    end
  else if String.eqb name "attr:path" then
    match args with [PRef _] => opaque_method msg name args | _ => Stuck end
  else Stuck.
End Prims.
