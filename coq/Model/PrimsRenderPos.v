(* Primitive semantics for the translated PositionRenderer (group `render`, Gen/SrcRender.v): a PositionRenderer owns two
   AmountRenderer objects.  An owned AmountRenderer is the tuple of its field values
       PTuple (66 :: maxwidth; prepared; quantize; dcontext; curwidth [; func])
   and calling one of its methods IS interpreting the translation of that method of AmountRenderer (Gen/SrcRender.v
   render_amount_update / _prepare_head then ColumnRenderer.prepare / _format) on those fields, under AmountRenderer's own
   primitives (PrimsRender.prims_amt); update and prepare answer the changed object and the result.  Everything else is
   prims_amt.  Part of the trusted base of the C16_source_position_* theorems. *)
From Coq Require Import String ZArith List Bool.
Import ListNotations.
From Verif Require Import Base.PyValue Model.Eval Model.PyMini Model.Render Model.PrimsRender Gen.SrcRender.
Open Scope string_scope.
Open Scope list_scope.
Open Scope Z_scope.

Definition amt_names : list string := ["maxwidth"; "prepared"; "quantize"; "dcontext"; "curwidth"; "func"].
Definition amt_obj (e : env) : pv := PTuple (PInt 66 :: map snd e).
Definition amt_flds (v : pv) : option env :=
  match v with PTuple (PV (VInt 66) :: vals) => Some (combine amt_names vals) | _ => None end.

Section Pos.
Variable call_ref : nat -> list pv -> pv.
Variable numfmt : list (dec * str) -> dec -> str -> str.
Notation PA := (prims_amt numfmt).

Definition lift_obj (r : res (env * pv)) : res pv := bind r (fun p => Ok (PTuple [amt_obj (fst p); snd p])).

Definition prims_pos (name : string) (args : list pv) : res pv :=
  if String.eqb name "method:update" then
    match args with
    | [r; v] =>
        match amt_flds r with
        | Some flds => lift_obj (call_method call_ref PA render_amount_update flds [v])
        | None => PA name args
        end
    | _ => PA name args
    end
  else if String.eqb name "method:prepare" then
    match args with
    | [r] =>
        match amt_flds r with
        | Some flds => lift_obj (bind (call_method call_ref PA render_amount_prepare_head flds [])
                                      (fun p => call_method call_ref PA render_base_prepare (fst p) []))
        | None => Stuck
        end
    | _ => Stuck
    end
  else if String.eqb name "call:format" then
    match args with
    | [r; v] =>
        match amt_flds r with
        | Some flds => bind (call_method call_ref PA render_amount_format flds [v]) (fun p => Ok (snd p))
        | None => Stuck
        end
    | _ => Stuck
    end
  else PA name args.
End Pos.
