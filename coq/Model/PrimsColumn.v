(* Primitive semantics of group `column` (C10, bld-misc): Column.__getitem__ translated ALONE with the rules of
   ApiTranslator (harness/vf/src_column.py -> Gen/SrcColumn.v), so that `self._vars[key]` is the subscript primitive
   "getitem" and a slice key has a meaning.  Definitions only; proofs in Proofs/SrcColumn.v.

   Trusted here (on top of Model/PrimsApi.v):
   * a slice object slice(a, b, c) with None / int fields is the record [enc_slice a b c] tagged builtins.slice;
   * subscripting a TUPLE with such a slice is Model/Cursor.v's [py_slice] (slice.indices followed by range; step 0
     raises ValueError) - the same definition the 7-item sequence model of C10 is stated with;
   * tuple(<list>) is the tuple of the list's items. *)
From Coq Require Import String Ascii ZArith List Bool.
Import ListNotations.
From Verif Require Import Base.PyValue Model.Eval Model.PyMini Model.PrimsApi.
From Verif Require Model.Cursor.
Open Scope string_scope.
Open Scope list_scope.
Open Scope Z_scope.

Definition slice_tag : list Z := zs "builtins.slice".
Definition oz (x : option Z) : pv := match x with None => PNone | Some z => PInt z end.
Definition enc_slice (a b c : option Z) : pv :=
  record slice_tag [("start", oz a); ("stop", oz b); ("step", oz c)].

Definition dec_oz (v : pv) : option (option Z) :=
  match v with PV VNull => Some None | PV (VInt z) => Some (Some z) | _ => None end.
Definition dec_slice (k : pv) : option (option Z * option Z * option Z) :=
  match k with
  | PTuple [PV (VStr tag); PList [PTuple [_; a]; PTuple [_; b]; PTuple [_; c]]] =>
      if zeqb tag slice_tag then
        match dec_oz a, dec_oz b, dec_oz c with
        | Some a', Some b', Some c' => Some (a', b', c')
        | _, _, _ => None
        end
      else None
  | _ => None
  end.

Definition column_lib : strlib :=
  {| sl_strip := fun s => s; sl_lower := fun s => s; sl_parseline := fun _ => None; sl_getattr := fun _ => None;
     sl_ext := no_ext |}.

Definition prim_column (msg : string -> list pv -> pv) (name : string) (args : list pv) : res pv :=
  if String.eqb name "getitem" then
    match args with
    | [PTuple l; k] =>
        match dec_slice k with
        | Some (a, b, c) =>
            match Cursor.py_slice l a b c with Some r => Ok (PTuple r) | None => Exc ValueError end
        | None => getitem (PTuple l) k
        end
    | [o; k] => getitem o k
    | _ => Stuck
    end
  else if String.eqb name "builtins.tuple" then
    match args with [PList l] | [PTuple l] => Ok (PTuple l) | _ => Stuck end
  else prim_api column_lib msg name args.

(* what the items of a column description are, given the name and the type code (hash of the datatype) *)
Definition item_val (n h : pv) (i : Cursor.item) : pv :=
  match i with Cursor.IName => n | Cursor.ICode => h | Cursor.INull => PNone end.
