(* C06 model, part 5: type-tagged serialisation of tokens and ASTs for the
   correspondence runner (the Python side serialises ast.py nodes the same way). *)
From Coq Require Import ZArith NArith List Bool.
Import ListNotations.
From Verif Require Import Base.Out Model.Ast Model.Lexer Model.Parser Model.Printer.
Local Open Scope Z_scope.

Definition o_N (n : N) : out := ON (Z.of_N n).
Definition o_tag (t : Z) (l : list out) : out := OL (ON t :: l).

Definition o_lit (l : lit) : out :=
  match l with
  | LNull => o_tag 0 []
  | LBool b => o_tag 1 [o_bool b]
  | LInt n => o_tag 2 [o_N n]
  | LDec m s => o_tag 3 [o_N m; o_nat s]
  | LDate y m d => o_tag 4 [o_N y; o_N m; o_N d]
  | LStr s => o_tag 5 [o_str s]
  end.

Definition o_arith (op : arith) : out :=
  ON match op with Add => 0 | Sub => 1 | Mul => 2 | Div => 3 | Mod => 4 end.
Definition o_cmp (op : cmp) : out :=
  ON match op with Lt => 0 | Le => 1 | Gt => 2 | Ge => 3 | Eq => 4 | Ne => 5 | In => 6 | NotIn => 7
              | Match => 8 | NotMatch => 9 end.
Definition o_date (d : date) : out := let '(y, m, dd) := d in OL [o_N y; o_N m; o_N dd].
Definition o_sum {A B} (f : A -> out) (g : B -> out) (s : A + B) : out :=
  match s with inl a => o_tag 0 [f a] | inr b => o_tag 1 [g b] end.

Fixpoint o_expr (e : expr) : out :=
  let o_from (fc : fromc expr) :=
    match fc with
    | FTable n => o_tag 0 [o_str n]
    | FSub s => o_tag 1 [o_expr s]
    | FFrom x o c cl => o_tag 2 [o_option o_expr x; o_option o_date o; o_option (o_option o_date) c; o_bool cl]
    end in
  match e with
  | EConst l => o_tag 0 [o_lit l]
  | EList ls => o_tag 1 [o_list o_lit ls]
  | EColumn n => o_tag 2 [o_str n]
  | EFunc n args => o_tag 3 [o_str n; OL (map o_expr args)]
  | EFuncStar n => o_tag 4 [o_str n]
  | EPlace n => o_tag 5 [o_str n]
  | EAttr a n => o_tag 6 [o_expr a; o_str n]
  | ESubscript a k => o_tag 7 [o_expr a; o_str k]
  | ENeg a => o_tag 8 [o_expr a]
  | EArith op a b => o_tag 9 [o_arith op; o_expr a; o_expr b]
  | ECmp op a b => o_tag 10 [o_cmp op; o_expr a; o_expr b]
  | EIsNull a => o_tag 11 [o_expr a]
  | EIsNotNull a => o_tag 12 [o_expr a]
  | EBetween a b c => o_tag 13 [o_expr a; o_expr b; o_expr c]
  | ENot a => o_tag 14 [o_expr a]
  | EAnd l => o_tag 15 [OL (map o_expr l)]
  | EOr l => o_tag 16 [OL (map o_expr l)]
  | ESelect d t f w g o p lim =>
      o_tag 17 [o_bool d;
                o_option (fun tl => OL (map (fun x => OL [o_expr (fst x); o_option o_str (snd x)]) tl)) t;
                o_option o_from f;
                o_option o_expr w;
                o_option (fun x => OL [OL (map (o_sum o_N o_expr) (fst x)); o_option o_expr (snd x)]) g;
                OL (map (fun x => OL [o_sum o_N o_expr (fst x); o_bool (snd x)]) o);
                o_option (fun x => OL [o_sum o_N o_str (fst x); o_sum o_N o_str (snd x)]) p;
                o_option o_N lim]
  | EParen a => o_tag 18 [o_expr a]
  | EUPlus a => o_tag 19 [o_expr a]
  end.

Definition o_from (fc : fromc expr) : out :=
  match fc with
  | FTable n => o_tag 0 [o_str n]
  | FSub s => o_tag 1 [o_expr s]
  | FFrom x o c cl => o_tag 2 [o_option o_expr x; o_option o_date o; o_option (o_option o_date) c; o_bool cl]
  end.

Definition o_stmt (s : stmt) : out :=
  match s with
  | SSelect e => o_tag 0 [o_expr e]
  | SBalances sf f w => o_tag 1 [o_option o_str sf; o_option o_from f; o_option o_expr w]
  | SJournal a sf f => o_tag 2 [o_option o_str a; o_option o_str sf; o_option o_from f]
  | SPrint f => o_tag 3 [o_option o_from f]
  end.

Definition kw_code (k : kw) : Z :=
  match k with
  | KAND => 0 | KAS => 1 | KASC => 2 | KBY => 3 | KDESC => 4 | KDISTINCT => 5 | KFALSE => 6 | KFROM => 7
  | KGROUP => 8 | KHAVING => 9 | KIN => 10 | KIS => 11 | KLIMIT => 12 | KNOT => 13 | KOR => 14
  | KORDER => 15 | KPIVOT => 16 | KSELECT => 17 | KTRUE => 18 | KWHERE => 19 | KBALANCES => 20
  | KJOURNAL => 21 | KPRINT => 22
  end.

Definition o_token (t : token) : out :=
  match t with
  | TKw k => o_tag 0 [ON (kw_code k)]
  | TId s => o_tag 1 [o_str s]
  | TInt n => o_tag 2 [o_N n]
  | TDec lead m sc => o_tag 3 [o_bool lead; o_N m; o_nat sc]
  | TDate y m d => o_tag 4 [o_N y; o_N m; o_N d]
  | TStr s => o_tag 5 [o_str s]
  | TTable s => o_tag 6 [o_str s]
  | TPlaceS => o_tag 7 []
  | TPlaceN s => o_tag 8 [o_str s]
  | TLP => o_tag 9 [] | TRP => o_tag 10 [] | TLB => o_tag 11 [] | TRB => o_tag 12 []
  | TComma => o_tag 13 [] | TDot => o_tag 14 [] | TStar => o_tag 15 [] | TSlash => o_tag 16 []
  | TPercent => o_tag 17 [] | TPlus => o_tag 18 [] | TMinus => o_tag 19 []
  | TLt => o_tag 20 [] | TLe => o_tag 21 [] | TGt => o_tag 22 [] | TGe => o_tag 23 []
  | TEq => o_tag 24 [] | TNe => o_tag 25 [] | TTilde => o_tag 26 [] | TNotTilde => o_tag 27 []
  end.

(* round 1 of the correspondence: print a concrete-syntax tree *)
Definition print_out (s : stmt) : out :=
  OL [o_bool (wf_stmt s); o_bool (lex_ok (print_stmt s)); o_list o_token (print_stmt s); o_stmt (stmt_erase s);
      o_option o_stmt (parse_tokens (print_stmt s))].

(* round 2: parse a text (code points) *)
Definition parse_out (cs : str) : out := o_option o_stmt (parse_text cs).
Definition lex_out (cs : str) : out := o_option (o_list o_token) (lex cs).
