(* Model of beanquery/compiler.py (Compiler.compile and everything below it), of types.function_lookup and of
   the node equality the compiler relies on (query_compile.EvalNode.__eq__), over the registries, type table and
   table schemas of Model/RegistrySnapshot.v.  The AST mirrors parser/ast.py.  Checks are made in the order of the
   code; every `raise` of compiler.py is one constructor of [cerr].  No proofs here. *)
From Coq Require Import String ZArith List Bool Ascii.
Import ListNotations.
From Verif Require Import Base.Out Base.StableSort Base.PyValue.
From Verif Require Model.RegistrySnapshot.
Module R := Model.RegistrySnapshot.
Open Scope string_scope.
Open Scope list_scope.

(* ------------------------------------------------------------------ results and error kinds *)
Inductive result (A E : Type) := Ok (a : A) | Err (e : E).
Arguments Ok {A E} a.
Arguments Err {A E} e.

Inductive cerr :=
| EParamContainer     (* TypeError: parameters are not a mapping / sequence -- API misuse, outside the property *)
| EParamMissing | EParamCount | EParamMixed            (* ProgrammingError *)
| ETableNotFound | EAggInWhere | EAggInFrom | EOpenAfterClose | EMixedAgg | EAggOfAgg
| EOrderIndex | EPivotIndex | EPivotName | EPivotSame | EPivotNotGrouped
| EGroupIndex | EGroupAgg | EGroupRefAgg | EGroupUnhashable | EHavingNotAgg | ENotCovered
| EColumnNotFound | ECoalesceTypes | ENoFunction | ENotSubscriptable | ENoAttribute | ENotStructured
| EUnaryOp | EBetweenOp | ESubqueryColumns | EBinaryOp
| ECoalesceEmpty | ESubqueryPosition | ESubqueryPivot | EOrderAggNonAgg | EFromNotSupported | ECoalesceStar.

Definition cerr_code (e : cerr) : Z :=
  match e with
  | EParamContainer => 1 | EParamMissing => 2 | EParamCount => 3 | EParamMixed => 4
  | ETableNotFound => 10 | EAggInWhere => 11 | EAggInFrom => 12 | EOpenAfterClose => 13 | EMixedAgg => 14
  | EAggOfAgg => 15 | EOrderIndex => 16 | EPivotIndex => 17 | EPivotName => 18 | EPivotSame => 19
  | EPivotNotGrouped => 20 | EGroupIndex => 21 | EGroupAgg => 22 | EGroupRefAgg => 23 | EGroupUnhashable => 24
  | EHavingNotAgg => 25 | ENotCovered => 26 | EColumnNotFound => 27 | ECoalesceTypes => 28 | ENoFunction => 29
  | ENotSubscriptable => 30 | ENoAttribute => 31 | ENotStructured => 32 | EUnaryOp => 33 | EBetweenOp => 34
  | ESubqueryColumns => 35 | EBinaryOp => 36 | ECoalesceEmpty => 37 | ESubqueryPosition => 38
  | ESubqueryPivot => 39 | EOrderAggNonAgg => 40 | EFromNotSupported => 41 | ECoalesceStar => 42
  end%Z.

(* the Python class of the exception *)
Inductive pyclass := PyTypeError | PyProgrammingError | PyCompilationError.
Definition cerr_class (e : cerr) : pyclass :=
  match e with
  | EParamContainer => PyTypeError
  | EParamMissing | EParamCount | EParamMixed => PyProgrammingError
  | _ => PyCompilationError           (* class CompilationError(ProgrammingError) *)
  end.

(* ------------------------------------------------------------------ AST (parser/ast.py) *)
Definition ty := string.

Inductive cval :=
| CScalar (v : value)
| CListV (l : list value)
| CFold (f : string) (ovl : nat) (args : list cval).   (* EvalConstant(function(None)): value of a pure call, opaque *)

Inductive fromkind :=
| FKNone
| FKTable (name : string)
| FKSelect                                            (* the subquery is the [option expr] next to it *)
| FKExpr (open : option Z) (close : option (option Z)) (clear : bool).   (* close: Some None = CLOSE without a date *)

Inductive pcol := PIdx (z : Z) | PName (n : string).

Inductive expr :=
| EColumn (name : string)
| EFunction (fname : string) (operands : list expr)
| EAttribute (operand : expr) (name : string)
| ESubscript (operand : expr) (key : string)
| EConstant (v : cval)
| EPlaceholder (name : string) (pos : Z)               (* name "" = positional (%s); pos = parseinfo.pos *)
| EAsterisk
| EUnary (op : string) (operand : expr)                (* Not Neg IsNull IsNotNull *)
| EBinary (op : string) (l r : expr)                   (* Add ... Match In NotIn *)
| EAnd (args : list expr)
| EOr (args : list expr)
| EBetween (operand lower upper : expr)
| ESelect (targets : option (list (expr * option string * string)))     (* None = '*'; (expression, AS name, text) *)
          (fk : fromkind) (fe : option expr)
          (where_ : option expr)
          (group_by : option (list (Z + expr) * option expr))
          (order_by : list ((Z + expr) * bool))
          (pivot_by : option (pcol * pcol))
          (limit : option Z) (distinct : bool).

Inductive stmt :=
| SSelect (s : expr)
| SBalances (summary : option string) (fk : fromkind) (fe : option expr) (where_ : option expr)
| SJournal (account : option value) (summary : option string) (fk : fromkind) (fe : option expr)
| SPrint (fk : fromkind) (fe : option expr).

Inductive params := PNone | PSeq (l : list cval) | PMap (l : list (string * cval)).

(* ------------------------------------------------------------------ registries *)
Definition overload := R.overload.
Definition ov_ins (o : overload) : list ty := match o with (_, ins, _, _, _) => ins end.
Definition ov_out (o : overload) : ty := match o with (_, _, out, _, _) => out end.
Definition ov_pure (o : overload) : bool := match o with (_, _, _, p, _) => p end.
Definition ov_agg (o : overload) : bool := match o with (_, _, _, _, a) => a end.

Fixpoint assoc {A} (k : string) (l : list (string * A)) : option A :=
  match l with
  | [] => None
  | (k', v) :: t => if k =? k' then Some v else assoc k t
  end.

(* dict comprehension {name: value ...}: the LAST binding of a key wins *)
Fixpoint assoc_last {A} (k : string) (l : list (string * A)) : option A :=
  match l with
  | [] => None
  | (k', v) :: t => match assoc_last k t with Some v' => Some v' | None => if k =? k' then Some v else None end
  end.

Definition type_row (t : ty) : option (string * list string * bool * bool * bool) :=
  find (fun r => match r with (n, _, _, _, _) => n =? t end) R.types.

(* types._bases *)
Definition bases_of (t : ty) : list ty :=
  if t =? "NoneType" then ["object"]
  else match type_row t with Some (_, bs, _, _, _) => bs | None => [t] end.
Definition hashable (t : ty) : bool :=
  if t =? "NoneType" then true
  else match type_row t with Some (_, _, h, _, _) => h | None => false end.
Definition isdict (t : ty) : bool := match type_row t with Some (_, _, _, d, _) => d | None => false end.
Definition structured (t : ty) : bool := match type_row t with Some (_, _, _, _, s) => s | None => false end.
Definition alias_of (t : ty) : ty := match assoc t R.aliases with Some a => a | None => t end.
Definition struct_attrs (t : ty) : list (string * ty) :=
  match find (fun r => match r with (n, _, _) => n =? alias_of t end) R.structs with
  | Some (_, _, attrs) => attrs
  | None => []
  end.

(* AnyType.__eq__: equal to every type; '*' (types.Asterisk) is not a type *)
Definition tmatch (decl actual : ty) : bool := (decl =? actual) || ((decl =? "any") && negb (actual =? "*")).
Fixpoint sig_match (ins sg : list ty) : bool :=
  match ins, sg with
  | [], [] => true
  | i :: ins', s :: sg' => tmatch i s && sig_match ins' sg'
  | _, _ => false
  end.

(* itertools.product: the leftmost factor varies slowest *)
Fixpoint product (ls : list (list ty)) : list (list ty) :=
  match ls with
  | [] => [[]]
  | l :: rest => flat_map (fun x => map (cons x) (product rest)) l
  end.

Fixpoint find_ov (i : nat) (ovs : list overload) (sg : list ty) : option (nat * overload) :=
  match ovs with
  | [] => None
  | o :: t => if sig_match (ov_ins o) sg then Some (i, o) else find_ov (S i) t sg
  end.

Fixpoint first_some {A B} (f : A -> option B) (l : list A) : option B :=
  match l with
  | [] => None
  | x :: t => match f x with Some y => Some y | None => first_some f t end
  end.

Definition overloads (reg : list (string * list overload)) (name : string) : list overload :=
  match assoc name reg with Some l => l | None => [] end.

(* types.function_lookup: first overload matching the first signature of the product of the operands' bases *)
Definition function_lookup (reg : list (string * list overload)) (name : string) (argtys : list ty)
  : option (nat * overload) :=
  first_some (find_ov 0 (overloads reg name)) (product (map bases_of argtys)).

(* exact match on the operand types themselves (binary operators, BETWEEN) *)
Definition exact_lookup (name : string) (argtys : list ty) : option (nat * overload) :=
  find_ov 0 (overloads R.operators name) argtys.

(* ------------------------------------------------------------------ compiled nodes *)
Inductive cnode :=
| NConst (v : cval) (dt : ty)                                     (* EvalConstant *)
| NCol (cls : string) (dt : ty)                                   (* EvalColumn; cls = identity of the accessor (class / attribute name) *)
| NOp (op : string) (ovl : nat) (args : list cnode) (dt : ty)     (* the Op class of one operator overload *)
| NAnd (args : list cnode)
| NOr (args : list cnode)
| NCoalesce (args : list cnode) (dt : ty)
| NFunc (fname : string) (ovl : nat) (args : list cnode) (dt : ty) (agg : bool)   (* EvalFunction / EvalAggregator *)
| NGetItem (operand : cnode) (key : string)
| NGetter (operand : cnode) (attr : string) (dt : ty)
| NSub1D.                                                         (* EvalConstantSubquery1D *)

Definition dtype (n : cnode) : ty :=
  match n with
  | NConst _ dt | NCol _ dt | NOp _ _ _ dt | NCoalesce _ dt | NFunc _ _ _ dt _ | NGetter _ _ dt => dt
  | NAnd _ | NOr _ => "bool"
  | NGetItem _ _ => "object"
  | NSub1D => "list"
  end.

Definition children (n : cnode) : list cnode :=
  match n with
  | NOp _ _ a _ | NAnd a | NOr a | NCoalesce a _ | NFunc _ _ a _ _ => a
  | NGetItem e _ | NGetter e _ _ => [e]
  | _ => []
  end.

Definition is_agg_node (n : cnode) : bool := match n with NFunc _ _ _ _ true => true | _ => false end.
Definition is_const (n : cnode) : bool := match n with NConst _ _ => true | _ => false end.
Definition const_val (n : cnode) : cval := match n with NConst v _ => v | _ => CScalar VNull end.

(* get_columns_and_aggregates as three predicates: an aggregate node below (nodes under aggregates are ignored),
   a column not under an aggregate, an aggregate with an aggregate below one of its children *)
Fixpoint has_agg (n : cnode) : bool :=
  match n with
  | NFunc _ _ args _ agg => agg || existsb has_agg args
  | NOp _ _ args _ | NAnd args | NOr args | NCoalesce args _ => existsb has_agg args
  | NGetItem e _ | NGetter e _ _ => has_agg e
  | _ => false
  end.
Fixpoint has_col (n : cnode) : bool :=
  match n with
  | NCol _ _ => true
  | NFunc _ _ args _ agg => if agg then false else existsb has_col args
  | NOp _ _ args _ | NAnd args | NOr args | NCoalesce args _ => existsb has_col args
  | NGetItem e _ | NGetter e _ _ => has_col e
  | _ => false
  end.
Fixpoint nested_agg (n : cnode) : bool :=
  match n with
  | NFunc _ _ args _ agg => if agg then existsb has_agg args else existsb nested_agg args
  | NOp _ _ args _ | NAnd args | NOr args | NCoalesce args _ => existsb nested_agg args
  | NGetItem e _ | NGetter e _ _ => nested_agg e
  | _ => false
  end.

(* the literal code: two accumulators, all nodes under aggregate nodes ignored *)
Fixpoint cols_aggs (n : cnode) : list cnode * list cnode :=
  let many := fix many (l : list cnode) : list cnode * list cnode :=
                match l with
                | [] => ([], [])
                | x :: t => let (c, a) := cols_aggs x in let (c', a') := many t in (c ++ c', a ++ a')
                end in
  match n with
  | NCol _ _ => ([n], [])
  | NFunc _ _ args _ agg => if agg then ([], [n]) else many args
  | NOp _ _ args _ | NAnd args | NOr args | NCoalesce args _ => many args
  | NGetItem e _ | NGetter e _ _ => cols_aggs e
  | _ => ([], [])
  end.

(* mixed aggregates and non-aggregates; aggregates of aggregates (compiler.check_aggregates and the same
   checks inlined in _compile_targets) *)
Definition check_aggregates (n : cnode) : option cerr :=
  if has_col n && has_agg n then Some EMixedAgg
  else if nested_agg n then Some EAggOfAgg else None.

(* EvalNode.__eq__: same class and equal __slots__ of that class (dtype is a slot of EvalNode only) *)
Fixpoint cval_eqb (a b : cval) : bool :=
  match a, b with
  | CScalar x, CScalar y => val_eq x y
  | CListV x, CListV y => row_eq x y
  | CFold f i xs, CFold g j ys =>
      (f =? g) && Nat.eqb i j &&
      (fix go (l m : list cval) : bool :=
         match l, m with
         | [], [] => true
         | x :: l', y :: m' => cval_eqb x y && go l' m'
         | _, _ => false
         end) xs ys
  | _, _ => false
  end.

Fixpoint node_eqb (a b : cnode) : bool :=
  let list_eqb := fix go (l m : list cnode) : bool :=
                    match l, m with
                    | [], [] => true
                    | x :: l', y :: m' => node_eqb x y && go l' m'
                    | _, _ => false
                    end in
  match a, b with
  | NConst v _, NConst w _ => cval_eqb v w
  | NCol c d, NCol c' d' => (c =? c') && (d =? d')
  | NOp o i xs _, NOp o' i' ys _ => (o =? o') && Nat.eqb i i' && list_eqb xs ys
  | NAnd xs, NAnd ys => list_eqb xs ys
  | NOr xs, NOr ys => list_eqb xs ys
  | NCoalesce xs _, NCoalesce ys _ => list_eqb xs ys
  | NFunc f i xs _ _, NFunc g j ys _ _ => (f =? g) && Nat.eqb i j && list_eqb xs ys
  | NGetItem x k, NGetItem y k' => node_eqb x y && (k =? k')
  | NGetter x a _, NGetter y a' _ => node_eqb x y && (a =? a')     (* the getter is a GetAttrColumn: its name *)
  | NSub1D, NSub1D => true
  | _, _ => false
  end.

(* list.index *)
Fixpoint index_of (n : cnode) (l : list cnode) (i : nat) : option nat :=
  match l with
  | [] => None
  | x :: t => if node_eqb x n then Some i else index_of n t (S i)
  end.

(* ------------------------------------------------------------------ tables and compiled queries *)
Record table := mk_table {
  t_name : string;
  t_cols : list (string * ty);
  t_wild : list string;              (* wildcard_columns *)
  t_updatable : bool;                (* has .update(): the BeanTable subclasses entries and postings *)
}.
Definition schema := list table.
Definition find_table (s : schema) (n : string) : option table := find (fun t => t_name t =? n) s.
Definition empty_table := mk_table "" [] [] false.

Record ctarget := mk_target { ct_expr : cnode; ct_name : option string; ct_agg : bool }.

Record cquery := mk_query {
  cq_table : table;
  cq_targets : list ctarget;
  cq_where : option cnode;
  cq_group : option (list nat);
  cq_having : option nat;
  cq_order : option (list (nat * bool));
  cq_limit : option Z;
  cq_distinct : bool;
  cq_pivots : option (nat * nat);    (* Some = EvalPivot(query, pivots) *)
}.

Inductive cres := RNode (n : cnode) | RQuery (q : cquery).
Inductive cstmt := CSelect (q : cquery) | CPrint (t : table) (where_ : option cnode).

(* SubqueryTable: one column per visible target, later duplicates of a name replace the value but keep the place *)
Fixpoint dict_set {A} (k : string) (v : A) (l : list (string * A)) : list (string * A) :=
  match l with
  | [] => [(k, v)]
  | (k', v') :: t => if k =? k' then (k', v) :: t else (k', v') :: dict_set k v t
  end.
Definition visible (ts : list ctarget) : list ctarget :=
  filter (fun t => match ct_name t with Some _ => true | None => false end) ts.
Definition subquery_table (q : cquery) : table :=
  let cols := fold_left (fun d t => match ct_name t with Some n => dict_set n (dtype (ct_expr t)) d | None => d end)
                        (cq_targets q) [] in
  mk_table "(subquery)" cols (map fst cols) false.

(* ------------------------------------------------------------------ expressions *)
Definition type_of_cval (v : cval) (folded : ty) : ty :=
  match v with
  | CScalar VNull => "NoneType" | CScalar (VBool _) => "bool" | CScalar (VInt _) => "int" | CScalar (VDec _) => "Decimal"
  | CScalar (VStr _) => "str" | CScalar (VDate _) => "date" | CScalar (VErr _) => "object"
  | CListV _ => "list"
  | CFold _ _ _ => folded
  end.

Definition mem_str (s : string) (l : list string) : bool := existsb (String.eqb s) l.

(* EvalAggregator.__init__: dtype or operands[0].dtype -- first/last/min/max pass no dtype and take the one of
   their operand (SumDecimal does too, but its operand is a Decimal); checked against the live classes by the harness *)
Definition agg_dtype_of_operand (fname : string) (o : overload) : bool :=
  ov_agg o && mem_str fname ["first"; "last"; "min"; "max"].

(* the part of Compiler._function after the operands are compiled and the coalesce / lookup-failure cases *)
Definition build_call (fname : string) (i : nat) (o : overload) (operands : list cnode) : cnode :=
  let dt := if agg_dtype_of_operand fname o
            then match operands with x :: _ => dtype x | [] => ov_out o end else ov_out o in
  if forallb is_const operands && ov_pure o
  then NConst (CFold fname i (map const_val operands)) dt
  else NFunc fname i operands dt (ov_agg o).

Definition apply_function (fname : string) (operands : list cnode) : result cnode cerr :=
  match function_lookup R.functions fname (map dtype operands) with
  | None => Err ENoFunction
  | Some (i, o) => Ok (build_call fname i o operands)
  end.

Definition compile_column (tbl : table) (name : string) : result cnode cerr :=
  match assoc name (t_cols tbl) with
  | Some dt => Ok (NCol name dt)
  | None => Err EColumnNotFound
  end.

Definition compile_attribute (operand : cnode) (name : string) : result cnode cerr :=
  if structured (dtype operand)
  then match assoc name (struct_attrs (dtype operand)) with
       | Some dt => Ok (NGetter operand name dt)
       | None => Err ENoAttribute
       end
  else Err ENotStructured.

Fixpoint coalesce_check (first : ty) (l : list cnode) : option cerr :=
  match l with
  | [] => None
  | x :: t => if dtype x =? "*" then Some ECoalesceStar
              else if negb (dtype x =? first) then Some ECoalesceTypes else coalesce_check first t
  end.

Definition cast_target (t : ty) : ty := if t =? "int" then "Decimal" else t.

(* Compiler._binaryop after the operands are compiled: exact match, else cast an `object` operand and retry *)
Definition build_binary (op : string) (l r : cnode) : result cnode cerr :=
  let mk i o l r :=
    if is_const l && is_const r then NConst (CFold op i [const_val l; const_val r]) (ov_out o)
    else NOp op i [l; r] (ov_out o) in
  let cast t x := match assoc t R.cast_names with
                  | None => None
                  | Some name => match function_lookup R.functions name [dtype x] with
                                 | Some (i, o) => Some (NFunc name i [x] (ov_out o) (ov_agg o))
                                 | None => None
                                 end
                  end in
  match exact_lookup op [dtype l; dtype r] with
  | Some (i, o) => Ok (mk i o l r)
  | None =>
      if (dtype l =? "object") && negb (dtype r =? "object") then
        match cast (cast_target (dtype r)) l with
        | None => Err EBinaryOp
        | Some l' => match exact_lookup op [dtype l'; dtype r] with
                     | Some (i, o) => Ok (mk i o l' r)
                     | None => Err EBinaryOp
                     end
        end
      else if (dtype r =? "object") && negb (dtype l =? "object") then
        match cast (cast_target (dtype l)) r with
        | None => Err EBinaryOp
        | Some r' => match exact_lookup op [dtype l; dtype r'] with
                     | Some (i, o) => Ok (mk i o l r')
                     | None => Err EBinaryOp
                     end
        end
      else Err EBinaryOp
  end.

Definition build_unary (op : string) (x : cnode) : result cnode cerr :=
  match function_lookup R.operators op [dtype x] with
  | None => Err EUnaryOp
  | Some (i, o) => Ok (if is_const x then NConst (CFold op i [const_val x]) (ov_out o) else NOp op i [x] (ov_out o))
  end.

Definition build_between (a lo hi : cnode) : result cnode cerr :=
  match exact_lookup "Between" [dtype a; dtype lo; dtype hi] with
  | Some (i, o) => Ok (NOp "Between" i [a; lo; hi] "bool")
  | None => Err EBetweenOp
  end.

(* OPERATORS[type(node)][0]: the first overload, whatever the operand types *)
Definition build_in (op : string) (l r : cnode) : cnode := NOp op 0 [l; r] "bool".

Definition is_in_op (op : string) : bool := (op =? "In") || (op =? "NotIn").

Definition target_name (e : expr) (alias : option string) (text : string) : string :=
  match alias with
  | Some a => a
  | None => match e with EColumn n => n | _ => text end
  end.

(* parameter values after validation: positional ones keyed by parseinfo.pos *)
Record pvals := { pv_pos : list (Z * cval); pv_named : list (string * cval) }.
Fixpoint assocZ {A} (k : Z) (l : list (Z * A)) : option A :=
  match l with [] => None | (k', v) :: t => if Z.eqb k k' then Some v else assocZ k t end.

Definition bind {A B E} (r : result A E) (f : A -> result B E) : result B E :=
  match r with Ok a => f a | Err e => Err e end.
Notation "'do' x <- r ; k" := (bind r (fun x => k)) (at level 200, x pattern, r at level 100, k at level 200).

Definition as_node (r : cres) : result cnode cerr :=
  match r with RNode n => Ok n | RQuery _ => Err ESubqueryPosition end.

Definition nat_index (z : Z) (bound : nat) : option nat :=
  (* index = column - 1; 0 <= index < bound *)
  if (1 <=? z)%Z && (z <=? Z.of_nat bound)%Z then Some (Z.to_nat (z - 1)) else None.

Definition names_of (ts : list ctarget) : list (string * nat) :=
  (* {target.name: index ...} over the targets that have a name *)
  flat_map (fun '(i, t) => match ct_name t with Some n => [(n, i)] | None => [] end)
           (combine (seq 0 (length ts)) ts).

Definition mem_nat (n : nat) (l : list nat) : bool := existsb (Nat.eqb n) l.

Fixpoint wildcard_targets_of (tb : table) (names : list string) : result (list ctarget) cerr :=
  match names with
  | [] => Ok []
  | n :: t => do c <- compile_column tb n; do rest <- wildcard_targets_of tb t; Ok (mk_target c (Some n) false :: rest)
  end.
Definition wildcard_targets (tb : table) := wildcard_targets_of tb (t_wild tb).

(* ------------------------------------------------------------------ SELECT after its expressions are compiled
   Gallina is pure: compiling an expression "later" or "not at all" is unobservable, so the clauses are handed over
   as already-computed results and the loops below consult a result exactly where compiler.py compiles. *)
Definition rnode := result cnode cerr.
(* a GROUP BY / ORDER BY key: a position, or (the name when the key is a bare Column, its compilation) *)
Definition kref := (Z + (option string * rnode))%type.

(* one key -> (targets so far, index); [chk]: the check made on a freshly compiled key *)
Definition resolve_key (err_index : cerr) (bound : nat) (name_map : list (string * nat))
           (chk : cnode -> option cerr) (new_agg : cnode -> bool)
           (c : kref) (ts : list ctarget) : result (list ctarget * nat) cerr :=
  match c with
  | inl z => match nat_index z bound with Some i => Ok (ts, i) | None => Err err_index end
  | inr (name, r) =>
      match match name with Some n => assoc_last n name_map | None => None end with
      | Some i => Ok (ts, i)
      | None =>
          do n <- r;
          match chk n with
          | Some er => Err er
          | None => match index_of n (map ct_expr ts) 0 with
                    | Some i => Ok (ts, i)
                    | None => Ok (ts ++ [mk_target n None (new_agg n)], length ts)
                    end
          end
      end
  end.

Fixpoint group_loop (bound : nat) (name_map : list (string * nat)) (l : list kref) (ts : list ctarget) (gi : list nat)
  : result (list ctarget * list nat) cerr :=
  match l with
  | [] => Ok (ts, gi)
  | c :: rest =>
      do r <- resolve_key EGroupIndex bound name_map (fun n => if has_agg n then Some EGroupAgg else None)
                          (fun _ => false) c ts;
      let '(ts', i) := r in
      match nth_error ts' i with
      | Some t =>
          if has_agg (ct_expr t) then Err EGroupRefAgg
          else if negb (hashable (dtype (ct_expr t))) then Err EGroupUnhashable
          else group_loop bound name_map rest ts' (gi ++ [i])
      | None => Err EGroupIndex      (* not reached: i < length ts' *)
      end
  end.

Fixpoint order_loop (bound : nat) (name_map : list (string * nat)) (l : list (kref * bool)) (ts : list ctarget)
         (spec : list (nat * bool)) : result (list ctarget * list (nat * bool)) cerr :=
  match l with
  | [] => Ok (ts, spec)
  | (c, desc) :: rest =>
      do r <- resolve_key EOrderIndex bound name_map check_aggregates has_agg c ts;
      let '(ts', i) := r in order_loop bound name_map rest ts' (spec ++ [(i, desc)])
  end.

Definition nonagg_indexes (ts : list ctarget) : list nat :=
  flat_map (fun '(i, t) => if ct_agg t then [] else [i]) (combine (seq 0 (length ts)) ts).

Definition compile_group_by (c_targets : list ctarget) (grp : option (list kref * option rnode))
  : result (list ctarget * option (list nat) * option nat) cerr :=
  match grp with
  | Some (cols, having) =>
      do acc <- group_loop (length c_targets) (names_of c_targets) cols c_targets [];
      let '(ts, gi) := acc in
      match having with
      | None => Ok (ts, Some gi, None)
      | Some h =>
          do n <- h;
          match check_aggregates n with
          | Some er => Err er
          | None => if negb (has_agg n) then Err EHavingNotAgg
                    else Ok (ts ++ [mk_target n None true], Some gi, Some (length ts))
          end
      end
  | None =>
      if existsb ct_agg c_targets then
        if forallb ct_agg c_targets then Ok (c_targets, Some [], None)
        else Ok (c_targets, Some (nonagg_indexes c_targets), None)
      else Ok (c_targets, None, None)
  end.

Definition compile_order_by (ts1 : list ctarget) (ord : list (kref * bool))
  : result (list ctarget * option (list (nat * bool))) cerr :=
  match ord with
  | [] => Ok (ts1, None)
  | _ => do acc <- order_loop (length (visible ts1)) (names_of ts1) ord ts1 [];
         let '(ts, spec) := acc in Ok (ts, Some spec)
  end.

Definition resolve_pivot (ts2 : list ctarget) (p : pcol) : result nat cerr :=
  match p with
  | PIdx z => match nat_index z (length (visible ts2)) with Some i => Ok i | None => Err EPivotIndex end
  | PName n => match assoc_last n (names_of ts2) with Some i => Ok i | None => Err EPivotName end
  end.

Definition compile_pivot_by (ts2 : list ctarget) (group_indexes : option (list nat)) (piv : option (pcol * pcol))
  : result (option (nat * nat)) cerr :=
  match piv with
  | None => Ok None
  | Some (p1, p2) =>
      do i1 <- resolve_pivot ts2 p1;
      do i2 <- resolve_pivot ts2 p2;
      if Nat.eqb i1 i2 then Err EPivotSame
      else if match group_indexes with Some gi => negb (mem_nat i2 gi) | None => true end then Err EPivotNotGrouped
      else Ok (Some (i1, i2))
  end.

(* Compiler._select from the WHERE clause on *)
Definition finish_select (tb : table) (c_from : option cnode) (c_targets : list ctarget) (wh : option rnode)
           (grp : option (list kref * option rnode)) (ord : list (kref * bool)) (piv : option (pcol * pcol))
           (lim : option Z) (dist : bool) : result cquery cerr :=
  do c_where <- match wh with Some r => do n <- r; Ok (Some n) | None => Ok None end;
  if match c_where with Some n => has_agg n | None => false end then Err EAggInWhere else
  let c_where' := match c_from, c_where with
                  | Some f, Some w => Some (NAnd [f; w])
                  | Some f, None => Some f
                  | None, w => w
                  end in
  do g <- compile_group_by c_targets grp;
  let '(ts1, group_indexes, having_index) := g in
  do o <- compile_order_by ts1 ord;
  let '(ts2, order_spec) := o in
  if match group_indexes with
     | None => existsb ct_agg (skipn (length ts1) ts2)
     | Some _ => false
     end then Err EOrderAggNonAgg else
  (* the non-aggregate targets are exactly the group indexes *)
  if match group_indexes with
     | Some gi => negb (forallb (fun i => mem_nat i gi) (nonagg_indexes ts2)
                        && forallb (fun i => mem_nat i (nonagg_indexes ts2)) gi)
     | None => false
     end then Err ENotCovered else
  do pivots <- compile_pivot_by ts2 group_indexes piv;
  Ok (mk_query tb ts2 c_where' group_indexes having_index order_spec lim dist pivots).

(* _compile_from once the subquery / the FROM expression is compiled *)
Definition compile_from (sch : schema) (tbl : table) (fk : fromkind) (fe : option (result cres cerr))
  : result (table * option cnode) cerr :=
  match fk with
  | FKNone => Ok (tbl, None)
  | FKTable n => match find_table sch n with Some t => Ok (t, None) | None => Err ETableNotFound end
  | FKSelect =>
      match fe with
      | Some sub =>
          do r <- sub;
          match r with
          | RQuery q => match cq_pivots q with
                        | Some _ => Err ESubqueryPivot
                        | None => Ok (subquery_table q, None)
                        end
          | RNode _ => Err ESubqueryPosition
          end
      | None => Err ESubqueryPosition
      end
  | FKExpr op cl clr =>
      do c <- match fe with
              | Some x => do n <- bind x as_node; Ok (Some n)
              | None => Ok None
              end;
      if match c with Some n => has_agg n | None => false end then Err EAggInFrom
      else if match op, cl with Some o, Some (Some c') => (c' <? o)%Z | _, _ => false end then Err EOpenAfterClose
      else if negb (t_updatable tbl) then Err EFromNotSupported
      else Ok (tbl, c)
  end.

(* one target once its expression is compiled *)
Definition compile_target (x : expr) (alias : option string) (text : string) (r : rnode) : result ctarget cerr :=
  do n <- r;
  match check_aggregates n with
  | Some er => Err er
  | None => Ok (mk_target n (Some (target_name x alias text)) (has_agg n))
  end.

(* Compiler._inop once both operands are compiled *)
Definition build_in_any (op : string) (x : cnode) (y : cres) : result cnode cerr :=
  match y with
  | RNode n => Ok (build_in op x n)
  | RQuery q =>
      match cq_pivots q with
      | Some _ => Err ESubqueryPivot
      | None => if Nat.eqb (length (visible (cq_targets q))) 1 then Ok (build_in op x NSub1D)
                else Err ESubqueryColumns
      end
  end.

(* Compiler._function once the operands are compiled *)
Definition build_function (tbl : table) (fname : string) (ops : list cnode) : result cnode cerr :=
  if fname =? "coalesce" then
    match ops with
    | [] => Err ECoalesceEmpty
    | x :: _ => match coalesce_check (dtype x) ops with
                | Some er => Err er
                | None => Ok (NCoalesce ops (dtype x))
                end
    end
  else
    match function_lookup R.functions fname (map dtype ops) with
    | None => Err ENoFunction
    | Some (i, o) =>
        if fname =? "meta" then
          (* meta(key) -> getitem(meta, key) *)
          do m <- compile_column tbl "meta";
          apply_function "getitem" (m :: firstn 1 ops)
        else if fname =? "entry_meta" then
          (* entry_meta(key) -> getitem(entry.meta, key) *)
          do en <- compile_column tbl "entry";
          do m <- compile_attribute en "meta";
          apply_function "getitem" (m :: firstn 1 ops)
        else if fname =? "any_meta" then
          (* any_meta(key) -> getitem(meta, key, getitem(entry.meta, key)) *)
          do m <- compile_column tbl "meta";
          do en <- compile_column tbl "entry";
          do em <- compile_attribute en "meta";
          do inner <- apply_function "getitem" (em :: firstn 1 ops);
          apply_function "getitem" (m :: firstn 1 ops ++ [inner])
        else Ok (build_call fname i o ops)
    end.

Definition compile_placeholder (pv : pvals) (name : string) (pos : Z) : result cnode cerr :=
  match (if name =? "" then assocZ pos (pv_pos pv) else assoc name (pv_named pv)) with
  | Some v => Ok (NConst v (type_of_cval v "object"))
  | None => Err EParamMissing          (* not reached after the validation in [compile] *)
  end.

Definition key_name (x : expr) : option string := match x with EColumn n => Some n | _ => None end.

Section WithSchema.
Variable sch : schema.
Variable pv : pvals.

Fixpoint comp (e : expr) (tbl : table) {struct e} : result cres cerr :=
  let nodes := fix nodes (l : list expr) : result (list cnode) cerr :=
                 match l with
                 | [] => Ok []
                 | x :: t => do n <- bind (comp x tbl) as_node; do ns <- nodes t; Ok (n :: ns)
                 end in
  let node (x : expr) := bind (comp x tbl) as_node in
  match e with
  | EColumn name => do n <- compile_column tbl name; Ok (RNode n)
  | EAnd args => do ns <- nodes args; Ok (RNode (NAnd ns))
  | EOr args => do ns <- nodes args; Ok (RNode (NOr ns))
  | EFunction fname args => do ops <- nodes args; do n <- build_function tbl fname ops; Ok (RNode n)
  | ESubscript x key =>
      do n <- node x;
      if isdict (dtype n) then Ok (RNode (NGetItem n key)) else Err ENotSubscriptable
  | EAttribute x name => do n <- node x; do g <- compile_attribute n name; Ok (RNode g)
  | EUnary op x => do n <- node x; do u <- build_unary op n; Ok (RNode u)
  | EBetween a lo hi =>
      do x <- node a; do l <- node lo; do h <- node hi; do b <- build_between x l h; Ok (RNode b)
  | EBinary op l r =>
      do x <- node l;
      if is_in_op op then do y <- comp r tbl; do n <- build_in_any op x y; Ok (RNode n)
      else do y <- node r; do b <- build_binary op x y; Ok (RNode b)
  | EConstant v => Ok (RNode (NConst v (type_of_cval v "object")))
  | EPlaceholder name pos => do n <- compile_placeholder pv name pos; Ok (RNode n)
  | EAsterisk => Ok (RNode (NConst (CScalar VNull) "*"))
  | ESelect targets fk fe wh grp ord piv lim dist =>
      do fr <- compile_from sch tbl fk (match fe with Some x => Some (comp x tbl) | None => None end);
      let '(tb, c_from) := fr in
      do c_targets <-
        match targets with
        | None => wildcard_targets tb        (* [Target(Column(name)) for name in table.wildcard_columns] *)
        | Some tlist =>
            (fix go (l : list (expr * option string * string)) : result (list ctarget) cerr :=
               match l with
               | [] => Ok []
               | (x, alias, text) :: t =>
                   do c <- compile_target x alias text (bind (comp x tb) as_node);
                   do rest <- go t; Ok (c :: rest)
               end) tlist
        end;
      do q <- finish_select tb c_from c_targets
        (match wh with Some x => Some (bind (comp x tb) as_node) | None => None end)
        (match grp with
         | Some (cols, having) =>
             Some ((fix go (l : list (Z + expr)) : list kref :=
                      match l with
                      | [] => []
                      | inl z :: t => inl z :: go t
                      | inr x :: t => inr (key_name x, bind (comp x tb) as_node) :: go t
                      end) cols,
                   match having with Some h => Some (bind (comp h tb) as_node) | None => None end)
         | None => None
         end)
        ((fix go (l : list ((Z + expr) * bool)) : list (kref * bool) :=
            match l with
            | [] => []
            | (inl z, d) :: t => (inl z, d) :: go t
            | (inr x, d) :: t => (inr (key_name x, bind (comp x tb) as_node), d) :: go t
            end) ord)
        piv lim dist;
      Ok (RQuery q)
  end.

End WithSchema.

(* ------------------------------------------------------------------ statement level *)

(* ast.walk: the placeholders of a statement *)
Fixpoint placeholders (e : expr) : list (string * Z) :=
  let many := fix many (l : list expr) : list (string * Z) :=
                match l with [] => [] | x :: t => placeholders x ++ many t end in
  let opt (o : option expr) := match o with Some x => placeholders x | None => [] end in
  match e with
  | EPlaceholder n p => [(n, p)]
  | EFunction _ args | EAnd args | EOr args => many args
  | EAttribute x _ | ESubscript x _ | EUnary _ x => placeholders x
  | EBinary _ l r => placeholders l ++ placeholders r
  | EBetween a l h => placeholders a ++ placeholders l ++ placeholders h
  | ESelect targets fk fe wh grp ord piv lim dist =>
      match targets with
      | Some l => (fix go (l : list (expr * option string * string)) : list (string * Z) :=
                     match l with [] => [] | (x, _, _) :: t => placeholders x ++ go t end) l
      | None => []
      end
      ++ match fe with Some x => placeholders x | None => [] end
      ++ match wh with Some x => placeholders x | None => [] end
      ++ match grp with
         | Some (cols, having) =>
             (fix go (l : list (Z + expr)) : list (string * Z) :=
                match l with [] => [] | inl _ :: t => go t | inr x :: t => placeholders x ++ go t end) cols
             ++ match having with Some x => placeholders x | None => [] end
         | None => []
         end
      ++ (fix go (l : list ((Z + expr) * bool)) : list (string * Z) :=
            match l with [] => [] | (inl _, _) :: t => go t | (inr x, _) :: t => placeholders x ++ go t end) ord
  | _ => []
  end.

(* compiler.check_subqueries: a SELECT below a statement is supported only as FROM clause of a SELECT and as right
   operand of IN / NOT IN.  [ok_here] says whether a SELECT is allowed at the position of [e] itself. *)
Fixpoint subqueries_ok (ok_here : bool) (e : expr) : bool :=
  let many := fix many (l : list expr) : bool :=
                match l with [] => true | x :: t => subqueries_ok false x && many t end in
  let opt (o : option expr) := match o with Some x => subqueries_ok false x | None => true end in
  match e with
  | EFunction _ args | EAnd args | EOr args => many args
  | EAttribute x _ | ESubscript x _ | EUnary _ x => subqueries_ok false x
  | EBinary op l r => subqueries_ok false l && subqueries_ok (is_in_op op) r
  | EBetween a l h => subqueries_ok false a && subqueries_ok false l && subqueries_ok false h
  | ESelect targets fk fe wh grp ord piv lim dist =>
      ok_here
      && match targets with
         | Some l => (fix go (l : list (expr * option string * string)) : bool :=
                        match l with [] => true | (x, _, _) :: t => subqueries_ok false x && go t end) l
         | None => true
         end
      && match fe with
         | Some x => subqueries_ok (match fk with FKSelect => true | _ => false end) x
         | None => true
         end
      && match wh with Some x => subqueries_ok false x | None => true end
      && match grp with
         | Some (cols, having) =>
             (fix go (l : list (Z + expr)) : bool :=
                match l with [] => true | inl _ :: t => go t | inr x :: t => subqueries_ok false x && go t end) cols
             && match having with Some x => subqueries_ok false x | None => true end
         | None => true
         end
      && (fix go (l : list ((Z + expr) * bool)) : bool :=
            match l with [] => true | (inl _, _) :: t => go t | (inr x, _) :: t => subqueries_ok false x && go t end) ord
  | _ => true
  end.

Definition opt_placeholders (o : option expr) := match o with Some x => placeholders x | None => [] end.
Definition opt_subqueries_ok (ok : bool) (o : option expr) := match o with Some x => subqueries_ok ok x | None => true end.

Definition stmt_placeholders (s : stmt) : list (string * Z) :=
  match s with
  | SSelect e => placeholders e
  | SBalances _ _ fe wh => opt_placeholders fe ++ opt_placeholders wh
  | SJournal _ _ _ fe => opt_placeholders fe
  | SPrint _ fe => opt_placeholders fe
  end.

Definition stmt_subqueries_ok (s : stmt) : bool :=
  match s with
  | SSelect e => subqueries_ok true e
  | SBalances _ fk fe wh => opt_subqueries_ok false fe && opt_subqueries_ok false wh
  | SJournal _ _ fk fe => opt_subqueries_ok false fe
  | SPrint fk fe => opt_subqueries_ok false fe
  end.

(* sorted(placeholders, key=pos): stable insertion sort *)
Fixpoint insert_pos (p : Z) (l : list Z) : list Z :=
  match l with
  | [] => [p]
  | q :: t => if (q <=? p)%Z then q :: insert_pos p t else p :: l
  end.
Definition sort_pos (l : list Z) : list Z := fold_left (fun acc p => insert_pos p acc) l [].

Fixpoint dedup (l : list string) : list string :=
  match l with [] => [] | x :: t => if mem_str x t then dedup t else x :: dedup t end.

(* the parameter validation at the head of Compiler.compile *)
Definition bind_params (p : params) (phs : list (string * Z)) : result pvals cerr :=
  match phs with
  | [] => Ok {| pv_pos := []; pv_named := [] |}
  | _ =>
      let names := map fst phs in
      if forallb (fun n => negb (n =? "")) names then
        match p with
        | PMap m => if forallb (fun n => match assoc n m with Some _ => true | None => false end) names
                    then Ok {| pv_pos := []; pv_named := m |} else Err EParamMissing
        | _ => Err EParamContainer
        end
      else if forallb (fun n => n =? "") names then
        match p with
        | PSeq l => if Nat.eqb (length phs) (length l)
                    then Ok {| pv_pos := combine (sort_pos (map snd phs)) l; pv_named := [] |}
                    else Err EParamCount
        | _ => Err EParamContainer
        end
      else Err EParamMixed
  end.

(* transform_balances / transform_journal: the cooked SELECT (names are the texts of the cooked statement) *)
Definition summarized (f : option string) (col : string) : expr * string :=
  match f with
  | Some fn => (EFunction fn [EColumn col], (fn ++ "(" ++ col ++ ")")%string)
  | None => (EColumn col, ("(" ++ col ++ ")")%string)
  end.

Definition transform_balances (f : option string) (fk : fromkind) (fe wh : option expr) : expr :=
  let '(inner, text) := summarized f "position" in
  let key := EFunction "account_sortkey" [EColumn "account"] in
  ESelect (Some [(EColumn "account", None, "account"); (EFunction "sum" [inner], None, ("SUM(" ++ text ++ ")")%string)])
          fk fe wh (Some ([inr (EColumn "account"); inr key], None)) [(inr key, false)] None None false.

Definition transform_journal (account : option value) (f : option string) (fk : fromkind) (fe : option expr) : expr :=
  let '(pos, ptext) := summarized f "position" in
  let '(bal, btext) := summarized f "balance" in
  let wh := match account with
            | Some (VStr (_ :: _ as s)) => Some (EBinary "Match" (EColumn "account") (EConstant (CScalar (VStr s))))
            | _ => None
            end in
  ESelect (Some [(EColumn "date", None, "date"); (EColumn "flag", None, "flag");
                 (EFunction "maxwidth" [EColumn "payee"; EConstant (CScalar (VInt 48))], None, "MAXWIDTH(payee, 48)");
                 (EFunction "maxwidth" [EColumn "narration"; EConstant (CScalar (VInt 80))], None, "MAXWIDTH(narration, 80)");
                 (EColumn "account", None, "account"); (pos, None, ptext); (bal, None, btext)])
          fk fe wh None [] None None false.

Definition default_table (sch : schema) (n : string) : table :=
  match find_table sch n with Some t => t | None => empty_table end.

Definition as_query (r : cres) : result cstmt cerr :=
  match r with RQuery q => Ok (CSelect q) | RNode _ => Err ESubqueryPosition end.

Definition compile (sch : schema) (p : params) (s : stmt) : result cstmt cerr :=
  do pv <- bind_params p (stmt_placeholders s);
  if negb (stmt_subqueries_ok s) then Err ESubqueryPosition else
  let postings := default_table sch "postings" in
  match s with
  | SSelect e => bind (comp sch pv e postings) as_query
  | SBalances f fk fe wh => bind (comp sch pv (transform_balances f fk fe wh) postings) as_query
  | SJournal a f fk fe => bind (comp sch pv (transform_journal a f fk fe) postings) as_query
  | SPrint fk fe =>
      (* self.table = entries; _compile_from: only the FROM-expression form reaches here from the grammar *)
      let entries := default_table sch "entries" in
      match fk with
      | FKNone => Ok (CPrint entries None)
      | _ =>
          do r <- comp sch pv (ESelect (Some []) fk fe None None [] None None false) entries;
          match r with
          | RQuery q => Ok (CPrint (cq_table q) (cq_where q))
          | RNode _ => Err ESubqueryPosition
          end
      end
  end.

(* ------------------------------------------------------------------ the schema of the snapshot *)
Definition snapshot_schema : schema :=
  map (fun '(n, cols, wild) =>
         mk_table n cols wild ((n =? "entries") || (n =? "postings")))
      R.tables.

(* ------------------------------------------------------------------ serialisation for the correspondence *)
Definition o_string (s : string) : out := OL (map (fun a => ON (Z.of_N (N_of_ascii a))) (list_ascii_of_string s)).

(* pre-order fingerprint of a compiled tree: node class and, for functions and operators, WHICH overload was chosen *)
Fixpoint fingerprint (n : cnode) : list Z :=
  let many := fix many (l : list cnode) : list Z := match l with [] => [] | x :: t => fingerprint x ++ many t end in
  match n with
  | NConst _ _ => [0%Z]
  | NCol _ _ => [1%Z]
  | NOp _ i args _ => 2%Z :: Z.of_nat i :: many args
  | NAnd args => 3%Z :: many args
  | NOr args => 4%Z :: many args
  | NCoalesce args _ => 5%Z :: many args
  | NFunc _ i args _ _ => 6%Z :: Z.of_nat i :: many args
  | NGetItem e _ => 7%Z :: fingerprint e
  | NGetter e _ _ => 8%Z :: fingerprint e
  | NSub1D => [9%Z]
  end.

Definition o_target (t : ctarget) : out :=
  OL [o_option o_string (ct_name t); o_string (dtype (ct_expr t)); o_bool (ct_agg t); OL (map ON (fingerprint (ct_expr t)))].

Definition o_query (q : cquery) : out :=
  OL [ON (match cq_pivots q with Some _ => 1 | None => 0 end)%Z;
      o_list o_target (cq_targets q);
      o_option (o_list o_nat) (cq_group q);
      o_option o_nat (cq_having q);
      o_option (o_list (fun '(i, d) => OL [o_nat i; o_bool d])) (cq_order q);
      o_option (fun '(a, b) => OL [o_nat a; o_nat b]) (cq_pivots q);
      o_option ON (cq_limit q);
      o_bool (cq_distinct q)].

Definition compile_out_with (user : schema) (p : params) (s : stmt) : out :=
  match compile (user ++ snapshot_schema) p s with
  | Ok (CSelect q) => OL [ON 0%Z; o_query q]
  | Ok (CPrint _ _) => OL [ON 0%Z; OL [ON 2%Z; OL []; OL []; OL []; OL []; OL []; OL []; ON 0%Z]]
  | Err e => OL [ON 1%Z; ON (cerr_code e)]
  end.
