(* C06 model, part 7: the semantic actions of beanquery/parser/__init__.py (class BQLSemantics)
   over the generic nodes of Model/Peg.v, the mapping of the resulting object tree to the
   statements of Model/Ast.v (the dataclasses of parser/ast.py), and

     peg_parse : text -> option stmt

   = the generic PEG interpreter of Model/Peg.v run on the grammar value REGENERATED from
   bql.ebnf (Gen.Grammar.grammar) with these actions.  Only this file knows BQL rule and
   class names; they are the method names of BQLSemantics and the class names of ast.py. *)
From Coq Require Import ZArith NArith List Bool String Ascii.
Import ListNotations.
From Verif Require Import Base.Out Model.Ast Model.Lexer Model.Grammar Model.Parser Model.Printer Model.AstOut.
From Verif Require Gen.Grammar.
From Verif Require Import Model.Peg.
Local Open Scope list_scope.

Definition seqb (a b : string) : bool := String.eqb a b.

(* typename.split('::')[0] *)
Fixpoint before_colons (s : string) : string :=
  match s with
  | EmptyString => EmptyString
  | String a r => match r with
                  | String b _ => if Ascii.eqb a ":"%char && Ascii.eqb b ":"%char then EmptyString
                                  else String a (before_colons r)
                  | EmptyString => String a EmptyString
                  end
  end.

(* name.rstrip('_') *)
Fixpoint rstrip_us (s : string) : string :=
  match s with
  | EmptyString => EmptyString
  | String a r => match rstrip_us r with
                  | EmptyString => if Ascii.eqb a "_"%char then EmptyString else String a EmptyString
                  | r' => String a r'
                  end
  end.

Definition unmark (n : node) : node := match n with NNullMark => NNone | x => x end.

(* decimal.Decimal(text) for a text matched by the decimal pattern *)
Definition dec_of (s : str) : node :=
  let (ds, r) := span is_digit s in
  let fs := match r with _ :: r1 => fst (span is_digit r1) | [] => [] end in
  NDec (digits_val (ds ++ fs)) (List.length fs).

(* BQLSemantics: one case per method; _default builds ast.<typename> from the fields *)
Definition bql_act (r : string) (ps : list string) (n : node) : option node :=
  if seqb r "null" then Some NNullMark
  else if seqb r "integer" then match n with NStr s => Some (NInt (digits_val s)) | _ => None end
  else if seqb r "decimal" then match n with NStr s => Some (dec_of s) | _ => None end
  else if seqb r "date" then
    match n with
    | NStr s => match lex_date s with
                | Some (y, m, d, _) => if valid_date y m d then Some (NDate y m d) else None
                | None => None
                end
    | _ => None
    end
  else if seqb r "string" then match n with NStr s => Some (NStr (removelast (tl s))) | _ => None end
  else if seqb r "boolean" then Some (NBool match n with NStr s => str_eqb s (str_of_string "TRUE") | _ => false end)
  else if seqb r "identifier" then match n with NStr s => Some (NStr (map lower s)) | _ => None end
  else if seqb r "asterisk" then Some NAsterisk
  else if seqb r "list" then match n with NClos l | NList l => Some (NList (map unmark l)) | _ => None end
  else if seqb r "ordering" then
    match n with
    | NNone => Some (NOrd false)
    | NStr s => if str_eqb s (str_of_string "DESC") then Some (NOrd true)
                else if str_eqb s (str_of_string "ASC") then Some (NOrd false) else None
    | _ => None
    end
  else
    match ps with
    | [] => Some n
    | ty :: _ => match n with
                 | NDict fs => Some (NObj (before_colons ty) (map (fun kv => (rstrip_us (fst kv), unmark (snd kv))) fs))
                 | _ => None
                 end
    end.

(* ---------------------------------------------------------------------- *)
(* objects of parser/ast.py -> Model/Ast.v *)

Definition fld (k : string) (fs : list (string * node)) : node :=
  match alist_get k fs with Some n => n | None => NNone end.

Fixpoint mapM {A B} (f : A -> option B) (l : list A) : option (list B) :=
  match l with
  | [] => Some []
  | a :: r => match f a, mapM f r with Some b, Some bs => Some (b :: bs) | _, _ => None end
  end.

Definition to_lit (n : node) : option lit :=
  match n with
  | NNone => Some LNull
  | NBool b => Some (LBool b)
  | NInt k => Some (LInt k)
  | NDec m s => Some (LDec m s)
  | NDate y m d => Some (LDate y m d)
  | NStr s => Some (LStr s)
  | _ => None
  end.
Definition to_str (n : node) : option str := match n with NStr s => Some s | _ => None end.
Definition to_ostr (n : node) : option (option str) :=
  match n with NNone => Some None | NStr s => Some (Some s) | _ => None end.
Definition to_flag (n : node) : option bool :=
  match n with NNone => Some false | NTrue => Some true | _ => None end.
Definition to_odate (n : node) : option (option date) :=
  match n with NNone => Some None | NDate y m d => Some (Some (y, m, d)) | _ => None end.
Definition to_oN (n : node) : option (option N) :=
  match n with NNone => Some None | NInt k => Some (Some k) | _ => None end.
Definition opt_of {A} (f : node -> option A) (n : node) : option (option A) :=
  match n with NNone => Some None | _ => match f n with Some a => Some (Some a) | None => None end end.
Definition to_pcol (n : node) : option (N + str) :=
  match n with
  | NInt k => Some (inl k)
  | NObj ty fs => if seqb ty "Column" then match fld "name" fs with NStr s => Some (inr s) | _ => None end else None
  | _ => None
  end.

Definition arith_of (ty : string) : option arith :=
  if seqb ty "Add" then Some Add else if seqb ty "Sub" then Some Sub else if seqb ty "Mul" then Some Mul
  else if seqb ty "Div" then Some Div else if seqb ty "Mod" then Some Mod else None.
Definition cmp_of (ty : string) : option cmp :=
  if seqb ty "Less" then Some Lt else if seqb ty "LessEq" then Some Le else if seqb ty "Greater" then Some Gt
  else if seqb ty "GreaterEq" then Some Ge else if seqb ty "Equal" then Some Eq else if seqb ty "NotEqual" then Some Ne
  else if seqb ty "In" then Some In else if seqb ty "NotIn" then Some NotIn else if seqb ty "Match" then Some Match
  else if seqb ty "NotMatch" then Some NotMatch else None.

Notation "'do' x <- a ; k" := (match a with Some x => k | None => None end)
  (at level 200, x pattern, a at level 100, k at level 200, only parsing).

Fixpoint to_expr (fuel : nat) (n : node) : option expr :=
  match fuel with
  | O => None
  | S f =>
    let te := to_expr f in
    let to_gcol (c : node) : option (N + expr) :=
      match c with NInt k => Some (inl k) | _ => do e <- te c; Some (inr e) end in
    let to_from (c : node) : option (fromc expr) :=
      match c with
      | NObj ty fs =>
        if seqb ty "Table" then do s <- to_str (fld "name" fs); Some (FTable s)
        else if seqb ty "Select" then do e <- te c; Some (FSub e)
        else if seqb ty "From" then
          do e <- opt_of te (fld "expression" fs);
          do o <- to_odate (fld "open" fs);
          do cl <- match fld "close" fs with
                   | NNone => Some None
                   | NTrue => Some (Some None)
                   | NDate y m d => Some (Some (Some (y, m, d)))
                   | _ => None
                   end;
          do clr <- to_flag (fld "clear" fs);
          Some (FFrom e o cl clr)
        else None
      | _ => None
      end in
    match n with
    | NObj ty fs =>
      if seqb ty "Constant" then
        match fld "value" fs with
        | NList l | NClos l => do ls <- mapM to_lit l; Some (EList ls)
        | v => do l <- to_lit v; Some (EConst l)
        end
      else if seqb ty "Column" then do s <- to_str (fld "name" fs); Some (EColumn s)
      else if seqb ty "Function" then
        do fn <- to_str (fld "fname" fs);
        match fld "operands" fs with
        | NList [NAsterisk] => Some (EFuncStar fn)
        | NClos l | NList l => do args <- mapM te l; Some (EFunc fn args)
        | _ => None
        end
      else if seqb ty "Placeholder" then do s <- to_str (fld "name" fs); Some (EPlace s)
      else if seqb ty "Attribute" then
        do a <- te (fld "operand" fs); do s <- to_str (fld "name" fs); Some (EAttr a s)
      else if seqb ty "Subscript" then
        do a <- te (fld "operand" fs); do s <- to_str (fld "key" fs); Some (ESubscript a s)
      else if seqb ty "Neg" then do a <- te (fld "operand" fs); Some (ENeg a)
      else if seqb ty "Not" then do a <- te (fld "operand" fs); Some (ENot a)
      else if seqb ty "IsNull" then do a <- te (fld "operand" fs); Some (EIsNull a)
      else if seqb ty "IsNotNull" then do a <- te (fld "operand" fs); Some (EIsNotNull a)
      else if seqb ty "Between" then
        do a <- te (fld "operand" fs); do lo <- te (fld "lower" fs); do hi <- te (fld "upper" fs);
        Some (EBetween a lo hi)
      else if seqb ty "And" then
        match fld "args" fs with NList l => do args <- mapM te l; Some (EAnd args) | _ => None end
      else if seqb ty "Or" then
        match fld "args" fs with NList l => do args <- mapM te l; Some (EOr args) | _ => None end
      else if seqb ty "Select" then
        do d <- to_flag (fld "distinct" fs);
        do tg <- match fld "targets" fs with
                 | NAsterisk => Some None
                 | NClos l =>
                   do ts <- mapM (fun t => match t with
                                           | NObj tty tfs =>
                                             if seqb tty "Target" then
                                               do e <- te (fld "expression" tfs);
                                               do nm <- to_ostr (fld "name" tfs); Some (e, nm)
                                             else None
                                           | _ => None
                                           end) l;
                   Some (Some ts)
                 | _ => None
                 end;
        do fc <- opt_of to_from (fld "from_clause" fs);
        do w <- opt_of te (fld "where_clause" fs);
        do gb <- opt_of (fun c => match c with
                                  | NObj gty gfs =>
                                    if seqb gty "GroupBy" then
                                      match fld "columns" gfs with
                                      | NClos l => do cols <- mapM to_gcol l;
                                                   do h <- opt_of te (fld "having" gfs); Some (cols, h)
                                      | _ => None
                                      end
                                    else None
                                  | _ => None
                                  end) (fld "group_by" fs);
        do ob <- match fld "order_by" fs with
                 | NNone => Some []
                 | NClos l => mapM (fun c => match c with
                                             | NObj oty ofs =>
                                               if seqb oty "OrderBy" then
                                                 do col <- to_gcol (fld "column" ofs);
                                                 match fld "ordering" ofs with
                                                 | NOrd b => Some (col, b)
                                                 | _ => None
                                                 end
                                               else None
                                             | _ => None
                                             end) l
                 | _ => None
                 end;
        do pv <- opt_of (fun c => match c with
                                  | NObj pty pfs =>
                                    if seqb pty "PivotBy" then
                                      match fld "columns" pfs with
                                      | NList [c1; c2] => do a <- to_pcol c1; do b <- to_pcol c2; Some (a, b)
                                      | _ => None
                                      end
                                    else None
                                  | _ => None
                                  end) (fld "pivot_by" fs);
        do lim <- to_oN (fld "limit" fs);
        Some (ESelect d tg fc w gb ob pv lim)
      else
        match arith_of ty, cmp_of ty with
        | Some op, _ => do a <- te (fld "left" fs); do b <- te (fld "right" fs); Some (EArith op a b)
        | None, Some op => do a <- te (fld "left" fs); do b <- te (fld "right" fs); Some (ECmp op a b)
        | None, None => None
        end
    | _ => None
    end
  end.

(* from_clause of BALANCES / JOURNAL / PRINT: always an ast.From *)
Definition to_only_from (fuel : nat) (c : node) : option (fromc expr) :=
  match c with
  | NObj ty fs =>
    if seqb ty "From" then
      match to_expr fuel (NObj "Select" [("targets", NAsterisk); ("from_clause", c)]) with
      | Some (ESelect _ _ (Some fc) _ _ _ _ _) => Some fc
      | _ => None
      end
    else None
  | _ => None
  end.

Definition to_stmt (fuel : nat) (n : node) : option stmt :=
  match n with
  | NObj ty fs =>
    if seqb ty "Select" then do e <- to_expr fuel n; Some (SSelect e)
    else if seqb ty "Balances" then
      do sf <- to_ostr (fld "summary_func" fs);
      do fc <- opt_of (to_only_from fuel) (fld "from_clause" fs);
      do w <- opt_of (to_expr fuel) (fld "where_clause" fs);
      Some (SBalances sf fc w)
    else if seqb ty "Journal" then
      do a <- to_ostr (fld "account" fs);
      do sf <- to_ostr (fld "summary_func" fs);
      do fc <- opt_of (to_only_from fuel) (fld "from_clause" fs);
      Some (SJournal a sf fc)
    else if seqb ty "Print" then
      do fc <- opt_of (to_only_from fuel) (fld "from_clause" fs);
      Some (SPrint fc)
    else None
  | _ => None
  end.

Definition conv_fuel (cs : str) : nat := (20 + List.length cs)%nat.

(* the PEG interpreter on the regenerated grammar, with the BQL actions *)
Definition peg_parse_with (g : grammar_t) (cs : str) : option stmt :=
  match peg_run g bql_act cs with
  | Some (Some n) => to_stmt (conv_fuel cs) n
  | _ => None
  end.
Definition peg_parse (cs : str) : option stmt := peg_parse_with Gen.Grammar.grammar cs.

(* correspondence output: [] rejected, [stmt] accepted (as parse_out); 98 = the node of an
   accepted text is not a statement object of ast.py; 99 = out of fuel *)
Definition peg_out (cs : str) : Base.Out.out :=
  match peg_run Gen.Grammar.grammar bql_act cs with
  | None => ON 99
  | Some None => OL []
  | Some (Some n) => match to_stmt (conv_fuel cs) n with
                     | Some st => OL [o_stmt st]
                     | None => ON 98
                     end
  end.
(* the hand-written parser and the PEG interpreter side by side *)
Definition both_out (cs : str) : Base.Out.out := OL [parse_out cs; peg_out cs].
