(* C04: the cast functions the compiler inserts for an untyped (object) operand, taken from C18's models of
   query_env int_/decimal_/date_/str_/bool_ (Model/StrFuncs.v), restricted to Base.PyValue values: a str that
   Decimal() reads as Infinity/NaN leaves the value universe and is marked VErr 97 (not generated). *)
From Coq Require Import String ZArith List Bool.
Import ListNotations.
From Verif Require Import Base.Out Base.PyValue Base.Decimal Model.Eval Model.Exec Model.Dates Model.StrFuncs Model.Typing.
Open Scope Z_scope.

Definition unx (x : xval) : value := match x with XV w => w | XSpec _ _ => VErr 97 end.

Definition castf18 (tg : ty) (v : value) : value :=
  match tg with
  | TDec => unx (cast_decimal (XV v))
  | TDate => unx (cast_date (XV v))
  | TStr => unx (cast_str (XV v))
  | TBool => unx (cast_bool (XV v))
  | TInt => unx (cast_int (XV v))
  | _ => VErr 98
  end.

(* dtype of each target under the cast-aware typing and, per row, whether every cell of the compiled tree inhabits it *)
Definition typing_c_out (cols : list ty) (targets : list enode) (rows : list row) : out :=
  OL [OL (map (fun e => o_ty (type_of_c cols [] e)) targets);
      OL (map (fun r => OL (map (fun e => match type_of_c cols [] e with
                                          | Some t => o_bool (has_type (eval_c cols [] castf18 r [] e) t)
                                          | None => ON 2
                                          end) targets)) rows)].

(* values too, for the rows comparison of cast trees *)
Definition eval_c_out (cols : list ty) (e : enode) (rows : list row) : out :=
  OL (map (fun r => o_value (eval_c cols [] castf18 r [] e)) rows).
