(* C12 -- primitive semantics for the translated inventory aggregators (group `agginv`: Gen/SrcAggInv.v, generated on
   every run from SumAmount / SumPosition / SumInventory of beanquery/query_env.py and the EvalAggregator protocol
   methods of query_compile.py they inherit, by harness/vf/src_agginv.py).  Definitions only; proofs in
   Proofs/SrcAggInv.v.  TRUSTED: this file fixes how the objects the translated methods touch are encoded and what the
   Beancount calls are assumed to do.

   Objects
     aggregate store      a Python list indexed by handle: PList of the slot values (PrimsAgg's encoding; the slots of the
                          other aggregates of the query are arbitrary values)
     aggregator node      the receiver: its attributes handle (an int), dtype (an opaque callable), operands (a list of
                          opaque compiled expressions), value
     Inventory / Position PrimsLedger.Inv's encodings (enc_inv / enc_position); an Amount is PTuple [number; currency]
                          (the shape PrimsEnvLedger.enc_iamount uses)

   Library (beancount.core.inventory.Inventory), on a receiver that is NOT aliased (rule A10 of src_agginv.py: the
   receiver is the local `$slot`, read from the store slot just before and written back right after)
     "method:add_amount"    [inv; amount]    Model/Inventory.add_amount inv amount None   (cost defaults to None)
     "method:add_position"  [inv; position]  Model/Inventory.add_position
     "method:add_inventory" [inv; other]     Model/Inventory.add_inventory
   each returning PTuple [receiver'; None]: the value the Python method returns (the position before and the booking,
   or self) is NOT modelled - rule A10 only admits the call as an expression statement, which discards it.
   Arguments that do not decode are Stuck.  Everything else is PrimsAgg.prims0 ("stmt:setitem": replacement at an index
   of a list, IndexError outside). *)
From Coq Require Import String ZArith List Bool.
Import ListNotations.
From Verif Require Import Base.PyValue Model.Eval Model.PyMini Model.PrimsLedger Model.PrimsAgg.
From Verif Require Model.Inventory.
Open Scope string_scope.
Open Scope list_scope.
Open Scope Z_scope.

Definition enc_amt (a : Inventory.amount) : pv := PTuple [PInt (fst a); PInt (snd a)].
Definition dec_amt (v : pv) : option Inventory.amount :=
  match v with PTuple [PV (VInt n); PV (VInt c)] => Some (n, c) | _ => None end.

Definition inv_method (name : string) (args : list pv) : option (res pv) :=
  if String.eqb name "method:add_amount" then
    Some match args with
         | [i; a] =>
             match Inv.dec_inv i, dec_amt a with
             | Some i', Some a' => Ok (PTuple [Inv.enc_inv (Inventory.add_amount i' a' None); PNone])
             | _, _ => Stuck
             end
         | _ => Stuck
         end
  else if String.eqb name "method:add_position" then
    Some match args with
         | [i; p] =>
             match Inv.dec_inv i, Inv.dec_position p with
             | Some i', Some p' => Ok (PTuple [Inv.enc_inv (Inventory.add_position i' p'); PNone])
             | _, _ => Stuck
             end
         | _ => Stuck
         end
  else if String.eqb name "method:add_inventory" then
    Some match args with
         | [i; o] =>
             match Inv.dec_inv i, Inv.dec_inv o with
             | Some i', Some o' => Ok (PTuple [Inv.enc_inv (Inventory.add_inventory i' o'); PNone])
             | _, _ => Stuck
             end
         | _ => Stuck
         end
  else None.

Definition prims_agginv (name : string) (args : list pv) : res pv :=
  match inv_method name args with
  | Some r => r
  | None => prims0 name args
  end.

(* the node's attributes (PrimsAgg.node_fields): handle i, dtype the opaque callable kd, one operand ko *)
Definition inv_node (i kd ko : nat) (value : pv) : env :=
  node_fields (PInt (Z.of_nat i)) (PRef kd) (PList [PRef ko]) value.

(* the three kinds of operand values of sum(); NULL is None *)
Inductive operand := OAmount (a : Inventory.amount) | OPosition (p : Inventory.position) | OInventory (i : Inventory.inventory).
Inductive kind := KAmount | KPosition | KInventory.
Definition kind_of (o : operand) : kind :=
  match o with OAmount _ => KAmount | OPosition _ => KPosition | OInventory _ => KInventory end.
Definition enc_operand (o : option operand) : pv :=
  match o with
  | None => PNone
  | Some (OAmount a) => enc_amt a
  | Some (OPosition p) => Inv.enc_position p
  | Some (OInventory i) => Inv.enc_inv i
  end.
(* every non-NULL value of the group is of the kind the aggregator class is registered for *)
Definition of_kind (k : kind) (vals : list (option operand)) : Prop :=
  Forall (fun v => match v with Some o => kind_of o = k | None => True end) vals.

(* Model/Inventory.v's accumulation step for each kind, and the sum of a group's values (NULL skipped, in order):
   on values of one kind it is Inventory.sum_amount / sum_position / sum_inventory (Proofs/SrcAggInv.v) *)
Definition add_operand (b : Inventory.inventory) (o : operand) : Inventory.inventory :=
  match o with
  | OAmount a => Inventory.add_amount b a None
  | OPosition p => Inventory.add_position b p
  | OInventory i => Inventory.add_inventory b i
  end.
Definition add_value (b : Inventory.inventory) (v : option operand) : Inventory.inventory :=
  match v with Some o => add_operand b o | None => b end.
Definition sum_operands (vals : list (option operand)) : Inventory.inventory := fold_left add_value vals [].
