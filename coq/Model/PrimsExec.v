(* Primitive semantics for the translated executor core (group `exec`, Gen/SrcExec.v, generated from
   beanquery/query_execute.py): what the library calls the translated statements make are ASSUMED to do.  This file is
   part of the trusted base of the C03/C01 `*_source_*` theorems.

   Library functions are given the semantics the hand-written models already use:
     list.sort(key=, reverse=)   Base/StableSort.py_sort under Model/Order.tuple_le on the keys (decorate, sort,
                                  undecorate: the key function is called once per element, in order)
     itertools.groupby(l, key=)   maximal runs of consecutive elements with equal keys (shape of Order.runs)
     reversed, tuple, list, set() the obvious list functions; a set is the list of its members in insertion order
     itertools.islice(l, n)       firstn; ValueError for n < 0
     min(a, b)                    Z.min on ints
     operator.itemgetter(i)       a closure value; calling it indexes
     list * int, l.index(x)       repetition; position of the first element == x (ValueError if none)
     out[lo:hi] = vals            ("stmt:setslice", on a local list) Python's slice assignment with clipped bounds
   Closures are data: calling opaque callable k on arguments args yields `partial_clo k args` (an object that remembers
   which function was called with what); applying it ([apply_key]) interprets the TRANSLATED inner functions of
   nullitemgetter (passed in as parameters so that this file does not depend on generated code).

   A sort key is a non-None scalar, the NULL sentinel (the only opaque object the key functions produce: `PRef`), or a
   tuple of these.  A key containing None is outside the model (Python raises TypeError when it is compared): the sort
   primitive is then [Stuck], so a theorem about a sort is also a proof that the key function never lets None through.
   NULL is modelled as VNull, which Base/PyValue.val_le puts below everything (NullType.__lt__).  Keys of different
   type rank are ordered by rank (Python raises TypeError; typed BQL columns are homogeneous: assumption of C03). *)
From Coq Require Import String ZArith List Bool.
Import ListNotations.
From Verif Require Import Base.StableSort Base.PyValue Model.Eval Model.Order Model.PyMini.
Open Scope string_scope.
Open Scope list_scope.
Open Scope Z_scope.

Definition sys_maxsize : Z := 9223372036854775807.

Fixpoint mapM {A B} (f : A -> res B) (l : list A) : res (list B) :=
  match l with
  | [] => Ok []
  | a :: t => bind (f a) (fun b => bind (mapM f t) (fun bs => Ok (b :: bs)))
  end.

Fixpoint map_opt {A B} (f : A -> option B) (l : list A) : option (list B) :=
  match l with
  | [] => Some []
  | a :: t => match f a, map_opt f t with Some b, Some bs => Some (b :: bs) | _, _ => None end
  end.

(* calling a translated plain FUNCTION (no receiver): the returned value; a generator function returns what it yields *)
Definition call_fun (call_ref : nat -> list pv -> pv) (prim : string -> list pv -> res pv) (f : fdef)
           (args : list pv) : res pv :=
  match bind_params (f_params f) args with
  | None => Exc TypeError
  | Some loc =>
      do o <- exec_block call_ref prim {| locals := loc; fields := [] |} (f_body f);
      let s' := match o with Next s => s | Ret s _ => s end in
      if f_gen f then Ok (match lookup yield_var (locals s') with Some y => y | None => PList [] end)
      else match o with Next _ => Ok PNone | Ret _ v => Ok v end
  end.

(* a result as the value an opaque call returns (an exception is an error value, as in PyMini.do_call) *)
Definition res_pv (r : res pv) : pv :=
  match r with Ok v => v | Exc k => PV (VErr k) | Stuck => PV (VErr 0) end.

Definition seq_items (v : pv) : option (list pv) :=
  match v with PList l | PTuple l => Some l | _ => None end.

(* ------------------------------------------------------------------ closures *)
Definition itemgetter_clo (i : pv) : pv := PTuple [PNone; i].
Definition partial_clo (k : nat) (args : list pv) : pv := PTuple (PRef k :: args).

(* ------------------------------------------------------------------ sort keys *)
Definition key_value (k : pv) : option value :=
  match k with
  | PV VNull => None
  | PV v => Some v
  | PRef _ => Some VNull
  | _ => None
  end.
Definition key_values (k : pv) : option (list value) :=
  match k with
  | PTuple l => map_opt key_value l
  | _ => match key_value k with Some v => Some [v] | None => None end
  end.

(* ------------------------------------------------------------------ groupby *)
Fixpoint group_runs (l : list (pv * pv)) : list (pv * list pv) :=      (* (key, element) *)
  match l with
  | [] => []
  | (k, x) :: t =>
      match group_runs t with
      | (k', xs) :: rest => if pv_eqb k k' then (k, x :: xs) :: rest else (k, [x]) :: (k', xs) :: rest
      | [] => [(k, [x])]
      end
  end.

(* ------------------------------------------------------------------ objects with attributes (tuples of their fields) *)
(* the compiled query as far as the translated statements read it: query.table, query.distinct, query.limit *)
Definition query_obj (table distinct limit : pv) : pv := PTuple [table; distinct; limit].

(* set(l): the distinct (==) members in first-occurrence order.  CPython iterates a set in hash order; every use in the
   translated statements sorts the set by a key order whose ties are exactly ==, so the order does not matter. *)
Fixpoint nub_pv (seen : list pv) (l : list pv) : list pv :=
  match l with
  | [] => []
  | x :: t => if existsb (pv_eqb x) seen then nub_pv seen t else x :: nub_pv (seen ++ [x]) t
  end.

(* an f-string is not interpreted: the record of its parts (two names are equal iff their parts are) *)
Definition fstring_obj (parts : list pv) : pv := PList (PV (VStr [102; 39]) :: parts).

(* objects with two fields: EvalPivot(query, pivots) and Column(name, datatype) *)
Definition pivot_obj (q pivots : pv) : pv := PTuple [q; pivots].
Definition column_obj (name datatype : pv) : pv := PTuple [name; datatype].
Definition RuntimeError : Z := 10.

Fixpoint find_index (x : pv) (l : list pv) : option nat :=
  match l with
  | [] => None
  | y :: t => if pv_eqb y x then Some 0%nat else option_map S (find_index x t)
  end.

(* ------------------------------------------------------------------ first-order primitives *)
Definition prims_base (name : string) (args : list pv) : res pv :=
  if String.eqb name "builtins.set" then
    match args with
    | [] => Ok (PList [])
    | [v] => match seq_items v with Some l => Ok (PList (nub_pv [] l)) | None => Stuck end
    | _ => Stuck
    end
  else if String.eqb name "sorted_by" then          (* sorted(xs, key=f), given the list of f's values on xs *)
    match args with
    | [PList xs; PList keys] =>
        match map_opt key_values keys with
        | Some ks => if Nat.eqb (length ks) (length xs)
                     then Ok (PList (map snd (py_sort (on fst tuple_le) false (combine ks xs)))) else Stuck
        | None => Stuck
        end
    | _ => Stuck
    end
  else if String.eqb name "builtins.range" then
    match args with [PV (VInt n)] => Ok (PList (map (fun i => PInt (Z.of_nat i)) (seq 0 (Z.to_nat n)))) | _ => Stuck end
  else if String.eqb name "itertools.product" then
    match args with
    | [a; b] => match seq_items a, seq_items b with
                | Some x, Some y => Ok (PList (flat_map (fun u => map (fun v => PTuple [u; v]) y) x))
                | _, _ => Stuck
                end
    | _ => Stuck
    end
  else if String.eqb name "builtins.zip" then
    match args with
    | [a; b] => match seq_items a, seq_items b with
                | Some x, Some y => Ok (PList (map (fun p => PTuple [fst p; snd p]) (combine x y)))
                | _, _ => Stuck
                end
    | _ => Stuck
    end
  else if String.eqb name "fstring" then Ok (fstring_obj args)
  else if String.eqb name "attr:query" then match args with [PTuple [q; _]] => Ok q | _ => Stuck end
  else if String.eqb name "attr:pivots" then match args with [PTuple [_; p]] => Ok p | _ => Stuck end
  else if String.eqb name "attr:name" then match args with [PTuple [n; _]] => Ok n | _ => Stuck end
  else if String.eqb name "attr:datatype" then match args with [PTuple [_; d]] => Ok d | _ => Stuck end
  (* the class of an object is recognised by its number of fields: EvalQuery is query_obj, EvalPivot is pivot_obj *)
  else if String.eqb name "isinstance:beanquery.query_compile.EvalQuery" then
    match args with [PTuple [_; _; _]] => Ok (PBool true) | [_] => Ok (PBool false) | _ => Stuck end
  else if String.eqb name "isinstance:beanquery.query_compile.EvalPivot" then
    match args with [PTuple [_; _]] => Ok (PBool true) | [_] => Ok (PBool false) | _ => Stuck end
  else if String.eqb name "raise:builtins.RuntimeError" then Exc RuntimeError
  else if String.eqb name "builtins.tuple" then
    match args with [v] => match seq_items v with Some l => Ok (PTuple l) | None => Stuck end | _ => Stuck end
  else if String.eqb name "builtins.list" then
    match args with [v] => match seq_items v with Some l => Ok (PList l) | None => Stuck end | _ => Stuck end
  else if String.eqb name "builtins.reversed" then
    match args with [v] => match seq_items v with Some l => Ok (PList (rev l)) | None => Stuck end | _ => Stuck end
  else if String.eqb name "builtins.min" then
    match args with [PV (VInt a); PV (VInt b)] => Ok (PInt (Z.min a b)) | _ => Stuck end
  else if String.eqb name "itertools.islice" then
    match args with
    | [v; PV (VInt n)] =>
        match seq_items v with
        | Some l => if n <? 0 then Exc ValueError else Ok (PList (firstn (Z.to_nat n) l))
        | None => Stuck
        end
    | _ => Stuck
    end
  else if String.eqb name "operator.itemgetter" then
    match args with [PV (VInt i)] => Ok (itemgetter_clo (PInt i)) | _ => Stuck end
  else if String.eqb name "binop:mul" then                              (* list * int *)
    match args with [PList l; PV (VInt n)] => Ok (PList (concat (repeat l (Z.to_nat n)))) | _ => Stuck end
  else if String.eqb name "call:index" then                             (* l.index(x): first i with l[i] == x *)
    match args with
    | [v; x] =>
        match seq_items v with
        | Some l => match find_index x l with Some i => Ok (PInt (Z.of_nat i)) | None => Exc ValueError end
        | None => Stuck
        end
    | _ => Stuck
    end
  else if String.eqb name "stmt:setslice" then                          (* out[lo:hi] = vals, on a list *)
    match args with
    | [PList out; PV (VInt lo); PV (VInt hi); v] =>
        match seq_items v with
        | Some vals =>
            let len := Z.of_nat (length out) in
            let a := clipz len lo in
            let b := Z.max a (clipz len hi) in
            Ok (PList (firstn (Z.to_nat a) out ++ vals ++ skipn (Z.to_nat b) out))
        | None => Stuck
        end
    | _ => Stuck
    end
  else if String.eqb name "attr:table" then match args with [PTuple [t; _; _]] => Ok t | _ => Stuck end
  else if String.eqb name "attr:distinct" then match args with [PTuple [_; d; _]] => Ok d | _ => Stuck end
  else if String.eqb name "attr:limit" then match args with [PTuple [_; _; n]] => Ok n | _ => Stuck end
  else Stuck.

(* ------------------------------------------------------------------ higher-order primitives *)
Section HigherOrder.
Variable apply_key : pv -> pv -> res pv.        (* calling a key function (a closure value) on one element *)

Definition sort_prim (rows : list pv) (clo : pv) (d : bool) : res pv :=
  do keys <- mapM (apply_key clo) rows;
  match map_opt key_values keys with
  | None => Stuck
  | Some ks => Ok (PTuple [PList (map snd (py_sort (on fst tuple_le) d (combine ks rows))); PNone])
  end.

Definition groupby_prim (l : list pv) (clo : pv) : res pv :=
  do keys <- mapM (apply_key clo) l;
  Ok (PList (map (fun g => PTuple [fst g; PList (snd g)]) (group_runs (combine keys l)))).

Definition prims_hi (name : string) (args : list pv) : res pv :=
  if String.eqb name "method:sort:key,reverse" then
    match args with [PList rows; clo; PV (VBool d)] => sort_prim rows clo d | _ => Stuck end
  else if String.eqb name "method:sort:key" then
    match args with [PList rows; clo] => sort_prim rows clo false | _ => Stuck end
  else if String.eqb name "itertools.groupby:key" then
    match args with
    | [v; clo] => match seq_items v with Some l => groupby_prim l clo | None => Stuck end
    | _ => Stuck
    end
  else prims_base name args.
End HigherOrder.

(* ------------------------------------------------------------------ applying closures *)
Section Closures.
Variable call_ref : nat -> list pv -> pv.
Variables (nig_single nig_multi : fdef).     (* the translated inner functions of nullitemgetter *)
Variable k_nig : nat.                        (* the opaque-callable number of nullitemgetter in the refs table *)

(* nullitemgetter(item, *items): `if items: items = (item, *items); return <multi>` else `return <single>`
   (harness/vf/src_exec.py checks that the outer function has exactly this shape) *)
Definition apply_nig (args : list pv) (obj : pv) : res pv :=
  match args with
  | [] => Exc TypeError
  | [item] => call_fun call_ref prims_base nig_single [item; obj]
  | item :: items => call_fun call_ref prims_base nig_multi [PTuple (item :: items); obj]
  end.

Definition apply_key (clo obj : pv) : res pv :=
  match clo with
  | PTuple [PV VNull; PV (VInt i)] =>                                   (* operator.itemgetter(i) *)
      match seq_items obj with Some l => index_at l i | None => Stuck end
  | PTuple (PRef k :: args) => if Nat.eqb k k_nig then apply_nig args obj else Stuck
  | _ => Stuck
  end.

Definition prims_exec : string -> list pv -> res pv := prims_hi apply_key.
End Closures.
