(* Model of beanquery/query_render.py (+ render/text.py, render/csv.py):
   the two-phase column renderers (update over all non-NULL values, prepare fixes
   the width, format), render_rows (NULL placeholder, list-cell expansion,
   spacing rows), render_text (widths, header centring, box styles) and
   render_csv over a model of csv.writer's minimal quoting.
   Strings are lists of code points.  Widths are [nat]; Decimal exponents [Z].
   Amount / Position / Inventory renderers format numbers through Beancount's
   DisplayContext: they are modelled over an abstract ledger quantiser [quant]
   and an abstract column number formatter [numfmt] (Section variables). *)
From Coq Require Import ZArith QArith List Bool Arith.
Import ListNotations.
From Verif Require Import Base.Out Base.StableSort Base.PyValue.
Open Scope Z_scope.

Definition str := list Z.

(* ---------- Python str primitives ---------- *)
Definition spaces (n : nat) : str := repeat 32 n.
Definition ljust (w : nat) (s : str) : str := s ++ spaces (w - length s).
Definition rjust (w : nat) (s : str) : str := spaces (w - length s) ++ s.
(* CPython unicode_center: marg = width - len; left = marg/2 + (marg & width & 1) *)
Definition center (w : nat) (s : str) : str :=
  let marg := (w - length s)%nat in
  let left := (marg / 2 + (if Nat.odd marg && Nat.odd w then 1 else 0))%nat in
  spaces left ++ s ++ spaces (marg - left).

Fixpoint join (sep : str) (l : list str) : str :=
  match l with
  | [] => []
  | x :: t => match t with [] => x | _ :: _ => x ++ sep ++ join sep t end
  end.

Definition nmax (l : list nat) : nat := fold_right Nat.max 0%nat l.

(* ---------- str(int) ---------- *)
Fixpoint digits_fuel (f : nat) (n : Z) : str :=
  match f with
  | O => [48 + n mod 10]
  | S f' => if n <? 10 then [48 + n] else digits_fuel f' (n / 10) ++ [48 + n mod 10]
  end.
Definition show_nat (n : Z) : str := digits_fuel (Z.to_nat (Z.log2 n)) n.
Definition show_int (z : Z) : str := if z <? 0 then 45 :: show_nat (- z) else show_nat z.
(* "%+d" *)
Definition show_signed (z : Z) : str := if z <? 0 then 45 :: show_nat (- z) else 43 :: show_nat z.
Definition zeros (n : Z) : str := repeat 48 (Z.to_nat n).
(* "%02d" / "%04d" for non-negative n *)
Definition zpad (w : nat) (n : Z) : str := repeat 48 (w - length (show_nat n)) ++ show_nat n.

(* reading back *)
Definition is_digit (c : Z) : bool := (48 <=? c) && (c <=? 57).
Definition parse_nat (s : str) : option Z :=
  match s with
  | [] => None
  | _ => if forallb is_digit s then Some (fold_left (fun a c => 10 * a + (c - 48)) s 0) else None
  end.
Definition parse_int (s : str) : option Z :=
  match s with
  | 45 :: t => option_map Z.opp (parse_nat t)
  | _ => parse_nat s
  end.

(* ---------- str(Decimal) from as_tuple(): sign, digits, exponent ---------- *)
Definition dec_digits (d : dec) : str := show_nat (dcoef d).       (* n.digits as characters *)
Definition dec_nd (d : dec) : Z := Z.of_nat (length (dec_digits d)).   (* len(n.digits) *)
Definition dec_leftdigits (d : dec) : Z := dexp d + dec_nd d.
(* scientific notation is used unless exponent <= 0 and leftdigits > -6 *)
Definition dec_positional (d : dec) : bool := (dexp d <=? 0) && (-6 <? dec_leftdigits d).
Definition dec_str (d : dec) : str :=
  let ds := dec_digits d in
  let nd := dec_nd d in
  let left := dec_leftdigits d in
  let dotplace := if dec_positional d then left else 1 in
  let body :=
    if dotplace <=? 0 then [48; 46] ++ zeros (- dotplace) ++ ds
    else if nd <=? dotplace then ds ++ zeros (dotplace - nd)
    else firstn (Z.to_nat dotplace) ds ++ [46] ++ skipn (Z.to_nat dotplace) ds in
  let ex := if left =? dotplace then [] else 69 :: show_signed (left - dotplace) in
  (if dneg d then [45] else []) ++ body ++ ex.

(* ---------- values and datatypes ---------- *)
Definition amt := (dec * str)%type.                         (* Amount(number, currency) *)
Record posn := mkpos { p_units : amt; p_cost : option amt }. (* Position(units, cost): only cost.number/.currency are rendered *)

Inductive cellv :=
| CNull
| CBool (b : bool)
| CInt (z : Z)
| CDec (d : dec)
| CStr (s : str)
| CDate (y m d : Z)
| CSet (l : list str)           (* a set of str, elements in arbitrary order *)
| COther (s : str)              (* any other object (dict, ...) given by its str() *)
| CAmt (a : amt)
| CPos (p : posn)
| CInv (l : list posn).         (* Inventory.get_positions() *)

Inductive dtype := TObject | TBool | TStr | TSet | TDate | TInt | TDecimal | TAmount | TPosition | TInventory.

Definition s_true : str := [84; 82; 85; 69].
Definition s_false : str := [70; 65; 76; 83; 69].
(* date.strftime('%Y-%m-%d') with glibc: %Y is not zero padded *)
Definition date_str (y m d : Z) : str := show_nat y ++ [45] ++ zpad 2 m ++ [45] ++ zpad 2 d.
(* str(value) as used by ObjectRenderer (date.__str__ = isoformat pads the year) *)
Definition py_str (v : cellv) : str :=
  match v with
  | CBool b => if b then [84; 114; 117; 101] else [70; 97; 108; 115; 101]
  | CInt z => show_int z
  | CDec d => dec_str d
  | CStr s => s
  | CDate y m d => zpad 4 y ++ [45] ++ zpad 2 m ++ [45] ++ zpad 2 d
  | COther s => s
  | _ => []      (* excluded by [cell_ok] *)
  end.

(* which values a column of a datatype may hold (anything else raises in update/format,
   or has a str() this model does not describe) *)
Definition scalar (v : cellv) : bool :=
  match v with CBool _ | CInt _ | CDec _ | CStr _ | CDate _ _ _ | COther _ => true | _ => false end.
Definition cell_ok (t : dtype) (v : cellv) : bool :=
  match v with
  | CNull => true
  | _ =>
    match t, v with
    | TObject, _ => scalar v
    | TBool, CBool _ => true
    | TStr, CStr _ => true
    | TSet, CSet _ => true
    | TDate, CDate _ _ _ => true
    | TInt, CInt _ => true
    | TDecimal, CDec _ => true
    | TAmount, CAmt _ => true
    | TPosition, CPos _ => true
    | TInventory, CInv _ => true
    | _, _ => false
    end
  end.

(* ---------- rendering context / options ---------- *)
Record opts := mkopts {
  o_boxed : bool; o_unicode : bool; o_spaced : bool; o_expand : bool; o_narrow : bool;
  o_null : str; o_listsep : str }.

(* a rendered cell: str, or list of str (InventoryRenderer with expand) *)
Inductive cell := One (s : str) | Many (l : list str).
Definition is_many (c : cell) : bool := match c with Many _ => true | One _ => false end.
Definition as_list (c : cell) : list str := match c with One s => [s] | Many l => l end.

(* sorted(set of str) *)
Definition sort_strs (l : list str) : list str := isort list_le l.

(* ---------- DecimalRenderer ---------- *)
(* max(1, len(n.digits) + n.exponent) + n.sign *)
Definition dec_intw (d : dec) : Z := Z.max 1 (dec_nd d + dexp d) + (if dneg d then 1 else 0).
Definition dec_update (st : Z * Z) (d : dec) : Z * Z :=
  let '(ni, nf) := st in
  if 0 <? dexp d then (Z.max ni (Z.of_nat (length (dec_str d))), nf)
  else (Z.max ni (dec_intw d), Z.max nf (- dexp d)).
Definition dec_state (vals : list dec) : Z * Z := fold_left dec_update vals (0, 0).
Definition dec_width (st : Z * Z) : nat :=
  let '(ni, nf) := st in Z.to_nat (ni + nf + (if 0 <? nf then 1 else 0)).
Definition dec_format (st : Z * Z) (d : dec) : str :=
  let '(ni, nf) := st in
  let w := dec_width st in
  if 0 <? dexp d then ljust w (rjust (Z.to_nat ni) (dec_str d))
  else
    let left := Z.to_nat (ni - dec_intw d) in
    (* f'{"":>{left}}{value:<{maxwidth - left}}' ; format(Decimal, '<n') = str(value).ljust(n) *)
    spaces left ++ ljust (w - left) (dec_str d).

(* ---------- SetRenderer ---------- *)
Definition set_update (sep : str) (m : Z) (l : list str) : Z :=
  Z.max m (fold_left (fun a x => a + Z.of_nat (length x) + Z.of_nat (length sep)) l 0 - Z.of_nat (length sep)).
Definition set_format (sep : str) (l : list str) : str := join sep (sort_strs l).

Definition dec_zero : dec := mkdec false 0 0.

Section Render.
(* ctx.dcontext.quantize(number, currency) of the ledger's display context *)
Variable quant : dec -> str -> dec.
(* [numfmt ups] = DisplayContext() updated with the pairs [ups], .build(Align.DOT, Precision.MAXIMUM) *)
Variable numfmt : list (dec * str) -> dec -> str -> str.

(* ---------- AmountRenderer ---------- *)
Record astate := mkast { a_ups : list (dec * str); a_curw : nat }.
Definition a_init : astate := mkast [] 0.
Definition a_update (st : astate) (v : amt) : astate :=
  mkast (a_ups st ++ [(quant (fst v) (snd v), snd v)]) (Nat.max (a_curw st) (length (snd v))).
(* prepare(): max over the commodities seen of len(func(0, c)) + 1 + curwidth *)
Definition a_width (st : astate) : nat :=
  nmax (map (fun u => (length (numfmt (a_ups st) dec_zero (snd u)) + 1 + a_curw st)%nat) (a_ups st)).
Definition a_format (st : astate) (v : amt) : str :=
  numfmt (a_ups st) (fst v) (snd v) ++ [32] ++ ljust (a_curw st) (snd v).

(* ---------- PositionRenderer ---------- *)
Record pstate := mkpst { p_u : astate; p_c : astate }.
Definition p_init : pstate := mkpst a_init a_init.
Definition p_update (st : pstate) (p : posn) : pstate :=
  mkpst (a_update (p_u st) (p_units p))
        (match p_cost p with Some c => a_update (p_c st) c | None => p_c st end).
Definition p_width (st : pstate) : nat :=
  let uw := a_width (p_u st) in let cw := a_width (p_c st) in
  (uw + cw + (if (0 <? cw)%nat then 3 else 0))%nat.
Definition p_format (st : pstate) (p : posn) : str :=
  let units := a_format (p_u st) (p_units p) in
  match p_cost p with
  | None => ljust (p_width st) units
  | Some c => units ++ [32; 123] ++ a_format (p_c st) c ++ [125]
  end.

(* ---------- InventoryRenderer, expand=True: one PositionRenderer for all positions,
   positions sorted by (currency, -number, cost key) ---------- *)
Definition dec_q_le (a b : dec) : bool := Qle_bool (dec_q a) (dec_q b).
Definition str_le : str -> str -> bool := list_le.
Definition cost_le (a b : option amt) : bool :=
  match a, b with
  | None, _ => true
  | Some _, None => false
  | Some x, Some y => lex (on snd str_le) (on fst (flip dec_q_le)) x y
  end.
Definition pos_le : posn -> posn -> bool :=
  lex (on (fun p => snd (p_units p)) str_le)
      (lex (on (fun p => fst (p_units p)) (flip dec_q_le)) (on p_cost cost_le)).
Definition sort_pos (l : list posn) : list posn := isort pos_le l.

Definition inv_state (invs : list (list posn)) : pstate := fold_left p_update (concat invs) p_init.
Definition inv_format (st : pstate) (l : list posn) : list str := map (p_format st) (sort_pos l).

(* ---------- a column renderer after update()* and prepare() ---------- *)
Inductive rstate :=
| SPlain (w : nat)
| SDec (st : Z * Z)
| SAmt (st : astate)
| SPos (st : pstate)
| SInvX (st : pstate)        (* inventory, expand *)
| SInvT (w : nat).           (* inventory, not expanded: NOT modelled bit-exactly; see Properties/C16.v *)

Definition the_decs (vals : list cellv) : list dec :=
  flat_map (fun v => match v with CDec d => [d] | _ => [] end) vals.
Definition the_amts (vals : list cellv) : list amt :=
  flat_map (fun v => match v with CAmt a => [a] | _ => [] end) vals.
Definition the_poss (vals : list cellv) : list posn :=
  flat_map (fun v => match v with CPos p => [p] | _ => [] end) vals.
Definition the_invs (vals : list cellv) : list (list posn) :=
  flat_map (fun v => match v with CInv l => [l] | _ => [] end) vals.
Definition the_sets (vals : list cellv) : list (list str) :=
  flat_map (fun v => match v with CSet l => [l] | _ => [] end) vals.

(* vals: the non-NULL values of the column, in row order *)
Definition col_prepare (o : opts) (t : dtype) (vals : list cellv) : rstate :=
  match t with
  | TObject | TStr | TInt => SPlain (nmax (map (fun v => length (py_str v)) vals))
  | TBool => SPlain (nmax (map (fun v => match v with CBool true => 4 | _ => 5 end)%nat vals))
  | TSet => SPlain (Z.to_nat (fold_left (set_update (o_listsep o)) (the_sets vals) 0))
  | TDate => SPlain (match vals with [] => 0 | _ => 10 end)
  | TDecimal => SDec (dec_state (the_decs vals))
  | TAmount => SAmt (fold_left a_update (the_amts vals) a_init)
  | TPosition => SPos (fold_left p_update (the_poss vals) p_init)
  | TInventory => if o_expand o then SInvX (inv_state (the_invs vals)) else SInvT 0
  end.

Definition st_width (st : rstate) : nat :=
  match st with
  | SPlain w => w
  | SDec s => dec_width s
  | SAmt s => a_width s
  | SPos s => p_width s
  | SInvX s => p_width s
  | SInvT w => w
  end.

Definition st_format (o : opts) (t : dtype) (st : rstate) (v : cellv) : cell :=
  match t, st, v with
  | TBool, _, CBool b => One (if b then s_true else s_false)
  | TSet, _, CSet l => One (set_format (o_listsep o) l)
  | TDate, _, CDate y m d => One (date_str y m d)
  | TDecimal, SDec s, CDec d => One (dec_format s d)
  | TAmount, SAmt s, CAmt a => One (a_format s a)
  | TPosition, SPos s, CPos p => One (p_format s p)
  | TInventory, SInvX s, CInv l => Many (inv_format s l)
  | _, _, _ => One (py_str v)
  end.

(* ---------- render_rows ---------- *)
Fixpoint map2 {A B C} (f : A -> B -> C) (la : list A) (lb : list B) : list C :=
  match la, lb with
  | a :: ta, b :: tb => f a b :: map2 f ta tb
  | _, _ => []
  end.

Definition render_cell (o : opts) (ts : dtype * rstate) (v : cellv) : cell :=
  match v with CNull => One (o_null o) | _ => st_format o (fst ts) (snd ts) v end.

Definition cell_str (c : cell) : str := match c with One s => s | Many _ => [] end.

Definition render_row (o : opts) (sts : list (dtype * rstate)) (row : list cellv) : list (list str) :=
  let cells := map2 (render_cell o) sts row in
  (if existsb is_many cells then
     let ls := map as_list cells in
     let n := Nat.max 1 (nmax (map (@length str) ls)) in
     map (fun i => map (fun c => nth i c []) ls) (seq 0 n)
   else [map cell_str cells])
  ++ (if o_spaced o then [map (fun _ => []) sts] else []).

Definition non_null (l : list cellv) : list cellv :=
  filter (fun v => match v with CNull => false | _ => true end) l.
Definition column (i : nat) (rows : list (list cellv)) : list cellv :=
  non_null (flat_map (fun r => match nth_error r i with Some v => [v] | None => [] end) rows).

Definition col_states (o : opts) (desc : list (str * dtype)) (rows : list (list cellv)) : list (dtype * rstate) :=
  map2 (fun i d => (snd d, col_prepare o (snd d) (column i rows))) (seq 0 (length desc)) desc.

Definition render_rows (o : opts) (sts : list (dtype * rstate)) (rows : list (list cellv)) : list (list str) :=
  flat_map (render_row o sts) rows.

(* ---------- render_text ---------- *)
Inductive align := ALeft | ARight.
Definition align_of (t : dtype) : align := match t with TInt => ARight | _ => ALeft end.
Definition pad (a : align) (w : nat) (s : str) : str :=
  match a with ALeft => ljust w s | ARight => rjust w s end.

(* max(1, narrow or len(header), len(nullvalue), render.prepare()) *)
Definition col_width (o : opts) (header : str) (st : rstate) : nat :=
  Nat.max 1 (Nat.max (if o_narrow o then 1 else length header) (Nat.max (length (o_null o)) (st_width st))).

Definition u_v : Z := 9474.  (* │ *)  Definition u_h : Z := 9472.  (* ─ *)
Definition frmt (o : opts) (s : str) : str :=
  if o_boxed o then (if o_unicode o then [u_v; 32] ++ s ++ [32; u_v] else [124; 32] ++ s ++ [32; 124]) else s.
Definition colsep (o : opts) : str :=
  if o_boxed o then (if o_unicode o then [32; u_v; 32] else [32; 124; 32]) else [32; 32].
Definition rule_char (o : opts) : Z := if o_unicode o then u_h else 45.
(* top / hline / bottom given (left corner, junction, right corner) *)
Definition rule_line (o : opts) (l j r : Z) (widths : list nat) : str :=
  let c := rule_char o in
  let segs := map (fun w => repeat c w) widths in
  if o_boxed o then [l; c] ++ join [c; j; c] segs ++ [c; r] else join (colsep o) segs.
Definition top_line (o : opts) ws := if o_unicode o then rule_line o 9484 9516 9488 ws else rule_line o 43 43 43 ws.
Definition h_line (o : opts) ws := if o_unicode o then rule_line o 9500 9532 9508 ws else rule_line o 43 43 43 ws.
Definition bottom_line (o : opts) ws := if o_unicode o then rule_line o 9492 9524 9496 ws else rule_line o 43 43 43 ws.

Definition header_line (o : opts) (headers : list str) (widths : list nat) : str :=
  frmt o (join (colsep o) (map2 (fun h w => center w (firstn w h)) headers widths)).
Definition row_line (o : opts) (aligns : list align) (widths : list nat) (cells : list str) : str :=
  frmt o (join (colsep o) (map2 (fun (x : str) (wa : nat * align) => pad (snd wa) (fst wa) x) cells (combine widths aligns))).

Definition table_widths (o : opts) (desc : list (str * dtype)) (rows : list (list cellv)) : list nat :=
  map2 (fun d st => col_width o (fst d) (snd st)) desc (col_states o desc rows).

Definition text_lines (o : opts) (desc : list (str * dtype)) (rows : list (list cellv)) : list str :=
  let sts := col_states o desc rows in
  let ws := table_widths o desc rows in
  let aligns := map (fun d => align_of (snd d)) desc in
  (if o_boxed o then [top_line o ws] else [])
  ++ [header_line o (map fst desc) ws; h_line o ws]
  ++ map (row_line o aligns ws) (render_rows o sts rows)
  ++ (if o_boxed o then [bottom_line o ws] else []).

Definition unlines (l : list str) : str := flat_map (fun s => s ++ [10]) l.

Definition well_typed (desc : list (str * dtype)) (rows : list (list cellv)) : bool :=
  forallb (fun r => (length r =? length desc)%nat && forallb (fun x => x) (map2 (fun d v => cell_ok (snd d) v) desc r)) rows.

(* Inventory columns without expand (tabular per-commodity layout) are outside this model *)
Definition supported (o : opts) (desc : list (str * dtype)) : bool :=
  forallb (fun d => match snd d with TInventory => o_expand o | _ => true end) desc.

(* query_render.render_text; None = an exception in update()/format() (ill-typed cell),
   or a table outside the model ([supported]) *)
Definition render_text (o : opts) desc rows : option str :=
  if well_typed desc rows && supported o desc then Some (unlines (text_lines o desc rows)) else None.

(* render/text.py render(): "(empty)" when there are no rows *)
Definition render_text_format (o : opts) desc rows : option str :=
  match rows with [] => Some [40; 101; 109; 112; 116; 121; 41; 10] | _ => render_text o desc rows end.

(* ---------- render_csv : csv.writer, excel dialect, QUOTE_MINIMAL ---------- *)
Definition csv_special (c : Z) : bool := (c =? 44) || (c =? 34) || (c =? 10) || (c =? 13).
Definition csv_field (s : str) : str :=
  if existsb csv_special s
  then [34] ++ flat_map (fun c => if c =? 34 then [34; 34] else [c]) s ++ [34]
  else s.
Definition csv_record (fields : list str) : str :=
  match fields with
  | [[]] => [34; 34; 13; 10]               (* a single empty field is written as "" *)
  | _ => join [44] (map csv_field fields) ++ [13; 10]
  end.
Definition csv_opts (o : opts) : opts := mkopts false false false (o_expand o) true (o_null o) [44].
Definition csv_records (o : opts) desc rows : list (list str) :=
  map fst desc :: render_rows (csv_opts o) (col_states (csv_opts o) desc rows) rows.
Definition render_csv (o : opts) desc rows : option str :=
  if well_typed desc rows && supported o desc then Some (flat_map csv_record (csv_records o desc rows)) else None.

(* ---------- CostRenderer (bld-render4; definitions only): Cost(number, currency, date, label).  update reserves the width
   of the amount part (an AmountRenderer fed number / currency), 10 + 2 once a date was seen and len(label) + 4 for the longest
   label; format joins the amount text, the date as %Y-%m-%d and the label between double quotes (NOT escaped) with ', ' ---------- *)
Record cost := mkcost { c_amt : amt; c_date : option (Z * Z * Z); c_label : option str }.
Record cstate := mkcst { c_a : astate; c_dw : nat; c_lw : nat }.
Definition c_init : cstate := mkcst a_init 0 0.
Definition c_update (st : cstate) (v : cost) : cstate :=
  mkcst (a_update (c_a st) (c_amt v))
        (match c_date v with Some _ => 12 | None => c_dw st end)
        (match c_label v with Some l => Nat.max (c_lw st) (length l + 4) | None => c_lw st end).
Definition c_width (st : cstate) : nat := (a_width (c_a st) + c_dw st + c_lw st)%nat.
Definition c_parts (st : cstate) (v : cost) : list str :=
  [a_format (c_a st) (c_amt v)]
  ++ (match c_date v with Some (y, m, d) => [date_str y m d] | None => [] end)
  ++ (match c_label v with Some l => [[34] ++ l ++ [34]] | None => [] end).
Definition c_format (st : cstate) (v : cost) : str := join [44; 32] (c_parts st v).

End Render.

(* ---------- serialisation for the correspondence runner ---------- *)
Definition no_quant : dec -> str -> dec := fun d _ => d.
Definition no_numfmt : list (dec * str) -> dec -> str -> str := fun _ _ _ => [].
Definition text_out (o : opts) desc rows : out := o_option o_str (render_text no_quant no_numfmt o desc rows).
Definition textf_out (o : opts) desc rows : out := o_option o_str (render_text_format no_quant no_numfmt o desc rows).
Definition csv_out (o : opts) desc rows : out := o_option o_str (render_csv no_quant no_numfmt o desc rows).
