(* C13  OPEN / CLOSE / CLEAR.

   Part 1 (beanquery): BeanTable.prepare (query_env.py) applies the three clauses
   in the fixed order OPEN, CLOSE, CLEAR, each only when requested, on a table
   copy that does not know the FROM filter expression; Compiler._compile_from
   (compiler.py) rejects a CLOSE date before the OPEN date; BQLShell.parse
   (shell.py) supplies a default CLOSE date for `.run` named queries.

   Part 2 (Beancount, modelled not verified): beancount.ops.summarize
   open / close / clear with their helpers conversions, transfer_balances,
   summarize, truncate, create_entries_from_balances, balance_by_account, and
   the insertion-ordered Inventory dict, on a minimal ledger:
   transactions = (date, flag, id, postings (account, units, currency, cost, price)).
   Numbers are integers (the generated ledgers use integer amounts; Decimal
   arithmetic is C01's business).  Directives other than transactions are
   represented by entries without postings (only their date matters: it is
   `entries[-1].date` for CLOSE without a date and for CLEAR). *)
From Coq Require Import ZArith List Bool.
Import ListNotations.
From Verif Require Import Base.Out Base.StableSort.
Open Scope Z_scope.

(* ------------------------------------------------------------------ *)
(* Ledger *)

Inductive root := Assets | Equity | Expenses | Income | Liabilities.   (* alphabetical = sort order of names *)
Definition root_rank (r : root) : Z :=
  match r with Assets => 0 | Equity => 1 | Expenses => 2 | Income => 3 | Liabilities => 4 end.
Definition root_eqb (a b : root) : bool := root_rank a =? root_rank b.

(* an account = its root + a number (its rank among the names of the ledger) *)
Definition account := (root * Z)%type.
Definition acct_eqb (a b : account) : bool := root_eqb (fst a) (fst b) && (snd a =? snd b).
Definition acct_leb (a b : account) : bool :=
  (root_rank (fst a) <? root_rank (fst b)) || (root_eqb (fst a) (fst b) && (snd a <=? snd b)).

(* account_types.is_income_statement_account *)
Definition is_income_statement (a : account) : bool :=
  match fst a with Income | Expenses => true | _ => false end.
Definition is_balance_sheet_AL (a : account) : bool :=
  match fst a with Assets | Liabilities => true | _ => false end.

(* Cost(number, currency, date, label) *)
Record cost := mkCost { c_num : Z; c_cur : Z; c_date : Z; c_label : Z }.
Definition cost_eqb (a b : cost) : bool :=
  (c_num a =? c_num b) && (c_cur a =? c_cur b) && (c_date a =? c_date b) && (c_label a =? c_label b).

(* Inventory key: (currency, cost or None) *)
Definition key := (Z * option cost)%type.
Definition key_eqb (a b : key) : bool :=
  (fst a =? fst b) &&
  match snd a, snd b with
  | None, None => true
  | Some x, Some y => cost_eqb x y
  | _, _ => false
  end.

Record posting := mkP {
  p_acct : account; p_units : Z; p_cur : Z; p_cost : option cost; p_price : option (Z * Z) }.
Definition p_key (p : posting) : key := (p_cur p, p_cost p).

Record txn := mkT { t_date : Z; t_flag : Z; t_id : Z; t_posts : list posting }.

Definition FLAG_SUMMARIZE := 83.   (* 'S' *)
Definition FLAG_TRANSFER := 84.    (* 'T' *)
Definition FLAG_CONVERSIONS := 67. (* 'C' *)
Definition SYNTH_ID := -1.
Definition synthetic (t : txn) : bool :=
  (t_flag t =? FLAG_SUMMARIZE) || (t_flag t =? FLAG_TRANSFER) || (t_flag t =? FLAG_CONVERSIONS).

(* convert.get_cost of a position with this key and [n] units: (number, currency) *)
Definition key_cost_mult (k : key) : Z := match snd k with Some c => c_num c | None => 1 end.
Definition key_cost_cur (k : key) : Z := match snd k with Some c => c_cur c | None => fst k end.

(* convert.get_weight of a posting: (number, currency) *)
Definition weight (p : posting) : Z * Z :=
  match p_cost p with
  | Some c => (c_num c * p_units p, c_cur c)
  | None => match p_price p with
            | Some (pn, pc) => (pn * p_units p, pc)
            | None => (p_units p, p_cur p)
            end
  end.

(* ------------------------------------------------------------------ *)
(* Inventory: a dict in insertion order.  add_amount: an existing key is
   updated in place, deleted when the sum is zero; a new key is appended unless
   the number is zero. *)
Definition inv := list (key * Z).
Fixpoint inv_add (i : inv) (k : key) (n : Z) : inv :=
  match i with
  | [] => if n =? 0 then [] else [(k, n)]
  | (k', m) :: r =>
      if key_eqb k' k then (if m + n =? 0 then r else (k', m + n) :: r)
      else (k', m) :: inv_add r k n
  end.
Definition inv_add_posting (i : inv) (p : posting) : inv := inv_add i (p_key p) (p_units p).
Definition inv_is_empty (i : inv) : bool := match i with [] => true | _ => false end.
(* Inventory.reduce(convert.get_cost) *)
Definition inv_reduce_cost (i : inv) : inv :=
  fold_left (fun acc kn => inv_add acc (key_cost_cur (fst kn), None) (key_cost_mult (fst kn) * snd kn)) i [].

(* balances: defaultdict(Inventory) in insertion order *)
Definition bal := list (account * inv).
Fixpoint bal_add (b : bal) (a : account) (p : posting) : bal :=
  match b with
  | [] => [(a, inv_add_posting [] p)]
  | (a', i) :: r => if acct_eqb a' a then (a', inv_add_posting i p) :: r else (a', i) :: bal_add r a p
  end.

(* the scan `for entry in entries: if entry.date >= date: break` (balance_by_account,
   compute_entries_balance) and bisect_left on the entry dates (truncate, conversions):
   the same split on a ledger sorted by date *)
Fixpoint take_before (d : Z) (l : list txn) : list txn :=
  match l with [] => [] | t :: r => if t_date t <? d then t :: take_before d r else [] end.
Fixpoint drop_before (d : Z) (l : list txn) : list txn :=
  match l with [] => [] | t :: r => if t_date t <? d then drop_before d r else l end.
Definition split_at (d : option Z) (l : list txn) : list txn * list txn :=
  match d with Some d => (take_before d l, drop_before d l) | None => (l, []) end.

Definition balance_by_account (l : list txn) : bal :=
  fold_left (fun b t => fold_left (fun b p => bal_add b (p_acct p) p) (t_posts t) b) l [].
Definition entries_balance (l : list txn) : inv :=
  fold_left (fun i t => fold_left inv_add_posting (t_posts t) i) l [].

Definition last_date (l : list txn) : Z := match rev l with t :: _ => t_date t | [] => 0 end.

(* create_entries_from_balances: one transaction per account with a non-empty
   balance, accounts in sorted order; per position the posting on the account
   (units, cost) and the posting of minus its cost on the source account *)
Definition sort_bal (b : bal) : bal := isort (fun x y => acct_leb (fst x) (fst y)) b.
Definition pos_postings (a source : account) (direction : bool) (kn : key * Z) : list posting :=
  let k := fst kn in
  let n := if direction then snd kn else - snd kn in
  [ mkP a n (fst k) (snd k) None;
    mkP source (- (key_cost_mult k * n)) (key_cost_cur k) None None ].
Definition entry_from_balance (date : Z) (source : account) (direction : bool) (flag : Z)
    (ai : account * inv) : list txn :=
  if inv_is_empty (snd ai) then []
  else [mkT date flag SYNTH_ID (flat_map (pos_postings (fst ai) source direction) (snd ai))].
Definition entries_from_balances (b : bal) (date : Z) (source : account) (direction : bool) (flag : Z)
    : list txn :=
  flat_map (entry_from_balance date source direction flag) (sort_bal b).

(* transfer_balances(entries, date, account_pred, transfer_account) *)
Definition transfer_balances (l : list txn) (d : option Z) (pred : account -> bool) (acct : account)
    : list txn :=
  match l with
  | [] => []
  | _ =>
    let '(before, after) := split_at d l in
    let b := filter (fun ai => pred (fst ai)) (balance_by_account before) in
    let tdate := match d with Some d => d - 1 | None => last_date l end in
    before ++ entries_from_balances b tdate acct false FLAG_TRANSFER ++ after
  end.

(* summarize(entries, date, account_opening) -- transactions only (the library
   also keeps the active Open directives and the last Price directives) *)
Definition summarize (l : list txn) (d : Z) (opening : account) : list txn :=
  let '(before, after) := split_at (Some d) l in
  entries_from_balances (balance_by_account before) (d - 1) opening true FLAG_SUMMARIZE ++ after.

(* conversions(entries, conversion_account, conversion_currency, date) *)
Definition conversion_entry (date : Z) (acct : account) (ccur : Z) (cb : inv) : txn :=
  mkT date FLAG_CONVERSIONS SYNTH_ID
      (map (fun kn => mkP acct (- snd kn) (fst (fst kn)) None (Some (0, ccur))) cb).
Definition conversions (l : list txn) (acct : account) (ccur : Z) (d : option Z) : list txn :=
  let '(before, after) := split_at d l in
  let cb := inv_reduce_cost (entries_balance before) in
  if inv_is_empty cb then l
  else
    let ldate := match d with Some d => d - 1 | None => last_date l end in
    before ++ [conversion_entry ldate acct ccur cb] ++ after.

Definition truncate (l : list txn) (d : Z) : list txn := take_before d l.

(* the accounts and the currency taken from the options map *)
Record opts := mkOpts {
  o_earn_prev : account;     (* Equity:Earnings:Previous *)
  o_opening : account;       (* Equity:Opening-Balances *)
  o_conv_prev : account;     (* Equity:Conversions:Previous *)
  o_earn_cur : account;      (* Equity:Earnings:Current *)
  o_conv_cur : account;      (* Equity:Conversions:Current *)
  o_conv_currency : Z }.     (* conversion_currency, "NOTHING" *)

Definition is_equity (a : account) : bool := match fst a with Equity => true | _ => false end.
(* options.get_previous_accounts / get_current_accounts build all five under the
   Equity root name (name_equity option) *)
Definition opts_equity (o : opts) : Prop :=
  is_equity (o_earn_prev o) = true /\ is_equity (o_opening o) = true /\ is_equity (o_conv_prev o) = true /\
  is_equity (o_earn_cur o) = true /\ is_equity (o_conv_cur o) = true.
Definition is_option_account (o : opts) (a : account) : bool :=
  acct_eqb a (o_earn_prev o) || acct_eqb a (o_opening o) || acct_eqb a (o_conv_prev o) ||
  acct_eqb a (o_earn_cur o) || acct_eqb a (o_conv_cur o).

Definition open_c (o : opts) (d : Z) (l : list txn) : list txn :=
  let l1 := conversions l (o_conv_prev o) (o_conv_currency o) (Some d) in
  let l2 := transfer_balances l1 (Some d) is_income_statement (o_earn_prev o) in
  summarize l2 d (o_opening o).
Definition close_c (o : opts) (d : option Z) (l : list txn) : list txn :=
  let l1 := match d with Some d => truncate l d | None => l end in
  conversions l1 (o_conv_cur o) (o_conv_currency o) d.
Definition clear_c (o : opts) (l : list txn) : list txn :=
  transfer_balances l None is_income_statement (o_earn_cur o).

(* ------------------------------------------------------------------ *)
(* BeanTable.prepare: the three operations abstract *)

(* ast.From.close: None | a date | True *)
Inductive close_spec := CloseOn (e : Z) | CloseAll.

Section Prepare.
Variable E : Type.
Variable op_open : Z -> E -> E.
Variable op_close : option Z -> E -> E.
Variable op_clear : E -> E.

Definition stage_open (o : option Z) (e : E) : E :=
  match o with Some d => op_open d e | None => e end.
Definition stage_close (c : option close_spec) (e : E) : E :=
  match c with Some (CloseOn d) => op_close (Some d) e | Some CloseAll => op_close None e | None => e end.
Definition stage_clear (c : bool) (e : E) : E := if c then op_clear e else e.

Definition prepare (o : option Z) (c : option close_spec) (clr : bool) (e : E) : E :=
  stage_clear clr (stage_close c (stage_open o e)).

(* the table copy made by _compile_from and the rows a statement scans: the
   filter expression is applied to the prepared entries and is not an input of
   [prepare] *)
Record table := mkTable { tb_entries : E; tb_open : option Z; tb_close : option close_spec; tb_clear : bool }.
Definition table_update (t : table) o c clr : table := mkTable (tb_entries t) o c clr.
Definition table_prepare (t : table) : E := prepare (tb_open t) (tb_close t) (tb_clear t) (tb_entries t).
End Prepare.

Definition prepare_c (o : opts) := prepare (list txn) (open_c o) (close_c o) (clear_c o).

(* rows scanned for `FROM <expr> OPEN .. CLOSE .. CLEAR` *)
Definition from_rows (o : opts) (expr : txn -> bool) op cl clr (l : list txn) : list txn :=
  filter expr (prepare_c o op cl clr l).

(* ------------------------------------------------------------------ *)
(* Compiler._compile_from: `if node.open and node.close and node.open > node.close: raise` *)
Inductive from_check := FromOk | FromCompilationError.
Definition check_dates (o : option Z) (c : option close_spec) : from_check :=
  match o, c with
  | Some d, Some (CloseOn e) => if e <? d then FromCompilationError else FromOk
  | _, _ => FromOk
  end.

(* BQLShell.parse(line, default_close_date): only for a SELECT with a FROM
   clause that has no CLOSE; `.run name` passes the date of the query directive,
   everything else passes None *)
Definition shell_close (select_with_from : bool) (c : option close_spec) (dflt : option Z)
    : option close_spec :=
  if select_with_from then
    match c with
    | Some x => Some x
    | None => match dflt with Some d => Some (CloseOn d) | None => None end
    end
  else c.

(* ------------------------------------------------------------------ *)
(* Measures used by the theorems and by the correspondence *)

(* a linear measure of a posting: a coefficient depending on (account, key) times the units *)
Definition measure (g : account -> key -> Z) (p : posting) : Z := g (p_acct p) (p_key p) * p_units p.
Definition psum (f : posting -> Z) (ps : list posting) : Z := fold_right (fun p s => f p + s) 0 ps.
Definition lsum (f : posting -> Z) (l : list txn) : Z := fold_right (fun t s => psum f (t_posts t) + s) 0 l.

(* units of the lot [k] held on account [a] *)
Definition g_units (a : account) (k : key) : account -> key -> Z :=
  fun a' k' => if acct_eqb a' a && key_eqb k' k then 1 else 0.
(* value at cost, in currency [c], of the accounts selected by [sel] *)
Definition g_cost (sel : account -> bool) (c : Z) : account -> key -> Z :=
  fun a' k' => if sel a' && (key_cost_cur k' =? c) then key_cost_mult k' else 0.

Definition units_total a k l := lsum (measure (g_units a k)) l.
Definition cost_total sel c l := lsum (measure (g_cost sel c)) l.

(* sum of the weights in currency [c] of a transaction *)
Definition wsum (c : Z) (ps : list posting) : Z :=
  psum (fun p => if snd (weight p) =? c then fst (weight p) else 0) ps.
Definition balanced (t : txn) : Prop := forall c, wsum c (t_posts t) = 0.

Definition in_window (lo hi : option Z) (t : txn) : bool :=
  match lo with Some d => d <=? t_date t | None => true end &&
  match hi with Some e => t_date t <? e | None => true end.
Definition close_date (c : option close_spec) : option Z :=
  match c with Some (CloseOn e) => Some e | _ => None end.

(* ------------------------------------------------------------------ *)
(* serialisation for the correspondence *)
Definition o_account (a : account) : out := OL [ON (root_rank (fst a)); ON (snd a)].
Definition o_cost (c : cost) : out := OL [ON (c_num c); ON (c_cur c); ON (c_date c); ON (c_label c)].
Definition o_posting (p : posting) : out :=
  OL [o_account (p_acct p); ON (p_units p); ON (p_cur p); o_option o_cost (p_cost p);
      o_option (fun x => OL [ON (fst x); ON (snd x)]) (p_price p)].
Definition o_txn (t : txn) : out := OL [ON (t_date t); ON (t_flag t); ON (t_id t); o_list o_posting (t_posts t)].
Definition is_directive (t : txn) : bool := (t_flag t =? 0).
Definition o_ledger (l : list txn) : out := o_list o_txn (filter (fun t => negb (is_directive t)) l).
Definition o_check (c : from_check) : out := match c with FromOk => ON 0 | FromCompilationError => ON 1 end.
Definition o_close (c : option close_spec) : out :=
  match c with None => OL [] | Some CloseAll => OL [ON 1] | Some (CloseOn e) => OL [ON 2; ON e] end.

(* one ledger, many clause combinations: what the statement does (compile check, then prepare) *)
Definition clause := (option Z * option close_spec * bool)%type.
Definition run_clause (o : opts) (l : list txn) (c : clause) : out :=
  let '(op, cl, clr) := c in
  match check_dates op cl with
  | FromCompilationError => OL [ON 1]
  | FromOk => OL [ON 0; o_ledger (prepare_c o op cl clr l)]
  end.
Definition run_cases (o : opts) (l : list txn) (cs : list clause) : out := o_list (run_clause o l) cs.
