(* Model of the ORDER BY / projection / DISTINCT / LIMIT tail of
   query_execute.execute_select (lines "Apply ORDER BY" .. "return"). *)
From Coq Require Import ZArith List Bool.
Import ListNotations.
From Verif Require Import Base.Out Base.StableSort Base.PyValue.
Open Scope Z_scope.

Definition val_lt (x y : value) : bool := negb (val_le y x).

(* Python tuple comparison a < b: first position that differs under ==, then <. *)
Fixpoint tuple_lt (a b : list value) : bool :=
  match a, b with
  | [], [] => false
  | [], _ :: _ => true
  | _ :: _, [] => false
  | x :: a', y :: b' => if val_eq x y then tuple_lt a' b' else val_lt x y
  end.
Definition tuple_le (a b : list value) : bool := negb (tuple_lt b a).

(* nullitemgetter(indexes...): None is replaced by the NULL sentinel, which is
   [VNull] itself here since [val_le] already puts it below everything. *)
Definition key_of (idxs : list nat) (r : row) : list value := map (fun i => cell i r) idxs.

(* rows.sort(key=nullitemgetter(idxs...), reverse=d) *)
Definition sort_pass (idxs : list nat) (d : bool) (rows : list row) : list row :=
  py_sort (on (key_of idxs) tuple_le) d rows.

(* itertools.groupby(l, key=direction): maximal runs of equal direction *)
Fixpoint runs (l : list (nat * bool)) : list (bool * list nat) :=
  match l with
  | [] => []
  | (i, d) :: t =>
      match runs t with
      | (d', is) :: rest => if Bool.eqb d d' then (d, i :: is) :: rest else (d, [i]) :: (d', is) :: rest
      | [] => [(d, [i])]
      end
  end.

(* for reverse, spec in groupby(reversed(order_spec)): indexes = reversed([i for i in spec]); rows.sort(...) *)
Definition order_rows (spec : list (nat * bool)) (rows : list row) : list row :=
  fold_left (fun rows (run : bool * list nat) => sort_pass (rev (snd run)) (fst run) rows)
            (runs (rev spec)) rows.

(* uniquify: keep an object unless an equal one was seen *)
Fixpoint uniquify_acc (seen : list row) (l : list row) : list row :=
  match l with
  | [] => []
  | r :: t => if existsb (row_eq r) seen then uniquify_acc seen t else r :: uniquify_acc (seen ++ [r]) t
  end.
Definition uniquify (l : list row) : list row := uniquify_acc [] l.

(* itertools.islice(rows, n), n >= 0 *)
Definition limit (n : option Z) (l : list row) : list row :=
  match n with None => l | Some n => firstn (Z.to_nat n) l end.

Definition project (vis : list nat) (r : row) : row := map (fun i => cell i r) vis.

Definition post (spec : option (list (nat * bool))) (vis : list nat) (distinct : bool) (lim : option Z)
           (rows : list row) : list row :=
  let rows := match spec with None => rows | Some s => order_rows s rows end in
  let rows := map (project vis) rows in
  let rows := if distinct then uniquify rows else rows in
  limit lim rows.

(* ---- the specification side ---- *)
Definition col_le (i : nat) : row -> row -> bool := on (cell i) val_le.
Definition dir (d : bool) (le : row -> row -> bool) : row -> row -> bool := if d then flip le else le.
Fixpoint spec_le (s : list (nat * bool)) : row -> row -> bool :=
  match s with
  | [] => triv
  | (i, d) :: t => lex (dir d (col_le i)) (spec_le t)
  end.

Definition post_out spec vis distinct lim rows : out := o_rows (post spec vis distinct lim rows).
