(* C06 model, part 6 (Spelling.v): from tokens to text.

   A text of a token list is  g0 ++ s1 ++ g1 ++ s2 ++ g2 ... ++ sn ++ gn  where every si is a
   SPELLING of token i ([spell]: any letter case for keywords / identifiers / the s of a
   placeholder, leading zeros in numbers, blanks and comments inside `%( name )s`) and every gi is a
   SEPARATOR ([sep]: whitespace, `/* ... */` comments, `; ...` comments ended by a newline), possibly
   empty.  [needs_space t1 t2] is the computable test saying that tokens t1 t2 must not be glued
   (gi non-empty): the scannerless parser would read the juxtaposition differently. *)
From Coq Require Import ZArith NArith List Bool.
Import ListNotations.
From Verif Require Import Model.Ast Model.Lexer.
Local Open Scope Z_scope.

(* no `*/` inside *)
Fixpoint no_close (cs : list Z) : bool :=
  match cs with
  | c :: r => match r with
              | c2 :: _ => if (c =? 42) && (c2 =? 47) then false else no_close r
              | [] => true
              end
  | [] => true
  end.

Inductive sep : str -> Prop :=
| sep_nil : sep []
| sep_space c g : is_space c = true -> sep g -> sep (c :: g)
| sep_comment body g : no_close body = true -> sep g -> sep (47 :: 42 :: body ++ 42 :: 47 :: g)
| sep_eol line g : forallb (fun c => negb (c =? 10)) line = true -> sep g -> sep (59 :: line ++ 10 :: g).

(* the last separator of a text may also end in an unterminated `; ...` *)
Inductive sep_end : str -> Prop :=
| sep_end_sep g : sep g -> sep_end g
| sep_end_eol g line : sep g -> forallb (fun c => negb (c =? 10)) line = true -> sep_end (g ++ 59 :: line).

Definition digits_ok (s : str) : Prop := forallb is_digit s = true.
Definition word_ok (s : str) : Prop :=
  forallb is_word s = true /\ match s with c :: _ => is_alpha c = true | [] => False end.

Definition spell (t : token) (s : str) : Prop :=
  match t with
  | TKw k => map upper s = kw_spelling k
  | TId n => word_ok s /\ map lower s = n
  | TInt n => s <> [] /\ digits_ok s /\ digits_val s = n
  | TDec lead m sc =>
      exists ip fp, s = ip ++ 46 :: fp /\ digits_ok ip /\ digits_ok fp /\ length fp = sc
                    /\ digits_val (ip ++ fp) = m
                    /\ (if lead then ip <> [] else ip = [] /\ fp <> [])
  | TDate y m d =>
      exists a b c e f g h i, s = [a; b; c; e; 45; f; g; 45; h; i] /\ digits_ok [a; b; c; e; f; g; h; i]
                              /\ digits_val [a; b; c; e] = y /\ digits_val [f; g] = m /\ digits_val [h; i] = d
  | TStr b => exists q, (q = 34 \/ q = 39) /\ s = q :: b ++ [q] /\ forallb (fun c => negb (c =? q)) b = true
  | TTable n => s = 35 :: n
  | TPlaceS => exists c, s = [37; c] /\ lower c = 115
  | TPlaceN n =>
      exists g1 w g2 c, s = 37 :: 40 :: g1 ++ w ++ g2 ++ [41; c] /\ sep g1 /\ sep g2
                        /\ word_ok w /\ map lower w = n /\ lower c = 115
  | _ => s = render_tok t
  end.

(* how a spelling of the token starts *)
(* a letter or '_' whose lower-case form is [lc]; a digit; one of the two quotes; the character [c] *)
Inductive fclass := FAlpha (lc : Z) | FDigit | FQuote | FChar (c : Z).
Definition first_class (t : token) : fclass :=
  match t with
  | TKw k => FAlpha (lower (hd 0 (kw_spelling k)))
  | TId n => FAlpha (hd 0 n)
  | TInt _ | TDate _ _ _ => FDigit
  | TDec lead _ _ => if lead then FDigit else FChar 46
  | TStr _ => FQuote
  | TTable _ => FChar 35
  | TPlaceS | TPlaceN _ | TPercent => FChar 37
  | TLP => FChar 40 | TRP => FChar 41 | TLB => FChar 91 | TRB => FChar 93 | TComma => FChar 44
  | TDot => FChar 46 | TStar => FChar 42 | TSlash => FChar 47 | TPlus => FChar 43 | TMinus => FChar 45
  | TLt | TLe => FChar 60 | TGt | TGe => FChar 62 | TEq => FChar 61 | TNe | TNotTilde => FChar 33
  | TTilde => FChar 126
  end.

(* character [c] directly after a spelling of [t] would be read as part of it (or change it) *)
Definition clash_char (t : token) (c : Z) : bool :=
  match t with
  | TKw _ | TId _ | TTable _ | TPlaceS | TPlaceN _ => is_word c
  | TDec _ _ _ => is_digit c                           (* 1.5 then 3 *)
  | TInt _ => is_word c || (c =? 45) || (c =? 46)     (* 2020-10-10, 1. *)
  | TDot => is_digit c                                 (* .5 *)
  | TLt | TGt => c =? 61                               (* <= >= *)
  | TSlash => c =? 42                                  (* comment opener *)
  | TPercent => (lower c =? 115) || (c =? 40)          (* %s %( *)
  | _ => false
  end.
Definition clash (t : token) (f : fclass) : bool :=
  match f with
  | FAlpha lc => match t with
                 | TKw _ | TId _ | TTable _ | TPlaceS | TPlaceN _ | TInt _ => true
                 | TPercent => lc =? 115                      (* %s *)
                 | _ => false
                 end
  | FDigit => match t with
              | TKw _ | TId _ | TTable _ | TPlaceS | TPlaceN _ | TDec _ _ _ | TInt _ | TDot => true
              | _ => false
              end
  | FQuote => false
  | FChar c => clash_char t c
  end.

Definition needs_space (t1 t2 : token) : bool := clash t1 (first_class t2).

(* g0 is put in front separately: s1 ++ g1 ++ s2 ++ g2 ... *)
Fixpoint weave (ss gs : list str) : str :=
  match ss, gs with
  | s :: ss', g :: gs' => s ++ g ++ weave ss' gs'
  | _, _ => []
  end.

(* one separator after every token, the last one may end in an open `;` comment; empty only where allowed *)
Fixpoint seps_ok (ts : list token) (gs : list str) : Prop :=
  match ts, gs with
  | [], [] => True
  | [t], [g] => sep_end g
  | t :: ((t2 :: _) as ts'), g :: gs' => sep g /\ (g = [] -> needs_space t t2 = false) /\ seps_ok ts' gs'
  | _, _ => False
  end.

Definition render_text (g0 : str) (ss gs : list str) : str := g0 ++ weave ss gs.
