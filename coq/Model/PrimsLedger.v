(* Primitive semantics for the translated ledger-facing cores (groups `ledger_*`: Gen/SrcLedgerPrepare.v,
   Gen/SrcLedgerTables.v, Gen/SrcLedgerBalance.v, Gen/SrcLedgerPrint.v, generated on every run from
   beanquery/query_env.py, sources/beancount.py, query_execute.py, compiler.py): what the attribute reads and library
   calls the translated statements make are ASSUMED to do.  Part of the trusted base of the C11-C14 `*_source_*`
   theorems.  Definitions only.

   OBJECTS.  A Python object with attributes (a Beancount directive or posting namedtuple, the Row context, a parser
   AST dataclass instance) is the value  obj cls flds  =  PTuple [class name; PList [PTuple [attribute name; value]]]:
     "attr:<a>"     on an object: the value bound to <a>, AttributeError when there is none
     "setattr:<a>"  on an object and a value: the object with <a> (re)bound - the translator's functional reading of
                    `x.a = v` on a local name x (src_ledger.LedgerTranslator)
   builtins.isinstance(v, C): C is an opaque reference of the generated file (named by its `refs` table, a parameter
   here) or a class value  cls_value name ; an object is an instance of its own class only (the directive classes
   have no subclasses), a scalar of its Python type (bool also of int).
   copy.copy is the identity (values, no aliasing); Inventory() is the empty inventory; Inventory.add_position is
   Model/Inventory.add_position on the encoded inventory and position; Row(entries, options) is the object Row.__init__
   builds on top of the class attributes (proved equal to the TRANSLATED Row.__init__ in Proofs/SrcLedgerTables.v);
   the dataclass constructors of beanquery.parser.ast build the object with their fields in declaration order.
   Everything else (the functions of beancount.ops.summarize) goes to [ext], about which the theorems state hypotheses.

   ENCODINGS of the model types into these values are defined next to the primitives: Model/Ledger.v records
   (directive, posting, amount, cost, metadata), Model/Inventory.v (inventory, position; with decoders, since
   add_position computes on them), Model/Statements.v (select and the nodes BALANCES / JOURNAL build). *)
From Coq Require Import String Ascii ZArith List Bool.
Import ListNotations.
From Verif Require Import Base.PyValue Model.Eval Model.Dates Model.Ledger Model.PyMini.
From Verif Require Model.Inventory Model.Statements Model.Balance.
Open Scope string_scope.
Open Scope list_scope.
Open Scope Z_scope.

Definition pstr (s : string) : pv := PV (VStr (s2z s)).

(* ------------------------------------------------------------------ objects *)
Definition enc_flds (flds : env) : list pv := map (fun kv => PTuple [pstr (fst kv); snd kv]) flds.
Definition obj (cls : string) (flds : env) : pv := PTuple [pstr cls; PList (enc_flds flds)].
(* a class as a value (the `datatype` attribute of a typed table) *)
Definition cls_value (name : string) : pv := PTuple [pstr "type"; pstr name].

Fixpoint kv_get (k : list Z) (l : list pv) : option pv :=
  match l with
  | [] => None
  | PTuple [PV (VStr k'); v] :: t => if str_eqb k' k then Some v else kv_get k t
  | _ :: t => kv_get k t
  end.
Fixpoint kv_set (k : list Z) (v : pv) (l : list pv) : list pv :=
  match l with
  | [] => [PTuple [PV (VStr k); v]]
  | PTuple [PV (VStr k'); w] :: t =>
      if str_eqb k' k then PTuple [PV (VStr k'); v] :: t else PTuple [PV (VStr k'); w] :: kv_set k v t
  | x :: t => x :: kv_set k v t
  end.

Fixpoint strip_prefix (p s : string) : option string :=
  match p with
  | EmptyString => Some s
  | String a p' =>
      match s with
      | String b s' => if Ascii.eqb a b then strip_prefix p' s' else None
      | EmptyString => None
      end
  end.

(* ------------------------------------------------------------------ Model/Ledger.v *)
Definition popt {A} (f : A -> pv) (o : option A) : pv := match o with Some a => f a | None => PNone end.
Definition pzstr (s : str) : pv := PV (VStr s).
Definition pdate (o : Z) : pv := PV (VDate o).
Definition pdec (d : dec) : pv := PV (VDec d).
Definition pstrs (l : list str) : pv := PList (map pzstr l).

Definition enc_amount (a : amount) : pv :=
  obj "beancount.core.amount.Amount" [("number", pdec (a_num a)); ("currency", pzstr (a_cur a))].
Definition enc_cost (c : cost) : pv :=
  obj "beancount.core.position.Cost"
      [("number", pdec (c_num c)); ("currency", pzstr (c_cur c)); ("date", popt pdate (c_date c));
       ("label", popt pzstr (c_label c))].
Definition enc_mvalue (v : mvalue) : pv :=
  match v with
  | MNone => PNone | MStr s => pzstr s | MInt z => PInt z | MDec d => pdec d | MDate o => pdate o
  | MBool b => PBool b | MAmount a => enc_amount a
  | MTol l => PList (map (fun kv => PTuple [pzstr (fst kv); pdec (snd kv)]) l)
  end.
(* a dict with str keys, in insertion order *)
Definition enc_meta (m : metadata) : pv := PList (map (fun kv => PTuple [pzstr (fst kv); enc_mvalue (snd kv)]) m).
Definition enc_posting (p : posting) : pv :=
  obj "beancount.core.data.Posting"
      [("account", pzstr (p_account p)); ("units", enc_amount (p_units p)); ("cost", popt enc_cost (p_cost p));
       ("price", popt enc_amount (p_price p)); ("flag", popt pzstr (p_flag p)); ("meta", popt enc_meta (p_meta p))].

Definition kind_class (k : dkind) : string :=
  "beancount.core.data." ++
  match k with
  | KTransaction => "Transaction" | KOpen => "Open" | KClose => "Close" | KCommodity => "Commodity" | KPad => "Pad"
  | KBalance => "Balance" | KNote => "Note" | KEvent => "Event" | KQuery => "Query" | KPrice => "Price"
  | KDocument => "Document" | KCustom => "Custom"
  end.

(* the fields of the namedtuple, in declaration order; "$hash" carries Ledger.d_id (compare.hash_entry) *)
Definition directive_fields (d : directive) : env :=
  match d with
  | Transaction i m t f p n tg lk ps =>
      [("meta", enc_meta m); ("date", pdate t); ("flag", popt pzstr f); ("payee", popt pzstr p);
       ("narration", popt pzstr n); ("tags", pstrs tg); ("links", pstrs lk);
       ("postings", PList (map enc_posting ps)); ("$hash", pzstr i)]
  | Open i m t a cs b =>
      [("meta", enc_meta m); ("date", pdate t); ("account", pzstr a); ("currencies", popt pstrs cs);
       ("booking", popt pzstr b); ("$hash", pzstr i)]
  | Close i m t a => [("meta", enc_meta m); ("date", pdate t); ("account", pzstr a); ("$hash", pzstr i)]
  | Commodity i m t c => [("meta", enc_meta m); ("date", pdate t); ("currency", pzstr c); ("$hash", pzstr i)]
  | Pad i m t a s =>
      [("meta", enc_meta m); ("date", pdate t); ("account", pzstr a); ("source_account", pzstr s); ("$hash", pzstr i)]
  | Balance i m t a x tol df =>
      [("meta", enc_meta m); ("date", pdate t); ("account", pzstr a); ("amount", enc_amount x);
       ("tolerance", popt pdec tol); ("diff_amount", popt enc_amount df); ("$hash", pzstr i)]
  | Note i m t a c tg lk =>
      [("meta", enc_meta m); ("date", pdate t); ("account", pzstr a); ("comment", pzstr c); ("tags", popt pstrs tg);
       ("links", popt pstrs lk); ("$hash", pzstr i)]
  | Event i m t ty ds =>
      [("meta", enc_meta m); ("date", pdate t); ("type", pzstr ty); ("description", pzstr ds); ("$hash", pzstr i)]
  | Query i m t n q =>
      [("meta", enc_meta m); ("date", pdate t); ("name", pzstr n); ("query_string", pzstr q); ("$hash", pzstr i)]
  | Price i m t c a =>
      [("meta", enc_meta m); ("date", pdate t); ("currency", pzstr c); ("amount", enc_amount a); ("$hash", pzstr i)]
  | Document i m t a f tg lk =>
      [("meta", enc_meta m); ("date", pdate t); ("account", pzstr a); ("filename", pzstr f); ("tags", popt pstrs tg);
       ("links", popt pstrs lk); ("$hash", pzstr i)]
  | Custom i m t ty => [("meta", enc_meta m); ("date", pdate t); ("type", pzstr ty); ("$hash", pzstr i)]
  end.
Definition enc_directive (d : directive) : pv := obj (kind_class (d_kind d)) (directive_fields d).
Definition enc_ledger (l : ledger) : pv := PList (map enc_directive l).

(* ------------------------------------------------------------------ Model/Inventory.v *)
Module Inv.
Import Verif.Model.Inventory.

Definition enc_ocost (c : option cost) : pv :=
  match c with
  | None => PNone
  | Some c => PTuple [PInt (cnum c); PInt (ccur c); PInt (cdate c); match clabel c with Some l => PInt l | None => PNone end]
  end.
Definition dec_ocost (v : pv) : option (option cost) :=
  match v with
  | PV VNull => Some None
  | PTuple [PV (VInt n); PV (VInt c); PV (VInt d); PV (VInt l)] => Some (Some (mkcost n c d (Some l)))
  | PTuple [PV (VInt n); PV (VInt c); PV (VInt d); PV VNull] => Some (Some (mkcost n c d None))
  | _ => None
  end.
(* what Inventory.add_position reads of a posting / position: units.number, units.currency, cost *)
Definition enc_position (p : position) : pv := PTuple [PInt (pnum p); PInt (pcur p); enc_ocost (pcost p)].
Definition dec_position (v : pv) : option position :=
  match v with
  | PTuple [PV (VInt n); PV (VInt c); k] => match dec_ocost k with Some k' => Some (mkpos n c k') | None => None end
  | _ => None
  end.
Definition enc_entry (e : entry) : pv := PTuple [PInt (fst (fst e)); enc_ocost (snd (fst e)); PInt (snd e)].
Definition dec_entry (v : pv) : option entry :=
  match v with
  | PTuple [PV (VInt c); k; PV (VInt n)] => match dec_ocost k with Some k' => Some ((c, k'), n) | None => None end
  | _ => None
  end.
Definition enc_inv (i : inventory) : pv := PList (map enc_entry i).
Fixpoint dec_entries (l : list pv) : option inventory :=
  match l with
  | [] => Some []
  | x :: t => match dec_entry x, dec_entries t with Some e, Some r => Some (e :: r) | _, _ => None end
  end.
Definition dec_inv (v : pv) : option inventory := match v with PList l => dec_entries l | _ => None end.
End Inv.

(* ------------------------------------------------------------------ the Row context (query_env.Row) *)
Definition ROW : string := "beanquery.query_env.Row".
(* vars(Row) (the class attributes) overlaid with what Row.__init__ assigns *)
Definition row0 : env :=
  [("rowid", PInt 0); ("posting", PNone); ("entry", PNone); ("balance", Inv.enc_inv []); ("balance_rowid", PNone);
   ("balance_value", PNone)].
Definition row_obj (rowid : Z) (entry posting : pv) : pv :=
  obj ROW [("rowid", PInt rowid); ("posting", posting); ("entry", entry); ("balance", Inv.enc_inv []);
           ("balance_rowid", PNone); ("balance_value", PNone)].

(* the Row fields of Model/Balance.rowst, with the posting the row carries *)
Definition enc_memo_id (m : option (Z * Inventory.inventory)) : pv :=
  match m with Some (i, _) => PInt i | None => PNone end.
Definition enc_memo_val (m : option (Z * Inventory.inventory)) : pv :=
  match m with Some (_, v) => Inv.enc_inv v | None => PNone end.
Definition rowst_fields (st : Balance.rowst) (posting entry : pv) : env :=
  [("rowid", PInt (Balance.rowid st)); ("posting", posting); ("entry", entry); ("balance", Inv.enc_inv (Balance.rbal st));
   ("balance_rowid", enc_memo_id (Balance.memo st)); ("balance_value", enc_memo_val (Balance.memo st))].

(* ------------------------------------------------------------------ Model/Statements.v *)
Module Stm.
Import Verif.Model.Statements.

Definition pz (s : Statements.str) : pv := PV (VStr s).
Definition AST : string := "beanquery.parser.ast.".
Definition binop_class (op : binop) : string :=
  AST ++ match op with
         | Match => "Match" | NotMatch => "NotMatch" | Equal => "Equal" | NotEqual => "NotEqual" | Greater => "Greater"
         | GreaterEq => "GreaterEq" | Less => "Less" | LessEq => "LessEq" | In_ => "In" | NotIn => "NotIn"
         | Add => "Add" | Sub => "Sub" | Mul => "Mul" | Div => "Div" | Mod => "Mod"
         end.
Definition unop_class (op : unop) : string :=
  AST ++ match op with Not => "Not" | IsNull => "IsNull" | IsNotNull => "IsNotNull" | Neg => "Neg" end.
Definition boolop_class (op : boolop) : string := AST ++ match op with And => "And" | Or => "Or" end.

Fixpoint enc_expr (e : expr) : pv :=
  match e with
  | Column n => obj (AST ++ "Column") [("name", pz n)]
  | Constant v => obj (AST ++ "Constant") [("value", PV v)]
  | Function f args => obj (AST ++ "Function") [("fname", pz f); ("operands", PList (map enc_expr args))]
  | BinaryOp op l r => obj (binop_class op) [("left", enc_expr l); ("right", enc_expr r)]
  | UnaryOp op a => obj (unop_class op) [("operand", enc_expr a)]
  | BoolOp op args => obj (boolop_class op) [("args", PList (map enc_expr args))]
  | Placeholder n => obj (AST ++ "Placeholder") [("name", pz n)]
  end.
Definition ptrue (b : bool) : pv := if b then PBool true else PNone.     (* Python None or True *)
Definition enc_close (c : closev) : pv := match c with CloseTrue => PBool true | CloseOn d => PV (VDate d) end.
Definition enc_from (f : from_) : pv :=
  obj (AST ++ "From") [("expression", popt enc_expr (f_expression f)); ("open", popt (fun d => PV (VDate d)) (f_open f));
                       ("close", popt enc_close (f_close f)); ("clear", ptrue (f_clear f))].
Definition enc_target (t : target) : pv :=
  obj (AST ++ "Target") [("expression", enc_expr (t_expression t)); ("name", popt pz (t_name t))].
Definition enc_groupby (g : groupby) : pv :=
  obj (AST ++ "GroupBy") [("columns", PList (map enc_expr (g_columns g))); ("having", popt enc_expr (g_having g))].
Definition enc_orderby (o : orderby) : pv :=
  obj (AST ++ "OrderBy") [("column", enc_expr (o_column o));
                          ("ordering", PInt (match o_ordering o with ASC => 1 | DESC => 2 end))].
Definition select_fields (s : select) : env :=
  [("targets", PList (map enc_target (s_targets s))); ("from_clause", popt enc_from (s_from s));
   ("where_clause", popt enc_expr (s_where s)); ("group_by", popt enc_groupby (s_group_by s));
   ("order_by", popt (fun l => PList (map enc_orderby l)) (s_order_by s));
   ("pivot_by", popt (fun l => PList (map enc_expr l)) (s_pivot_by s)); ("limit", popt PInt (s_limit s));
   ("distinct", ptrue (s_distinct s))].
Definition enc_select (s : select) : pv := obj (AST ++ "Select") (select_fields s).
(* the attributes of the statement nodes the transformations read *)
Definition balances_fields (b : balances) : env :=
  [("summary_func", popt pz (b_summary_func b)); ("from_clause", popt enc_from (b_from b));
   ("where_clause", popt enc_expr (b_where b))].
Definition journal_fields (j : journal) : env :=
  [("account", popt pz (j_account j)); ("summary_func", popt pz (j_summary_func j));
   ("from_clause", popt enc_from (j_from j))].
End Stm.

(* ------------------------------------------------------------------ isinstance *)
Definition classes_of (v : pv) : list (list Z) :=
  match v with
  | PV VNull => [s2z "builtins.NoneType"]
  | PV (VBool _) => [s2z "builtins.bool"; s2z "builtins.int"]
  | PV (VInt _) => [s2z "builtins.int"]
  | PV (VDec _) => [s2z "decimal.Decimal"]
  | PV (VStr _) => [s2z "builtins.str"]
  | PV (VDate _) => [s2z "datetime.date"]
  | PV (VErr _) => []
  | PTuple [PV (VStr c); PList _] => [c]
  | PTuple _ => [s2z "builtins.tuple"]
  | PList _ => [s2z "builtins.list"]
  | PRef _ | PSelf => []
  end.

Section Prims.
(* the `refs` table of the generated file whose terms are interpreted: names the opaque references *)
Variable refs : list (nat * string).
(* the library functions this file does not interpret *)
Variable ext : string -> list pv -> res pv.

Fixpoint ref_name (k : nat) (l : list (nat * string)) : option string :=
  match l with [] => None | (j, n) :: t => if Nat.eqb j k then Some n else ref_name k t end.

Definition class_name (c : pv) : option (list Z) :=
  match c with
  | PRef k => option_map s2z (ref_name k refs)
  | PTuple [PV (VStr t); PV (VStr n)] => if str_eqb t (s2z "type") then Some n else None
  | _ => None
  end.

Definition isinstance (v c : pv) : res pv :=
  match class_name c with
  | Some n => Ok (PBool (existsb (str_eqb n) (classes_of v)))
  | None => Stuck
  end.

(* the dataclasses of beanquery.parser.ast the translated code constructs: their fields in declaration order
   (parseinfo, keyword-only in practice and excluded from comparisons, is left out); compared with the fields of the
   imported classes in Proofs/SrcLedgerPrint.v *)
Definition ast_decls : list (string * list string) :=
  [("beanquery.parser.ast.Select",
    ["targets"; "from_clause"; "where_clause"; "group_by"; "order_by"; "pivot_by"; "limit"; "distinct"]);
   ("beanquery.parser.ast.Match", ["left"; "right"]);
   ("beanquery.parser.ast.Column", ["name"]);
   ("beanquery.parser.ast.Constant", ["value"])].

Definition ast_ctor (cls : string) (names : list string) (args : list pv) : res pv :=
  if Nat.eqb (length names) (length args) then Ok (obj cls (combine names args)) else Exc TypeError.

Definition prims_ledger (name : string) (args : list pv) : res pv :=
  match strip_prefix "attr:" name with
  | Some a =>
      match args with
      | [PTuple [PV (VStr _); PList kvs]] =>
          match kv_get (s2z a) kvs with Some v => Ok v | None => Exc AttributeError end
      | _ => ext name args
      end
  | None =>
  match strip_prefix "setattr:" name with
  | Some a =>
      match args with
      | [PTuple [PV (VStr c); PList kvs]; v] => Ok (PTuple [PV (VStr c); PList (kv_set (s2z a) v kvs)])
      | _ => ext name args
      end
  | None =>
      if String.eqb name "builtins.isinstance" then
        match args with [v; c] => isinstance v c | _ => Exc TypeError end
      else if String.eqb name "copy.copy" then
        match args with [v] => Ok v | _ => Exc TypeError end
      else if String.eqb name "beancount.core.inventory.Inventory" then
        match args with [] => Ok (Inv.enc_inv []) | _ => ext name args end
      else if String.eqb name ROW then
        match args with [_; _] => Ok (obj ROW row0) | _ => Exc TypeError end
      else if String.eqb name "method:add_position" then
        match args with
        | [i; p] =>
            match Inv.dec_inv i, Inv.dec_position p with
            | Some i', Some p' => Ok (PTuple [Inv.enc_inv (Inventory.add_position i' p'); PNone])
            | _, _ => ext name args
            end
        | _ => ext name args
        end
      else match find (fun d => String.eqb name (fst d)) ast_decls with
           | Some d => ast_ctor (fst d) (snd d) args
           | None => ext name args
           end
  end
  end.
End Prims.
