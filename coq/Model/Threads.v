(* C20 Thread isolation: an executable small-step model of n threads each executing
   one BQL statement (Cursor.execute = compile + execute_query), interleaved by an
   explicit schedule.

   What is mirrored (files in /repo/beanquery):
   - compiler.py  Compiler.compile: the placeholder check, the renumbering of positional
     placeholders ON THE PARSED STATEMENT (the only write to the AST), _placeholder
     (EvalConstant(parameters[node.name])), _function (registry lookup, constant folding
     of pure functions: the function is CALLED at compile time), _inop (subquery ->
     EvalConstantSubquery1D).  One Compiler per execute: its fields are thread-private.
   - query_execute.py execute_select: the row loop (WHERE, then the targets left to
     right), the aggregate loop (key, store lookup/creation, update of every aggregate
     in order, finalisation in insertion order of the keys).
   - query_compile.py EvalBinaryOp/EvalAnd short circuit on NULL, EvalConstantSubquery1D
     (lazy evaluation at first use, value cached on the compiled node = per execute),
     aggregate state kept on the compiled nodes / stores (per execute).
   - query_env.py PostingsTable.__iter__ (a fresh Row context per table scan, rowid += 1
     per posting, private running balance), the `balance` column in BOTH designs:
       OLD (before /repo 960d829): functools.lru_cache(maxsize=1) at module level, key =
           the Row object (hash = rowid at call time, equality = identity), value = the
           copy of the running balance made on the miss;
       NEW: memo (balance_rowid, balance_value) on the Row context itself.
     Which design is in force is decided by the shared-cell inventory [cells] that
     Gen/SharedState.v extracts from the imported code (CBalanceCache present = OLD).
   - query_env.function wrapper: NULL argument -> NULL without calling the function.

   State reachable by more than one thread lives in [glob]; everything else is carried
   functionally inside the thread's remaining computation [comp].  A thread is a tree
   of operations on [glob] with [Yield] nodes where another thread may be scheduled.
   No proofs here. *)
From Coq Require Import ZArith List Bool String.
Import ListNotations.
From Verif Require Import Base.Out.
Open Scope Z_scope.

(* ------------------------------------------------------------------ *)
(* Shared-cell inventory (instantiated by Gen/SharedState.v)           *)

Inductive cell_id :=
| CBalanceCache                 (* functools cache on query_env.balance *)
| CUnknown (name : string).     (* any other process-wide cache / container written at query time *)

Definition is_balance_cache (c : cell_id) : bool :=
  match c with CBalanceCache => true | _ => false end.

Definition balance_cached (cells : list cell_id) : bool := existsb is_balance_cache cells.

(* ------------------------------------------------------------------ *)
(* Values, rows, statements                                            *)

Definition value := option Z.            (* None = NULL; booleans are 0/1; an Inventory is its USD number *)

Definition truthy (v : value) : bool :=
  match v with Some z => negb (z =? 0) | None => false end.

Definition b2v (b : bool) : value := Some (if b then 1 else 0).

Definition veqb (a b : value) : bool :=
  match a, b with
  | Some x, Some y => x =? y
  | None, None => true
  | _, _ => false
  end.

Inductive col := CYear | CDay | CNumber.

Record posting := mkP { p_year : Z; p_day : Z; p_number : Z }.

Definition getcol (c : col) (p : posting) : Z :=
  match c with CYear => p_year p | CDay => p_day p | CNumber => p_number p end.

(* Placeholder.name as found on the AST: '' as parsed from %s, an int after the
   renumbering, a str for %(name)s. *)
Inductive phname := PhEmpty | PhInt (i : Z) | PhName (n : Z).

Definition ph_truthy (n : phname) : bool :=
  match n with PhEmpty => false | PhInt i => negb (i =? 0) | PhName _ => true end.

Inductive params := PNone | PSeq (l : list value) | PMap (m : list (Z * value)).

Inductive expr :=
| EConst (v : value)
| ECol (c : col)
| EBalance                                  (* the `balance` column *)
| EParam (i : nat)                          (* i-th Placeholder node in source order *)
| EYield (e : expr)                         (* vyield(e): harness function, returns e, yield point *)
| EUnknown (e : expr)                       (* nosuchfn(e): a name absent from the registry *)
| EEmpty (e : expr)                         (* empty(inventory) *)
| EAdd (a b : expr)
| ELt (a b : expr)
| EAnd (a b : expr)
| EIn (id : nat) (a tgt whr : expr).        (* a IN (SELECT tgt FROM <same table> WHERE whr); id = node identity *)

Inductive aggf := ASum | ACount | AFirst | ALast.

Inductive query :=
| QSelect (targets : list expr) (whr : expr)
| QAgg (key : expr) (aggs : list (aggf * expr)) (whr : expr).   (* SELECT key, aggs... WHERE whr GROUP BY 1 *)

Record stmt := mkStmt { s_ph : list phname; s_query : query }.

(* One thread = one Cursor.execute.  [p_share = Some k]: the parsed statement object is
   the k-th statement object shared between threads (its placeholder names live in
   [glob]); [None]: the statement is private (a string parsed inside execute, or a
   parsed object used by this thread only). *)
Record prog := mkProg {
  p_stmt : stmt;
  p_share : option nat;
  p_params : params;
  p_rows : list posting }.

(* 1 ProgrammingError (mixed / missing / count), 2 TypeError, 3 CompilationError, 4 other *)
Inductive result := RRows (rows : list (list value)) | RErr (kind : Z).

(* ------------------------------------------------------------------ *)
(* Global state and the computation trees                              *)

Definition ckey := (Z * Z * Z)%type.       (* Row identity (thread, serial number of the scan) and rowid *)

Definition ckey_eqb (a b : ckey) : bool :=
  let '(a1, a2, a3) := a in let '(b1, b2, b3) := b in (a1 =? b1) && (a2 =? b2) && (a3 =? b3).

Record glob := mkG {
  g_cache : option (ckey * Z);             (* the one-entry lru cache of `balance` (OLD design) *)
  g_stmts : list (nat * list phname);      (* placeholder names of the shared parsed statements *)
  g_reg : list Z }.                        (* function registry (names); never written *)

Inductive comp (A : Type) :=
| Ret (a : A)
| Yield (k : comp A)
| GetCache (k : option (ckey * Z) -> comp A)
| PutCache (v : ckey * Z) (k : comp A)
| GetStmt (s : nat) (k : option (list phname) -> comp A)
| PutStmt (s : nat) (v : list phname) (k : comp A)
| GetReg (k : list Z -> comp A).
Arguments Ret {A}. Arguments Yield {A}. Arguments GetCache {A}. Arguments PutCache {A}.
Arguments GetStmt {A}. Arguments PutStmt {A}. Arguments GetReg {A}.

Fixpoint bind {A B} (c : comp A) (f : A -> comp B) : comp B :=
  match c with
  | Ret a => f a
  | Yield k => Yield (bind k f)
  | GetCache k => GetCache (fun x => bind (k x) f)
  | PutCache v k => PutCache v (bind k f)
  | GetStmt s k => GetStmt s (fun x => bind (k x) f)
  | PutStmt s v k => PutStmt s v (bind k f)
  | GetReg k => GetReg (fun x => bind (k x) f)
  end.

Fixpoint lookup {V} (k : nat) (l : list (nat * V)) : option V :=
  match l with
  | [] => None
  | (k', v) :: t => if Nat.eqb k k' then Some v else lookup k t
  end.

Fixpoint upsert {V} (k : nat) (v : V) (l : list (nat * V)) : list (nat * V) :=
  match l with
  | [] => [(k, v)]
  | (k', v') :: t => if Nat.eqb k k' then (k, v) :: t else (k', v') :: upsert k v t
  end.

(* Run a thread up to and including its next yield point (or to its end). *)
Fixpoint to_yield {A} (c : comp A) (g : glob) : comp A * glob :=
  match c with
  | Ret a => (Ret a, g)
  | Yield k => (k, g)
  | GetCache k => to_yield (k (g_cache g)) g
  | PutCache v k => to_yield k (mkG (Some v) (g_stmts g) (g_reg g))
  | GetStmt s k => to_yield (k (lookup s (g_stmts g))) g
  | PutStmt s v k => to_yield k (mkG (g_cache g) (upsert s v (g_stmts g)) (g_reg g))
  | GetReg k => to_yield (k (g_reg g)) g
  end.

(* Run a thread to its end without giving up control. *)
Fixpoint to_end {A} (c : comp A) (g : glob) : A * glob :=
  match c with
  | Ret a => (a, g)
  | Yield k => to_end k g
  | GetCache k => to_end (k (g_cache g)) g
  | PutCache v k => to_end k (mkG (Some v) (g_stmts g) (g_reg g))
  | GetStmt s k => to_end (k (lookup s (g_stmts g))) g
  | PutStmt s v k => to_end k (mkG (g_cache g) (upsert s v (g_stmts g)) (g_reg g))
  | GetReg k => to_end (k (g_reg g)) g
  end.

Fixpoint set_nth {A} (i : nat) (x : A) (l : list A) : list A :=
  match l, i with
  | [], _ => []
  | _ :: t, O => x :: t
  | h :: t, S j => h :: set_nth j x t
  end.

Definition sstate (A : Type) := (list (comp A) * glob)%type.

(* One schedule entry: thread i runs to its next yield point.  A finished thread
   (or an id that names no thread) is a no-op. *)
Definition step {A} (st : sstate A) (i : nat) : sstate A :=
  match nth_error (fst st) i with
  | Some c => let (c', g') := to_yield c (snd st) in (set_nth i c' (fst st), g')
  | None => st
  end.

(* After the schedule is exhausted the threads are completed one after the other. *)
Fixpoint drain {A} (ts : list (comp A)) (g : glob) : list A * glob :=
  match ts with
  | [] => ([], g)
  | c :: t => let (a, g1) := to_end c g in let (r, g2) := drain t g1 in (a :: r, g2)
  end.

Definition run_state {A} (sched : list nat) (st : sstate A) : list A * glob :=
  let st' := fold_left step sched st in drain (fst st') (snd st').

(* ------------------------------------------------------------------ *)
(* Compilation                                                         *)

Definition FN_VYIELD : Z := 1.
Definition FN_EMPTY : Z := 2.
Definition FN_SUM : Z := 3.
Definition FN_COUNT : Z := 4.
Definition FN_FIRST : Z := 5.
Definition FN_LAST : Z := 6.
Definition FN_NOSUCH : Z := 99.
Definition default_registry : list Z := [FN_VYIELD; FN_EMPTY; FN_SUM; FN_COUNT; FN_FIRST; FN_LAST].

Definition in_reg (f : Z) (reg : list Z) : bool := existsb (Z.eqb f) reg.

Definition yield_if {A} (b : bool) (k : comp A) : comp A := if b then Yield k else k.

(* Where the placeholder names of this execution's statement are. *)
Definition get_names {A} (share : option nat) (own : list phname) (k : list phname -> comp A) : comp A :=
  match share with
  | None => k own
  | Some s => GetStmt s (fun o => k (match o with Some n => n | None => own end))
  end.

Fixpoint map_lookup (n : Z) (m : list (Z * value)) : option value :=
  match m with
  | [] => None
  | (k, v) :: t => if k =? n then Some v else map_lookup n t
  end.

(* self.parameters[node.name] *)
Definition param_value (ps : params) (n : phname) : value + Z :=
  match ps, n with
  | PSeq l, PhInt i => if i <? 0 then inr 4 else match nth_error l (Z.to_nat i) with Some v => inl v | None => inr 4 end
  | PSeq _, _ => inr 2
  | PMap m, PhName k => match map_lookup k m with Some v => inl v | None => inr 4 end
  | PMap _, _ => inr 4
  | PNone, _ => inr 2
  end.

Definition cres := (expr + Z)%type.

Section Compile.
Variable fine : bool.
Variable share : option nat.
Variable own : list phname.     (* the names after this Compiler's own check/renumbering *)
Variable ps : params.

(* Compiler._compile on an expression.  Order of the walk as in the code: operands
   first (left to right), then the registry lookup, then constant folding. *)
Fixpoint cexpr (e : expr) : comp cres :=
  match e with
  | EConst v => Ret (inl (EConst v))
  | ECol c => Ret (inl (ECol c))
  | EBalance => Ret (inl EBalance)
  | EParam i =>
      get_names share own (fun names =>
        match nth_error names i with
        | None => Ret (inr 4)
        | Some n => match param_value ps n with inl v => Ret (inl (EConst v)) | inr k => Ret (inr k) end
        end)
  | EYield a =>
      bind (cexpr a) (fun ra =>
        match ra with
        | inr k => Ret (inr k)
        | inl a' =>
            GetReg (fun reg =>
              if in_reg FN_VYIELD reg then
                match a' with
                | EConst None => Ret (inl (EConst None))            (* folded: NULL argument, function not called *)
                | EConst (Some z) => Yield (Ret (inl (EConst (Some z))))   (* folded: called at compile time *)
                | _ => Ret (inl (EYield a'))
                end
              else Ret (inr 3))
        end)
  | EUnknown a =>
      bind (cexpr a) (fun ra =>
        match ra with
        | inr k => Ret (inr k)
        | inl a' => GetReg (fun reg => if in_reg FN_NOSUCH reg then Ret (inl (EUnknown a')) else Ret (inr 3))
        end)
  | EEmpty a =>
      bind (cexpr a) (fun ra =>
        match ra with
        | inr k => Ret (inr k)
        | inl a' => GetReg (fun reg => if in_reg FN_EMPTY reg then Ret (inl (EEmpty a')) else Ret (inr 3))
        end)
  | EAdd a b => cbin EAdd (cexpr a) (cexpr b)
  | ELt a b => cbin ELt (cexpr a) (cexpr b)
  | EAnd a b => cbin EAnd (cexpr a) (cexpr b)
  | EIn id a tgt whr =>
      (* left, then the subquery: its targets, then its WHERE *)
      bind (cexpr a) (fun ra =>
        match ra with
        | inr k => Ret (inr k)
        | inl a' =>
          bind (cexpr tgt) (fun rt =>
            match rt with
            | inr k => Ret (inr k)
            | inl t' =>
              bind (cexpr whr) (fun rw =>
                match rw with
                | inr k => Ret (inr k)
                | inl w' => Ret (inl (EIn id a' t' w'))
                end)
            end)
        end)
  end
with cbin (mk : expr -> expr -> expr) (ca cb : comp cres) {struct ca} : comp cres := ca.
End Compile.
