(* C20 Thread isolation: an executable small-step model of n threads each executing
   one BQL statement (Cursor.execute = compile + execute_query), interleaved by an
   explicit schedule.

   What is mirrored (files in /repo/beanquery):
   - compiler.py  Compiler.compile: the placeholder check, the renumbering of positional
     placeholders ON THE PARSED STATEMENT (the only write to the AST), _placeholder
     (EvalConstant(parameters[node.name])), _function (registry lookup, constant folding
     of pure functions: the function is CALLED at compile time), _inop (subquery ->
     EvalConstantSubquery1D).  One Compiler per execute: its fields are thread-private.
   - query_execute.py execute_select: the row loop (WHERE, then the targets left to
     right), the aggregate loop (key, store lookup/creation, update of every aggregate
     in order, finalisation in insertion order of the keys).
   - query_compile.py EvalBinaryOp/EvalAnd short circuit on NULL, EvalConstantSubquery1D
     (lazy evaluation at first use, value cached on the compiled node = per execute),
     aggregate state kept on the compiled nodes / stores (per execute).
   - query_env.py PostingsTable.__iter__ (a fresh Row context per table scan, rowid += 1
     per posting, private running balance), the `balance` column in BOTH designs:
       OLD (before /repo 960d829): functools.lru_cache(maxsize=1) at module level, key =
           the Row object (hash = rowid at call time, equality = identity), value = the
           copy of the running balance made on the miss;
       NEW: memo (balance_rowid, balance_value) on the Row context itself.
     Which design is in force is decided by the shared-cell inventory [cells] that
     Gen/SharedState.v extracts from the imported code (CBalanceCache present = OLD).
   - query_env.function wrapper: NULL argument -> NULL without calling the function.

   State reachable by more than one thread lives in [glob]; everything else is carried
   functionally inside the thread's remaining computation [comp].  A thread is a tree
   of operations on [glob] with [Yield] nodes where another thread may be scheduled.
   No proofs here. *)
From Coq Require Import ZArith List Bool.
From Coq Require String.
Import ListNotations.
From Verif Require Import Base.Out.
Open Scope Z_scope.

(* ------------------------------------------------------------------ *)
(* Shared-cell inventory (instantiated by Gen/SharedState.v)           *)

Inductive cell_id :=
| CBalanceCache                 (* functools cache on query_env.balance *)
| CUnknown (name : String.string).     (* any other process-wide cache / container written at query time *)

Definition is_balance_cache (c : cell_id) : bool :=
  match c with CBalanceCache => true | _ => false end.

Definition balance_cached (cells : list cell_id) : bool := existsb is_balance_cache cells.

(* ------------------------------------------------------------------ *)
(* Values, rows, statements                                            *)

Definition value := option Z.            (* None = NULL; booleans are 0/1; an Inventory is its USD number *)

Definition truthy (v : value) : bool :=
  match v with Some z => negb (z =? 0) | None => false end.

Definition b2v (b : bool) : value := Some (if b then 1 else 0).

Definition veqb (a b : value) : bool :=
  match a, b with
  | Some x, Some y => x =? y
  | None, None => true
  | _, _ => false
  end.

Inductive col := CYear | CDay | CNumber.

Record posting := mkP { p_year : Z; p_day : Z; p_number : Z }.

Definition getcol (c : col) (p : posting) : Z :=
  match c with CYear => p_year p | CDay => p_day p | CNumber => p_number p end.

(* Placeholder.name as found on the AST: '' as parsed from %s, an int after the
   renumbering, a str for %(name)s. *)
Inductive phname := PhEmpty | PhInt (i : Z) | PhName (n : Z).

Definition ph_truthy (n : phname) : bool :=
  match n with PhEmpty => false | PhInt i => negb (i =? 0) | PhName _ => true end.

Inductive params := PNone | PSeq (l : list value) | PMap (m : list (Z * value)).

Inductive expr :=
| EConst (v : value)
| ECol (c : col)
| EBalance                                  (* the `balance` column *)
| EParam (i : nat)                          (* i-th Placeholder node in source order *)
| EYield (e : expr)                         (* vyield(e): harness function, returns e, yield point *)
| EUnknown (e : expr)                       (* nosuchfn(e): a name absent from the registry *)
| EEmpty (e : expr)                         (* empty(inventory) *)
| ENullOdd (e : expr)                       (* vnullodd(e): harness function, NULL when e is odd, else e *)
| EAdd (a b : expr)
| ELt (a b : expr)
| EAnd (a b : expr)
| EIn (id : nat) (a tgt whr : expr).        (* a IN (SELECT tgt FROM <same table> WHERE whr); id = node identity *)

Inductive aggf := ASum | ACount | AFirst | ALast.

Inductive query :=
| QSelect (targets : list expr) (whr : expr)
| QAgg (key : expr) (aggs : list (aggf * expr)) (whr : expr).   (* SELECT key, aggs... WHERE whr GROUP BY 1 *)

Record stmt := mkStmt { s_ph : list phname; s_query : query }.

(* One thread = one Cursor.execute.  [p_share = Some k]: the parsed statement object is
   the k-th statement object shared between threads (its placeholder names live in
   [glob]); [None]: the statement is private (a string parsed inside execute, or a
   parsed object used by this thread only). *)
Record prog := mkProg {
  p_stmt : stmt;
  p_share : option nat;
  p_params : params;
  p_rows : list posting }.

(* 1 ProgrammingError (mixed / missing / count), 2 TypeError, 3 CompilationError, 4 other *)
Inductive result := RRows (rows : list (list value)) | RErr (kind : Z).

(* ------------------------------------------------------------------ *)
(* Global state and the computation trees                              *)

Definition ckey := (Z * Z * Z)%type.       (* Row identity (thread, serial number of the scan) and rowid *)

Definition ckey_eqb (a b : ckey) : bool :=
  let '(a1, a2, a3) := a in let '(b1, b2, b3) := b in (a1 =? b1) && (a2 =? b2) && (a3 =? b3).

Record glob := mkG {
  g_cache : option (ckey * Z);             (* the one-entry lru cache of `balance` (OLD design) *)
  g_stmts : list (nat * list phname);      (* placeholder names of the shared parsed statements *)
  g_reg : list Z }.                        (* function registry (names); never written *)

Inductive comp (A : Type) :=
| Ret (a : A)
| Yield (tag : Z) (k : comp A)           (* a point where another thread may run; tag = value passed to vyield *)
| GetCache (k : option (ckey * Z) -> comp A)
| PutCache (v : ckey * Z) (k : comp A)
| GetStmt (s : nat) (k : option (list phname) -> comp A)
| PutStmt (s : nat) (v : list phname) (k : comp A)
| GetReg (k : list Z -> comp A).
Arguments Ret {A}. Arguments Yield {A}. Arguments GetCache {A}. Arguments PutCache {A}.
Arguments GetStmt {A}. Arguments PutStmt {A}. Arguments GetReg {A}.

Fixpoint bind {A B} (c : comp A) (f : A -> comp B) : comp B :=
  match c with
  | Ret a => f a
  | Yield t k => Yield t (bind k f)
  | GetCache k => GetCache (fun x => bind (k x) f)
  | PutCache v k => PutCache v (bind k f)
  | GetStmt s k => GetStmt s (fun x => bind (k x) f)
  | PutStmt s v k => PutStmt s v (bind k f)
  | GetReg k => GetReg (fun x => bind (k x) f)
  end.

Fixpoint lookup {V} (k : nat) (l : list (nat * V)) : option V :=
  match l with
  | [] => None
  | (k', v) :: t => if Nat.eqb k k' then Some v else lookup k t
  end.

Fixpoint upsert {V} (k : nat) (v : V) (l : list (nat * V)) : list (nat * V) :=
  match l with
  | [] => [(k, v)]
  | (k', v') :: t => if Nat.eqb k k' then (k, v) :: t else (k', v') :: upsert k v t
  end.

(* Run a thread up to and including its next yield point (or to its end). *)
Fixpoint to_yield {A} (c : comp A) (g : glob) : comp A * glob :=
  match c with
  | Ret a => (Ret a, g)
  | Yield _ k => (k, g)
  | GetCache k => to_yield (k (g_cache g)) g
  | PutCache v k => to_yield k (mkG (Some v) (g_stmts g) (g_reg g))
  | GetStmt s k => to_yield (k (lookup s (g_stmts g))) g
  | PutStmt s v k => to_yield k (mkG (g_cache g) (upsert s v (g_stmts g)) (g_reg g))
  | GetReg k => to_yield (k (g_reg g)) g
  end.

(* Run a thread to its end without giving up control. *)
Fixpoint to_end {A} (c : comp A) (g : glob) : A * glob :=
  match c with
  | Ret a => (a, g)
  | Yield _ k => to_end k g
  | GetCache k => to_end (k (g_cache g)) g
  | PutCache v k => to_end k (mkG (Some v) (g_stmts g) (g_reg g))
  | GetStmt s k => to_end (k (lookup s (g_stmts g))) g
  | PutStmt s v k => to_end k (mkG (g_cache g) (upsert s v (g_stmts g)) (g_reg g))
  | GetReg k => to_end (k (g_reg g)) g
  end.

Fixpoint set_nth {A} (i : nat) (x : A) (l : list A) : list A :=
  match l, i with
  | [], _ => []
  | _ :: t, O => x :: t
  | h :: t, S j => h :: set_nth j x t
  end.

Definition sstate (A : Type) := (list (comp A) * glob)%type.

(* One schedule entry: thread i runs to its next yield point.  A finished thread
   (or an id that names no thread) is a no-op. *)
Definition step {A} (st : sstate A) (i : nat) : sstate A :=
  match nth_error (fst st) i with
  | Some c => let (c', g') := to_yield c (snd st) in (set_nth i c' (fst st), g')
  | None => st
  end.

(* After the schedule is exhausted the threads are completed one after the other. *)
Fixpoint drain {A} (ts : list (comp A)) (g : glob) : list A * glob :=
  match ts with
  | [] => ([], g)
  | c :: t => let (a, g1) := to_end c g in let (r, g2) := drain t g1 in (a :: r, g2)
  end.

Definition run_state {A} (sched : list nat) (st : sstate A) : list A * glob :=
  let st' := fold_left step sched st in drain (fst st') (snd st').

(* Ghost trace, used by the correspondence only: (thread, tag) of every yield point
   passed, in global order (schedule phase, then the completion phase). *)
Fixpoint yield_tag {A} (c : comp A) (g : glob) : option Z :=
  match c with
  | Ret _ => None
  | Yield t _ => Some t
  | GetCache k => yield_tag (k (g_cache g)) g
  | PutCache v k => yield_tag k (mkG (Some v) (g_stmts g) (g_reg g))
  | GetStmt s k => yield_tag (k (lookup s (g_stmts g))) g
  | PutStmt s v k => yield_tag k (mkG (g_cache g) (upsert s v (g_stmts g)) (g_reg g))
  | GetReg k => yield_tag (k (g_reg g)) g
  end.

Fixpoint end_tags {A} (c : comp A) (g : glob) : list Z :=
  match c with
  | Ret _ => []
  | Yield t k => t :: end_tags k g
  | GetCache k => end_tags (k (g_cache g)) g
  | PutCache v k => end_tags k (mkG (Some v) (g_stmts g) (g_reg g))
  | GetStmt s k => end_tags (k (lookup s (g_stmts g))) g
  | PutStmt s v k => end_tags k (mkG (g_cache g) (upsert s v (g_stmts g)) (g_reg g))
  | GetReg k => end_tags (k (g_reg g)) g
  end.

Fixpoint trace_sched {A} (sched : list nat) (st : sstate A) : list (nat * Z) * sstate A :=
  match sched with
  | [] => ([], st)
  | i :: s =>
      let ev := match nth_error (fst st) i with
                | Some c => match yield_tag c (snd st) with Some t => [(i, t)] | None => [] end
                | None => []
                end in
      let (tr, st') := trace_sched s (step st i) in (ev ++ tr, st')
  end.

Fixpoint trace_drain {A} (i : nat) (ts : list (comp A)) (g : glob) : list (nat * Z) :=
  match ts with
  | [] => []
  | c :: t => map (pair i) (end_tags c g) ++ trace_drain (S i) t (snd (to_end c g))
  end.

Definition trace {A} (sched : list nat) (st : sstate A) : list (nat * Z) :=
  let (tr, st') := trace_sched sched st in tr ++ trace_drain 0 (fst st') (snd st').

(* ------------------------------------------------------------------ *)
(* Compilation                                                         *)

Definition FN_VYIELD : Z := 1.
Definition FN_EMPTY : Z := 2.
Definition FN_SUM : Z := 3.
Definition FN_COUNT : Z := 4.
Definition FN_FIRST : Z := 5.
Definition FN_LAST : Z := 6.
Definition FN_NULLODD : Z := 7.
Definition FN_NOSUCH : Z := 99.
Definition default_registry : list Z := [FN_VYIELD; FN_EMPTY; FN_SUM; FN_COUNT; FN_FIRST; FN_LAST; FN_NULLODD].

Definition in_reg (f : Z) (reg : list Z) : bool := existsb (Z.eqb f) reg.

Definition yield_if {A} (b : bool) (k : comp A) : comp A := if b then Yield (-1) k else k.

(* Where the placeholder names of this execution's statement are. *)
Definition get_names {A} (share : option nat) (own : list phname) (k : list phname -> comp A) : comp A :=
  match share with
  | None => k own
  | Some s => GetStmt s (fun o => k (match o with Some n => n | None => own end))
  end.

Fixpoint map_lookup (n : Z) (m : list (Z * value)) : option value :=
  match m with
  | [] => None
  | (k, v) :: t => if k =? n then Some v else map_lookup n t
  end.

(* self.parameters[node.name] *)
Definition param_value (ps : params) (n : phname) : value + Z :=
  match ps, n with
  | PSeq l, PhInt i => if i <? 0 then inr 4 else match nth_error l (Z.to_nat i) with Some v => inl v | None => inr 4 end
  | PSeq _, _ => inr 2
  | PMap m, PhName k => match map_lookup k m with Some v => inl v | None => inr 4 end
  | PMap _, _ => inr 4
  | PNone, _ => inr 2
  end.

Definition cres := (expr + Z)%type.

(* EvalBinaryOp on values: NULL short circuit *)
Definition vbin (op : Z -> Z -> value) (a b : value) : value :=
  match a, b with Some x, Some y => op x y | _, _ => None end.

(* query_env.function wrapper on values: a NULL argument gives NULL *)
Definition vfun (f : Z -> value) (a : value) : value :=
  match a with Some x => f x | None => None end.

Definition op_add (x y : Z) : value := Some (x + y).
Definition op_lt (x y : Z) : value := b2v (x <? y).
Definition f_empty (x : Z) : value := b2v (x =? 0).
Definition f_nullodd (x : Z) : value := if Z.odd x then None else Some x.

(* _binaryop: both operands, then constant folding when both are constants *)
Definition cbin (mk : expr -> expr -> expr) (op : option (Z -> Z -> value)) (ca cb : comp cres) : comp cres :=
  bind ca (fun ra =>
    match ra with
    | inr k => Ret (inr k)
    | inl a' => bind cb (fun rb =>
        match rb with
        | inr k => Ret (inr k)
        | inl b' =>
            match op, a', b' with
            | Some o, EConst x, EConst y => Ret (inl (EConst (vbin o x y)))
            | _, _, _ => Ret (inl (mk a' b'))
            end
        end)
    end).

(* _function: operand, registry lookup, constant folding of pure functions *)
Definition cfun (fname : Z) (mk : expr -> expr) (f : option (Z -> value)) (ca : comp cres) : comp cres :=
  bind ca (fun ra =>
    match ra with
    | inr k => Ret (inr k)
    | inl a' => GetReg (fun reg =>
        if in_reg fname reg then
          match f, a' with
          | Some fn, EConst x => Ret (inl (EConst (vfun fn x)))
          | _, _ => Ret (inl (mk a'))
          end
        else Ret (inr 3))
    end).

Definition agg_fname (f : aggf) : Z :=
  match f with ASum => FN_SUM | ACount => FN_COUNT | AFirst => FN_FIRST | ALast => FN_LAST end.

Fixpoint renumber (n : nat) (from : Z) : list phname :=
  match n with O => [] | S m => PhInt from :: renumber m (from + 1) end.

Definition has_key (m : list (Z * value)) (n : phname) : bool :=
  match n with PhName k => match map_lookup k m with Some _ => true | None => false end | _ => false end.

Section Compile.
Variable fine : bool.
Variable share : option nat.
Variable ps : params.

(* Compiler.compile, first part: the placeholder check; positional placeholders are
   renumbered by writing [placeholder.name = i] on the statement. Returns the names
   as this thread leaves them. *)
Definition check_placeholders (own : list phname) : comp (list phname + Z) :=
  get_names share own (fun names =>
    match names with
    | [] => Ret (inl [])
    | _ =>
      if forallb ph_truthy names then
        match ps with
        | PMap m => if forallb (has_key m) names then Ret (inl names) else Ret (inr 1)
        | _ => Ret (inr 2)
        end
      else if forallb (fun n => negb (ph_truthy n)) names then
        match ps with
        | PSeq l =>
            if Nat.eqb (length names) (length l) then
              let names' := renumber (length names) 0 in
              match share with
              | None => Ret (inl names')
              | Some s => yield_if fine (PutStmt s names' (yield_if fine (Ret (inl names'))))
              end
            else Ret (inr 1)
        | _ => Ret (inr 2)
        end
      else Ret (inr 1)
    end).

Variable own : list phname.     (* the names after this Compiler's own check/renumbering *)

(* Compiler._compile on an expression.  Order of the walk as in the code: operands
   first (left to right), then the registry lookup, then constant folding (a pure
   function whose operands are all constants is CALLED at compile time). *)
Fixpoint cexpr (e : expr) : comp cres :=
  match e with
  | EConst v => Ret (inl (EConst v))
  | ECol c => Ret (inl (ECol c))
  | EBalance => Ret (inl EBalance)
  | EParam i =>
      get_names share own (fun names =>
        match nth_error names i with
        | None => Ret (inr 4)
        | Some n => match param_value ps n with inl v => Ret (inl (EConst v)) | inr k => Ret (inr k) end
        end)
  | EYield a =>
      bind (cexpr a) (fun ra =>
        match ra with
        | inr k => Ret (inr k)
        | inl a' =>
            GetReg (fun reg =>
              if in_reg FN_VYIELD reg then
                match a' with
                | EConst None => Ret (inl (EConst None))                    (* folded; NULL argument: not called *)
                | EConst (Some z) => Yield z (Ret (inl (EConst (Some z))))  (* folded: called at compile time *)
                | _ => Ret (inl (EYield a'))
                end
              else Ret (inr 3))
        end)
  | EUnknown a => cfun FN_NOSUCH EUnknown None (cexpr a)
  | EEmpty a => cfun FN_EMPTY EEmpty (Some f_empty) (cexpr a)
  | ENullOdd a => cfun FN_NULLODD ENullOdd (Some f_nullodd) (cexpr a)
  | EAdd a b => cbin EAdd (Some op_add) (cexpr a) (cexpr b)
  | ELt a b => cbin ELt (Some op_lt) (cexpr a) (cexpr b)
  | EAnd a b => cbin EAnd None (cexpr a) (cexpr b)                 (* _and: no folding *)
  | EIn id a tgt whr =>
      (* left operand, then the subquery: its target, then its WHERE *)
      bind (cexpr a) (fun ra =>
        match ra with
        | inr k => Ret (inr k)
        | inl a' => cbin (EIn id a') None (cexpr tgt) (cexpr whr)
        end)
  end.

Fixpoint cexprs (l : list expr) : comp (list expr + Z) :=
  match l with
  | [] => Ret (inl [])
  | e :: t =>
      bind (cexpr e) (fun r =>
        match r with
        | inr k => Ret (inr k)
        | inl e' => bind (cexprs t) (fun rt => match rt with inr k => Ret (inr k) | inl t' => Ret (inl (e' :: t')) end)
        end)
  end.

Fixpoint caggs (l : list (aggf * expr)) : comp (list (aggf * expr) + Z) :=
  match l with
  | [] => Ret (inl [])
  | (f, e) :: t =>
      bind (cfun (agg_fname f) (fun x => x) None (cexpr e)) (fun r =>
        match r with
        | inr k => Ret (inr k)
        | inl e' => bind (caggs t) (fun rt => match rt with inr k => Ret (inr k) | inl t' => Ret (inl ((f, e') :: t')) end)
        end)
  end.

(* Compiler._select: targets first, then WHERE. *)
Definition cquery (q : query) : comp (query + Z) :=
  match q with
  | QSelect ts w =>
      bind (cexprs ts) (fun r =>
        match r with
        | inr k => Ret (inr k)
        | inl ts' => bind (cexpr w) (fun rw => match rw with inr k => Ret (inr k) | inl w' => Ret (inl (QSelect ts' w')) end)
        end)
  | QAgg key aggs w =>
      bind (cexpr key) (fun r =>
        match r with
        | inr k => Ret (inr k)
        | inl key' =>
          bind (caggs aggs) (fun ra =>
            match ra with
            | inr k => Ret (inr k)
            | inl aggs' => bind (cexpr w) (fun rw => match rw with inr k => Ret (inr k) | inl w' => Ret (inl (QAgg key' aggs' w')) end)
            end)
        end)
  end.
End Compile.

Definition compile (fine : bool) (share : option nat) (ps : params) (s : stmt) : comp (query + Z) :=
  bind (check_placeholders fine share ps (s_ph s)) (fun r =>
    match r with
    | inr k => Ret (inr k)
    | inl names => cquery share ps names (s_query s)
    end).

(* ------------------------------------------------------------------ *)
(* Evaluation                                                          *)

(* The Row context of one table scan. *)
Record ctx := mkC {
  c_id : Z * Z;                 (* identity of the Row object: (thread, serial number of the scan) *)
  c_rowid : Z;
  c_bal : Z;                    (* Row.balance: the private running balance *)
  c_memo : option (Z * Z);      (* NEW design: (balance_rowid, balance_value) *)
  c_post : posting }.

(* State on the compiled nodes of this execution. *)
Record lst := mkL {
  l_tid : Z;
  l_nctx : Z;                                   (* table scans started so far by this thread *)
  l_sub : list (nat * option (list value)) }.   (* EvalConstantSubquery1D.value per node; absent = MARKER *)

Definition next_row (c : ctx) (p : posting) : ctx :=
  mkC (c_id c) (c_rowid c + 1) (c_bal c) (c_memo c) p.

Definition new_ctx (l : lst) : ctx * lst :=
  (mkC (l_tid l, l_nctx l) 0 0 None (mkP 0 0 0), mkL (l_tid l) (l_nctx l + 1) (l_sub l)).

Definition set_sub (id : nat) (r : option (list value)) (l : lst) : lst :=
  mkL (l_tid l) (l_nctx l) (upsert id r (l_sub l)).

Definition ev := (value * ctx * lst)%type.

Section Eval.
Variable fine : bool.
Variable cached : bool.          (* OLD design: the module-level one-entry cache exists *)
Variable rows : list posting.    (* the table (subqueries scan the same table) *)

Definition advance (c : ctx) : Z := c_bal c + p_number (c_post c).

Definition eval_balance (c : ctx) (l : lst) : comp ev :=
  if cached then
    (* lru_cache(maxsize=1)(balance)(context): key = the Row (hash = rowid, eq = identity) *)
    let key := (fst (c_id c), snd (c_id c), c_rowid c) in
    let miss :=
      let b := advance c in
      yield_if fine (PutCache (key, b)
        (yield_if fine (Ret (Some b, mkC (c_id c) (c_rowid c) b (c_memo c) (c_post c), l)))) in
    yield_if fine (GetCache (fun ce =>
      match ce with
      | Some (k, v) => if ckey_eqb k key then Ret (Some v, c, l) else miss
      | None => miss
      end))
  else
    (* memo on the Row itself *)
    let hit := match c_memo c with Some (rid, v) => if rid =? c_rowid c then Some v else None | None => None end in
    match hit with
    | Some v => Ret (Some v, c, l)
    | None => let b := advance c in Ret (Some b, mkC (c_id c) (c_rowid c) b (Some (c_rowid c, b)) (c_post c), l)
    end.

(* EvalBinaryOp.__call__: left; NULL -> NULL without evaluating right; right; NULL -> NULL *)
Definition ebin (op : Z -> Z -> value) (ea : comp ev) (eb : ctx -> lst -> comp ev) : comp ev :=
  bind ea (fun '(va, c, l) =>
    match va with
    | None => Ret (None, c, l)
    | Some x => bind (eb c l) (fun '(vb, c, l) =>
        match vb with None => Ret (None, c, l) | Some y => Ret (op x y, c, l) end)
    end).

Fixpoint eval (e : expr) (c : ctx) (l : lst) {struct e} : comp ev :=
  match e with
  | EConst v => Ret (v, c, l)
  | ECol k => Ret (Some (getcol k (c_post c)), c, l)
  | EBalance => eval_balance c l
  | EParam _ => Ret (None, c, l)          (* does not survive compilation *)
  | EYield a =>
      (* query_env.function wrapper: arguments first; NULL -> NULL, function not called *)
      bind (eval a c l) (fun '(v, c, l) =>
        match v with None => Ret (None, c, l) | Some z => Yield z (Ret (Some z, c, l)) end)
  | EUnknown a => eval a c l
  | EEmpty a => bind (eval a c l) (fun '(v, c, l) => Ret (vfun f_empty v, c, l))
  | ENullOdd a => bind (eval a c l) (fun '(v, c, l) => Ret (vfun f_nullodd v, c, l))
  | EAdd a b => ebin op_add (eval a c l) (eval b)
  | ELt a b => ebin op_lt (eval a c l) (eval b)
  | EAnd a b =>
      (* EvalAnd: NULL -> NULL, false -> FALSE, short circuit *)
      bind (eval a c l) (fun '(va, c, l) =>
        match va with
        | None => Ret (None, c, l)
        | Some x =>
            if x =? 0 then Ret (b2v false, c, l) else
            bind (eval b c l) (fun '(vb, c, l) =>
              match vb with None => Ret (None, c, l) | Some y => Ret (b2v (negb (y =? 0)), c, l) end)
        end)
  | EIn id a tgt whr =>
      bind (eval a c l) (fun '(va, c, l) =>
        match va with
        | None => Ret (None, c, l)
        | Some _ =>
          bind
            (match lookup id (l_sub l) with
             | Some r => Ret (r, l)
             | None =>
                 (* EvalConstantSubquery1D.__call__: execute_query(subquery) now, nested *)
                 let (sc, l1) := new_ctx l in
                 bind ((fix scan (rs : list posting) (sc : ctx) (l : lst) (acc : list value) {struct rs}
                         : comp (list value * lst) :=
                          match rs with
                          | [] => Ret (acc, l)
                          | p :: rs' =>
                              let sc := next_row sc p in
                              yield_if fine
                                (bind (eval whr sc l) (fun '(w, sc, l) =>
                                   if truthy w
                                   then bind (eval tgt sc l) (fun '(v, sc, l) => scan rs' sc l (acc ++ [v]))
                                   else scan rs' sc l acc))
                          end) rows sc l1 [])
                      (fun '(vals, l) =>
                         let r := match vals with [] => None | _ => Some vals end in
                         Ret (r, set_sub id r l))
             end)
            (fun '(r, l) =>
               match r with
               | None => Ret (None, c, l)
               | Some vs => Ret (b2v (existsb (veqb va) vs), c, l)
               end)
        end)
  end.

Fixpoint evals (es : list expr) (c : ctx) (l : lst) : comp (list value * ctx * lst) :=
  match es with
  | [] => Ret ([], c, l)
  | e :: t =>
      bind (eval e c l) (fun '(v, c, l) =>
        bind (evals t c l) (fun '(vs, c, l) => Ret (v :: vs, c, l)))
  end.

(* execute_select, non-aggregate branch *)
Fixpoint select_loop (ts : list expr) (w : expr) (rs : list posting) (c : ctx) (l : lst)
         (acc : list (list value)) : comp (list (list value)) :=
  match rs with
  | [] => Ret acc
  | p :: rs' =>
      let c := next_row c p in
      yield_if fine
        (bind (eval w c l) (fun '(wv, c, l) =>
           if truthy wv
           then bind (evals ts c l) (fun '(vs, c, l) => select_loop ts w rs' c l (acc ++ [vs]))
           else select_loop ts w rs' c l acc))
  end.

(* aggregate stores: one per key, in insertion order *)
Definition store := list value.

Definition agg_init (f : aggf) : value :=
  match f with ASum | ACount => Some 0 | AFirst | ALast => None end.

(* the update() methods of the aggregators, in order, on one store *)
Fixpoint agg_update (aggs : list (aggf * expr)) (st : store) (c : ctx) (l : lst)
  : comp (store * ctx * lst) :=
  match aggs, st with
  | (f, e) :: t, s :: st' =>
      bind
        (match f with
         | ASum => bind (eval e c l) (fun '(v, c, l) =>
                     Ret (match v, s with Some x, Some y => Some (y + x) | _, _ => s end, c, l))
         | ACount => bind (eval e c l) (fun '(v, c, l) =>
                     Ret (match v, s with Some _, Some y => Some (y + 1) | _, _ => s end, c, l))
         | AFirst => match s with
                     | None => eval e c l
                     | Some _ => Ret (s, c, l)
                     end
         | ALast => eval e c l
         end)
        (fun '(s', c, l) => bind (agg_update t st' c l) (fun '(st'', c, l) => Ret (s' :: st'', c, l)))
  | _, _ => Ret ([], c, l)
  end.

Fixpoint find_store (k : value) (m : list (value * store)) : option store :=
  match m with
  | [] => None
  | (k', s) :: t => if veqb k k' then Some s else find_store k t
  end.

Fixpoint put_store (k : value) (s : store) (m : list (value * store)) : list (value * store) :=
  match m with
  | [] => [(k, s)]
  | (k', s') :: t => if veqb k k' then (k, s) :: t else (k', s') :: put_store k s t
  end.

(* execute_select, aggregate branch *)
Fixpoint agg_loop (key : expr) (aggs : list (aggf * expr)) (w : expr) (rs : list posting) (c : ctx) (l : lst)
         (m : list (value * store)) : comp (list (list value)) :=
  match rs with
  | [] => Ret (map (fun ks => fst ks :: snd ks) m)
  | p :: rs' =>
      let c := next_row c p in
      yield_if fine
        (bind (eval w c l) (fun '(wv, c, l) =>
           if truthy wv
           then bind (eval key c l) (fun '(kv, c, l) =>
                  let st := match find_store kv m with Some s => s | None => map (fun fe => agg_init (fst fe)) aggs end in
                  bind (agg_update aggs st c l) (fun '(st', c, l) =>
                    agg_loop key aggs w rs' c l (put_store kv st' m)))
           else agg_loop key aggs w rs' c l m))
  end.

Definition exec (tid : Z) (q : query) : comp result :=
  let (c, l) := new_ctx (mkL tid 0 []) in
  match q with
  | QSelect ts w => bind (select_loop ts w rows c l []) (fun r => Ret (RRows r))
  | QAgg key aggs w => bind (agg_loop key aggs w rows c l []) (fun r => Ret (RRows r))
  end.
End Eval.

(* ------------------------------------------------------------------ *)
(* Threads, schedules, results                                         *)

(* Cursor.execute of thread [tid].
   [astw]: Compiler.compile writes the numbering of positional placeholders on the parsed
   statement object (the code as it stands; extracted by Gen/SharedState.v).  When it does
   not, a parsed statement is never written and sharing it is immaterial.
   [fine] adds yield points at every row and around every access to a shared cell
   (finer than what the harness hook can drive). *)
Definition thread (cells : list cell_id) (astw fine : bool) (tid : Z) (p : prog) : comp result :=
  yield_if fine
    (bind (compile fine (if astw then p_share p else None) (p_params p) (p_stmt p)) (fun r =>
       match r with
       | inr k => Ret (RErr k)
       | inl q => exec fine (balance_cached cells) (p_rows p) tid q
       end)).

Fixpoint threads_from (cells : list cell_id) (astw fine : bool) (tid : Z) (ps : list prog) : list (comp result) :=
  match ps with
  | [] => []
  | p :: t => thread cells astw fine tid p :: threads_from cells astw fine (tid + 1) t
  end.

Fixpoint init_stmts (ps : list prog) (acc : list (nat * list phname)) : list (nat * list phname) :=
  match ps with
  | [] => acc
  | p :: t =>
      init_stmts t (match p_share p with
                    | Some k => match lookup k acc with Some _ => acc | None => acc ++ [(k, s_ph (p_stmt p))] end
                    | None => acc
                    end)
  end.

Definition init_glob (reg : list Z) (ps : list prog) : glob := mkG None (init_stmts ps []) reg.

Definition run_full (cells : list cell_id) (astw fine : bool) (reg : list Z) (sched : list nat) (ps : list prog)
  : list result * glob :=
  run_state sched (threads_from cells astw fine 0 ps, init_glob reg ps).

(* run : schedule -> programs -> results *)
Definition run (cells : list cell_id) (astw fine : bool) (sched : list nat) (ps : list prog) : list result :=
  fst (run_full cells astw fine default_registry sched ps).

(* Serial execution: thread 0 to its end, then thread 1, ... *)
Definition serial (cells : list cell_id) (astw fine : bool) (ps : list prog) : list result :=
  run cells astw fine [] ps.

(* The statement objects shared between threads are cells too. *)
Definition shared_statements (ps : list prog) : list nat :=
  flat_map (fun p => match p_share p with Some k => [k] | None => [] end) ps.

(* ------------------------------------------------------------------ *)
(* Output for the correspondence runner                                *)

Definition o_value (v : value) : out := match v with None => OL [] | Some z => OL [ON z] end.

Definition o_result (r : result) : out :=
  match r with
  | RRows rows => OL [ON 0; o_list (o_list o_value) rows]
  | RErr k => OL [ON 1; ON k]
  end.

Definition run_out (cells : list cell_id) (astw : bool) (sched : list nat) (ps : list prog) : out :=
  OL [o_list o_result (run cells astw false sched ps);
      o_list (fun it => OL [o_nat (fst it); ON (snd it)])
             (trace sched (threads_from cells astw false 0 ps, init_glob default_registry ps))].

(* ------------------------------------------------------------------ *)
(* Keyed cells (additive; nothing above depends on it).

   The statement model above interprets one kind of shared cell (the balance cache) and
   the shared parsed statements.  The inventory (Gen/SharedState.v) also looks for
   containers the statement model has no semantics for: a container on the Connection
   object that the workload changes (e.g. a cache of compiled statements keyed by the
   statement text) and a mutable container living on a class that instances write
   through self (e.g. the column namespace of FROM-subquery tables).  They are modelled
   here as ONE key -> value store per container, with two thread shapes that mirror
   where beanquery keeps such state between two evaluation steps:

   (a) query_compile.SubqueryTable.columns (name -> column accessor = position of the
       subquery target): WRITTEN while Compiler._compile_from compiles the FROM clause,
       READ when Compiler._column binds the outer column references (targets left to
       right, then WHERE); a pure function of constants among the targets is CALLED in
       between by the constant folding of Compiler._function - a yield point at COMPILE
       time.  The design of the code: the dict is created by SubqueryTable.__init__ on the
       instance (private to one compilation).
   (b) query_compile.EvalAggregator.value on the aggregator nodes of a compiled statement:
       WRITTEN by finalize(store) for the group being emitted, READ by __call__ when
       execute_select evaluates the targets of that group left to right; a function over an
       aggregate value (vyield(count( * ))) is a yield point between two reads.  The design
       of the code: a fresh compilation per Cursor.execute (the nodes are private to one
       execution).
   [shared = true] is the other design: the container is ONE object for all threads
   (class attribute; compiled tree cached on the shared connection by statement text). *)

Inductive kcomp (A : Type) :=
| KRet (a : A)
| KYield (k : kcomp A)
| KGet (key : Z) (k : option Z -> kcomp A)
| KPut (key : Z) (v : Z) (k : kcomp A).
Arguments KRet {A}. Arguments KYield {A}. Arguments KGet {A}. Arguments KPut {A}.

Definition kstore := list (Z * Z).

Fixpoint kget (key : Z) (s : kstore) : option Z :=
  match s with
  | [] => None
  | (k, v) :: t => if k =? key then Some v else kget key t
  end.

Fixpoint kput (key v : Z) (s : kstore) : kstore :=
  match s with
  | [] => [(key, v)]
  | (k, v') :: t => if k =? key then (key, v) :: t else (k, v') :: kput key v t
  end.

Fixpoint kbind {A B} (c : kcomp A) (f : A -> kcomp B) : kcomp B :=
  match c with
  | KRet a => f a
  | KYield k => KYield (kbind k f)
  | KGet key k => KGet key (fun x => kbind (k x) f)
  | KPut key v k => KPut key v (kbind k f)
  end.

Fixpoint kto_yield {A} (c : kcomp A) (s : kstore) : kcomp A * kstore :=
  match c with
  | KRet a => (KRet a, s)
  | KYield k => (k, s)
  | KGet key k => kto_yield (k (kget key s)) s
  | KPut key v k => kto_yield k (kput key v s)
  end.

Fixpoint kto_end {A} (c : kcomp A) (s : kstore) : A * kstore :=
  match c with
  | KRet a => (a, s)
  | KYield k => kto_end k s
  | KGet key k => kto_end (k (kget key s)) s
  | KPut key v k => kto_end k (kput key v s)
  end.

Definition kstate (A : Type) := (list (kcomp A) * kstore)%type.

(* the same scheduler as [step]/[drain]/[run_state] *)
Definition kstep {A} (st : kstate A) (i : nat) : kstate A :=
  match nth_error (fst st) i with
  | Some c => let (c', s') := kto_yield c (snd st) in (set_nth i c' (fst st), s')
  | None => st
  end.

Fixpoint kdrain {A} (ts : list (kcomp A)) (s : kstore) : list A * kstore :=
  match ts with
  | [] => ([], s)
  | c :: t => let (a, s1) := kto_end c s in let (r, s2) := kdrain t s1 in (a :: r, s2)
  end.

Definition krun_state {A} (sched : list nat) (st : kstate A) : list A * kstore :=
  let st' := fold_left kstep sched st in kdrain (fst st') (snd st').

Definition krun {A} (sched : list nat) (ts : list (kcomp A)) : list A := fst (krun_state sched (ts, [])).
Definition kserial {A} (ts : list (kcomp A)) : list A := krun [] ts.

(* (a) the column namespace of a FROM-subquery *)
Fixpoint ns_fill {A} (pos : Z) (names : list Z) (k : kcomp A) : kcomp A :=
  match names with
  | [] => k
  | n :: t => KPut n pos (ns_fill (pos + 1) t k)
  end.

(* the dict as one compilation alone leaves it (columns[name] = column(i) in target order: a later target of the
   same name wins) *)
Definition ns_own (names : list Z) : kstore := snd (kto_end (ns_fill 0 names (KRet tt)) []).

Fixpoint ns_bind (shared : bool) (own : kstore) (refs : list Z) : kcomp (list (option Z)) :=
  match refs with
  | [] => KRet []
  | r :: t =>
      if shared
      then KGet r (fun v => kbind (ns_bind shared own t) (fun vs => KRet (v :: vs)))
      else kbind (ns_bind shared own t) (fun vs => KRet (kget r own :: vs))
  end.

(* One compilation of SELECT pre..., f(const), post... FROM (SELECT ... AS names...):
   result = for every outer column reference the position of the subquery target it was bound to
   (None = "column does not exist"). *)
Record ns_stmt := mkNs { ns_names : list Z; ns_pre : list Z; ns_post : list Z }.

Definition ns_thread (shared : bool) (q : ns_stmt) : kcomp (list (option Z)) :=
  let own := ns_own (ns_names q) in
  let body := kbind (ns_bind shared own (ns_pre q)) (fun a =>
                KYield (kbind (ns_bind shared own (ns_post q)) (fun b => KRet (a ++ b)))) in
  if shared then ns_fill 0 (ns_names q) body else body.

(* (b) the aggregator nodes of a compiled statement: one slot per aggregate of the statement *)
Fixpoint slots_from (j : Z) (vals : list Z) : kstore :=
  match vals with
  | [] => []
  | v :: t => (j, v) :: slots_from (j + 1) t
  end.

Fixpoint agg_finalize {A} (j : Z) (vals : list Z) (k : kcomp A) : kcomp A :=
  match vals with
  | [] => k
  | v :: t => KPut j v (agg_finalize (j + 1) t k)
  end.

Fixpoint agg_read (shared : bool) (own : kstore) (j : Z) (n : nat) : kcomp (list (option Z)) :=
  match n with
  | O => KRet []
  | S m =>
      let rest := fun v => KYield (kbind (agg_read shared own (j + 1) m) (fun vs => KRet (v :: vs))) in
      if shared then KGet j rest else rest (kget j own)
  end.

(* the result phase of execute_select: groups in insertion order, each given by its aggregate values *)
Fixpoint agg_emit (shared : bool) (groups : list (list Z)) : kcomp (list (list (option Z))) :=
  match groups with
  | [] => KRet []
  | g :: t =>
      let body := kbind (agg_read shared (slots_from 0 g) 0 (length g)) (fun row =>
                    kbind (agg_emit shared t) (fun rows => KRet (row :: rows))) in
      if shared then agg_finalize 0 g body else body
  end.

(* Which design is in force is decided by the inventory: any cell the statement model does not interpret. *)
Definition is_unknown_cell (c : cell_id) : bool := match c with CUnknown _ => true | _ => false end.
Definition keyed_cells_shared (cells : list cell_id) : bool := existsb is_unknown_cell cells.
