(* Primitive semantics for the translated CostRenderer (group `render`, Gen/SrcRender.v render_cost_...; bld-render4).
   A Cost value is  PTuple [46; number; currency; date-or-None; label-or-None]  (dates as in PrimsRender: [40; y; m; d]).
   The CostRenderer owns ONE AmountRenderer (encoded as in PrimsRenderPos: the tuple of its fields; its methods ARE the
   translated methods of AmountRenderer).  TRUSTED HERE (duck typing): handing a Cost to AmountRenderer.update / .format is
   handing it the Amount (number, currency) of that cost - those two methods read nothing but `.number` and `.currency`
   (visible in their translation render_amount_update / render_amount_format, which any other attribute read would change).
   "format:spec" [date; '%Y-%m-%d'] = Render.date_str (format(date, spec) is date.strftime(spec)); any other spec: Stuck.
   "call:join" as in PrimsRender's top-level primitives.  Everything else: PrimsRenderPos.prims_pos. *)
From Coq Require Import String ZArith List Bool.
Import ListNotations.
From Verif Require Import Base.PyValue Model.Eval Model.PyMini Model.Render Model.PrimsRender Gen.SrcRender Model.PrimsRenderPos.
Open Scope string_scope.
Open Scope list_scope.
Open Scope Z_scope.

Definition enc_odate (d : option (Z * Z * Z)) : pv :=
  match d with Some (y, m, d) => PTuple [PInt 40; PInt y; PInt m; PInt d] | None => PNone end.
Definition enc_ostr (s : option str) : pv := match s with Some s => PV (VStr s) | None => PNone end.
Definition enc_cost (c : cost) : pv :=
  PTuple [PInt 46; PV (VDec (fst (c_amt c))); PV (VStr (snd (c_amt c))); enc_odate (c_date c); enc_ostr (c_label c)].
(* the Amount an AmountRenderer sees in a Cost *)
Definition cost_as_amt (v : pv) : pv :=
  match v with PTuple [PV (VInt 46); n; c; _; _] => PTuple [PInt 43; n; c] | _ => v end.

Section Cost.
Variable call_ref : nat -> list pv -> pv.
Variable numfmt : list (dec * str) -> dec -> str -> str.
Notation PP := (prims_pos call_ref numfmt).

Definition prims_cost (name : string) (args : list pv) : res pv :=
  if String.eqb name "method:update" then
    match args with [r; v] => PP name [r; cost_as_amt v] | _ => PP name args end
  else if String.eqb name "call:format" then
    match args with [r; v] => PP name [r; cost_as_amt v] | _ => PP name args end
  else if String.eqb name "attr:date" then
    match args with [PTuple [PV (VInt 46); _; _; d; _]] => Ok d | _ => Stuck end
  else if String.eqb name "attr:label" then
    match args with [PTuple [PV (VInt 46); _; _; _; l]] => Ok l | _ => Stuck end
  else if String.eqb name "format:spec" then
    match args with
    | [PTuple [PV (VInt 40); PV (VInt y); PV (VInt m); PV (VInt d)]; PV (VStr fmt)] =>
        if str_eqb fmt strftime_ymd then Ok (PV (VStr (date_str y m d))) else Stuck
    | _ => Stuck
    end
  else if String.eqb name "call:join" then
    match args with
    | [PV (VStr sep); PList l] => match n_map_opt dec_s l with Some ss => Ok (PV (VStr (join sep ss))) | None => Stuck end
    | _ => Stuck
    end
  else PP name args.
End Cost.
