(* Primitives of group `shell` only (the extension hook [sl_ext] of Model/PrimsApi.v): the Settings object as a value,
   shlex.split, FORMATS, repr / str / type, and - for DispatchingShell.do_set, which calls them on ANOTHER object -
   Settings.getstr / setstr with the semantics that Proofs/SrcShell.v proves for their translated bodies
   (getstr_src, setstr_src).  Trusted: the encodings and the library functions (shlex.split := Shell.shlex_split,
   repr := Shell.py_repr, str(int) := Shell.Z_to_str). *)
From Coq Require Import String Ascii ZArith List Bool.
Import ListNotations.
From Verif Require Import Base.PyValue Model.Eval Model.PyMini Model.PrimsApi.
From Verif Require Model.Shell.
Open Scope string_scope.
Open Scope list_scope.
Open Scope Z_scope.

Definition PS (s : list Z) : pv := PV (VStr s).
Definition settings_tag : list Z := zs "beanquery.shell.Settings".

Definition enc_value (v : Shell.value) : pv :=
  match v with Shell.SBool b => PBool b | Shell.SStr s => PS s | Shell.SInt z => PInt z end.
Definition enc_fields (st : Shell.state) : list pv := map (fun nv => PTuple [PS (fst nv); enc_value (snd nv)]) st.
Definition enc_state (st : Shell.state) : pv := PTuple [PV (VStr settings_tag); PList (enc_fields st)].

Definition dec_value (v : pv) : option Shell.value :=
  match v with
  | PV (VBool b) => Some (Shell.SBool b)
  | PV (VStr s) => Some (Shell.SStr s)
  | PV (VInt z) => Some (Shell.SInt z)
  | _ => None
  end.
Fixpoint dec_fields (l : list pv) : option Shell.state :=
  match l with
  | [] => Some []
  | PTuple [PV (VStr n); v] :: t =>
      match dec_value v, dec_fields t with Some x, Some r => Some ((n, x) :: r) | _, _ => None end
  | _ => None
  end.
Definition dec_state (o : pv) : option Shell.state :=
  match o with
  | PTuple [PV (VStr tag); PList fs] => if zeqb tag settings_tag then dec_fields fs else None
  | _ => None
  end.

(* class objects and the _parse_<x> methods of Settings as opaque callables with reserved numbers *)
Definition cls_bool : nat := 40%nat.
Definition cls_str : nat := 41%nat.
Definition cls_int : nat := 42%nat.
Definition parser_ref (i : nat) : nat := (50 + i)%nat.

Fixpoint index_of (x : list Z) (l : list (list Z)) : option nat :=
  match l with
  | [] => None
  | y :: t => if zeqb x y then Some O else match index_of x t with Some i => Some (S i) | None => None end
  end.
Fixpoint zstrip_prefix (p l : list Z) : option (list Z) :=
  match p, l with
  | [], _ => Some l
  | x :: p', y :: l' => if x =? y then zstrip_prefix p' l' else None
  | _, _ => None
  end.
(* getattr(settings, '_parse_<x>', default): the method exists iff x is in Shell.parsers (= the live class's: C19_gen_settings) *)
Definition settings_getattr (n : list Z) : option nat :=
  match zstrip_prefix (zs "_parse_") n with
  | Some x => match index_of x Shell.parsers with Some i => Some (parser_ref i) | None => None end
  | None => None
  end.

Definition do_getstr (o : pv) (n : list Z) : res pv :=
  match dec_state o with
  | Some st => match Shell.lookup st n with Some v => Ok (PS (Shell.getstr v)) | None => Exc AttributeError end
  | None => Stuck
  end.
Definition do_setstr (o : pv) (n v : list Z) : res pv :=
  match dec_state o with
  | Some st =>
      match Shell.lookup st n with
      | None => Exc AttributeError
      | Some cur =>
          match Shell.parse_value n (Shell.type_of cur) v with
          | inl _ => Exc ValueError
          | inr new => Ok (enc_state (Shell.update st n new))
          end
      end
  | None => Stuck
  end.

Definition shell_ext (name : string) (args : list pv) : res pv :=
  if String.eqb name "iter" then
    match args with
    | [PList l] => Ok (PList l)
    | [o] => match dec_state o with Some st => Ok (PList (map (fun nv => PS (fst nv)) st)) | None => Stuck end
    | _ => Stuck
    end
  else if String.eqb name "call:getstr" then
    match args with [o; PV (VStr n)] => do_getstr o n | _ => Stuck end
  else if String.eqb name "method:setstr" then
    match args with
    | [o; PV (VStr n); PV (VStr v)] => bind (do_setstr o n v) (fun o' => Ok (PTuple [o'; PNone]))
    | _ => Stuck
    end
  else if String.eqb name "shlex.split" then
    match args with
    | [PV (VStr a)] => match Shell.shlex_split a with Shell.ShOk l => Ok (PList (map PS l)) | _ => Exc ValueError end
    | _ => Stuck
    end
  else if String.eqb name "contains:beanquery.shell.FORMATS" then
    match args with [PV (VStr v)] => Ok (PBool (Shell.mem v Shell.formats)) | _ => Stuck end
  else if String.eqb name "builtins.repr" then
    match args with [PV (VStr s)] => Ok (PS (Shell.py_repr s)) | _ => Stuck end
  else if String.eqb name "builtins.str" then
    match args with [PV (VInt z)] => Ok (PS (Shell.Z_to_str z)) | [PV (VStr s)] => Ok (PS s) | _ => Stuck end
  else if String.eqb name "builtins.type" then
    match args with
    | [PV (VBool _)] => Ok (PRef cls_bool) | [PV (VStr _)] => Ok (PRef cls_str) | [PV (VInt _)] => Ok (PRef cls_int)
    | _ => Stuck
    end
  else if String.eqb name "attr:__name__" then
    match args with
    | [PRef k] => if Nat.eqb k cls_bool then Ok (PStr "bool") else if Nat.eqb k cls_str then Ok (PStr "str")
                  else if Nat.eqb k cls_int then Ok (PStr "int") else Stuck
    | _ => Stuck
    end
  else Stuck.

(* call a method translated with a VALUE receiver (parameter `self` is an ordinary value, rule R16): the receiver
   after the call (the final value of the local `self`) and the returned value *)
Definition call_on_value (call_ref : nat -> list pv -> pv) (prim : string -> list pv -> res pv)
    (f : fdef) (args : list pv) : res (pv * pv) :=
  match bind_params (f_params f) args with
  | None => Exc TypeError
  | Some loc =>
      bind (exec_block call_ref prim {| locals := loc; fields := [] |} (f_body f)) (fun o =>
      let s' := match o with Next s => s | Ret s _ => s end in
      match lookup "self" (locals s') with
      | Some o' => Ok (o', match o with Next _ => PNone | Ret _ v => v end)
      | None => Stuck
      end)
  end.

(* what calling a _parse_<x> method / a class of Settings' field types returns, as an opaque callable's value *)
Definition enc_parsed {A} (enc : A -> pv) (r : Shell.str + A) : pv :=
  match r with inr a => enc a | inl _ => PV (VErr ValueError) end.
