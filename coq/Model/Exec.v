(* Model of query_execute.execute_select on a compiled query (EvalQuery):
   the row loop for non-aggregate queries, the insertion-ordered aggregate
   store for aggregate queries (allocate / initialize / update / finalize as in
   query_env.py), HAVING, then ORDER BY / projection / DISTINCT / LIMIT (Model/Order.v). *)
From Coq Require Import ZArith List Bool.
Import ListNotations.
From Verif Require Import Base.Out Base.StableSort Base.PyValue Base.Decimal Model.Eval Model.Order.
Open Scope Z_scope.

Inductive aggf :=
| ACountStar | ACount
| ASum (zero : value)     (* store[handle] = self.dtype() *)
| AFirst | ALast | AMin | AMax.

Record agg := { afun : aggf; aarg : enode }.

Record query := {
  q_where : option enode;            (* c_where (FROM and WHERE already combined) *)
  q_targets : list enode;            (* c_targets, visible and hidden *)
  q_group : option (list nat);       (* group_indexes; None = not an aggregate query *)
  q_aggs : list agg;                 (* aggregate nodes of the non-grouped targets; handle = position *)
  q_having : option nat;             (* having_index *)
  q_order : option (list (nat * bool));
  q_vis : list nat;                  (* result_indexes *)
  q_distinct : bool;
  q_limit : option Z;
}.

Definition passes (q : query) (r : row) : bool :=
  match q_where q with None => true | Some w => truthy (eval r [] w) end.

(* ---- non-aggregate scan: for context in table: if c_where(context): rows.append([...]) ---- *)
Fixpoint scan_nonagg (q : query) (acc : list row) (rows : list row) : list row :=
  match rows with
  | [] => acc
  | r :: t => scan_nonagg q (if passes q r then acc ++ [map (eval r []) (q_targets q)] else acc) t
  end.

(* ---- aggregates ---- *)
Definition agg_init (a : agg) : value :=
  match afun a with
  | ACountStar | ACount => VInt 0
  | ASum z => z
  | _ => VNull
  end.

Definition agg_update (a : agg) (r : row) (cur : value) : value :=
  match afun a with
  | ACountStar => bin BAdd cur (VInt 1)
  | ACount => if is_null (eval r [] (aarg a)) then cur else bin BAdd cur (VInt 1)
  | ASum _ => let v := eval r [] (aarg a) in if is_null v then cur else bin BAdd cur v
  | AFirst => if is_null cur then eval r [] (aarg a) else cur
  | ALast => eval r [] (aarg a)
  | AMin => let v := eval r [] (aarg a) in
            if is_null v then cur else if is_null cur || val_lt v cur then v else cur
  | AMax => let v := eval r [] (aarg a) in
            if is_null v then cur else if is_null cur || val_lt cur v then v else cur
  end.

Definition store := list (list value * list value).   (* key -> slots, in insertion order *)

Fixpoint store_update (q : query) (r : row) (key : list value) (s : store) : store :=
  match s with
  | [] => [(key, map (fun a => agg_update a r (agg_init a)) (q_aggs q))]
  | (k, slots) :: t =>
      if row_eq k key then (k, map (fun '(a, cur) => agg_update a r cur) (combine (q_aggs q) slots)) :: t
      else (k, slots) :: store_update q r key t
  end.

Definition group_key (q : query) (g : list nat) (r : row) : list value :=
  flat_map (fun '(i, e) => if existsb (Nat.eqb i) g then [eval r [] e] else [])
           (combine (seq 0 (length (q_targets q))) (q_targets q)).

Fixpoint scan_agg (q : query) (g : list nat) (s : store) (rows : list row) : store :=
  match rows with
  | [] => s
  | r :: t => scan_agg q g (if passes q r then store_update q r (group_key q g r) s else s) t
  end.

(* values of one output row: grouped targets come from the key, the others are
   evaluated with the finalised aggregate values (context = last scanned row) *)
Fixpoint out_values (g : list nat) (ctx : row) (slots : list value) (i : nat) (ts : list enode)
         (key : list value) : list value :=
  match ts with
  | [] => []
  | e :: t =>
      if existsb (Nat.eqb i) g
      then match key with
           | k :: key' => k :: out_values g ctx slots (S i) t key'
           | [] => VErr 99 :: out_values g ctx slots (S i) t []
           end
      else eval ctx slots e :: out_values g ctx slots (S i) t key
  end.

Definition having_ok (q : query) (vals : list value) : bool :=
  match q_having q with None => true | Some h => truthy (nth h vals VNull) end.

Definition finalize (q : query) (g : list nat) (ctx : row) (s : store) : list row :=
  flat_map (fun '(key, slots) =>
              let vals := out_values g ctx slots 0 (q_targets q) key in
              if having_ok q vals then [vals] else []) s.

Definition exec_rows (q : query) (table : list row) : list row :=
  match q_group q with
  | None => scan_nonagg q [] table
  | Some g => finalize q g (last table []) (scan_agg q g [] table)
  end.

Definition exec (q : query) (table : list row) : list row :=
  post (q_order q) (q_vis q) (q_distinct q) (q_limit q) (exec_rows q table).

(* a run whose output contains an error value stands for a Python exception *)
Definition has_err (rows : list row) : bool :=
  existsb (existsb (fun v => match v with VErr _ => true | _ => false end)) rows.

Definition exec_out (q : query) (table : list row) : out :=
  let rows := exec q table in
  if has_err (exec_rows q table) then OL [ON 1] else OL [ON 0; o_rows rows].
