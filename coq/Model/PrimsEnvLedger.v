(* C12 / C11 -- semantics of the primitives the translated ledger / inventory / metadata functions of
   beanquery/query_env.py call (group `envledger` of the translator-based tie: harness/vf/src_envledger.py ->
   Gen/SrcEnvLedger.v, Proofs/SrcEnvLedger.v).  Definitions only; TRUSTED: what the Beancount library does is taken
   from the existing models, what the theorems verify is how each beanquery function composes the calls (which
   reducer, argument order, which table attribute, the NULL checks, the upper-casing of currencies).

   Inventory side (Model/Inventory.v): convert.get_units / get_cost / get_value / convert_amount / convert_position are
   the model's reducers; Inventory.reduce(f, *args) is Inventory.reduce of the reducer named by the opaque reference
   f (refs table of the generated file) applied to the extra arguments; prices.get_price is the abstract price function
   [price] (a Section variable: the theorems hold for every price function), [one] the fixed-point 1 of the rates.
   Currencies are interned integers in that model, so str.upper() on a currency is an abstract function [upper].
   Encodings: positions and inventories are PrimsLedger.Inv's (enc_position, enc_inv); an Amount, which PrimsLedger
   does not need, is the pair PTuple [number; currency] in the same style; a date is PV (VDate d) or None; the price
   map is an opaque token (the price function is the Section variable).

   Ledger side (Model/Ledger.v, Model/Tables.v): directives, postings and metadata dicts are PrimsLedger's objects
   (enc_directive, enc_meta: a dict with str keys is the list of its (key, value) pairs); dict.get(k[, default]) is the
   first binding (PrimsLedger.kv_get); attribute reads on objects are PrimsLedger.prims_ledger's. *)
From Coq Require Import String Ascii ZArith List Bool.
Import ListNotations.
From Verif Require Import Base.PyValue Model.Eval Model.Dates Model.Ledger Model.Tables Model.PyMini Model.PrimsLedger
  Gen.SrcEnvLedger.
From Verif Require Model.Inventory.
Open Scope string_scope.
Open Scope list_scope.
Open Scope Z_scope.

(* ------------------------------------------------------------------ Model/Inventory.v encodings *)
Definition enc_iamount (a : Inventory.amount) : pv := PTuple [PInt (fst a); PInt (snd a)].
Definition dec_iamount (v : pv) : option Inventory.amount :=
  match v with PTuple [PV (VInt n); PV (VInt c)] => Some (n, c) | _ => None end.
Definition enc_odate (d : option Z) : pv := match d with Some d => PV (VDate d) | None => PNone end.
Definition dec_odate (v : pv) : option (option Z) :=
  match v with PV VNull => Some None | PV (VDate d) => Some (Some d) | _ => None end.
Definition enc_orate (r : option Z) : pv := match r with Some r => PInt r | None => PNone end.
Definition p_price_map : pv := PV (VStr (s2z "price_map")).
Definition is_price_map (v : pv) : bool :=
  match v with PV (VStr s) => str_eqb s (s2z "price_map") | _ => false end.

(* ------------------------------------------------------------------ Model/Tables.v encodings *)
(* the value of a result cell (the kinds the metadata functions return) *)
Definition enc_cell (c : cell) : pv :=
  match c with
  | CNull => PNone
  | CStr s => pzstr s
  | CInt z => PInt z
  | CDate o => pdate o
  | CDec d => pdec d
  | CBool b => PBool b
  | CAmount a => enc_amount a
  | CMeta m => enc_meta m
  | CTol l => PList (map (fun kv => PTuple [pzstr (fst kv); pdec (snd kv)]) l)
  | CDirective d => enc_directive d
  | _ => PSelf                                   (* not the result of a function of this group *)
  end.
(* context.tables['accounts'].accounts: {account: (open, close)} *)
Definition enc_arow (r : arow) : pv :=
  PTuple [pzstr (ar_account r); PTuple [popt enc_directive (ar_open r); popt enc_directive (ar_close r)]].
Definition enc_accounts (l : ledger) : pv := PList (map enc_arow (accounts_iter l)).
(* context.tables['commodities'].commodities: {currency: Commodity directive} *)
Definition enc_commodities (l : ledger) : pv :=
  PList (map (fun kv => PTuple [pzstr (fst kv); enc_directive (snd kv)]) (commodities_dict l)).

Section Prims.
Variable price : Inventory.currency -> Inventory.currency -> option Z -> option Z.
Variable one : Z.
Variable upper : Inventory.currency -> Inventory.currency.

Definition ref_name_of (k : nat) : string :=
  match find (fun p => Nat.eqb (fst p) k) Gen.SrcEnvLedger.refs with Some p => snd p | None => "" end.

(* the reducer a function reference names, applied to the extra arguments of Inventory.reduce *)
Definition reducer (name : string) (args : list pv) : option (Inventory.position -> Inventory.amount) :=
  if String.eqb name "beancount.core.convert.get_units" then
    match args with [] => Some Inventory.get_units | _ => None end
  else if String.eqb name "beancount.core.convert.get_cost" then
    match args with [] => Some (Inventory.get_cost one) | _ => None end
  else if String.eqb name "beancount.core.convert.get_value" then
    match args with
    | [pm; d] => if is_price_map pm then option_map (fun d => Inventory.get_value price one d) (dec_odate d) else None
    | _ => None
    end
  else if String.eqb name "beancount.core.convert.convert_position" then
    match args with
    | [PV (VInt c); pm; d] =>
        if is_price_map pm then option_map (fun d => Inventory.convert_position price one c d) (dec_odate d) else None
    | _ => None
    end
  else None.

Definition no_ext (_ : string) (_ : list pv) : res pv := Stuck.

Definition prim_envledger (name : string) (args : list pv) : res pv :=
  if String.eqb name "beancount.core.convert.get_units" || String.eqb name "beancount.core.convert.get_cost"
     || String.eqb name "beancount.core.convert.get_value" || String.eqb name "beancount.core.convert.convert_position"
  then
    match args with
    | p :: rest =>
        match Inv.dec_position p, reducer name rest with
        | Some p', Some f => Ok (enc_iamount (f p'))
        | _, _ => Stuck
        end
    | [] => Exc TypeError
    end
  else if String.eqb name "beancount.core.convert.convert_amount" then
    match args with
    | [a; PV (VInt c); pm; d] =>
        match dec_iamount a, dec_odate d with
        | Some a', Some d' =>
            if is_price_map pm then Ok (enc_iamount (Inventory.convert_amount price one None c d' a')) else Stuck
        | _, _ => Stuck
        end
    | _ => Stuck
    end
  else if String.eqb name "beancount.core.prices.get_price" then
    match args with
    | [pm; PTuple [PV (VInt b); PV (VInt q)]; d] =>
        match dec_odate d with
        | Some d' => if is_price_map pm then Ok (PTuple [PNone (* the price's date: not read *); enc_orate (price b q d')])
                     else Stuck
        | None => Stuck
        end
    | _ => Stuck
    end
  else if String.eqb name "call:reduce" then
    match args with
    | i :: PRef k :: rest =>
        match Inv.dec_inv i, reducer (ref_name_of k) rest with
        | Some i', Some f => Ok (Inv.enc_inv (Inventory.reduce f i'))
        | _, _ => Stuck
        end
    | _ => Stuck
    end
  else if String.eqb name "call:upper" then
    match args with [PV (VInt c)] => Ok (PInt (upper c)) | _ => Stuck end
  else if String.eqb name "call:get" then
    match args with
    | [PList kvs; PV (VStr k)] => Ok (match kv_get k kvs with Some v => v | None => PNone end)
    | [PList kvs; PV (VStr k); dflt] => Ok (match kv_get k kvs with Some v => v | None => dflt end)
    | _ => Stuck
    end
  else if String.eqb name "attr:number" then
    match args with
    | [PTuple [PV (VInt n); PV (VInt _)]] => Ok (PInt n)
    | _ => prims_ledger Gen.SrcEnvLedger.refs no_ext name args
    end
  else if String.eqb name "attr:currency" then
    match args with
    | [PTuple [PV (VInt _); PV (VInt c)]] => Ok (PInt c)
    | _ => prims_ledger Gen.SrcEnvLedger.refs no_ext name args
    end
  else if String.eqb name "attr:units" then
    match args with
    | [PTuple [PV (VInt n); PV (VInt c); _]] => Ok (PTuple [PInt n; PInt c])
    | _ => prims_ledger Gen.SrcEnvLedger.refs no_ext name args
    end
  else prims_ledger Gen.SrcEnvLedger.refs no_ext name args.
End Prims.
