(* Model of beanquery/cursor.py (Cursor and Column), following the code's shape:
   a mutable buffer of remaining rows, a position counter, the row count of
   the last execute, the public [arraysize] attribute, and the iterator objects
   handed out by [iter(cursor)] (a Python callable-iterator over fetchone with
   sentinel None: once it has seen the sentinel it is exhausted for good). *)
From Coq Require Import ZArith List Bool.
Import ListNotations.
From Verif Require Import Base.Out.
Open Scope Z_scope.

(* ---- Python slicing of a list: l[:n], l[n:] ---- *)
Definition clip (len n : Z) : nat :=
  Z.to_nat (if n <? 0 then Z.max 0 (len + n) else Z.min n len).

Definition py_take {A} (l : list A) (n : Z) : list A := firstn (clip (Z.of_nat (length l)) n) l.
Definition py_drop {A} (l : list A) (n : Z) : list A := skipn (clip (Z.of_nat (length l)) n) l.

Section Cur.
Variable A : Type.

Record cur := {
  rows : option (list A);   (* _rows: None before any execute *)
  pos : Z;                  (* _pos *)
  count : Z;                (* row count of the last execute, -1 before *)
  arraysize : Z;
  iters : list bool;        (* one flag per iterator object: exhausted? *)
}.

Definition init : cur :=
  {| rows := None; pos := 0; count := -1; arraysize := 1; iters := [] |}.

Inductive op :=
| Execute (result : list A)
| FetchOne
| FetchMany (size : option Z)
| FetchAll
| SetArraysize (n : Z)
| NewIter
| Next (h : nat)
| RowCount
| RowNumber
| HasDescription.

Inductive res :=
| RNone                    (* Python None / no interesting value *)
| RRow (r : A)
| RRows (l : list A)
| RInt (z : Z)
| RStop                    (* StopIteration *)
| RBool (b : bool).

Definition fetchone (c : cur) : cur * res :=
  match rows c with
  | None => (c, RNone)
  | Some [] => (c, RNone)
  | Some (r :: t) =>
      ({| rows := Some t; pos := pos c + 1; count := count c; arraysize := arraysize c; iters := iters c |},
       RRow r)
  end.

Definition fetchmany (c : cur) (size : option Z) : cur * res :=
  match rows c with
  | None => (c, RRows [])
  | Some l =>
      let n := match size with Some n => n | None => arraysize c end in
      let got := py_take l n in
      ({| rows := Some (py_drop l n); pos := pos c + Z.of_nat (length got); count := count c;
          arraysize := arraysize c; iters := iters c |}, RRows got)
  end.

Definition fetchall (c : cur) : cur * res :=
  match rows c with
  | None => (c, RRows [])
  | Some l =>
      ({| rows := Some []; pos := pos c + Z.of_nat (length l); count := count c;
          arraysize := arraysize c; iters := iters c |}, RRows l)
  end.

Fixpoint set_nth (l : list bool) (n : nat) (b : bool) : list bool :=
  match l, n with
  | [], _ => []
  | _ :: t, O => b :: t
  | x :: t, S n => x :: set_nth t n b
  end.

Definition step (c : cur) (o : op) : cur * res :=
  match o with
  | Execute result =>
      ({| rows := Some result; pos := 0; count := Z.of_nat (length result);
          arraysize := arraysize c; iters := iters c |}, RNone)
  | FetchOne => fetchone c
  | FetchMany size => fetchmany c size
  | FetchAll => fetchall c
  | SetArraysize n =>
      ({| rows := rows c; pos := pos c; count := count c; arraysize := n; iters := iters c |}, RNone)
  | NewIter =>
      ({| rows := rows c; pos := pos c; count := count c; arraysize := arraysize c;
          iters := iters c ++ [false] |}, RInt (Z.of_nat (length (iters c))))
  | Next h =>
      match nth_error (iters c) h with
      | None => (c, RNone)
      | Some true => (c, RStop)
      | Some false =>
          let '(c', r) := fetchone c in
          match r with
          | RRow _ => (c', r)
          | _ => ({| rows := rows c'; pos := pos c'; count := count c'; arraysize := arraysize c';
                     iters := set_nth (iters c') h true |}, RStop)
          end
      end
  | RowCount => (c, RInt (count c))
  | RowNumber => (c, RInt (pos c))
  | HasDescription => (c, RBool (match rows c with None => false | Some _ => true end))
  end.

Fixpoint run (c : cur) (ops : list op) : cur * list res :=
  match ops with
  | [] => (c, [])
  | o :: t => let '(c1, r) := step c o in
              let '(c2, rs) := run c1 t in (c2, r :: rs)
  end.

(* Rows handed to the caller by one result. *)
Definition delivered_by (r : res) : list A :=
  match r with RRow x => [x] | RRows l => l | _ => [] end.

End Cur.

Arguments init {A}.
Arguments Execute {A}. Arguments FetchOne {A}. Arguments FetchMany {A}. Arguments FetchAll {A}.
Arguments SetArraysize {A}. Arguments NewIter {A}. Arguments Next {A}. Arguments RowCount {A}.
Arguments RowNumber {A}. Arguments HasDescription {A}.
Arguments RNone {A}. Arguments RRow {A}. Arguments RRows {A}. Arguments RInt {A}. Arguments RStop {A}.
Arguments RBool {A}.

(* ---- Column: a 7-item sequence ---- *)
Inductive item := IName | ICode | INull.
Definition col_items : list item := [IName; ICode; INull; INull; INull; INull; INull].

(* Python's slice.indices(len) followed by range(); step = 0 is a ValueError. *)
Definition slice_bounds (len : Z) (start stop : option Z) (step : Z) : Z * Z :=
  let lower := if step <? 0 then -1 else 0 in
  let upper := if step <? 0 then len - 1 else len in
  let norm (x : option Z) (dflt : Z) :=
    match x with
    | None => dflt
    | Some v => if v <? 0 then Z.max (v + len) lower else Z.min v upper
    end in
  (norm start (if step <? 0 then upper else lower),
   norm stop (if step <? 0 then lower else upper)).

Fixpoint range_fuel (fuel : nat) (i stop step : Z) : list Z :=
  match fuel with
  | O => []
  | S f => if (if step <? 0 then i >? stop else i <? stop)
           then i :: range_fuel f (i + step) stop step else []
  end.

Definition py_slice {A} (l : list A) (start stop step : option Z) : option (list A) :=
  let st := match step with None => 1 | Some s => s end in
  if st =? 0 then None
  else
    let len := Z.of_nat (length l) in
    let '(a, b) := slice_bounds len start stop st in
    Some (flat_map (fun i => match nth_error l (Z.to_nat i) with Some x => [x] | None => [] end)
                   (range_fuel (S (length l)) a b st)).

Definition py_index {A} (l : list A) (i : Z) : option A :=
  let len := Z.of_nat (length l) in
  if (i <? - len) || (len <=? i) then None
  else nth_error l (Z.to_nat (if i <? 0 then i + len else i)).

(* ---- serialisation for the correspondence runner ---- *)
Definition o_res (r : res Z) : out :=
  match r with
  | RNone => OL [ON 0]
  | RRow x => OL [ON 1; ON x]
  | RRows l => OL [ON 2; OL (map ON l)]
  | RInt z => OL [ON 3; ON z]
  | RStop => OL [ON 4]
  | RBool b => OL [ON 5; o_bool b]
  end.

Definition run_out (ops : list (op Z)) : out := OL (map o_res (snd (run Z init ops))).

Definition o_item (i : item) : out := ON (match i with IName => 0 | ICode => 1 | INull => 2 end).
Definition slice_out (start stop step : option Z) : out :=
  match py_slice col_items start stop step with None => OL [] | Some l => OL [OL (map o_item l)] end.
Definition index_out (i : Z) : out :=
  match py_index col_items i with None => OL [] | Some x => OL [o_item x] end.
