(* Primitive semantics and object encodings for the translated aggregated branch of execute_select (group `agg`,
   Gen/SrcAgg.v, generated from beanquery/query_execute.py, query_compile.py and query_env.py by harness/vf/src_agg.py).
   Definitions only; proofs in Proofs/SrcAgg.v.  This file is part of the trusted base of the `C02_source_*` theorems:
   it fixes how the objects the translated code touches are ENCODED and what the library calls are ASSUMED to do.

   Objects
     aggregate store            a Python list indexed by handle: PList of the slot values
     the dict `aggregates`      PList of PTuple [key; store] in insertion order; keys compare with Python == (pv_eqb on the
                                key tuples); `d[k] = v` on a present key keeps the stored key object and its position
     Allocator instance         alloc_pv size          (its only attribute)
     aggregator node            node_pv cls handle dtype operands value: the index of its class in the generated class
                                table and the four attributes the protocol methods read or write (handle is None until
                                allocate has run)
     compiled query             aquery_obj table having_index (the two attributes the branch reads)
   Methods of Allocator and of the aggregator nodes are NOT given a meaning here: "method:allocate", "call:create_store",
   "method:initialize/update/finalize" and "new:..Allocator" INTERPRET the translated method bodies (passed in as
   parameters so that this file does not depend on generated code) on the attributes of the encoded object.

   Library functions
     x + y on scalars ("binop:add")   Model/Eval.bin BAdd, a TypeError being the error VALUE VErr TypeError as in the
                                       hand-written executor model (a run whose output contains an error value stands
                                       for the raised exception: Exec.has_err)
     [None] * n ("binop:mul")          repetition
     p[i] = v ("stmt:setitem")         replacement at position i (negative i counts from the end; IndexError outside)
     enumerate, tuple, iter            the list functions (an iterator is the list of the items not yet consumed)
     dict.new/contains/get/set, items  the insertion-ordered association list described above (KeyError when absent) *)
From Coq Require Import String ZArith List Bool.
Import ListNotations.
From Verif Require Import Base.PyValue Model.Eval Model.PyMini.
Open Scope string_scope.
Open Scope list_scope.
Open Scope Z_scope.

Record aggcls := { c_allocate : fdef; c_initialize : fdef; c_update : fdef; c_finalize : fdef; c_call : fdef }.

Fixpoint set_nth {A} (i : nat) (x : A) (l : list A) : list A :=
  match l, i with
  | [], _ => []
  | _ :: t, O => x :: t
  | y :: t, S j => y :: set_nth j x t
  end.

(* ------------------------------------------------------------------ encodings *)
Definition alloc_pv (size : pv) : pv := PTuple [PNone; size].
Definition node_pv (cls : nat) (handle dtype operands value : pv) : pv :=
  PTuple [PInt (Z.of_nat cls); handle; dtype; operands; value].
Definition node_fields (handle dtype operands value : pv) : env :=
  [("handle", handle); ("dtype", dtype); ("operands", operands); ("value", value)].
Definition fld (a : string) (e : env) : pv := match lookup a e with Some v => v | None => PNone end.
Definition node_of_fields (cls : nat) (e : env) : pv :=
  node_pv cls (fld "handle" e) (fld "dtype" e) (fld "operands" e) (fld "value" e).
Definition aquery_obj (table having : pv) : pv := PTuple [table; having].

(* ------------------------------------------------------------------ the dict *)
Definition entry_has (k : pv) (e : pv) : bool :=
  match e with PTuple [k'; _] => pv_eqb k' k | _ => false end.

Fixpoint dict_get (es : list pv) (k : pv) : option pv :=
  match es with
  | [] => None
  | e :: t => if entry_has k e then match e with PTuple [_; v] => Some v | _ => None end else dict_get t k
  end.

Fixpoint dict_set (es : list pv) (k v : pv) : list pv :=
  match es with
  | [] => [PTuple [k; v]]
  | e :: t => if entry_has k e then match e with PTuple [k'; _] => PTuple [k'; v] :: t | _ => e :: t end
              else e :: dict_set t k v
  end.

Fixpoint enumerate_from (i : Z) (l : list pv) : list pv :=
  match l with
  | [] => []
  | x :: t => PTuple [PInt i; x] :: enumerate_from (i + 1) t
  end.

Definition seq_items (v : pv) : option (list pv) :=
  match v with PList l | PTuple l => Some l | _ => None end.

Definition set_item (l : list pv) (i : Z) (v : pv) : res pv :=
  let len := Z.of_nat (length l) in
  let j := if i <? 0 then i + len else i in
  if (j <? 0) || (len <=? j) then Exc IndexError else Ok (PList (set_nth (Z.to_nat j) v l)).

(* ------------------------------------------------------------------ first-order primitives *)
Definition prims0 (name : string) (args : list pv) : res pv :=
  if String.eqb name "binop:add" then
    match args with [PV x; PV y] => Ok (PV (bin BAdd x y)) | _ => Stuck end
  else if String.eqb name "binop:mul" then
    match args with [PList l; PV (VInt n)] => Ok (PList (concat (repeat l (Z.to_nat n)))) | _ => Stuck end
  else if String.eqb name "stmt:setitem" then
    match args with [PList l; PV (VInt i); v] => set_item l i v | _ => Stuck end
  else if String.eqb name "builtins.enumerate" then
    match args with [v] => match seq_items v with Some l => Ok (PList (enumerate_from 0 l)) | None => Stuck end | _ => Stuck end
  else if String.eqb name "builtins.tuple" then
    match args with [v] => match seq_items v with Some l => Ok (PTuple l) | None => Stuck end | _ => Stuck end
  else if String.eqb name "builtins.iter" then
    match args with [v] => match seq_items v with Some l => Ok (PList l) | None => Stuck end | _ => Stuck end
  else if String.eqb name "dict.new" then match args with [] => Ok (PList []) | _ => Stuck end
  else if String.eqb name "dict.contains" then
    match args with [PList es; k] => Ok (PBool (existsb (entry_has k) es)) | _ => Stuck end
  else if String.eqb name "dict.get" then
    match args with
    | [PList es; k] => match dict_get es k with Some v => Ok v | None => Exc KeyError end
    | _ => Stuck
    end
  else if String.eqb name "dict.set" then
    match args with [PList es; k; v] => Ok (PList (dict_set es k v)) | _ => Stuck end
  else if String.eqb name "call:items" then match args with [PList es] => Ok (PList es) | _ => Stuck end
  else if String.eqb name "attr:table" then match args with [PTuple [t; _]] => Ok t | _ => Stuck end
  else if String.eqb name "attr:having_index" then match args with [PTuple [_; h]] => Ok h | _ => Stuck end
  else Stuck.

Section Objects.
Variable call_ref : nat -> list pv -> pv.

(* ------------------------------------------------------------------ the Allocator: its translated methods *)
Variables (a_init a_allocate a_create_store : fdef).

Definition prims1 (name : string) (args : list pv) : res pv :=
  if String.eqb name "new:beanquery.query_execute.Allocator" then
    match args with
    | [] => do (flds, _) <- call_method call_ref prims0 a_init [] []; Ok (alloc_pv (fld "size" flds))
    | _ => Stuck
    end
  else if String.eqb name "method:allocate" then
    match args with
    | [PTuple [PV VNull; size]] =>
        do (flds, r) <- call_method call_ref prims0 a_allocate [("size", size)] [];
        Ok (PTuple [alloc_pv (fld "size" flds); r])
    | _ => Stuck
    end
  else if String.eqb name "call:create_store" then
    match args with
    | [PTuple [PV VNull; size]] => do (_, r) <- call_method call_ref prims0 a_create_store [("size", size)] []; Ok r
    | _ => Stuck
    end
  else prims0 name args.

(* ------------------------------------------------------------------ aggregator nodes: their translated methods *)
Variable classes : list aggcls.

Definition protocol_method (name : string) (c : aggcls) : option fdef :=
  if String.eqb name "method:allocate" then Some (c_allocate c)
  else if String.eqb name "method:initialize" then Some (c_initialize c)
  else if String.eqb name "method:update" then Some (c_update c)
  else if String.eqb name "method:finalize" then Some (c_finalize c)
  else None.

Definition prims2 (name : string) (args : list pv) : res pv :=
  match args with
  | PTuple [PV (VInt c); h; d; o; v] :: rest =>
      match nth_error classes (Z.to_nat c) with
      | Some cl =>
          match protocol_method name cl with
          | Some f =>
              do (flds, r) <- call_method call_ref prims1 f (node_fields h d o v) rest;
              Ok (PTuple [node_of_fields (Z.to_nat c) flds; r])
          | None => prims1 name args
          end
      | None => prims1 name args
      end
  | _ => prims1 name args
  end.

End Objects.
