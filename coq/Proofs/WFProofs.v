(* The compiler model accepts a SELECT statement exactly when it is well-formed (Model/WF.v): induction over the
   expression tree gluing the per-node and per-clause results of Proofs/CompileProofs.v. *)
From Coq Require Import String ZArith List Bool Lia Arith.
Import ListNotations.
From Verif Require Import Base.Out Base.PyValue Model.Compile Model.WF Proofs.CompileProofs.
Open Scope list_scope.
Open Scope nat_scope.

(* ------------------------------------------------------------------ induction over the nested AST *)
Section ExprInd.
  Variable P : expr -> Prop.
  Definition Popt (o : option expr) : Prop := match o with Some x => P x | None => True end.
  Definition Pkey (c : Z + expr) : Prop := match c with inr x => P x | inl _ => True end.
  Definition Ptargets (t : option (list (expr * option string * string))) : Prop :=
    match t with Some l => Forall (fun t => P (fst (fst t))) l | None => True end.
  Definition Pgrp (g : option (list (Z + expr) * option expr)) : Prop :=
    match g with Some (cols, hv) => Forall Pkey cols /\ Popt hv | None => True end.
  Hypothesis HColumn : forall n, P (EColumn n).
  Hypothesis HFunction : forall f args, Forall P args -> P (EFunction f args).
  Hypothesis HAttribute : forall x n, P x -> P (EAttribute x n).
  Hypothesis HSubscript : forall x k, P x -> P (ESubscript x k).
  Hypothesis HConstant : forall v, P (EConstant v).
  Hypothesis HPlaceholder : forall n p, P (EPlaceholder n p).
  Hypothesis HAsterisk : P EAsterisk.
  Hypothesis HUnary : forall op x, P x -> P (EUnary op x).
  Hypothesis HBinary : forall op l r, P l -> P r -> P (EBinary op l r).
  Hypothesis HAnd : forall args, Forall P args -> P (EAnd args).
  Hypothesis HOr : forall args, Forall P args -> P (EOr args).
  Hypothesis HBetween : forall a lo hi, P a -> P lo -> P hi -> P (EBetween a lo hi).
  Hypothesis HSelect : forall targets fk fe wh grp ord piv lim dist,
    Ptargets targets -> Popt fe -> Popt wh -> Pgrp grp -> Forall (fun c => Pkey (fst c)) ord ->
    P (ESelect targets fk fe wh grp ord piv lim dist).

  Fixpoint expr_ind' (e : expr) : P e :=
    let many := fix many (l : list expr) : Forall P l :=
                  match l with [] => Forall_nil P | x :: t => Forall_cons x (expr_ind' x) (many t) end in
    let opt (o : option expr) : Popt o :=
      match o as o0 return Popt o0 with Some x => expr_ind' x | None => I end in
    let key (c : Z + expr) : Pkey c :=
      match c as c0 return Pkey c0 with inr x => expr_ind' x | inl _ => I end in
    let tls := fix tl (l : list (expr * option string * string)) : Forall (fun t => P (fst (fst t))) l :=
                 match l with
                 | [] => Forall_nil _
                 | t :: r => Forall_cons t
                               (match t as t1 return P (fst (fst t1)) with (x, _, _) => expr_ind' x end) (tl r)
                 end in
    let topt (t : option (list (expr * option string * string))) : Ptargets t :=
      match t as t0 return Ptargets t0 with
      | Some l => tls l
      | None => I
      end in
    let gls := fix gl (l : list (Z + expr)) : Forall Pkey l :=
                 match l with [] => Forall_nil _ | c :: r => Forall_cons c (key c) (gl r) end in
    let gopt (g : option (list (Z + expr) * option expr)) : Pgrp g :=
      match g as g0 return Pgrp g0 with
      | Some (cols, hv) => conj (gls cols) (opt hv)
      | None => I
      end in
    let ols := fix ol (l : list ((Z + expr) * bool)) : Forall (fun c => Pkey (fst c)) l :=
                 match l with
                 | [] => Forall_nil _
                 | c :: r => Forall_cons c (match c as c1 return Pkey (fst c1) with (k, _) => key k end) (ol r)
                 end in
    match e with
    | EColumn n => HColumn n
    | EFunction f args => HFunction f args (many args)
    | EAttribute x n => HAttribute x n (expr_ind' x)
    | ESubscript x k => HSubscript x k (expr_ind' x)
    | EConstant v => HConstant v
    | EPlaceholder n p => HPlaceholder n p
    | EAsterisk => HAsterisk
    | EUnary op x => HUnary op x (expr_ind' x)
    | EBinary op l r => HBinary op l r (expr_ind' l) (expr_ind' r)
    | EAnd args => HAnd args (many args)
    | EOr args => HOr args (many args)
    | EBetween a lo hi => HBetween a lo hi (expr_ind' a) (expr_ind' lo) (expr_ind' hi)
    | ESelect targets fk fe wh grp ord piv lim dist =>
        HSelect targets fk fe wh grp ord piv lim dist (topt targets) (opt fe) (opt wh) (gopt grp) (ols ord)
    end.
End ExprInd.

(* ------------------------------------------------------------------ the pieces of [comp] as standalone functions *)
Section Glue.
Variable sch : schema.
Variable pv : pvals.
Notation comp := (comp sch pv).
Notation Den := (Den sch pv).

Definition node_of (tbl : table) (x : expr) : rnode := bind (comp x tbl) as_node.
Definition key_of (tb : table) (c : Z + expr) : kref :=
  match c with inl z => inl z | inr x => inr (key_name x, node_of tb x) end.

Definition nodes_of (tbl : table) :=
  fix nodes (l : list expr) : result (list cnode) cerr :=
    match l with
    | [] => Ok []
    | x :: t => do n <- node_of tbl x; do ns <- nodes t; Ok (n :: ns)
    end.

Definition targets_of (tb : table) :=
  fix go (l : list (expr * option string * string)) : result (list ctarget) cerr :=
    match l with
    | [] => Ok []
    | (x, alias, text) :: t => do c <- compile_target x alias text (node_of tb x); do rest <- go t; Ok (c :: rest)
    end.

Lemma keys_fix_map : forall (f : expr -> rnode) (l : list (Z + expr)),
  (fix go (l : list (Z + expr)) : list kref :=
     match l with
     | [] => []
     | inl z :: t => inl z :: go t
     | inr x :: t => inr (key_name x, f x) :: go t
     end) l
  = map (fun c => match c with inl z => inl z | inr x => inr (key_name x, f x) end) l.
Proof. induction l as [|[z|x] t IHl]; [reflexivity | simpl; rewrite <- IHl; reflexivity | simpl; rewrite <- IHl; reflexivity]. Qed.

Lemma okeys_fix_map : forall (f : expr -> rnode) (l : list ((Z + expr) * bool)),
  (fix go (l : list ((Z + expr) * bool)) : list (kref * bool) :=
     match l with
     | [] => []
     | (inl z, d) :: t => (inl z, d) :: go t
     | (inr x, d) :: t => (inr (key_name x, f x), d) :: go t
     end) l
  = map (fun cd => (match fst cd with inl z => inl z | inr x => inr (key_name x, f x) end, snd cd)) l.
Proof. induction l as [|[[z|x] d] t IHl]; [reflexivity | simpl; rewrite <- IHl; reflexivity | simpl; rewrite <- IHl; reflexivity]. Qed.

Definition grp_of (tb : table) (grp : option (list (Z + expr) * option expr)) : option (list kref * option rnode) :=
  match grp with
  | Some (cols, having) => Some (map (key_of tb) cols, match having with Some h => Some (node_of tb h) | None => None end)
  | None => None
  end.
Definition ord_of (tb : table) (ord : list ((Z + expr) * bool)) : list (kref * bool) :=
  map (fun cd => (key_of tb (fst cd), snd cd)) ord.

Lemma comp_select_unfold : forall targets fk fe wh grp ord piv lim dist tbl,
  comp (ESelect targets fk fe wh grp ord piv lim dist) tbl =
  (do fr <- compile_from sch tbl fk (match fe with Some x => Some (comp x tbl) | None => None end);
   let '(tb, c_from) := fr in
   do c_targets <- match targets with None => wildcard_targets tb | Some tlist => targets_of tb tlist end;
   do q <- finish_select tb c_from c_targets
             (match wh with Some x => Some (node_of tb x) | None => None end)
             (grp_of tb grp) (ord_of tb ord) piv lim dist;
   Ok (RQuery q)).
Proof.
  intros. cbn [Compile.comp]. destruct (compile_from sch tbl fk _) as [[tb c_from]|e]; simpl; auto.
  match goal with |- bind ?a _ = bind ?b _ => replace a with b; [|destruct targets; reflexivity] end.
  destruct (match targets with None => wildcard_targets tb | Some tlist => targets_of tb tlist end); simpl; auto.
  unfold grp_of, ord_of, key_of, node_of.
  rewrite okeys_fix_map. destruct grp as [[cols having]|]; [rewrite keys_fix_map|]; reflexivity.
Qed.

Ltac rew_all := repeat match goal with E : ?l = _ |- context [?l] => rewrite E; simpl end.

(* ------------------------------------------------------------------ small facts *)
Lemma as_node_iff : forall (r : result cres cerr) n, bind r as_node = Ok n <-> r = Ok (RNode n).
Proof.
  intros [[m|q]|e] n; simpl; split; intro H; try discriminate; try (inversion H; reflexivity).
Qed.

Definition IH (e : expr) : Prop := forall tbl r, comp e tbl = Ok r <-> Den e tbl r.

Lemma node_of_iff : forall x tbl n, IH x -> (node_of tbl x = Ok n <-> Den x tbl (RNode n)).
Proof. intros x tbl n H. unfold node_of. rewrite as_node_iff. apply H. Qed.

Lemma nodes_of_iff : forall tbl args, Forall IH args ->
  forall ns, nodes_of tbl args = Ok ns <-> Forall2 (fun x n => Den x tbl (RNode n)) args ns.
Proof.
  induction 1 as [|x t Hx _ IHt]; intros ns; simpl.
  - split; intro H; [inversion H; constructor | inversion H; reflexivity].
  - split.
    + intro H. destruct (node_of tbl x) as [n|e] eqn:N; simpl in H; [|discriminate].
      destruct (nodes_of tbl t) as [ns'|e] eqn:T; simpl in H; [|discriminate]. inversion H; subst.
      constructor; [apply node_of_iff; auto | apply IHt; reflexivity].
    + intro H. inversion H as [|x0 n l ns' Hn Hrest]; subst.
      apply (node_of_iff x tbl n Hx) in Hn. rewrite Hn. simpl.
      apply IHt in Hrest. rewrite Hrest. reflexivity.
Qed.

(* ------------------------------------------------------------------ references *)
Lemma resolve_key_iff : forall tb ei b nm chk na c ts ts' i,
  Pkey IH c ->
  (resolve_key ei b nm chk na (key_of tb c) ts = Ok (ts', i) <-> KeyDen Den tb b nm chk na c ts ts' i).
Proof.
  intros tb ei b nm chk na c ts ts' i Hc. destruct c as [z|x]; simpl in *.
  - split.
    + intro H. destruct (nat_index z b) eqn:N; [|discriminate]. inversion H; subst. constructor; auto.
    + intro H. inversion H; subst; clear H. rew_all. reflexivity.
  - fold (key_by_name x nm). split.
    + intro H. destruct (key_by_name x nm) as [k|] eqn:K.
      * inversion H; subst. apply KName; auto.
      * destruct (node_of tb x) as [n|e] eqn:N; simpl in H; [|discriminate].
        apply (node_of_iff x tb n Hc) in N.
        destruct (chk n) eqn:C; [discriminate|].
        destruct (index_of n (map ct_expr ts) 0) eqn:I; inversion H; subst.
        -- eapply KEqualTarget; eauto.
        -- eapply KNewHidden; eauto.
    + intro H. inversion H; subst; clear H;
        try match goal with Dn : DN _ _ _ _ |- _ => apply (node_of_iff x tb _ Hc) in Dn end;
        rew_all; reflexivity.
Qed.

Lemma group_loop_iff : forall tb b nm cols, Forall (Pkey IH) cols ->
  forall ts gi ts' gi',
  group_loop b nm (map (key_of tb) cols) ts gi = Ok (ts', gi') <-> GroupDen Den tb b nm cols ts gi ts' gi'.
Proof.
  induction 1 as [|c rest Hc _ IHr]; intros ts gi ts' gi'; simpl.
  - split; intro H; [inversion H; constructor | inversion H; reflexivity].
  - split.
    + intro H.
      destruct (resolve_key EGroupIndex b nm _ _ (key_of tb c) ts) as [[ts1 i]|e] eqn:R; simpl in H; [|discriminate].
      apply (resolve_key_iff tb EGroupIndex b nm _ _ c ts ts1 i Hc) in R.
      destruct (nth_error ts1 i) as [t|] eqn:N; [|discriminate].
      destruct (has_agg (ct_expr t)) eqn:A; [discriminate|].
      destruct (hashable (dtype (ct_expr t))) eqn:Hh; simpl in H; [|discriminate].
      apply IHr in H. econstructor; eauto.
    + intro H. inversion H; subst; clear H.
      match goal with K : KeyDen _ _ _ _ _ _ _ _ _ _ |- _ =>
        apply (resolve_key_iff tb EGroupIndex b nm _ _ c ts _ _ Hc) in K; unfold group_chk in K; rewrite K end.
      simpl. rew_all. apply IHr. assumption.
Qed.

Lemma order_loop_iff : forall tb b nm ord, Forall (fun c => Pkey IH (fst c)) ord ->
  forall ts spec ts' spec',
  order_loop b nm (ord_of tb ord) ts spec = Ok (ts', spec') <-> OrderDen Den tb b nm ord ts spec ts' spec'.
Proof.
  induction 1 as [|[c d] rest Hc _ IHr]; intros ts spec ts' spec'; simpl.
  - split; intro H; [inversion H; constructor | inversion H; reflexivity].
  - simpl in Hc. split.
    + intro H.
      destruct (resolve_key EOrderIndex b nm _ _ (key_of tb c) ts) as [[ts1 i]|e] eqn:R; simpl in H; [|discriminate].
      apply (resolve_key_iff tb EOrderIndex b nm _ _ c ts ts1 i Hc) in R.
      apply IHr in H. econstructor; eauto.
    + intro H. inversion H; subst; clear H.
      match goal with K : KeyDen _ _ _ _ _ _ _ _ _ _ |- _ =>
        apply (resolve_key_iff tb EOrderIndex b nm _ _ c ts _ _ Hc) in K; rewrite K end.
      simpl. apply IHr. assumption.
Qed.

(* ------------------------------------------------------------------ clauses *)
Lemma group_clause_iff : forall tb c_targets grp ts g h,
  Pgrp IH grp ->
  (compile_group_by c_targets (grp_of tb grp) = Ok (ts, g, h) <-> GroupClauseDen Den tb c_targets grp ts g h).
Proof.
  intros tb c_targets grp ts g h Hg. destruct grp as [[cols hv]|].
  - destruct Hg as [Hcols Hhv]. unfold grp_of, compile_group_by. split.
    + intro H.
      destruct (group_loop _ _ (map (key_of tb) cols) c_targets []) as [[ts0 gi]|e] eqn:G; simpl in H; [|discriminate].
      apply (group_loop_iff tb _ _ cols Hcols) in G.
      destruct hv as [hx|].
      * destruct (node_of tb hx) as [n|e] eqn:N; simpl in H; [|discriminate].
        apply (node_of_iff hx tb n Hhv) in N.
        destruct (check_aggregates n) eqn:C; [discriminate|].
        destruct (has_agg n) eqn:A; simpl in H; [|discriminate]. inversion H; subst.
        eapply GCHaving; eauto.
      * inversion H; subst. apply GCKeys; auto.
    + intro H. inversion H; subst; clear H;
        match goal with G : GroupDen _ _ _ _ _ _ _ _ _ |- _ => apply (group_loop_iff tb _ _ cols Hcols) in G; rewrite G end;
        simpl; try match goal with Dn : DN _ _ _ _ |- _ => apply (node_of_iff _ tb _ Hhv) in Dn end;
        rew_all; reflexivity.
  - simpl. split; intro H; [constructor; auto | inversion H; auto].
Qed.

Lemma order_clause_iff : forall tb ts1 ord ts2 o,
  Forall (fun c => Pkey IH (fst c)) ord ->
  (compile_order_by ts1 (ord_of tb ord) = Ok (ts2, o) <-> OrderClauseDen Den tb ts1 ord ts2 o).
Proof.
  intros tb ts1 ord ts2 o Ho. destruct ord as [|c rest].
  - simpl. split; intro H; [inversion H; constructor | inversion H; reflexivity].
  - unfold compile_order_by. change (ord_of tb (c :: rest)) with ((key_of tb (fst c), snd c) :: ord_of tb rest).
    cbv iota beta. change ((key_of tb (fst c), snd c) :: ord_of tb rest) with (ord_of tb (c :: rest)). split.
    + intro H. destruct (order_loop _ _ (ord_of tb (c :: rest)) ts1 []) as [[ts0 spec]|e] eqn:L; simpl in H; [|discriminate].
      inversion H; subst. apply (order_loop_iff tb _ _ (c :: rest) Ho) in L. constructor; auto.
    + intro H. inversion H; subst; clear H.
      match goal with G : OrderDen _ _ _ _ _ _ _ _ _ |- _ => apply (order_loop_iff tb _ _ (c :: rest) Ho) in G; rewrite G end.
      reflexivity.
Qed.

Lemma where_iff : forall tb wh c_where, Popt IH wh ->
  ((match wh with Some x => Some (node_of tb x) | None => None end) = (match wh with Some x => Some (node_of tb x) | None => None end)) ->
  ((exists cw, (match (match wh with Some x => Some (node_of tb x) | None => None end) with
                | Some r => do n <- r; Ok (Some n) | None => Ok None end) = Ok cw
               /\ (match cw with Some n => has_agg n | None => false end) = false /\ cw = c_where)
   <-> WhereDen Den tb wh c_where).
Proof.
  intros tb wh c_where Hw _. destruct wh as [x|]; simpl in *.
  - split.
    + intros [cw [H [A E]]]. subst. destruct (node_of tb x) as [n|e] eqn:N; simpl in H; [|discriminate].
      inversion H; subst. apply (node_of_iff x tb n Hw) in N. constructor; auto.
    + intro H. inversion H; subst; clear H.
      match goal with Dn : DN _ _ _ _ |- _ => apply (node_of_iff x tb _ Hw) in Dn; rewrite Dn end. simpl. eauto.
  - split.
    + intros [cw [H [A E]]]. inversion H; subst. constructor.
    + intro H. inversion H; subst. eauto.
Qed.

Lemma covered_iff : forall ts g,
  (match g with
   | Some gi => negb (forallb (fun i => mem_nat i gi) (nonagg_indexes ts) && forallb (fun i => mem_nat i (nonagg_indexes ts)) gi)
   | None => false
   end) = false <-> covered ts g.
Proof.
  intros ts g. unfold covered. destruct g as [gi|].
  - rewrite negb_false_iff, andb_true_iff, !forallb_forall. split.
    + intros [C1 C2] gi' E i. inversion E; subst. split; intro Hi.
      * apply mem_nat_In. apply C2; auto.
      * apply mem_nat_In. apply C1; auto.
    + intro H. specialize (H gi eq_refl). split; intros i Hi; apply mem_nat_In; apply H; auto.
  - split; [intros _ gi E; discriminate | reflexivity].
Qed.

Lemma tail_iff : forall tb c_from c_targets wh grp ord piv lim dist q,
  Popt IH wh -> Pgrp IH grp -> Forall (fun c => Pkey IH (fst c)) ord ->
  (finish_select tb c_from c_targets (match wh with Some x => Some (node_of tb x) | None => None end)
                 (grp_of tb grp) (ord_of tb ord) piv lim dist = Ok q
   <-> TailDen Den tb c_from c_targets wh grp ord piv lim dist q).
Proof.
  intros tb c_from c_targets wh grp ord piv lim dist q Hw Hg Ho. unfold finish_select. split.
  - intro H.
    destruct (match (match wh with Some x => Some (node_of tb x) | None => None end) with
              | Some r => do n <- r; Ok (Some n) | None => Ok None end) as [c_where|e] eqn:W; simpl in H; [|discriminate].
    destruct (match c_where with Some n => has_agg n | None => false end) eqn:WA; [discriminate|].
    assert (WD : WhereDen Den tb wh c_where) by (apply where_iff; auto; eauto).
    destruct (compile_group_by c_targets (grp_of tb grp)) as [[[ts1 g] h]|e] eqn:G; simpl in H; [|discriminate].
    apply (group_clause_iff tb c_targets grp ts1 g h Hg) in G.
    destruct (compile_order_by ts1 (ord_of tb ord)) as [[ts2 o]|e] eqn:O; simpl in H; [|discriminate].
    apply (order_clause_iff tb ts1 ord ts2 o Ho) in O.
    destruct (match g with None => existsb ct_agg (skipn (length ts1) ts2) | Some _ => false end) eqn:NA; [discriminate|].
    match type of H with (if ?c then _ else _) = _ => destruct c eqn:COV end; [discriminate|].
    destruct (compile_pivot_by ts2 g piv) as [pivots|e] eqn:P; simpl in H; [|discriminate].
    inversion H; subst. fold (where_node c_from c_where). econstructor; eauto.
    + intro E. subst g. exact NA.
    + apply covered_iff. exact COV.
  - intro H. inversion H; subst.
    apply where_iff in H0; auto. destruct H0 as [cw [W [WA E]]]. subst cw. rewrite W. simpl. rewrite WA.
    apply (group_clause_iff tb c_targets grp ts1 g h Hg) in H1. rewrite H1. simpl.
    apply (order_clause_iff tb ts1 ord ts2 o Ho) in H2. rewrite H2. simpl.
    assert (NA : (match g with None => existsb ct_agg (skipn (length ts1) ts2) | Some _ => false end) = false).
    { destruct g; auto. }
    rewrite NA. apply covered_iff in H4. rewrite H4. rewrite H5. simpl. reflexivity.
Qed.

Lemma from_iff : forall tbl fk fe tb c_from, Popt IH fe ->
  (compile_from sch tbl fk (match fe with Some x => Some (comp x tbl) | None => None end) = Ok (tb, c_from)
   <-> FromDen Den sch tbl fk fe tb c_from).
Proof.
  intros tbl fk fe tb c_from Hf. destruct fk as [|n| |op cl clr]; simpl.
  - split; intro H; [inversion H; constructor | inversion H; reflexivity].
  - split.
    + intro H. destruct (find_table sch n) eqn:F; inversion H; subst. constructor; auto.
    + intro H. inversion H; subst; clear H. rew_all. reflexivity.
  - destruct fe as [sub|]; simpl in *.
    + split.
      * intro H. destruct (comp sub tbl) as [[m|q]|e] eqn:C; simpl in H; try discriminate.
        destruct (cq_pivots q) eqn:Pv; inversion H; subst. constructor; auto. apply Hf. exact C.
      * intro H. inversion H; subst; clear H.
        match goal with X : WF.Den _ _ _ _ (RQuery _) |- _ => apply Hf in X; rewrite X end. simpl. rew_all. reflexivity.
    + split; intro H; [discriminate | inversion H].
  - unfold open_close_ok. destruct fe as [x|]; simpl in *.
    + split.
      * intro H. destruct (comp x tbl) as [[n|q]|e] eqn:C; simpl in H; try discriminate.
        destruct (has_agg n) eqn:A; [discriminate|].
        destruct (match op with Some o => match cl with Some (Some c') => (c' <? o)%Z | _ => false end | None => false end) eqn:OC;
          [discriminate|].
        destruct (t_updatable tbl) eqn:U; simpl in H; [|discriminate]. inversion H; subst.
        constructor; auto; [apply Hf; exact C|].
        unfold open_close_ok. destruct op; auto. destruct cl as [[c'|]|]; auto. rewrite OC. reflexivity.
      * intro H. inversion H; subst; clear H.
        match goal with Dn : DN _ _ _ _ |- _ => unfold DN in Dn; apply Hf in Dn; rewrite Dn end. simpl.
        match goal with O : open_close_ok _ _ = true |- _ => unfold open_close_ok in O;
          destruct op as [o|]; [destruct cl as [[c'|]|]|]; simpl in *;
          try (apply negb_true_iff in O; rewrite O) end; rew_all; reflexivity.
    + split.
      * intro H.
        destruct (match op with Some o => match cl with Some (Some c') => (c' <? o)%Z | _ => false end | None => false end) eqn:OC;
          [discriminate|].
        destruct (t_updatable tbl) eqn:U; simpl in H; [|discriminate]. inversion H; subst.
        constructor; auto. unfold open_close_ok. destruct op; auto. destruct cl as [[c'|]|]; auto. rewrite OC. reflexivity.
      * intro H. inversion H; subst; clear H.
        match goal with O : open_close_ok _ _ = true |- _ => unfold open_close_ok in O;
          destruct op as [o|]; [destruct cl as [[c'|]|]|]; simpl in *;
          try (apply negb_true_iff in O; rewrite O) end; rew_all; reflexivity.
Qed.

Lemma targets_iff : forall tb tlist, Forall (fun t => IH (fst (fst t))) tlist ->
  forall cs, targets_of tb tlist = Ok cs <-> TargetsDen Den tb tlist cs.
Proof.
  induction 1 as [|[[x alias] text] rest Hx _ IHr]; intros cs; simpl in *.
  - split; intro H; [inversion H; constructor | inversion H; reflexivity].
  - unfold compile_target. split.
    + intro H. destruct (node_of tb x) as [n|e] eqn:N; simpl in H; [|discriminate].
      destruct (check_aggregates n) eqn:C; simpl in H; [discriminate|].
      destruct (targets_of tb rest) as [cs'|e] eqn:T; simpl in H; [|discriminate]. inversion H; subst.
      constructor; auto; [apply node_of_iff; auto | apply IHr; reflexivity].
    + intro H. inversion H; subst; clear H.
      match goal with Dn : DN _ _ _ _ |- _ => apply (node_of_iff x tb _ Hx) in Dn; rewrite Dn end. simpl. rew_all.
      match goal with T : TargetsDen _ _ _ _ |- _ => apply IHr in T; rewrite T end. reflexivity.
Qed.

(* ------------------------------------------------------------------ the induction *)
Lemma unf_function : forall f args tbl,
  comp (EFunction f args) tbl = (do ops <- nodes_of tbl args; do n <- build_function tbl f ops; Ok (RNode n)).
Proof. reflexivity. Qed.
Lemma unf_and : forall args tbl, comp (EAnd args) tbl = (do ns <- nodes_of tbl args; Ok (RNode (NAnd ns))).
Proof. reflexivity. Qed.
Lemma unf_or : forall args tbl, comp (EOr args) tbl = (do ns <- nodes_of tbl args; Ok (RNode (NOr ns))).
Proof. reflexivity. Qed.
Lemma unf_attribute : forall x n tbl,
  comp (EAttribute x n) tbl = (do m <- node_of tbl x; do g <- compile_attribute m n; Ok (RNode g)).
Proof. reflexivity. Qed.
Lemma unf_subscript : forall x k tbl,
  comp (ESubscript x k) tbl = (do m <- node_of tbl x; if isdict (dtype m) then Ok (RNode (NGetItem m k)) else Err ENotSubscriptable).
Proof. reflexivity. Qed.
Lemma unf_unary : forall op x tbl,
  comp (EUnary op x) tbl = (do m <- node_of tbl x; do u <- build_unary op m; Ok (RNode u)).
Proof. reflexivity. Qed.
Lemma unf_between : forall a lo hi tbl,
  comp (EBetween a lo hi) tbl =
  (do x <- node_of tbl a; do l <- node_of tbl lo; do h <- node_of tbl hi; do b <- build_between x l h; Ok (RNode b)).
Proof. reflexivity. Qed.
Lemma unf_binary : forall op l r tbl,
  comp (EBinary op l r) tbl =
  (do x <- node_of tbl l;
   if is_in_op op then do y <- comp r tbl; do n <- build_in_any op x y; Ok (RNode n)
   else do y <- node_of tbl r; do b <- build_binary op x y; Ok (RNode b)).
Proof. reflexivity. Qed.

Ltac use_node Hx :=
  match goal with Dn : WF.Den _ _ ?x ?tbl (RNode ?n) |- _ =>
    apply (node_of_iff x tbl n Hx) in Dn; rewrite Dn; simpl end.

Theorem comp_iff_den_all : forall e, IH e.
Proof.
  apply expr_ind'.
  - (* EColumn *) intros n tbl r. simpl. split.
    + intro H. destruct (compile_column tbl n) eqn:C; inversion H; subst. constructor; auto.
    + intro H. inversion H; subst; clear H. rew_all. reflexivity.
  - (* EFunction *) intros f args Hargs tbl r. rewrite unf_function. split.
    + intro H0. destruct (nodes_of tbl args) as [ops|e] eqn:N; simpl in H0; [|discriminate].
      destruct (build_function tbl f ops) eqn:B; inversion H0; subst.
      econstructor; eauto. apply nodes_of_iff; auto.
    + intro H0. inversion H0; subst; clear H0.
      match goal with F : Forall2 _ args _ |- _ => apply (nodes_of_iff tbl args Hargs) in F; rewrite F end.
      simpl. rew_all. reflexivity.
  - (* EAttribute *) intros x n IHx tbl r. rewrite unf_attribute. split.
    + intro H. destruct (node_of tbl x) as [m|er] eqn:N; simpl in H; [|discriminate].
      destruct (compile_attribute m n) eqn:A; inversion H; subst.
      econstructor; eauto. apply node_of_iff; auto.
    + intro H. inversion H; subst; clear H. use_node IHx. rew_all. reflexivity.
  - (* ESubscript *) intros x k IHx tbl r. rewrite unf_subscript. split.
    + intro H. destruct (node_of tbl x) as [m|er] eqn:N; simpl in H; [|discriminate].
      destruct (isdict (dtype m)) eqn:Dd; inversion H; subst. constructor; auto. apply node_of_iff; auto.
    + intro H. inversion H; subst; clear H. use_node IHx. rew_all. reflexivity.
  - (* EConstant *) intros v tbl r. simpl. split; intro H; [inversion H; constructor | inversion H; reflexivity].
  - (* EPlaceholder *) intros n p tbl r. simpl. split.
    + intro H. destruct (compile_placeholder pv n p) eqn:C; inversion H; subst. constructor; auto.
    + intro H. inversion H; subst; clear H. rew_all. reflexivity.
  - (* EAsterisk *) intros tbl r. simpl. split; intro H; [inversion H; constructor | inversion H; reflexivity].
  - (* EUnary *) intros op x IHx tbl r. rewrite unf_unary. split.
    + intro H. destruct (node_of tbl x) as [m|er] eqn:N; simpl in H; [|discriminate].
      destruct (build_unary op m) eqn:B; inversion H; subst. econstructor; eauto. apply node_of_iff; auto.
    + intro H. inversion H; subst; clear H. use_node IHx. rew_all. reflexivity.
  - (* EBinary *) intros op l r0 IHl IHr tbl r. rewrite unf_binary. split.
    + intro H. destruct (node_of tbl l) as [x|er] eqn:N1; simpl in H; [|discriminate].
      apply (node_of_iff l tbl x IHl) in N1.
      destruct (is_in_op op) eqn:I.
      * destruct (comp r0 tbl) as [y|er] eqn:C2; simpl in H; [|discriminate].
        destruct (build_in_any op x y) eqn:B; inversion H; subst.
        eapply DIn; eauto. apply IHr. exact C2.
      * destruct (node_of tbl r0) as [y|er] eqn:N2; simpl in H; [|discriminate].
        apply (node_of_iff r0 tbl y IHr) in N2.
        destruct (build_binary op x y) eqn:B; inversion H; subst. eapply DBinary; eauto.
    + intro H. inversion H; subst; clear H.
      * match goal with Dn : WF.Den _ _ l tbl (RNode ?n) |- _ => apply (node_of_iff l tbl n IHl) in Dn; rewrite Dn; simpl end.
        rew_all.
        match goal with Dn : WF.Den _ _ r0 tbl (RNode ?n) |- _ => apply (node_of_iff r0 tbl n IHr) in Dn; rewrite Dn; simpl end.
        rew_all. reflexivity.
      * match goal with Dn : WF.Den _ _ l tbl (RNode ?n) |- _ => apply (node_of_iff l tbl n IHl) in Dn; rewrite Dn; simpl end.
        rew_all.
        match goal with Dn : WF.Den _ _ r0 tbl _ |- _ => apply IHr in Dn; rewrite Dn; simpl end.
        rew_all. reflexivity.
  - (* EAnd *) intros args Hargs tbl r. rewrite unf_and. split.
    + intro H0. destruct (nodes_of tbl args) as [ns|e] eqn:N; inversion H0; subst.
      constructor. apply nodes_of_iff; auto.
    + intro H0. inversion H0; subst; clear H0.
      match goal with F : Forall2 _ args _ |- _ => apply (nodes_of_iff tbl args Hargs) in F; rewrite F end. reflexivity.
  - (* EOr *) intros args Hargs tbl r. rewrite unf_or. split.
    + intro H0. destruct (nodes_of tbl args) as [ns|e] eqn:N; inversion H0; subst.
      constructor. apply nodes_of_iff; auto.
    + intro H0. inversion H0; subst; clear H0.
      match goal with F : Forall2 _ args _ |- _ => apply (nodes_of_iff tbl args Hargs) in F; rewrite F end. reflexivity.
  - (* EBetween *) intros a lo hi IHa IHlo IHhi tbl r. rewrite unf_between. split.
    + intro H. destruct (node_of tbl a) as [x|er] eqn:N1; simpl in H; [|discriminate].
      destruct (node_of tbl lo) as [l|er] eqn:N2; simpl in H; [|discriminate].
      destruct (node_of tbl hi) as [h|er] eqn:N3; simpl in H; [|discriminate].
      destruct (build_between x l h) eqn:B; inversion H; subst.
      econstructor; eauto; apply node_of_iff; auto.
    + intro H. inversion H; subst; clear H.
      match goal with Dn : WF.Den _ _ a tbl (RNode ?n) |- _ => apply (node_of_iff a tbl n IHa) in Dn; rewrite Dn; simpl end.
      match goal with Dn : WF.Den _ _ lo tbl (RNode ?n) |- _ => apply (node_of_iff lo tbl n IHlo) in Dn; rewrite Dn; simpl end.
      match goal with Dn : WF.Den _ _ hi tbl (RNode ?n) |- _ => apply (node_of_iff hi tbl n IHhi) in Dn; rewrite Dn; simpl end.
      rew_all. reflexivity.
  - (* ESelect *) intros targets fk fe wh grp ord piv lim dist Ht Hfe Hwh Hgrp Hord tbl r.
    rewrite comp_select_unfold. split.
    + intro Hc.
      destruct (compile_from sch tbl fk _) as [[tb c_from]|e] eqn:F; simpl in Hc; [|discriminate].
      apply (from_iff tbl fk fe tb c_from Hfe) in F.
      destruct (match targets with None => wildcard_targets tb | Some tlist => targets_of tb tlist end)
        as [c_targets|e] eqn:T; simpl in Hc; [|discriminate].
      destruct (finish_select tb c_from c_targets _ _ _ piv lim dist) as [q|e] eqn:FS; simpl in Hc; [|discriminate].
      inversion Hc; subst. apply (tail_iff tb c_from c_targets wh grp ord piv lim dist q Hwh Hgrp Hord) in FS.
      econstructor; eauto.
      destruct targets as [tlist|]; constructor; auto. apply targets_iff; auto.
    + intro Hd. inversion Hd; subst; clear Hd.
      match goal with F : FromDen _ _ _ _ _ _ _ |- _ => apply (from_iff tbl fk fe _ _ Hfe) in F; rewrite F end. simpl.
      match goal with T : TargetsClause _ ?tb targets ?cs |- _ =>
        assert (TT : (match targets with None => wildcard_targets tb | Some tlist => targets_of tb tlist end) = Ok cs)
          by (inversion T; subst; auto; apply targets_iff; auto) end.
      rewrite TT. simpl.
      match goal with L : TailDen _ _ _ _ _ _ _ _ _ _ _ |- _ =>
        apply (tail_iff _ _ _ wh grp ord piv lim dist _ Hwh Hgrp Hord) in L; rewrite L end.
      reflexivity.
Qed.

Theorem comp_iff_den : forall e tbl r, comp e tbl = Ok r <-> Den e tbl r.
Proof. intros e. apply comp_iff_den_all. Qed.
End Glue.

(* ------------------------------------------------------------------ statements *)
Theorem compile_select_iff_wf : forall sch p e,
  (exists q, compile sch p (SSelect e) = Ok q) <-> WF sch p (SSelect e).
Proof.
  intros sch p e. unfold WF, compile.
  remember (stmt_subqueries_ok (SSelect e)) as ok eqn:S.
  remember (bind_params p (stmt_placeholders (SSelect e))) as bp eqn:B.
  split.
  - intros [c H]. destruct bp as [pv|er]; simpl in H; [|discriminate].
    destruct ok; simpl in H; [|discriminate].
    destruct (comp sch pv e _) as [[n|q]|er] eqn:C; simpl in H; try discriminate.
    exists pv, q. repeat split; auto. apply comp_iff_den. exact C.
  - intros [pv [q [B' [S' D]]]]. rewrite B'. simpl. rewrite S'. simpl.
    apply comp_iff_den in D. rewrite D. simpl. eauto.
Qed.
