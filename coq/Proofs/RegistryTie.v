(* Kernel-checked tie between the registries as introspected from the code on
   THIS run (Gen/Registry.v, regenerated) and the snapshot the model and its
   theorems are stated over. A new, removed, reordered or retyped overload,
   column, structured type or table breaks this file. *)
From Coq Require Import String List Bool.
From Verif Require Gen.Registry Model.RegistrySnapshot.

Lemma functions_tie : Gen.Registry.functions = Model.RegistrySnapshot.functions.
Proof. vm_compute. reflexivity. Qed.
Lemma operators_tie : Gen.Registry.operators = Model.RegistrySnapshot.operators.
Proof. vm_compute. reflexivity. Qed.
Lemma types_tie : Gen.Registry.types = Model.RegistrySnapshot.types.
Proof. vm_compute. reflexivity. Qed.
Lemma structs_tie : Gen.Registry.structs = Model.RegistrySnapshot.structs
                    /\ Gen.Registry.aliases = Model.RegistrySnapshot.aliases
                    /\ Gen.Registry.cast_names = Model.RegistrySnapshot.cast_names.
Proof. vm_compute. repeat split. Qed.
Lemma tables_tie : Gen.Registry.tables = Model.RegistrySnapshot.tables.
Proof. vm_compute. reflexivity. Qed.
