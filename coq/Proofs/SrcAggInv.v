(* Tie by translation (C12, group `agginv`, Gen/SrcAggInv.v): the PyMini terms generated from the SOURCE of the
   aggregators whose state is a Beancount Inventory - query_env.SumAmount / SumPosition / SumInventory, with the
   allocate / initialize / finalize / __call__ they inherit from query_compile.EvalAggregator, resolved through the MRO
   of the live classes - compute Model/Inventory.v's sums:

     initialize   puts the EMPTY inventory (what the node's dtype() returns: a fresh Inventory()) into the node's slot
                  of the store and leaves every other slot alone;
     update       evaluates the operand on the row; None leaves the store alone; otherwise slot i becomes
                  Inventory.add_amount / add_position / add_inventory of the slot and the value (rule A10 of
                  harness/vf/src_agginv.py: the in-place method on the slot object is a read - update - write back);
     finalize, __call__   park the slot on the node and return it;

   hence, by induction over the rows of a group, running the protocol the way execute_select drives it (initialize,
   update per row, finalize, __call__) yields  sum_operands  of the group's values = Inventory.sum_amount /
   sum_position / sum_inventory (NULLs skipped, in row order) - the functions C12_sum_app / C12_sum_perm /
   C12_partition_total / C12_aggregators_skip_null are stated over - for EVERY store, handle, group and operand values.

   Operands are opaque pure callables of the row context (as in Proofs/SrcAgg.v, Proofs/SrcEval.v); the dtype is an
   opaque callable about which the theorems assume that it returns the empty inventory (the generated table
   agginv_dtypes records, from a live instance of each class, that it is beancount's Inventory class). *)
From Coq Require Import String ZArith List Bool Lia.
Import ListNotations.
From Verif Require Import Base.PyValue Model.Eval Model.PyMini Model.PrimsLedger Model.PrimsAgg Model.PrimsAggInv
  Model.Inventory Gen.SrcAggInv Proofs.PyMiniLemmas Proofs.PyMiniLemmas2.
Open Scope string_scope.
Open Scope list_scope.
Open Scope Z_scope.

(* ------------------------------------------------------------------ what was translated *)
Lemma agginv_class_table :
  map fst agginv_classes =
  [("beanquery.query_env.SumAmount", "sum", "beancount.core.amount.Amount");
   ("beanquery.query_env.SumPosition", "sum", "beancount.core.position.Position");
   ("beanquery.query_env.SumInventory", "sum", "beancount.core.inventory.Inventory")].
Proof. reflexivity. Qed.

(* a live instance of each class carries beancount's Inventory class as its dtype, and calling it gave a new empty one *)
Lemma agginv_dtype_table :
  agginv_dtypes =
  [("beanquery.query_env.SumAmount", "beancount.core.inventory.Inventory", true);
   ("beanquery.query_env.SumPosition", "beancount.core.inventory.Inventory", true);
   ("beanquery.query_env.SumInventory", "beancount.core.inventory.Inventory", true)].
Proof. reflexivity. Qed.

Definition kind_class (k : kind) : aggcls :=
  match k with KAmount => class_SumAmount | KPosition => class_SumPosition | KInventory => class_SumInventory end.

Lemma kind_class_registered k : In (kind_class k) (map snd agginv_classes).
Proof. destruct k; cbn; auto. Qed.

(* ------------------------------------------------------------------ decoders invert the encoders *)
Lemma dec_enc_ocost c : Inv.dec_ocost (Inv.enc_ocost c) = Some c.
Proof. destruct c as [[n cu d [l|]]|]; reflexivity. Qed.
Lemma dec_enc_position p : Inv.dec_position (Inv.enc_position p) = Some p.
Proof.
  destruct p as [n c k]. unfold Inv.enc_position, Inv.dec_position. cbn [pnum pcur pcost PInt].
  rewrite dec_enc_ocost. reflexivity.
Qed.
Lemma dec_enc_entry e : Inv.dec_entry (Inv.enc_entry e) = Some e.
Proof.
  destruct e as [[c k] n]. unfold Inv.enc_entry, Inv.dec_entry. cbn [fst snd PInt].
  rewrite dec_enc_ocost. reflexivity.
Qed.
Lemma dec_enc_inv i : Inv.dec_inv (Inv.enc_inv i) = Some i.
Proof.
  unfold Inv.dec_inv, Inv.enc_inv. induction i as [|e t IH]; [reflexivity|].
  cbn [map Inv.dec_entries]. rewrite dec_enc_entry, IH. reflexivity.
Qed.
Lemma dec_enc_amt a : dec_amt (enc_amt a) = Some a.
Proof. destruct a; reflexivity. Qed.

(* ------------------------------------------------------------------ lists *)
Lemma set_item_nat (l : list pv) (i : nat) v : (i < length l)%nat -> set_item l (Z.of_nat i) v = Ok (PList (set_nth i v l)).
Proof.
  intros H. unfold set_item.
  assert (E1 : (Z.of_nat i <? 0)%Z = false) by (apply Z.ltb_ge; lia).
  assert (E2 : (Z.of_nat (length l) <=? Z.of_nat i)%Z = false) by (apply Z.leb_gt; lia).
  rewrite E1. cbv iota zeta. rewrite E1, E2. cbn [orb]. rewrite Nat2Z.id. reflexivity.
Qed.
Lemma set_nth_length {A} (x : A) : forall l i, length (set_nth i x l) = length l.
Proof. induction l as [|y t IH]; intros [|i]; cbn; auto. Qed.
Lemma nth_set_nth {A} (x d : A) : forall l i, (i < length l)%nat -> nth i (set_nth i x l) d = x.
Proof. induction l as [|y t IH]; intros [|i] H; cbn in *; try lia; auto. apply IH. lia. Qed.
Lemma nth_set_nth_other {A} (x d : A) : forall l i j, i <> j -> nth j (set_nth i x l) d = nth j l d.
Proof. induction l as [|y t IH]; intros [|i] [|j] H; cbn; try congruence; auto. Qed.
Lemma set_nth_set_nth {A} (x y : A) : forall l i, set_nth i y (set_nth i x l) = set_nth i y l.
Proof. induction l as [|z t IH]; intros [|i]; cbn; try reflexivity. rewrite IH. reflexivity. Qed.
Lemma set_nth_same {A} (d : A) : forall l i, set_nth i (nth i l d) l = l.
Proof. induction l as [|y t IH]; intros [|i]; cbn; try reflexivity. rewrite IH. reflexivity. Qed.

Local Arguments set_item : simpl never.
Local Arguments index_at : simpl never.
Local Arguments Inv.enc_inv : simpl never.
Local Arguments Inv.enc_position : simpl never.
Local Arguments Inv.dec_inv : simpl never.
Local Arguments Inv.dec_position : simpl never.
Local Arguments do_call : simpl never.

Section Tie.
Variable call_ref : nat -> list pv -> pv.
Notation prims := prims_agginv.
Notation callm := (call_method call_ref prims_agginv).

Lemma index_at_0 (x : pv) l : index_at (x :: l) 0 = Ok x.
Proof. reflexivity. Qed.

(* the Beancount methods on the encoded values *)
Lemma prim_add_amount b a :
  prims "method:add_amount" [Inv.enc_inv b; enc_amt a] = Ok (PTuple [Inv.enc_inv (add_amount b a None); PNone]).
Proof. unfold prims_agginv, inv_method. cbn [String.eqb Ascii.eqb Bool.eqb]. rewrite dec_enc_inv, dec_enc_amt. reflexivity. Qed.
Lemma prim_add_position b p :
  prims "method:add_position" [Inv.enc_inv b; Inv.enc_position p] = Ok (PTuple [Inv.enc_inv (add_position b p); PNone]).
Proof. unfold prims_agginv, inv_method. cbn [String.eqb Ascii.eqb Bool.eqb]. rewrite dec_enc_inv, dec_enc_position. reflexivity. Qed.
Lemma prim_add_inventory b o :
  prims "method:add_inventory" [Inv.enc_inv b; Inv.enc_inv o] = Ok (PTuple [Inv.enc_inv (add_inventory b o); PNone]).
Proof. unfold prims_agginv, inv_method. cbn [String.eqb Ascii.eqb Bool.eqb]. rewrite !dec_enc_inv. reflexivity. Qed.

Definition mname (k : kind) : string :=
  match k with KAmount => "add_amount" | KPosition => "add_position" | KInventory => "add_inventory" end.

Lemma prim_method k b o : kind_of o = k ->
  prims ("method:" ++ mname k) [Inv.enc_inv b; enc_operand (Some o)] = Ok (PTuple [Inv.enc_inv (add_operand b o); PNone]).
Proof.
  intros <-. destruct o; cbn [kind_of enc_operand add_operand mname String.append];
    [apply prim_add_amount|apply prim_add_position|apply prim_add_inventory].
Qed.

(* the receiver-updating call on the local that holds the slot's inventory *)
Lemma method_call_slot k b ev r :
  prims ("method:" ++ mname k) [Inv.enc_inv b; ev] = Ok (PTuple [Inv.enc_inv r; PNone]) ->
  method_call prims (mname k) (Inv.enc_inv b) [ev] = Ok (Inv.enc_inv r, PNone).
Proof.
  intros H. unfold method_call. unfold Inv.enc_inv at 1.
  destruct k; cbn [mname String.append] in H; cbn [mname String.eqb Ascii.eqb Bool.eqb String.append];
    change (PList (map Inv.enc_entry b)) with (Inv.enc_inv b); rewrite H; reflexivity.
Qed.

Lemma enc_operand_not_none o : pv_is_none (enc_operand (Some o)) = false.
Proof. destruct o; reflexivity. Qed.
Lemma enc_operand_ok k (v : option operand) c : call_ref k [c] = enc_operand v -> do_call call_ref (PRef k) [c] = Ok (enc_operand v).
Proof. intros H. unfold do_call. rewrite H. destruct v as [[a|p|i]|]; reflexivity. Qed.

Lemma do_call_inv k args b : call_ref k args = Inv.enc_inv b -> do_call call_ref (PRef k) args = Ok (Inv.enc_inv b).
Proof. intros H. unfold do_call. rewrite H. reflexivity. Qed.

(* ------------------------------------------------------------------ initialize *)
(* EvalAggregator.initialize: store[self.handle] = self.dtype(); self.value = None *)
Theorem initialize_src : forall (i kd ko : nat) (value : pv) (slots : list pv),
  (i < length slots)%nat -> call_ref kd [] = Inv.enc_inv [] ->
  callm aggi_EvalAggregator_initialize (inv_node i kd ko value) [PList slots] =
  Ok (inv_node i kd ko PNone, PList (set_nth i (Inv.enc_inv []) slots)).
Proof.
  intros i kd ko value slots Hi Hd. cbn. rewrite (do_call_inv _ _ _ Hd). cbn.
  rewrite set_item_nat by exact Hi. reflexivity.
Qed.

(* ------------------------------------------------------------------ update *)
Theorem update_src : forall (k : kind) (i kd ko : nat) (value : pv) (slots : list pv) (b : inventory) (ctx : pv)
    (v : option operand),
  (i < length slots)%nat -> nth i slots PNone = Inv.enc_inv b ->
  call_ref ko [ctx] = enc_operand v -> of_kind k [v] ->
  callm (c_update (kind_class k)) (inv_node i kd ko value) [PList slots; ctx] =
  Ok (inv_node i kd ko value, PList (set_nth i (Inv.enc_inv (add_value b v)) slots)).
Proof.
  intros k i kd ko value slots b ctx v Hi Hb Hc Hk.
  apply Forall_inv in Hk.
  destruct v as [o|].
  - (* a value: read the slot, apply the method, write back *)
    pose proof (method_call_slot k b _ _ (prim_method k b o Hk)) as Hm.
    pose proof (enc_operand_ok ko (Some o) ctx Hc) as Ho.
    pose proof (enc_operand_not_none o) as Hn.
    cbn [add_value]. remember (enc_operand (Some o)) as ev eqn:Eev. clear Eev Hc.
    destruct k; cbn [mname] in Hm; cbn [kind_class c_update class_SumAmount class_SumPosition class_SumInventory];
      (unfold call_method; cbn [bind_params f_params aggi_SumAmount_update aggi_SumPosition_update aggi_SumInventory_update
                                f_body f_gen inv_node node_fields];
       cbn; rewrite index_at_0; cbn; rewrite Ho; cbn;
       rewrite ?Hn; cbn;
       rewrite (index_at_nat _ _ PNone) by exact Hi; cbn; rewrite Hb;
       cbn; rewrite Hm; cbn;
       rewrite set_item_nat by exact Hi; reflexivity).
  - (* NULL: skipped *)
    pose proof (enc_operand_ok ko None ctx Hc) as Ho.
    cbn [add_value]. rewrite <- Hb, set_nth_same.
    destruct k; cbn [kind_class c_update class_SumAmount class_SumPosition class_SumInventory];
      (unfold call_method; cbn [bind_params f_params aggi_SumAmount_update aggi_SumPosition_update aggi_SumInventory_update
                                f_body f_gen inv_node node_fields];
       cbn; rewrite index_at_0; cbn; rewrite Ho; cbn; reflexivity).
Qed.

(* ------------------------------------------------------------------ finalize, __call__ *)
(* finalize parks store[self.handle] on the node, __call__ returns what is parked *)
Theorem finalize_src : forall (i kd ko : nat) (value : pv) (slots : list pv),
  (i < length slots)%nat ->
  callm aggi_EvalAggregator_finalize (inv_node i kd ko value) [PList slots] =
  Ok (inv_node i kd ko (nth i slots PNone), PList slots).
Proof.
  intros i kd ko value slots Hi. cbn. rewrite (index_at_nat _ _ PNone) by exact Hi. reflexivity.
Qed.

Theorem call_src : forall (i kd ko : nat) (value ctx : pv),
  callm aggi_EvalAggregator_call (inv_node i kd ko value) [ctx] = Ok (inv_node i kd ko value, value).
Proof. intros. reflexivity. Qed.

(* ------------------------------------------------------------------ the protocol over the rows of one group *)
(* what execute_select does with ONE aggregate node and the store of ONE group (Proofs/SrcAgg.v ties the loops that
   do it): initialize when the group is created, update for every row of the group in table order, then finalize and
   __call__ when the output row is built *)
Fixpoint run_updates (upd : fdef) (flds : env) (store : pv) (ctxs : list pv) : res (env * pv) :=
  match ctxs with
  | [] => Ok (flds, store)
  | c :: t => do (flds1, store1) <- callm upd flds [store; c]; run_updates upd flds1 store1 t
  end.

Definition run_group (cl : aggcls) (flds : env) (store : pv) (ctxs : list pv) (ctx : pv) : res (env * pv * pv) :=
  do (f1, s1) <- callm (c_initialize cl) flds [store];
  do (f2, s2) <- run_updates (c_update cl) f1 s1 ctxs;
  do (f3, s3) <- callm (c_finalize cl) f2 [s2];
  do (f4, r) <- callm (c_call cl) f3 [ctx];
  Ok (f4, s3, r).

(* the operand (an opaque compiled expression) evaluates to these values on these row contexts *)
Definition operands_on (ko : nat) (ctxs : list pv) (vals : list (option operand)) : Prop :=
  Forall2 (fun c v => call_ref ko [c] = enc_operand v) ctxs vals.

Lemma updates_fold : forall (k : kind) (i kd ko : nat) (value : pv) (ctxs : list pv) (vals : list (option operand)),
  operands_on ko ctxs vals -> of_kind k vals ->
  forall (slots : list pv) (b : inventory),
  (i < length slots)%nat -> nth i slots PNone = Inv.enc_inv b ->
  run_updates (c_update (kind_class k)) (inv_node i kd ko value) (PList slots) ctxs =
  Ok (inv_node i kd ko value, PList (set_nth i (Inv.enc_inv (fold_left add_value vals b)) slots)).
Proof.
  intros k i kd ko value ctxs vals Hop. induction Hop as [|c v ctxs vals Hc Hop IH]; intros Hk slots b Hi Hb.
  - cbn [run_updates fold_left]. rewrite <- Hb, set_nth_same. reflexivity.
  - cbn [run_updates fold_left].
    rewrite (update_src k i kd ko value slots b c v Hi Hb Hc) by (constructor; [exact (Forall_inv Hk)|constructor]).
    cbn [bind]. rewrite (IH (Forall_inv_tail Hk) _ (add_value b v)).
    + rewrite set_nth_set_nth. reflexivity.
    + rewrite set_nth_length. exact Hi.
    + apply nth_set_nth. exact Hi.
Qed.

(* THE FOLD: for every store, handle, group (row contexts with the operand's values, NULLs included) the cell of
   sum(x) is Model/Inventory.v's sum of the group's values, the node's slot holds it, no other slot has changed *)
Theorem sum_fold_src : forall (k : kind) (i kd ko : nat) (value : pv) (slots : list pv) (ctxs : list pv) (ctx : pv)
    (vals : list (option operand)),
  (i < length slots)%nat -> call_ref kd [] = Inv.enc_inv [] -> operands_on ko ctxs vals -> of_kind k vals ->
  run_group (kind_class k) (inv_node i kd ko value) (PList slots) ctxs ctx =
  Ok (inv_node i kd ko (Inv.enc_inv (sum_operands vals)),
      PList (set_nth i (Inv.enc_inv (sum_operands vals)) slots),
      Inv.enc_inv (sum_operands vals)).
Proof.
  intros k i kd ko value slots ctxs ctx vals Hi Hd Hop Hk. unfold run_group.
  replace (c_initialize (kind_class k)) with aggi_EvalAggregator_initialize by (destruct k; reflexivity).
  replace (c_finalize (kind_class k)) with aggi_EvalAggregator_finalize by (destruct k; reflexivity).
  replace (c_call (kind_class k)) with aggi_EvalAggregator_call by (destruct k; reflexivity).
  rewrite (initialize_src i kd ko value slots Hi Hd). cbn [bind].
  rewrite (updates_fold k i kd ko PNone ctxs vals Hop Hk (set_nth i (Inv.enc_inv []) slots) [])
    by (rewrite ?set_nth_length; try exact Hi; apply nth_set_nth; exact Hi).
  cbn [bind]. rewrite set_nth_set_nth.
  rewrite finalize_src by (rewrite set_nth_length; exact Hi). cbn [bind].
  rewrite nth_set_nth by exact Hi. rewrite call_src. reflexivity.
Qed.
End Tie.

(* ------------------------------------------------------------------ the three classes, over Model/Inventory.v's sums *)
Lemma fold_amounts : forall (va : list (option amount)) b,
  fold_left add_value (map (option_map OAmount) va) b =
  fold_left (fun acc v => match v with Some a => add_amount acc a None | None => acc end) va b.
Proof. induction va as [|[a|] t IH]; intros b; cbn; auto. Qed.
Lemma fold_positions : forall (vp : list (option position)) b,
  fold_left add_value (map (option_map OPosition) vp) b =
  fold_left (fun acc v => match v with Some p => add_position acc p | None => acc end) vp b.
Proof. induction vp as [|[a|] t IH]; intros b; cbn; auto. Qed.
Lemma fold_inventories : forall (vi : list (option inventory)) b,
  fold_left add_value (map (option_map OInventory) vi) b =
  fold_left (fun acc v => match v with Some i => add_inventory acc i | None => acc end) vi b.
Proof. induction vi as [|[a|] t IH]; intros b; cbn [map option_map fold_left add_value add_operand]; auto. Qed.

Lemma sum_operands_amounts va : sum_operands (map (option_map OAmount) va) = sum_amount va.
Proof. apply fold_amounts. Qed.
Lemma sum_operands_positions vp : sum_operands (map (option_map OPosition) vp) = sum_position vp.
Proof. apply fold_positions. Qed.
Lemma sum_operands_inventories vi : sum_operands (map (option_map OInventory) vi) = sum_inventory vi.
Proof. apply fold_inventories. Qed.

Lemma of_kind_map {A} (f : A -> operand) k (l : list (option A)) :
  (forall a, kind_of (f a) = k) -> of_kind k (map (option_map f) l).
Proof. intros H. unfold of_kind. induction l as [|[a|] t IH]; cbn; constructor; auto. Qed.

Theorem sum_amount_src : forall (call_ref : nat -> list pv -> pv) (i kd ko : nat) (value : pv) (slots ctxs : list pv)
    (ctx : pv) (va : list (option amount)),
  (i < length slots)%nat -> call_ref kd [] = Inv.enc_inv [] ->
  operands_on call_ref ko ctxs (map (option_map OAmount) va) ->
  run_group call_ref class_SumAmount (inv_node i kd ko value) (PList slots) ctxs ctx =
  Ok (inv_node i kd ko (Inv.enc_inv (sum_amount va)), PList (set_nth i (Inv.enc_inv (sum_amount va)) slots),
      Inv.enc_inv (sum_amount va)).
Proof.
  intros. rewrite <- sum_operands_amounts. apply (sum_fold_src call_ref KAmount); auto.
  apply of_kind_map. reflexivity.
Qed.

Theorem sum_position_src : forall (call_ref : nat -> list pv -> pv) (i kd ko : nat) (value : pv) (slots ctxs : list pv)
    (ctx : pv) (vp : list (option position)),
  (i < length slots)%nat -> call_ref kd [] = Inv.enc_inv [] ->
  operands_on call_ref ko ctxs (map (option_map OPosition) vp) ->
  run_group call_ref class_SumPosition (inv_node i kd ko value) (PList slots) ctxs ctx =
  Ok (inv_node i kd ko (Inv.enc_inv (sum_position vp)), PList (set_nth i (Inv.enc_inv (sum_position vp)) slots),
      Inv.enc_inv (sum_position vp)).
Proof.
  intros. rewrite <- sum_operands_positions. apply (sum_fold_src call_ref KPosition); auto.
  apply of_kind_map. reflexivity.
Qed.

Theorem sum_inventory_src : forall (call_ref : nat -> list pv -> pv) (i kd ko : nat) (value : pv) (slots ctxs : list pv)
    (ctx : pv) (vi : list (option inventory)),
  (i < length slots)%nat -> call_ref kd [] = Inv.enc_inv [] ->
  operands_on call_ref ko ctxs (map (option_map OInventory) vi) ->
  run_group call_ref class_SumInventory (inv_node i kd ko value) (PList slots) ctxs ctx =
  Ok (inv_node i kd ko (Inv.enc_inv (sum_inventory vi)), PList (set_nth i (Inv.enc_inv (sum_inventory vi)) slots),
      Inv.enc_inv (sum_inventory vi)).
Proof.
  intros. rewrite <- sum_operands_inventories. apply (sum_fold_src call_ref KInventory); auto.
  apply of_kind_map. reflexivity.
Qed.

(* ------------------------------------------------------------------ allocate *)
(* EvalAggregator.allocate: self.handle = allocator.allocate(); whatever handle the allocator hands out (the
   Allocator's own methods are tied in Proofs/SrcAgg.v) becomes the node's handle *)
Theorem allocate_src : forall (call_ref : nat -> list pv -> pv) (prim : string -> list pv -> res pv) (flds : env)
    (a a' : pv) (h : Z),
  a <> PSelf -> (forall l, a <> PList l) ->
  prim "method:allocate" [a] = Ok (PTuple [a'; PInt h]) ->
  call_method call_ref prim aggi_EvalAggregator_allocate flds [a] = Ok (update "handle" (PInt h) flds, a').
Proof.
  intros call_ref prim flds a a' h Hs Hl Hp. unfold call_method. cbn.
  unfold method_call. destruct a as [v|l|l|n|]; try congruence; try (exfalso; apply (Hl l); reflexivity);
    cbn; rewrite Hp; reflexivity.
Qed.
