(* Tie by translation (C16, bld-render6): InventoryRenderer.format of beanquery/query_render.py, the expanded layout
   (Gen/SrcRenderInv.v render_inv_format_expand = the first statement `if self.expand: ...; return strings`).  Interpreting
   the translated statement on the encodings of Model/PrimsRenderInv.v yields Render.v's inv_format: one p_format string
   per position, positions in sort_pos order. *)
From Coq Require Import String ZArith List Bool Lia.
Import ListNotations.
From Verif Require Import Base.PyValue Model.Eval Model.PyMini Model.Render Model.PrimsRender Gen.SrcRender
  Gen.SrcRenderInv Model.PrimsRenderPos Model.PrimsRenderInv Proofs.PyMiniLemmas Proofs.PyMiniLemmas2
  Proofs.SrcRenderTop Proofs.SrcRenderAmount.
Open Scope string_scope.
Open Scope Z_scope.
Open Scope list_scope.

Section InvTie.
Variable call_ref : nat -> list pv -> pv.
Variable numfmt : list (dec * str) -> dec -> str -> str.
Variable kq : nat.
Notation PI := (prims_inv call_ref numfmt).
Notation PP := (prims_pos call_ref numfmt).

(* the fields of an InventoryRenderer with expand = True whose dict holds, under the key True, a PREPARED PositionRenderer
   in state st (what position_prepare_src leaves); every other field value is arbitrary *)
Definition inv_env (mw prep ls cn ds : pv) (rs : list pv) : env :=
  [("maxwidth", mw); ("prepared", prep); ("listsep", ls); ("expand", PBool true); ("counts", cn);
   ("renderers", PList rs); ("distinct", ds)].
Definition the_renderer (st : pstate) : pv := posr_obj (pos_ready numfmt kq st).

Lemma pi_get rs R : ddict_get (PBool true) rs = Some R -> PI "ddict.get" [PList rs; PBool true] = Ok R.
Proof. intros H. unfold prims_inv. cbn [String.eqb Ascii.eqb Bool.eqb]. rewrite H. reflexivity. Qed.

Lemma pi_format st p : PI "call:format" [the_renderer st; enc_posn p] = Ok (PV (VStr (p_format numfmt st p))).
Proof.
  unfold prims_inv. cbn [String.eqb Ascii.eqb Bool.eqb].
  change (posr_flds (the_renderer st)) with (Some (pos_ready numfmt kq st)). cbv beta iota.
  rewrite position_format_src. reflexivity.
Qed.

Lemma pi_positions l : PI "call:get_positions" [enc_inv l] = Ok (PList (map enc_posn l)).
Proof. reflexivity. Qed.

Lemma pi_sorted l : PI "sorted:key=positionsortkey" [PList (map enc_posn l)] = Ok (PList (map enc_posn (sort_pos l))).
Proof. unfold prims_inv. cbn [String.eqb Ascii.eqb Bool.eqb]. rewrite dec_enc_posns. reflexivity. Qed.

Local Arguments prims_inv : simpl never.
Local Arguments the_renderer : simpl never.
Local Arguments enc_posn : simpl never.
Local Arguments enc_inv : simpl never.
Local Arguments sort_pos : simpl never.

Definition loop_body : list stmt :=
  [SExpr (XMethod (TName "strings") "append"
            [XCallMethod (XPrim "ddict.get" [XAttr (XName "self") "renderers"; XAttr (XName "self") "expand"]) "format"
               [XName "pos"]])].

Definition loop_st (V : pv) (acc : list pv) (extra : env) (F : env) : st :=
  {| locals := ("self", PSelf) :: ("value", V) :: ("strings", PList acc) :: extra; fields := F |}.
Definition extra_ok (extra : env) : Prop := extra = [] \/ exists w, extra = [("pos", w)].

Lemma loop_run st mw prep ls cn ds rs V : ddict_get (PBool true) rs = Some (the_renderer st) ->
  forall (ps : list posn) (acc : list pv) (extra : env), extra_ok extra ->
  exists extra', extra_ok extra' /\
    for_loop call_ref PI loop_body "pos" (loop_st V acc extra (inv_env mw prep ls cn ds rs)) (map enc_posn ps) =
    Ok (Next (loop_st V (acc ++ map (fun p => enc_s (p_format numfmt st p)) ps) extra' (inv_env mw prep ls cn ds rs))).
Proof.
  intros Hget. induction ps as [|p ps IH]; intros acc extra Hex.
  - exists extra. split; [exact Hex|]. cbn [map for_loop]. rewrite app_nil_r. reflexivity.
  - destruct (IH (acc ++ [enc_s (p_format numfmt st p)]) [("pos", enc_posn p)]) as [extra' [Hex' E]];
      [right; eexists; reflexivity|].
    exists extra'. split; [exact Hex'|].
    cbn [map for_loop]. rewrite <- app_assoc in E. cbn [app] in E.
    destruct Hex as [->|[w ->]]; unfold loop_st, loop_body, inv_env;
      repeat (progress (cbn; rewrite ?(pi_get _ _ Hget), ?pi_format)); exact E.
Qed.

(* format(value) with expand: the list of the formatted positions, in sort order; the receiver is unchanged *)
Theorem inv_format_expand_src : forall (st : pstate) (mw prep ls cn ds : pv) (rs : list pv) (l : list posn),
  ddict_get (PBool true) rs = Some (the_renderer st) ->
  call_method call_ref PI render_inv_format_expand (inv_env mw prep ls cn ds rs) [enc_inv l] =
  Ok (inv_env mw prep ls cn ds rs, PList (map enc_s (inv_format numfmt st l))).
Proof.
  intros st mw prep ls cn ds rs l Hget.
  unfold call_method, render_inv_format_expand. cbn [bind_params f_params f_body f_gen].
  fold loop_body.
  destruct (loop_run st mw prep ls cn ds rs (enc_inv l) Hget (sort_pos l) [] [] (or_introl eq_refl)) as [extra' [Hex' E]].
  unfold loop_st in E. cbn [app] in E.
  remember loop_body as LB eqn:ELB.
  unfold inv_env in *.
  cbn. rewrite pi_positions. cbn. rewrite pi_sorted. cbn.
  rewrite (loop_in_eq call_ref PI LB "pos"). rewrite E. cbn.
  unfold inv_format. rewrite map_map. reflexivity.
Qed.
End InvTie.

(* ================================================================== update, the first loop *)
Section InvUpdTie.
Variable call_ref : nat -> list pv -> pv.
Variable quant : dec -> str -> dec.
Variable numfmt : list (dec * str) -> dec -> str -> str.
Variable kq : nat.
Hypothesis Hq : forall d c, call_ref kq [PV (VDec d); PV (VStr c)] = PV (VDec (quant d c)).
(* what `lambda: PositionRenderer(ctx)` returns: the object position_init_src proves __init__ builds *)
Definition fresh_posr : pv := posr_obj (pos_env kq (PInt 0) (PBool false) p_init).
Notation PU := (prims_invu call_ref numfmt fresh_posr).
Definition posr (mw prep : pv) (st : pstate) : pv := posr_obj (pos_env kq mw prep st).
(* the renderer the key True stands for: the stored one, or the factory's product *)
Definition cur (rs : list pv) : pv := match ddict_get (PBool true) rs with Some v => v | None => fresh_posr end.

Lemma get_set l v : ddict_get (PBool true) (ddict_set l (PBool true) v) = Some v.
Proof.
  induction l as [|a l IH]; [reflexivity|].
  destruct a as [x|x|x|x|]; try reflexivity.
  destruct x as [|k [|v' [|z x]]]; try reflexivity.
  cbn [ddict_set]. destruct (key_eqb (PBool true) k) eqn:E; cbn [ddict_get]; rewrite E; [reflexivity|exact IH].
Qed.

Lemma pu_getdefault rs : PU "ddict.getdefault" [PList rs; PBool true] = Ok (cur rs).
Proof. reflexivity. Qed.
Lemma pu_set rs v : PU "dict.set" [PList rs; PBool true; v] = Ok (PList (ddict_set rs (PBool true) v)).
Proof. reflexivity. Qed.
Lemma pu_positions l : PU "call:get_positions" [enc_inv l] = Ok (PList (map enc_posn l)).
Proof. reflexivity. Qed.
Lemma pu_update mw prep st p :
  method_call PU "update" (posr mw prep st) [enc_posn p] = Ok (posr mw prep (p_update quant st p), PNone).
Proof.
  change (method_call PU "update" (posr mw prep st) [enc_posn p])
    with (bind (bind (call_method call_ref (prims_pos call_ref numfmt) render_position_update (pos_env kq mw prep st) [enc_posn p])
                     (fun p => Ok (PTuple [posr_obj (fst p); snd p])))
               (fun r => match r with PTuple [recv'; x] => Ok (recv', x) | _ => Stuck end)).
  rewrite (position_update_src call_ref quant numfmt kq Hq). reflexivity.
Qed.

Local Arguments prims_invu : simpl never.
Local Arguments method_call : simpl never.
Local Arguments posr : simpl never.
Local Arguments cur : simpl never.
Local Arguments enc_posn : simpl never.
Local Arguments enc_inv : simpl never.
Local Arguments ddict_set : simpl never.

Definition upd_body : list stmt :=
  Eval cbv in match f_body render_inv_update_loop with [SFor _ _ b] => b | _ => [] end.

Definition upd_st (V : pv) (extra : env) (F : env) : st :=
  {| locals := ("self", PSelf) :: ("value", V) :: extra; fields := F |}.
Definition upd_extra_ok (extra : env) : Prop := extra = [] \/ exists w r, extra = [("pos", w); ("$r", r)].

Lemma upd_loop_run mw prep mw' prep' ls cn ds V : forall (ps : list posn) (st : pstate) (rs : list pv) (extra : env),
  upd_extra_ok extra -> cur rs = posr mw' prep' st ->
  exists extra' rs', upd_extra_ok extra' /\ cur rs' = posr mw' prep' (fold_left (p_update quant) ps st) /\
    (ps = [] -> rs' = rs) /\ (ps <> [] -> ddict_get (PBool true) rs' = Some (cur rs')) /\
    for_loop call_ref PU upd_body "pos" (upd_st V extra (inv_env mw prep ls cn ds rs)) (map enc_posn ps) =
    Ok (Next (upd_st V extra' (inv_env mw prep ls cn ds rs'))).
Proof.
  induction ps as [|p ps IH]; intros st rs extra Hex Hcur.
  - exists extra, rs. repeat split; try assumption; try congruence.
  - set (rs1 := ddict_set rs (PBool true) (posr mw' prep' (p_update quant st p))).
    assert (Hc1 : cur rs1 = posr mw' prep' (p_update quant st p)) by (unfold cur, rs1; rewrite get_set; reflexivity).
    destruct (IH (p_update quant st p) rs1 [("pos", enc_posn p); ("$r", posr mw' prep' (p_update quant st p))])
      as [extra' [rs' [Hex' [Hcur' [Hnil [Hcons E]]]]]]; [right; eexists; eexists; reflexivity|exact Hc1|].
    exists extra', rs'. split; [exact Hex'|]. split; [exact Hcur'|]. split; [congruence|].
    split.
    { intros _. destruct ps as [|q ps]; [|apply Hcons; congruence].
      rewrite (Hnil eq_refl). rewrite Hc1. unfold rs1. apply get_set. }
    cbn [map for_loop].
    destruct Hex as [->|[w [r ->]]]; unfold upd_st, upd_body, inv_env;
      repeat (progress (cbn; rewrite ?pu_getdefault, ?Hcur, ?pu_update, ?pu_set)); exact E.
Qed.

(* update(value), first loop, expand = True: the PositionRenderer the key True stands for (the stored one, or the factory's
   product when update() sees its first position) absorbs the positions of the inventory in get_positions() order
   - Render.inv_state's fold of p_update; after a non-empty inventory the key is present *)
Theorem inv_update_loop_src : forall (st : pstate) (mw prep mw' prep' ls cn ds : pv) (rs : list pv) (l : list posn),
  cur rs = posr mw' prep' st ->
  exists rs', cur rs' = posr mw' prep' (fold_left (p_update quant) l st) /\
    (l = [] -> rs' = rs) /\ (l <> [] -> ddict_get (PBool true) rs' = Some (cur rs')) /\
    call_method call_ref PU render_inv_update_loop (inv_env mw prep ls cn ds rs) [enc_inv l] =
    Ok (inv_env mw prep ls cn ds rs', PNone).
Proof.
  intros st mw prep mw' prep' ls cn ds rs l Hcur.
  destruct (upd_loop_run mw prep mw' prep' ls cn ds (enc_inv l) l st rs [] (or_introl eq_refl) Hcur)
    as [extra' [rs' [Hex' [Hcur' [Hnil [Hcons E]]]]]].
  exists rs'. split; [exact Hcur'|]. split; [exact Hnil|]. split; [exact Hcons|].
  unfold call_method.
  change (f_body render_inv_update_loop) with [SFor "pos" (XCallMethod (XName "value") "get_positions" []) upd_body].
  change (f_params render_inv_update_loop) with ["self"; "value"].
  change (f_gen render_inv_update_loop) with false.
  cbn [bind_params].
  unfold upd_st in E.
  remember upd_body as UB eqn:EUB.
  unfold inv_env in *.
  cbn. rewrite pu_positions. cbn.
  rewrite (loop_in_eq call_ref PU UB "pos"). rewrite E. reflexivity.
Qed.

(* update() over the inventories of a column, in row order: the renderer of the key True ends in the state
   fold_left p_update (concat invs) - from an empty dict that is Render.inv_state invs *)
Theorem inv_column_src : forall (invs : list (list posn)) (st : pstate) (mw prep mw' prep' ls cn ds : pv) (rs : list pv),
  cur rs = posr mw' prep' st ->
  exists rs', cur rs' = posr mw' prep' (fold_left (p_update quant) (concat invs) st) /\
    run_updates_p call_ref PU render_inv_update_loop (inv_env mw prep ls cn ds rs) (map enc_inv invs) =
    Ok (inv_env mw prep ls cn ds rs').
Proof.
  induction invs as [|l invs IH]; intros st mw prep mw' prep' ls cn ds rs Hcur.
  - exists rs. split; [exact Hcur|reflexivity].
  - destruct (inv_update_loop_src st mw prep mw' prep' ls cn ds rs l Hcur) as [rs1 [Hc1 [_ [_ E1]]]].
    destruct (IH _ mw prep mw' prep' ls cn ds rs1 Hc1) as [rs' [Hc' E']].
    exists rs'. split.
    + cbn [concat]. rewrite fold_left_app. exact Hc'.
    + cbn [map run_updates_p]. rewrite E1. cbn [bind fst]. exact E'.
Qed.

(* a fresh InventoryRenderer (empty dict): cur [] is the factory's product in state p_init *)
Lemma cur_empty : cur [] = posr (PInt 0) (PBool false) p_init.
Proof. reflexivity. Qed.
End InvUpdTie.
