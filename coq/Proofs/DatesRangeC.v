(* C18 -- exhaustive evaluation over every date 1900-01-01 .. 2100-12-31 (73 414 dates), part C *)
From Coq Require Import String ZArith List Bool Lia.
Import ListNotations.
From Verif Require Import Base.Out Base.PyValue Model.Dates Model.StrFuncs Proofs.DatesProofs Proofs.DatesChecks.
Open Scope Z_scope.

Lemma range_ord : all_in_range check_ord LO NDATES = true.
Proof. vm_cast_no_check (eq_refl true). Qed.
Lemma range_ymd_back : forallb check_ymd_back (zrange 1900 201) = true.
Proof. vm_cast_no_check (eq_refl true). Qed.
Lemma range_iso : all_in_range check_iso LO NDATES = true.
Proof. vm_cast_no_check (eq_refl true). Qed.
