From Coq Require Import ZArith List Bool Lia Permutation.
Import ListNotations.
From Verif Require Import Base.StableSort Base.PyValue Base.Decimal Proofs.PyValueProofs
     Model.Eval Model.Order Model.Exec Proofs.OrderProofs.
Open Scope Z_scope.

Section Agg.
Variable q : query.
Variable g : list nat.

Notation key := (group_key q g).

(* ---- the specification: partition by key, fold each class ---- *)
Definition members (sel : list row) (k : list value) : list row :=
  filter (fun r => row_eq k (key r)) sel.

Definition fold_agg (a : agg) (rows : list row) : value :=
  fold_left (fun cur r => agg_update a r cur) rows (agg_init a).

Definition slots_of (sel : list row) (k : list value) : list value :=
  map (fun a => fold_agg a (members sel k)) (q_aggs q).

Definition group_keys (sel : list row) : list (list value) := uniquify (map key sel).

Definition spec_store (sel : list row) : store :=
  map (fun k => (k, slots_of sel k)) (group_keys sel).

(* ---- helper lemmas ---- *)
Lemma scan_agg_app s l1 l2 : scan_agg q g s (l1 ++ l2) = scan_agg q g (scan_agg q g s l1) l2.
Proof. revert s. induction l1 as [|r t IH]; intros s; simpl; [reflexivity|]. apply IH. Qed.

Definition upd_slots (r : row) (slots : list value) : list value :=
  map (fun '(a, cur) => agg_update a r cur) (combine (q_aggs q) slots).

Lemma upd_slots_map r (f : agg -> value) :
  upd_slots r (map f (q_aggs q)) = map (fun a => agg_update a r (f a)) (q_aggs q).
Proof.
  unfold upd_slots. induction (q_aggs q) as [|a t IH]; simpl; [reflexivity|]. now rewrite IH.
Qed.

Lemma members_snoc sel r k :
  members (sel ++ [r]) k = members sel k ++ (if row_eq k (key r) then [r] else []).
Proof. unfold members. rewrite filter_app. simpl. destruct (row_eq k (key r)); reflexivity. Qed.

Lemma slots_of_snoc sel r k :
  slots_of (sel ++ [r]) k = if row_eq k (key r) then upd_slots r (slots_of sel k) else slots_of sel k.
Proof.
  unfold slots_of. rewrite members_snoc. destruct (row_eq k (key r)).
  - rewrite upd_slots_map. apply map_ext. intros a. unfold fold_agg. now rewrite fold_left_app.
  - now rewrite app_nil_r.
Qed.

Lemma existsb_row_eq_sym kr l : existsb (fun k => row_eq k kr) l = existsb (row_eq kr) l.
Proof. induction l as [|x t IH]; simpl; [reflexivity|]. now rewrite (row_eq_sym x kr), IH. Qed.

Lemma uniquify_acc_sub seen l y : In y (uniquify_acc seen l) -> In y l.
Proof. apply uniquify_acc_in. Qed.

Lemma existsb_uniquify kr l : existsb (row_eq kr) (uniquify l) = existsb (row_eq kr) l.
Proof.
  destruct (existsb (row_eq kr) l) eqn:E.
  - apply existsb_exists in E as (x & Hx & Hkx).
    destruct (uniquify_complete l x Hx) as (y & Hy & Hxy).
    apply existsb_exists. exists y. split; [exact Hy|]. eapply row_eq_trans; eassumption.
  - apply not_true_is_false. intros H. apply existsb_exists in H as (y & Hy & Hky).
    apply uniquify_acc_in in Hy.
    assert (existsb (row_eq kr) l = true) by (apply existsb_exists; eauto). congruence.
Qed.

Lemma members_none sel kr : existsb (row_eq kr) (map key sel) = false -> members sel kr = [].
Proof.
  unfold members. induction sel as [|r t IH]; simpl; [reflexivity|].
  intros H. apply orb_false_iff in H as [H1 H2]. rewrite H1. now apply IH.
Qed.

(* store_update on a store with pairwise distinct keys *)
Lemma store_update_spec r kr (f : list value -> list value) (U : list (list value)) :
  ForallOrdPairs (fun a b => row_eq a b = false) U ->
  store_update q r kr (map (fun k => (k, f k)) U) =
  map (fun k => (k, if row_eq k kr then upd_slots r (f k) else f k)) U
  ++ (if existsb (fun k => row_eq k kr) U then []
      else [(kr, map (fun a => agg_update a r (agg_init a)) (q_aggs q))]).
Proof.
  induction 1 as [|k t Hk Ht IH]; simpl; [reflexivity|].
  destruct (row_eq k kr) eqn:E; simpl.
  - rewrite app_nil_r. f_equal. apply map_ext_in. intros k' Hk'.
    rewrite Forall_forall in Hk. specialize (Hk k' Hk').
    destruct (row_eq k' kr) eqn:E'; [|reflexivity]. exfalso.
    assert (row_eq k k' = true); [|congruence].
    eapply row_eq_trans; [exact E|]. now rewrite row_eq_sym.
  - now rewrite IH.
Qed.

(* ---- main theorem: the aggregate store equals partition + fold ---- *)
Theorem scan_agg_spec table :
  scan_agg q g [] table = spec_store (filter (Exec.passes q) table).
Proof.
  induction table as [|r p IH] using rev_ind; [reflexivity|].
  rewrite scan_agg_app, IH, filter_app. simpl.
  destruct (Exec.passes q r) eqn:P; simpl; [|now rewrite app_nil_r].
  set (sel := filter (Exec.passes q) p).
  unfold spec_store at 1. rewrite store_update_spec by apply uniquify_nodup.
  unfold spec_store, group_keys. rewrite map_app. simpl (map key [r]). rewrite uniquify_snoc.
  rewrite map_app. f_equal.
  - apply map_ext. intros k. now rewrite slots_of_snoc.
  - fold (group_keys sel). rewrite existsb_row_eq_sym. unfold group_keys. rewrite existsb_uniquify.
    destruct (existsb (row_eq (key r)) (map key sel)) eqn:E; [reflexivity|].
    simpl. f_equal. f_equal. unfold slots_of. rewrite members_snoc, (members_none _ _ E), row_eq_refl.
    reflexivity.
Qed.

(* groups: keys pairwise distinct (under ==, so NULL is an ordinary key), in order of first appearance *)
Theorem group_keys_distinct sel : ForallOrdPairs (fun a b => row_eq a b = false) (group_keys sel).
Proof. apply uniquify_nodup. Qed.

Theorem group_keys_first_appearance sel r :
  group_keys (sel ++ [r]) = group_keys sel ++ (if existsb (row_eq (key r)) (map key sel) then [] else [key r]).
Proof. unfold group_keys. rewrite map_app. simpl. apply uniquify_snoc. Qed.

(* every selected row belongs to exactly one group *)
Lemma one_match (U : list (list value)) kr y :
  ForallOrdPairs (fun a b => row_eq a b = false) U -> In y U -> row_eq y kr = true ->
  length (filter (fun k => row_eq k kr) U) = 1%nat.
Proof.
  induction 1 as [|k t Hk Ht IH]; intros Hy Hykr; [destruct Hy|]. simpl.
  rewrite Forall_forall in Hk. destruct Hy as [->|Hy].
  - rewrite Hykr. simpl. f_equal.
    assert (F : filter (fun k => row_eq k kr) t = []); [|now rewrite F].
    clear IH Ht. induction t as [|k' t' IHt]; [reflexivity|]. simpl.
    destruct (row_eq k' kr) eqn:E'.
    + exfalso. assert (row_eq y k' = true) by (eapply row_eq_trans; [exact Hykr|now rewrite row_eq_sym]).
      rewrite (Hk k') in H; [discriminate|now left].
    + apply IHt. intros z Hz. apply Hk. now right.
  - destruct (row_eq k kr) eqn:E.
    + exfalso. assert (row_eq k y = true) by (eapply row_eq_trans; [exact E|now rewrite row_eq_sym]).
      rewrite (Hk y Hy) in H. discriminate.
    + now apply IH.
Qed.

Theorem exactly_one_group sel r : In r sel ->
  length (filter (fun k => row_eq k (key r)) (group_keys sel)) = 1%nat.
Proof.
  intros Hin. unfold group_keys.
  destruct (uniquify_complete (map key sel) (key r) (in_map key _ _ Hin)) as (y & Hy & Hry).
  apply (one_match _ _ y); [apply uniquify_nodup|exact Hy|now rewrite row_eq_sym].
Qed.

(* group sizes add up to the number of selected rows (count additivity) *)
Lemma list_sum_map_add {A} (a : A -> nat) (c : A -> bool) (l : list A) :
  list_sum (map (fun k => a k + (if c k then 1 else 0))%nat l) = (list_sum (map a l) + length (filter c l))%nat.
Proof. induction l as [|x t IH]; simpl; [reflexivity|]. rewrite IH. destruct (c x); simpl; lia. Qed.

Theorem group_sizes_add_up sel :
  list_sum (map (fun k => length (members sel k)) (group_keys sel)) = length sel.
Proof.
  induction sel as [|r p IH] using rev_ind; [reflexivity|].
  assert (Fk : forall k, length (members (p ++ [r]) k)
                         = (length (members p k) + (if row_eq k (key r) then 1 else 0))%nat).
  { intros k. rewrite members_snoc, app_length. destruct (row_eq k (key r)); reflexivity. }
  rewrite (map_ext _ _ Fk), list_sum_map_add, app_length. simpl (length [r]).
  rewrite group_keys_first_appearance.
  destruct (existsb (row_eq (key r)) (map key p)) eqn:E.
  - rewrite app_nil_r, IH. f_equal.
    apply existsb_exists in E as (x & Hx & Hrx). apply in_map_iff in Hx as (r' & <- & Hr').
    destruct (uniquify_complete (map key p) (key r') (in_map key _ _ Hr')) as (y & Hy & Hy').
    apply (one_match _ _ y); [apply uniquify_nodup|exact Hy|].
    rewrite row_eq_sym. eapply row_eq_trans; eassumption.
  - rewrite map_app, list_sum_app, IH, filter_app. simpl.
    rewrite (members_none _ _ E), row_eq_refl. simpl.
    assert (F : filter (fun k : list value => row_eq k (key r)) (group_keys p) = []).
    { unfold group_keys. rewrite <- existsb_uniquify in E.
      induction (uniquify (map key p)) as [|k t IHt]; [reflexivity|]. simpl in *.
      apply orb_false_iff in E as [E1 E2]. rewrite row_eq_sym, E1. now apply IHt. }
    rewrite F. simpl. lia.
Qed.

(* ---- what each aggregate function folds to ---- *)
Definition arg_values (a : agg) (rows : list row) : list value := map (fun r => eval r [] (aarg a)) rows.
Definition non_null (l : list value) : list value := filter (fun v => negb (is_null v)) l.

Lemma fold_count_star e rows n :
  fold_left (fun cur r => agg_update {| afun := ACountStar; aarg := e |} r cur) rows (VInt n)
  = VInt (n + Z.of_nat (length rows)).
Proof.
  revert n. induction rows as [|r t IH]; intros n; cbn [fold_left length]; [f_equal; lia|].
  replace (agg_update {| afun := ACountStar; aarg := e |} r (VInt n)) with (VInt (n + 1)) by reflexivity.
  rewrite IH. f_equal. lia.
Qed.

Theorem count_star_spec e rows : fold_agg {| afun := ACountStar; aarg := e |} rows = VInt (Z.of_nat (length rows)).
Proof. unfold fold_agg. change (agg_init _) with (VInt 0). now rewrite fold_count_star. Qed.

Lemma fold_count e rows n :
  fold_left (fun cur r => agg_update {| afun := ACount; aarg := e |} r cur) rows (VInt n)
  = VInt (n + Z.of_nat (length (non_null (arg_values {| afun := ACount; aarg := e |} rows)))).
Proof.
  revert n. induction rows as [|r t IH]; intros n; cbn [fold_left]; [simpl; f_equal; lia|].
  unfold arg_values, non_null. cbn [map filter aarg].
  replace (agg_update {| afun := ACount; aarg := e |} r (VInt n))
    with (if is_null (eval r [] e) then VInt n else VInt (n + 1)) by (unfold agg_update; simpl; destruct (is_null _); reflexivity).
  destruct (is_null (eval r [] e)); cbn [negb]; rewrite IH; unfold arg_values, non_null; cbn [aarg length]; f_equal; lia.
Qed.

Theorem count_spec e rows :
  fold_agg {| afun := ACount; aarg := e |} rows
  = VInt (Z.of_nat (length (non_null (arg_values {| afun := ACount; aarg := e |} rows)))).
Proof. unfold fold_agg. change (agg_init _) with (VInt 0). now rewrite fold_count. Qed.

Lemma fold_sum z e rows acc :
  fold_left (fun cur r => agg_update {| afun := ASum z; aarg := e |} r cur) rows acc
  = fold_left (bin BAdd) (non_null (arg_values {| afun := ASum z; aarg := e |} rows)) acc.
Proof.
  revert acc. induction rows as [|r t IH]; intros acc; [reflexivity|].
  cbn [fold_left]. rewrite IH. unfold arg_values, non_null, agg_update. cbn [map filter aarg afun].
  destruct (is_null (eval r [] e)); reflexivity.
Qed.

Theorem sum_spec z e rows :
  fold_agg {| afun := ASum z; aarg := e |} rows
  = fold_left (bin BAdd) (non_null (arg_values {| afun := ASum z; aarg := e |} rows)) z.
Proof. unfold fold_agg. change (agg_init _) with z. apply fold_sum. Qed.

Lemma fold_first e rows acc :
  fold_left (fun cur r => agg_update {| afun := AFirst; aarg := e |} r cur) rows acc
  = if is_null acc
    then match non_null (arg_values {| afun := AFirst; aarg := e |} rows) with [] => VNull | v :: _ => v end
    else acc.
Proof.
  revert acc. induction rows as [|r t IH]; intros acc.
  - simpl. destruct acc; reflexivity.
  - cbn [fold_left]. rewrite IH. unfold arg_values, non_null, agg_update. cbn [map filter aarg afun].
    destruct (is_null acc) eqn:Na; [|now rewrite Na].
    destruct (is_null (eval r [] e)) eqn:Nv; reflexivity.
Qed.

Theorem first_spec e rows :
  fold_agg {| afun := AFirst; aarg := e |} rows
  = match non_null (arg_values {| afun := AFirst; aarg := e |} rows) with [] => VNull | v :: _ => v end.
Proof. unfold fold_agg. change (agg_init _) with VNull. now rewrite fold_first. Qed.

Lemma last_default {A} (l : list A) a d1 d2 : last (a :: l) d1 = last (a :: l) d2.
Proof. revert a. induction l as [|b t IH]; intros a; [reflexivity|]. simpl in *. apply IH. Qed.

Lemma fold_last e rows acc :
  fold_left (fun cur r => agg_update {| afun := ALast; aarg := e |} r cur) rows acc
  = last (arg_values {| afun := ALast; aarg := e |} rows) acc.
Proof.
  revert acc. induction rows as [|r t IH]; intros acc; [reflexivity|].
  cbn [fold_left]. rewrite IH. unfold arg_values, agg_update. cbn [map aarg afun].
  destruct t as [|r0 t']; [reflexivity|]. cbn [map]. rewrite (last_default _ _ (eval r [] e) acc). reflexivity.
Qed.

Theorem last_spec e rows :
  fold_agg {| afun := ALast; aarg := e |} rows = last (arg_values {| afun := ALast; aarg := e |} rows) VNull.
Proof. unfold fold_agg. change (agg_init _) with VNull. apply fold_last. Qed.

(* min: NULL when there is no non-NULL value, else a non-NULL value of the group that is <= all others *)
Definition amin e := {| afun := AMin; aarg := e |}.
Definition min_step e (cur : value) (r : row) := agg_update (amin e) r cur.

Lemma min_step_eq e cur r :
  min_step e cur r = let v := eval r [] e in
                     if is_null v then cur else if is_null cur || val_lt v cur then v else cur.
Proof. reflexivity. Qed.

Lemma non_null_cons e r t :
  non_null (arg_values (amin e) (r :: t)) =
  if is_null (eval r [] e) then non_null (arg_values (amin e) t)
  else eval r [] e :: non_null (arg_values (amin e) t).
Proof. unfold non_null, arg_values. simpl. destruct (is_null (eval r [] e)); reflexivity. Qed.

Lemma fold_min_nonnull e rows : forall acc, is_null acc = false ->
  let res := fold_left (min_step e) rows acc in
  let vs := non_null (arg_values (amin e) rows) in
  is_null res = false /\ (res = acc \/ In res vs) /\ val_le res acc = true
  /\ Forall (fun v => val_le res v = true) vs.
Proof.
  induction rows as [|r t IH]; intros acc Na; cbn zeta.
  - simpl. repeat split; auto. apply le_refl, val_le_total.
  - cbn [fold_left]. rewrite non_null_cons, min_step_eq. cbn zeta.
    destruct (is_null (eval r [] e)) eqn:Nv; [apply IH; exact Na|].
    rewrite Na. cbn [orb].
    destruct (val_lt (eval r [] e) acc) eqn:L.
    + destruct (IH (eval r [] e) Nv) as (R1 & R2 & R3 & R4).
      assert (Hva : val_le (eval r [] e) acc = true).
      { unfold val_lt in L. apply negb_true_iff in L. destruct (val_le_total (eval r [] e) acc); congruence. }
      split; [exact R1|]. split; [right; destruct R2 as [->|R2]; [now left|now right]|].
      split; [eapply val_le_trans; eassumption|]. constructor; assumption.
    + destruct (IH acc Na) as (R1 & R2 & R3 & R4).
      assert (Hav : val_le acc (eval r [] e) = true).
      { unfold val_lt in L. now apply negb_false_iff in L. }
      split; [exact R1|]. split; [destruct R2 as [->|R2]; [now left|right; now right]|].
      split; [exact R3|]. constructor; [eapply val_le_trans; eassumption|exact R4].
Qed.

Lemma fold_min_null e rows :
  let res := fold_left (min_step e) rows VNull in
  let vs := non_null (arg_values (amin e) rows) in
  (vs = [] -> res = VNull) /\
  (vs <> [] -> In res vs /\ Forall (fun v => val_le res v = true) vs).
Proof.
  induction rows as [|r t IH]; cbn zeta.
  - simpl. split; [reflexivity|congruence].
  - cbn [fold_left]. rewrite non_null_cons, min_step_eq. cbn zeta.
    destruct (is_null (eval r [] e)) eqn:Nv; [exact IH|]. cbn [is_null orb].
    split; [discriminate|]. intros _.
    destruct (fold_min_nonnull e t (eval r [] e) Nv) as (R1 & R2 & R3 & R4).
    split; [destruct R2 as [->|R2]; [now left|now right]|]. constructor; assumption.
Qed.

(* min: NULL when the group has no non-NULL value, else a non-NULL value of the group that is <= all the others *)
Theorem min_spec e rows :
  let vs := non_null (arg_values (amin e) rows) in
  (vs = [] -> fold_agg (amin e) rows = VNull) /\
  (vs <> [] -> In (fold_agg (amin e) rows) vs /\ Forall (fun v => val_le (fold_agg (amin e) rows) v = true) vs).
Proof. exact (fold_min_null e rows). Qed.

Definition amax e := {| afun := AMax; aarg := e |}.
Definition max_step e (cur : value) (r : row) := agg_update (amax e) r cur.

Lemma non_null_cons_max e r t :
  non_null (arg_values (amax e) (r :: t)) =
  if is_null (eval r [] e) then non_null (arg_values (amax e) t)
  else eval r [] e :: non_null (arg_values (amax e) t).
Proof. unfold non_null, arg_values. simpl. destruct (is_null (eval r [] e)); reflexivity. Qed.

Lemma fold_max_nonnull e rows : forall acc, is_null acc = false ->
  let res := fold_left (max_step e) rows acc in
  let vs := non_null (arg_values (amax e) rows) in
  is_null res = false /\ (res = acc \/ In res vs) /\ val_le acc res = true
  /\ Forall (fun v => val_le v res = true) vs.
Proof.
  induction rows as [|r t IH]; intros acc Na; cbn zeta.
  - simpl. repeat split; auto. apply le_refl, val_le_total.
  - cbn [fold_left]. rewrite non_null_cons_max.
    change (max_step e acc r) with (let v := eval r [] e in
       if is_null v then acc else if is_null acc || val_lt acc v then v else acc). cbn zeta.
    destruct (is_null (eval r [] e)) eqn:Nv; [apply IH; exact Na|].
    rewrite Na. cbn [orb].
    destruct (val_lt acc (eval r [] e)) eqn:L.
    + destruct (IH (eval r [] e) Nv) as (R1 & R2 & R3 & R4).
      assert (Hva : val_le acc (eval r [] e) = true).
      { unfold val_lt in L. apply negb_true_iff in L. destruct (val_le_total acc (eval r [] e)); congruence. }
      split; [exact R1|]. split; [right; destruct R2 as [->|R2]; [now left|now right]|].
      split; [eapply val_le_trans; eassumption|]. constructor; assumption.
    + destruct (IH acc Na) as (R1 & R2 & R3 & R4).
      assert (Hav : val_le (eval r [] e) acc = true).
      { unfold val_lt in L. now apply negb_false_iff in L. }
      split; [exact R1|]. split; [destruct R2 as [->|R2]; [now left|right; now right]|].
      split; [exact R3|]. constructor; [eapply val_le_trans; eassumption|exact R4].
Qed.

Theorem max_spec e rows :
  let vs := non_null (arg_values (amax e) rows) in
  (vs = [] -> fold_agg (amax e) rows = VNull) /\
  (vs <> [] -> In (fold_agg (amax e) rows) vs /\ Forall (fun v => val_le v (fold_agg (amax e) rows) = true) vs).
Proof.
  unfold fold_agg. change (agg_init (amax e)) with VNull.
  change (fun cur r => agg_update (amax e) r cur) with (max_step e).
  induction rows as [|r t IH]; cbn zeta.
  - simpl. split; [reflexivity|congruence].
  - cbn [fold_left]. rewrite non_null_cons_max.
    change (max_step e VNull r) with (let v := eval r [] e in
       if is_null v then VNull else if is_null VNull || val_lt VNull v then v else VNull). cbn zeta.
    destruct (is_null (eval r [] e)) eqn:Nv; [exact IH|]. cbn [is_null orb].
    split; [discriminate|]. intros _.
    destruct (fold_max_nonnull e t (eval r [] e) Nv) as (R1 & R2 & R3 & R4).
    split; [destruct R2 as [->|R2]; [now left|now right]|]. constructor; assumption.
Qed.

(* ---- HAVING and output rows ---- *)
Theorem finalize_spec ctx s :
  finalize q g ctx s =
  map (fun ks => out_values g ctx (snd ks) 0 (q_targets q) (fst ks))
      (filter (fun ks => having_ok q (out_values g ctx (snd ks) 0 (q_targets q) (fst ks))) s).
Proof.
  unfold finalize. induction s as [|[k sl] t IH]; simpl; [reflexivity|].
  destruct (having_ok q _); simpl; now rewrite IH.
Qed.

(* a selection with no qualifying row yields no output row (also for SELECT count( * )) *)
Theorem empty_selection table :
  filter (Exec.passes q) table = [] -> scan_agg q g [] table = [].
Proof. intros H. rewrite scan_agg_spec, H. reflexivity. Qed.

End Agg.

(* ---- additivity for any integer weight of rows: group-wise totals add up to the ungrouped total ---- *)
Section Weights.
Variable q : query.
Variable g : list nat.
Variable w : row -> Z.

Definition wsum (l : list row) : Z := fold_right (fun r acc => w r + acc) 0 l.

Lemma wsum_app l1 l2 : wsum (l1 ++ l2) = wsum l1 + wsum l2.
Proof. induction l1 as [|r t IH]; simpl; [reflexivity|]. rewrite IH. lia. Qed.

Definition zsum (l : list Z) : Z := fold_right Z.add 0 l.
Lemma zsum_app l1 l2 : zsum (l1 ++ l2) = zsum l1 + zsum l2.
Proof. induction l1 as [|x t IH]; simpl; [reflexivity|]. rewrite IH. lia. Qed.

Lemma zsum_map_add {A} (a : A -> Z) (c : A -> bool) (x : Z) (l : list A) :
  zsum (map (fun k => a k + (if c k then x else 0)) l) = zsum (map a l) + x * Z.of_nat (length (filter c l)).
Proof. induction l as [|y t IH]; simpl; [lia|]. rewrite IH. destruct (c y); simpl length; lia. Qed.

Theorem weights_add_up sel :
  zsum (map (fun k => wsum (members q g sel k)) (group_keys q g sel)) = wsum sel.
Proof.
  induction sel as [|r p IH] using rev_ind; [reflexivity|].
  assert (Fk : forall k, wsum (members q g (p ++ [r]) k)
                         = wsum (members q g p k) + (if row_eq k (group_key q g r) then w r else 0)).
  { intros k. rewrite members_snoc, wsum_app. destruct (row_eq k (group_key q g r)); simpl; lia. }
  rewrite (map_ext _ _ Fk), zsum_map_add, wsum_app. simpl (wsum [r]).
  rewrite group_keys_first_appearance.
  destruct (existsb (row_eq (group_key q g r)) (map (group_key q g) p)) eqn:E.
  - rewrite app_nil_r, IH.
    apply existsb_exists in E as (x & Hx & Hrx). apply in_map_iff in Hx as (r' & <- & Hr').
    destruct (uniquify_complete (map (group_key q g) p) (group_key q g r') (in_map (group_key q g) _ _ Hr')) as (y & Hy & Hy').
    rewrite (one_match _ _ y); [lia|apply uniquify_nodup|exact Hy|].
    rewrite row_eq_sym. eapply row_eq_trans; eassumption.
  - rewrite map_app, zsum_app, IH, filter_app. simpl.
    rewrite (members_none _ _ _ _ E). simpl.
    assert (F : filter (fun k : list value => row_eq k (group_key q g r)) (group_keys q g p) = []).
    { unfold group_keys. rewrite <- existsb_uniquify in E.
      induction (uniquify (map (group_key q g) p)) as [|k t IHt]; [reflexivity|]. simpl in *.
      apply orb_false_iff in E as [E1 E2]. rewrite row_eq_sym, E1. now apply IHt. }
    rewrite F, row_eq_refl. simpl. lia.
Qed.
End Weights.

(* sum over an int-valued argument: the fold is the integer sum of the non-NULL values *)
Definition int_weight (e : enode) (r : row) : Z := match eval r [] e with VInt z => z | _ => 0 end.
Definition int_or_null (e : enode) (rows : list row) : Prop :=
  Forall (fun r => match eval r [] e with VInt _ | VNull => True | _ => False end) rows.

Lemma sum_int_step e r acc :
  match eval r [] e with VInt _ | VNull => True | _ => False end ->
  agg_update {| afun := ASum (VInt 0); aarg := e |} r (VInt acc) = VInt (acc + int_weight e r).
Proof.
  unfold agg_update, int_weight. cbn [afun aarg]. destruct (eval r [] e) eqn:E; try contradiction; intros _; cbn [is_null].
  - f_equal. lia.
  - reflexivity.
Qed.

Lemma fold_sum_int e rows acc : int_or_null e rows ->
  fold_left (fun cur r => agg_update {| afun := ASum (VInt 0); aarg := e |} r cur) rows (VInt acc)
  = VInt (acc + wsum (int_weight e) rows).
Proof.
  revert acc. induction rows as [|r t IH]; intros acc H; [simpl; f_equal; lia|].
  inversion H as [|? ? Hr Ht]; subst. cbn [fold_left]. rewrite (sum_int_step e r acc Hr), IH by exact Ht.
  f_equal. simpl. lia.
Qed.

Theorem sum_int_spec e rows : int_or_null e rows ->
  fold_agg {| afun := ASum (VInt 0); aarg := e |} rows = VInt (wsum (int_weight e) rows).
Proof. intros H. unfold fold_agg. change (agg_init _) with (VInt 0). now rewrite fold_sum_int. Qed.

(* group-wise integer sums add up to the ungrouped sum *)
Theorem sum_int_additive q g e sel :
  zsum (map (fun k => wsum (int_weight e) (members q g sel k)) (group_keys q g sel)) = wsum (int_weight e) sel.
Proof. apply weights_add_up. Qed.

(* ---- C02 main statement on the executor: one output row per group passing HAVING, in order of first appearance ---- *)
Theorem exec_rows_agg q g table :
  q_group q = Some g ->
  let sel := filter (Exec.passes q) table in
  let ctx := last table [] in
  let vals k := out_values g ctx (slots_of q g sel k) 0 (q_targets q) k in
  exec_rows q table = map vals (filter (fun k => having_ok q (vals k)) (group_keys q g sel)).
Proof.
  intros Hg. cbn zeta. unfold exec_rows. rewrite Hg, scan_agg_spec, finalize_spec. unfold spec_store.
  induction (group_keys q g (filter (Exec.passes q) table)) as [|k t IH]; simpl; [reflexivity|].
  destruct (having_ok q _); simpl; now rewrite IH.
Qed.
