(* Tie by translation, C04 (group `exprs`): the PyMini terms generated on every run from the CURRENT source of
   Compiler._unaryop / _between / _inop / _binaryop / _function (Gen/SrcExprs.v) compute what Model/Compile.v says:

     unaryop_src     = Compile.build_unary    (subclass-aware lookup in OPERATORS, constant folding with the OVERLOAD's
                                               output type)
     between_src     = Compile.build_between  (exact match of the three operand types against OPERATORS[Between])
     inop_src        = Compile.build_in_any   (the first overload of In / NotIn, a one-column subquery wrapped)
     binaryop_src    = Compile.build_binary   (exact match; else the untyped operand is cast to the other operand's
                                               type - int promoted to Decimal -, no cast available = error; then exact
                                               match once more) and binaryop_terminates: the guard the unrolling of
                                               `while True` ends in is never reached
     function_src    = Compile.build_function (coalesce, lookup failure, the meta rewritings, constant folding of pure
                                               functions over constants)

   Encodings and primitive semantics: Model/PrimsExprs.v (classes of the registry as records applied by the primitive
   "apply", constructed nodes at the addresses the allocator [mk] gives them).  The receiver's attributes are the
   concrete prefix [flds] followed by an arbitrary rest; `self.table` is threaded through `self._compile`. *)
From Coq Require Import String Ascii ZArith List Bool Lia.
Import ListNotations.
From Verif Require Import Base.PyValue Model.Eval Model.PyMini Model.PrimsApi Model.PrimsCompiler Model.PrimsSelect
  Model.PrimsExprs Proofs.PyMiniLemmas Proofs.PyMiniLemmas2 Proofs.SrcApi.
From Verif Require Model.Compile.
From Verif Require Import Gen.SrcExprs.
Open Scope string_scope.
Open Scope list_scope.
Open Scope Z_scope.

Notation cerr := Compile.cerr.

Lemma threaded_state_is_table : threaded_state = ["table"].
Proof. reflexivity. Qed.
Lemma unrolled_is_binaryop : unrolled_functions = ["compile_binaryop"] /\ unroll_passes = 3%nat.
Proof. split; reflexivity. Qed.

Definition kFL : nat := 0.     (* refs: beanquery.types.function_lookup *)
Definition kN : nat := 1.      (* refs: beanquery.types.name *)
Definition k1D : nat := 2.     (* refs: beanquery.query_compile.EvalConstantSubquery1D *)
Lemma refs_checked : ref_of refs "beanquery.types.function_lookup" = Some kFL
                     /\ ref_of refs "beanquery.types.name" = Some kN
                     /\ ref_of refs "beanquery.query_compile.EvalConstantSubquery1D" = Some k1D.
Proof. repeat split; reflexivity. Qed.

Definition enc_res {A} (f : A -> pv) (r : Compile.result A cerr) : pv :=
  match r with Compile.Ok a => f a | Compile.Err e => PV (VErr (CompErr e)) end.

Definition enc_cfound (isop : bool) (name : string) (r : option (nat * Compile.overload)) : pv :=
  match r with Some (i, o) => enc_class isop name i o | None => PNone end.

(* ---------------------------------------------------------------- strings, references *)
Lemma ascii_code_eqb a b : (Z.of_N (N_of_ascii a) =? Z.of_N (N_of_ascii b)) = Ascii.eqb a b.
Proof.
  destruct (Ascii.eqb_spec a b) as [->|N]; [apply Z.eqb_refl|].
  apply Z.eqb_neq. intros H. apply N2Z.inj in H. apply N. rewrite <- (ascii_N_embedding a), <- (ascii_N_embedding b).
  now rewrite H.
Qed.

Lemma zeqb_zs a : forall b, zeqb (zs a) (zs b) = String.eqb a b.
Proof.
  induction a as [|c a IH]; intros [|d b]; cbn; try reflexivity.
  rewrite ascii_code_eqb, IH. destruct (Ascii.eqb c d); reflexivity.
Qed.

Lemma unzs_zs s : unzs (zs s) = s.
Proof. induction s as [|c s IH]; cbn; [reflexivity|]. now rewrite N2Z.id, ascii_N_embedding, IH. Qed.

Lemma as_strs_map l : as_strs (map PStr l) = Some l.
Proof. induction l as [|x t IH]; cbn; [reflexivity|]. now rewrite IH, unzs_zs. Qed.

Lemma key_eqb_PStr a b : key_eqb (PStr a) (PStr b) = String.eqb a b.
Proof. apply zeqb_zs. Qed.

Lemma as_nref_nref i : as_nref (nref i) = Some i.
Proof.
  unfold as_nref, nref, PStr, PInt. rewrite zeqb_refl. cbn [andb].
  destruct (Z.leb_spec 0 (Z.of_nat i)); [now rewrite Nat2Z.id|lia].
Qed.

Lemma as_nrefs_map l : as_nrefs (map nref l) = Some l.
Proof. induction l as [|x t IH]; [reflexivity|]. cbn [map as_nrefs]. now rewrite as_nref_nref, IH. Qed.

Lemma as_foldval_foldval j : as_foldval (foldval j) = Some j.
Proof.
  unfold as_foldval, foldval, PStr, PInt. rewrite zeqb_refl. cbn [andb].
  destruct (Z.leb_spec 0 (Z.of_nat j)); [now rewrite Nat2Z.id|lia].
Qed.

Lemma as_nref_class isop name i o : as_nref (enc_class isop name i o) = None.
Proof. reflexivity. Qed.

Lemma as_class_class isop name i o : as_class (enc_class isop name i o) = Some (isop, name, i).
Proof.
  unfold as_class, enc_class. cbn.
  destruct (Z.leb_spec 0 (Z.of_nat i)); [|lia]. now rewrite unzs_zs, Nat2Z.id.
Qed.

Lemma key_eqb_cls a b : key_eqb (PStr (ast_cls a)) (PStr (ast_cls b)) = String.eqb a b.
Proof. unfold ast_cls. cbn. apply zeqb_zs. Qed.

(* ---------------------------------------------------------------- the registries *)
Lemma find_ov_nth : forall ovs k sg i o, Compile.find_ov k ovs sg = Some (i, o) ->
  (k <= i)%nat /\ nth_error ovs (i - k) = Some o /\ Compile.sig_match (Compile.ov_ins o) sg = true.
Proof.
  induction ovs as [|x t IH]; intros k sg i o H; cbn in H; [discriminate|].
  destruct (Compile.sig_match (Compile.ov_ins x) sg) eqn:E.
  - injection H as <- <-. rewrite Nat.sub_diag. auto.
  - apply IH in H as (H1 & H2 & H3). split; [lia|]. split; [|exact H3].
    replace (i - k)%nat with (S (i - S k)) by lia. exact H2.
Qed.

Lemma first_some_find : forall (sgs : list (list string)) ovs i o,
  Compile.first_some (Compile.find_ov 0 ovs) sgs = Some (i, o) -> nth_error ovs i = Some o.
Proof.
  induction sgs as [|sg t IH]; intros ovs i o H; cbn in H; [discriminate|].
  destruct (Compile.find_ov 0 ovs sg) as [[k p]|] eqn:E.
  - injection H as -> ->. apply find_ov_nth in E as (_ & E & _). now rewrite Nat.sub_0_r in E.
  - now apply IH.
Qed.

Lemma function_lookup_nth reg name tys i o :
  Compile.function_lookup reg name tys = Some (i, o) -> nth_error (Compile.overloads reg name) i = Some o.
Proof. apply first_some_find. Qed.

Lemma exact_lookup_nth name tys i o :
  Compile.exact_lookup name tys = Some (i, o) -> nth_error (Compile.overloads R.operators name) i = Some o.
Proof. unfold Compile.exact_lookup. intros H. apply find_ov_nth in H as (_ & H & _). now rewrite Nat.sub_0_r in H. Qed.

Lemma opreg_get reg name :
  getitem (enc_opreg reg) (PStr (ast_cls name)) =
  match @Compile.assoc (list Compile.overload) name reg with Some l => Ok (PList (enc_classes true name 0 l)) | None => Exc KeyError end.
Proof.
  unfold getitem, enc_opreg, pdict, PStr at 1. rewrite zeqb_refl.
  rewrite <- map_rev, rev_involutive, map_map. cbn [fst snd].
  induction reg as [|[k v] t IH]; [reflexivity|].
  cbn [map assoc fst snd Compile.assoc]. rewrite key_eqb_cls.
  destruct (String.eqb_spec name k) as [->|N]; [reflexivity|exact IH].
Qed.

Lemma operators_get name :
  getitem enc_operators (PV (VStr (zs (ast_cls name)))) =
  match @Compile.assoc (list Compile.overload) name R.operators with
  | Some l => Ok (PList (enc_classes true name 0 l))
  | None => Exc KeyError
  end.
Proof. exact (opreg_get R.operators name). Qed.

(* facts about the registry snapshot (kernel-computed; the snapshot is tied to the live registries by Proofs/RegistryTie.v) *)
Definition out_is (t : string) (ovs : list Compile.overload) : bool := forallb (fun o => Compile.ov_out o =? t)%string ovs.

Lemma out_is_nth t ovs i o : out_is t ovs = true -> nth_error ovs i = Some o -> Compile.ov_out o = t.
Proof.
  unfold out_is. intros H Hn. apply nth_error_In in Hn. rewrite forallb_forall in H. apply H in Hn.
  now apply String.eqb_eq.
Qed.

Lemma between_registered :
  exists ovs, @Compile.assoc (list Compile.overload) "Between" R.operators = Some ovs /\ out_is "bool" ovs = true /\ ovs <> [].
Proof. eexists. split; [vm_compute; reflexivity|]. split; [vm_compute; reflexivity|discriminate]. Qed.

(* every registered operator has at least one overload *)
Lemma operators_nonempty : forallb (fun kv => match snd kv with [] => false | _ => true end) R.operators = true.
Proof. vm_compute. reflexivity. Qed.

Lemma registered_nonempty op ovs : @Compile.assoc (list Compile.overload) op R.operators = Some ovs -> ovs <> [].
Proof.
  pose proof operators_nonempty as H. rewrite forallb_forall in H. intros Ha ->.
  assert (In (op, @nil Compile.overload) R.operators).
  { clear H. revert Ha. generalize R.operators. induction l as [|[k v] t IH]; cbn; [discriminate|].
    destruct (String.eqb_spec op k) as [->|N]; [intros E; injection E as ->; now left|intros E; right; auto]. }
  apply H in H0. discriminate.
Qed.

Lemma in_registered op : Compile.is_in_op op = true ->
  exists o rest, @Compile.assoc (list Compile.overload) op R.operators = Some (o :: rest) /\ Compile.ov_out o = "bool".
Proof.
  unfold Compile.is_in_op. intros H. apply orb_true_iff in H as [H|H]; apply String.eqb_eq in H; subst op;
    eexists; eexists; (split; [vm_compute; reflexivity|reflexivity]).
Qed.

(* the cast functions (types.MAP): each is found for an untyped operand, announces a type other than `object`, and is
   not one of the aggregators that take their operand's type *)
Definition cast_ok (tn : string * string) : bool :=
  match Compile.function_lookup R.functions (snd tn) (@cons Compile.ty "object" (@nil Compile.ty)) with
  | Some (_, o) => negb (Compile.ov_out o =? "object")%string && negb (Compile.agg_dtype_of_operand (snd tn) o)
  | None => false
  end.
Lemma casts_checked : forallb cast_ok R.cast_names = true.
Proof. vm_compute. reflexivity. Qed.

Lemma assoc_in {A} k (v : A) l : Compile.assoc k l = Some v -> In (k, v) l.
Proof.
  induction l as [|[k' v'] t IH]; cbn; [discriminate|].
  destruct (String.eqb_spec k k') as [->|N]; [intros E; injection E as ->; now left|intros E; right; auto].
Qed.

Lemma cast_found t name : Compile.assoc t R.cast_names = Some name ->
  exists i o, Compile.function_lookup R.functions name (@cons Compile.ty "object" (@nil Compile.ty)) = Some (i, o)
              /\ Compile.ov_out o <> "object" /\ Compile.agg_dtype_of_operand name o = false.
Proof.
  intros H. apply assoc_in in H. pose proof casts_checked as C. rewrite forallb_forall in C. apply C in H.
  unfold cast_ok in H. cbn [snd] in H.
  destruct (Compile.function_lookup R.functions name (@cons Compile.ty "object" (@nil Compile.ty))) as [[i o]|]; [|discriminate].
  exists i, o. apply andb_true_iff in H as [H1 H2]. split; [reflexivity|]. split.
  - intros E. rewrite E in H1. discriminate.
  - now destruct (Compile.agg_dtype_of_operand name o).
Qed.

Lemma zeqb_object t : zeqb (zs t) [111; 98; 106; 101; 99; 116] = (t =? "object")%string.
Proof. exact (zeqb_zs t "object"). Qed.
Lemma zeqb_int t : zeqb (zs t) [105; 110; 116] = (t =? "int")%string.
Proof. exact (zeqb_zs t "int"). Qed.

Arguments CompErr : simpl never.
Arguments Compile.build_unary : simpl never.
Arguments Compile.build_between : simpl never.
Arguments Compile.build_binary : simpl never.
Arguments Compile.build_function : simpl never.
Arguments Compile.build_in_any : simpl never.
Arguments Compile.function_lookup : simpl never.
Arguments Compile.exact_lookup : simpl never.
Arguments Compile.overloads : simpl never.
Arguments Compile.assoc : simpl never.
Arguments enc_operators : simpl never.
Arguments enc_functions : simpl never.
Arguments ast_cls : simpl never.
(* the class records in a form [cbn] leaves alone: tag and field list are opaque to it *)
Definition cls_tag : list Z := zs OVERLOAD.
Definition cls_fields (isop : bool) (name : string) (i : nat) (o : Compile.overload) : list pv :=
  [PTuple [PStr "__intypes__"; PList (map PStr (Compile.ov_ins o))]; PTuple [PStr "$index"; PInt (Z.of_nat i)];
   PTuple [PStr "$out"; PStr (Compile.ov_out o)]; PTuple [PStr "$op"; PBool isop]; PTuple [PStr "$name"; PStr name]].
Notation CLS isop name i o := (PTuple [PV (VStr cls_tag); PList (cls_fields isop name i o)]).
Lemma enc_class_CLS isop name i o : enc_class isop name i o = CLS isop name i o.
Proof. reflexivity. Qed.
Lemma as_class_CLS isop name i o : as_class (CLS isop name i o) = Some (isop, name, i).
Proof. apply as_class_class. Qed.
Lemma cls_intypes isop name i o :
  assoc (PStr "__intypes__") (cls_fields isop name i o) = Some (PList (map PStr (Compile.ov_ins o))).
Proof. reflexivity. Qed.
Arguments cls_tag : simpl never.
Arguments cls_fields : simpl never.
Arguments as_class : simpl never.
Arguments class_overload : simpl never.
Arguments apply_class : simpl never.
Arguments fold_of : simpl never.
Arguments func_node : simpl never.
Arguments node_pure : simpl never.

(* what [cbn] leaves of as_nref (nref i) / as_foldval (foldval i) *)
Lemma nat_guard {A} i (f : nat -> A) :
  (if 0 <=? Z.of_nat i then Some (f (Z.to_nat (Z.of_nat i))) else None) = Some (f i).
Proof. destruct (Z.leb_spec 0 (Z.of_nat i)); [now rewrite Nat2Z.id|lia]. Qed.
Lemma nat_guard' i : (if 0 <=? Z.of_nat i then Some (Z.to_nat (Z.of_nat i)) else None) = Some i.
Proof. apply (nat_guard i (fun x => x)). Qed.
Ltac norm := cbn; repeat (rewrite nat_guard'; cbn).

Section Tie.
Variable call_ref : nat -> list pv -> pv.
Variable tbl : nat -> Compile.cnode.
Variable kids : nat -> list nat.
Variable mro : string -> list string.
Variable msg : string -> list pv -> pv.
Variable updatable : pv -> bool.
Variable upd : pv -> pv -> pv -> pv -> pv.
Variable mk : Compile.cnode -> nat.
Notation prim := (prim_exprs tbl kids mro msg updatable upd mk).
Notation eval := (PyMini.eval call_ref prim).
Notation exec := (PyMini.exec call_ref prim).
Notation exec_block := (PyMini.exec_block call_ref prim).

Lemma xb_cons s c t :
  exec_block s (c :: t) = bind (exec s c) (fun o => match o with Next s1 => exec_block s1 t | Ret _ _ => Ok o end).
Proof. reflexivity. Qed.

(* one statement at a time: the rest of the block stays hidden behind TL while the statement is evaluated *)
Ltac step :=
  try match goal with TL := _ |- _ => idtac end;
  repeat match goal with ETL : ?TL = _ :> list stmt |- _ => subst TL end;
  lazymatch goal with
  | |- context [PyMini.exec_block _ _ ?ss ?ll] =>
      lazymatch ll with
      | cons ?cc ?tt =>
          let TL := fresh "TL" in let ETL := fresh "ETL" in
          remember tt as TL eqn:ETL; rewrite (xb_cons ss cc TL); cbn
      end
  end.

Lemma exec_block_if_last c A B s s1 cv t :
  eval s c = Ok (s1, cv) -> pv_truthy cv = Ok t ->
  exec_block s [SIf c A B] = if t then exec_block s1 A else exec_block s1 B.
Proof.
  intros H Ht. rewrite xb_cons, (exec_if call_ref prim c A B s s1 cv t H Ht).
  destruct t; [destruct (exec_block s1 A) as [[?|? ?]| |]|destruct (exec_block s1 B) as [[?|? ?]| |]]; reflexivity.
Qed.

Lemma exec_block_if c A B tl s s1 cv t :
  eval s c = Ok (s1, cv) -> pv_truthy cv = Ok t ->
  exec_block s (SIf c A B :: tl) =
  bind (if t then exec_block s1 A else exec_block s1 B)
       (fun o => match o with Next s2 => exec_block s2 tl | Ret _ _ => Ok o end).
Proof. intros H Ht. now rewrite xb_cons, (exec_if call_ref prim c A B s s1 cv t H Ht). Qed.

(* an `if` whose condition evaluates (by [tac]) to the boolean [b] without changing the state *)
Ltac step_if b tac :=
  repeat match goal with ETL : ?TL = _ :> list stmt |- _ => subst TL end;
  lazymatch goal with
  | |- context [PyMini.exec_block _ _ ?ss (cons (SIf ?c ?A ?B) ?tt)] =>
      let Ec := fresh "Ec" in
      assert (Ec : eval ss c = Ok (ss, PBool b)) by tac;
      lazymatch tt with
      | nil => rewrite (exec_block_if_last c A B ss ss (PBool b) b Ec eq_refl)
      | _ => let TL := fresh "TL" in let ETL := fresh "ETL" in
             remember tt as TL eqn:ETL;
             rewrite (exec_block_if c A B TL ss ss (PBool b) b Ec eq_refl)
      end; clear Ec; cbv iota
  end.

Lemma update_same x v e : lookup x e = Some v -> update x v e = e.
Proof.
  induction e as [|[y u] t IH]; cbn; [discriminate|].
  destruct (String.eqb x y) eqn:E; [intros H; injection H as ->; apply String.eqb_eq in E; now subst|].
  intros H. now rewrite IH.
Qed.

(* `if target is int: target = Decimal` - the promotion of an int-typed operand's type (Compile.cast_target) *)
Definition promote_stmt : stmt :=
  SIf (XPrim "is:int" [XName "target"]) [SAssign (TName "target") (XPrim "type:Decimal" [])] [].

Lemma promote_step s tl t :
  lookup "target" (locals s) = Some (PStr t) ->
  exec_block s (promote_stmt :: tl) = exec_block (write s (TName "target") (PStr (Compile.cast_target t))) tl.
Proof.
  intros H. unfold promote_stmt, Compile.cast_target.
  assert (Ec : eval s (XPrim "is:int" [XName "target"]) = Ok (s, PBool (t =? "int")%string)).
  { cbn [PyMini.eval read bind]. rewrite H. cbn. now rewrite zeqb_int. }
  rewrite (exec_block_if _ _ _ tl s s _ _ Ec eq_refl).
  destruct (t =? "int")%string.
  - cbn. reflexivity.
  - cbn [PyMini.exec_block bind]. unfold write. rewrite (update_same _ _ _ H). now destruct s.
Qed.

(* what the code reads of nodes and classes *)
Lemma apply_op name i o (args : list nat) :
  nth_error (Compile.overloads R.operators name) i = Some o ->
  apply_class tbl mk (CLS true name i o) (map nref args) =
  Ok (nref (mk (Compile.NOp name i (map tbl args) (Compile.ov_out o)))).
Proof.
  intros Hn. unfold apply_class. rewrite as_class_CLS. unfold class_overload. rewrite Hn. now rewrite as_nrefs_map.
Qed.

Lemma apply_fn name i o c (args : list nat) :
  nth_error (Compile.overloads R.functions name) i = Some o ->
  apply_class tbl mk (CLS false name i o) [c; PList (map nref args)] =
  Ok (nref (mk (func_node name i o (map tbl args)))).
Proof.
  intros Hn. unfold apply_class. rewrite as_class_CLS. unfold class_overload. rewrite Hn. now rewrite as_nrefs_map.
Qed.

Lemma update_twice x v w e : update x w (update x v e) = update x w e.
Proof.
  induction e as [|[y u] t IH]; cbn; [now rewrite String.eqb_refl|].
  destruct (String.eqb x y) eqn:E; cbn; rewrite E; [reflexivity|now rewrite IH].
Qed.

Lemma write_twice s x v w : write (write s (TName x) v) (TName x) w = write s (TName x) w.
Proof. unfold write. cbn [locals fields]. now rewrite update_twice. Qed.

(* the loop over the candidate classes of an operator: `for v in <classes>: if v.__intypes__ == intypes: B` finds the
   first class whose declared input types match EXACTLY (Compile.find_ov: no walk up the bases) and runs B on it *)
Definition cand_body (v : string) (B : list stmt) : list stmt :=
  [SIf (XPrim "sig_eq" [XAttr (XName v) "__intypes__"; XName "intypes"]) B []].

Definition last_class (s : st) (v name : string) (k : nat) (ovs : list Compile.overload) : st :=
  match rev ovs with [] => s | o :: _ => write s (TName v) (CLS true name (k + length ovs - 1) o) end.

Lemma cand_cond v name i o sg s :
  lookup "intypes" (locals s) = Some (PList (map PStr sg)) -> String.eqb "intypes" v = false ->
  eval (write s (TName v) (CLS true name i o)) (XPrim "sig_eq" [XAttr (XName v) "__intypes__"; XName "intypes"]) =
  Ok (write s (TName v) (CLS true name i o), PBool (Compile.sig_match (Compile.ov_ins o) sg)).
Proof.
  intros Hi Hv. cbn [PyMini.eval read write locals fields bind]. rewrite lookup_update_eq. cbn [bind].
  cbn. rewrite cls_intypes. cbn [bind locals]. rewrite lookup_update_neq by exact Hv. rewrite Hi. cbn.
  rewrite !as_strs_map. reflexivity.
Qed.

Lemma cand_loop (v : string) (B : list stmt) name sg : forall ovs k s,
  lookup "intypes" (locals s) = Some (PList (map PStr sg)) -> String.eqb "intypes" v = false ->
  for_loop call_ref prim (cand_body v B) v s (enc_classes true name k ovs) =
  match Compile.find_ov k ovs sg with
  | Some (i, o) =>
      bind (exec_block (write s (TName v) (CLS true name i o)) B)
           (fun out => match out with
                       | Next s1 => for_loop call_ref prim (cand_body v B) v s1
                                      (enc_classes true name (S i) (skipn (S (i - k)) ovs))
                       | Ret _ _ => Ok out
                       end)
  | None => Ok (Next (last_class s v name k ovs))
  end.
Proof.
  induction ovs as [|o t IH]; intros k s Hi Hv; [reflexivity|].
  cbn [enc_classes Compile.find_ov PyMiniLemmas.for_loop]. rewrite enc_class_CLS.
  unfold cand_body at 1. rewrite xb_cons.
  rewrite (exec_if call_ref prim _ _ _ _ _ _ _ (cand_cond v name k o sg s Hi Hv) eq_refl). cbn [truthy].
  destruct (Compile.sig_match (Compile.ov_ins o) sg).
  - rewrite Nat.sub_diag. cbn [skipn].
    destruct (exec_block (write s (TName v) (CLS true name k o)) B) as [[s1|s1 w]| |]; cbn [bind]; reflexivity.
  - cbn [PyMini.exec_block bind]. fold (cand_body v B).
    rewrite IH; [|cbn [write locals]; rewrite lookup_update_neq by exact Hv; exact Hi|exact Hv].
    destruct (Compile.find_ov (S k) t sg) as [[i p]|] eqn:E.
    + rewrite write_twice. apply find_ov_nth in E as (Hk & _ & _).
      replace (i - k)%nat with (S (i - S k)) by lia. reflexivity.
    + unfold last_class. cbn [rev length].
      destruct (rev t) as [|q r] eqn:Er; cbn [app].
      * assert (t = []) by (destruct t as [|y t']; [reflexivity|]; cbn in Er; destruct (rev t'); discriminate).
        subst t. cbn [length]. replace (k + 1 - 1)%nat with k by lia. reflexivity.
      * rewrite write_twice. replace (k + S (length t) - 1)%nat with (S k + length t - 1)%nat by lia. reflexivity.
Qed.

(* ---------------------------------------------------------------- the receiver *)
Variable kC : nat.
Variable ctx : pv.
Variable rest : env.
Definition flds (t : pv) : env := ("table", t) :: ("_compile", PRef kC) :: ("context", ctx) :: rest.

Definition finish (r : res outcome) : res (env * pv) :=
  bind r (fun o => match o with Next s => Ok (fields s, PNone) | Ret s v => Ok (fields s, v) end).

Variable tyname : string -> string.
Hypothesis Hname : forall t, call_ref kN [PStr t] = PStr (tyname t).

(* ---------------------------------------------------------------- Compiler._unaryop *)
Definition UNARY (op : string) (x : pv) : pv := record (zs (ast_cls op)) [("operand", x)].

Theorem unaryop_src : forall (t0 t1 x : pv) (op : string) (r : Compile.result nat cerr),
  call_ref kC [t0; x] = enc_res (fun a => PTuple [t1; nref a]) r ->
  (forall a, call_ref kFL [enc_operators; PStr (ast_cls op); PList [nref a]] =
             enc_cfound true op (Compile.function_lookup R.operators op [Compile.dtype (tbl a)])) ->
  (forall a i o, r = Compile.Ok a -> Compile.function_lookup R.operators op [Compile.dtype (tbl a)] = Some (i, o) ->
                 tbl (mk (Compile.NOp op i [tbl a] (Compile.ov_out o))) = Compile.NOp op i [tbl a] (Compile.ov_out o)) ->
  call_method call_ref prim compile_unaryop (flds t0) [UNARY op x] =
  match r with
  | Compile.Err e => Exc (CompErr e)
  | Compile.Ok a => match Compile.build_unary op (tbl a) with
                    | Compile.Ok n => Ok (flds t1, nref (mk n))
                    | Compile.Err e => Exc (CompErr e)
                    end
  end.
Proof.
  intros t0 t1 x op r Hc Hfl Hheap.
  unfold call_method, compile_unaryop. cbn [f_params f_body bind_params bind f_gen].
  step. rewrite Hc. destruct r as [a|e]; cbn [enc_res]; [|reflexivity]. cbn.
  step. change (call_ref 0%nat) with (call_ref kFL). rewrite Hfl. unfold Compile.build_unary.
  pose proof (Hheap a) as Hh.
  destruct (Compile.function_lookup R.operators op [Compile.dtype (tbl a)]) as [[i o]|] eqn:El; cbn [enc_cfound];
    rewrite ?enc_class_CLS.
  - specialize (Hh i o eq_refl eq_refl). apply function_lookup_nth in El.
    cbn. step. step.
    rewrite (apply_op op i o [a] El : apply_class tbl mk (CLS true op i o) [nref a] = _). cbn.
    step. norm. rewrite Hh, unzs_zs.
    destruct (Compile.is_const (tbl a)); cbn; [reflexivity|].
    step. reflexivity.
  - cbn. step. norm. change 1%nat with kN. rewrite Hname. cbn. reflexivity.
Qed.

(* ---------------------------------------------------------------- Compiler._between *)
Ltac step_for H :=
  repeat match goal with ETL : ?TL = _ :> list stmt |- _ => subst TL end;
  lazymatch goal with
  | |- context [PyMini.exec_block _ _ ?ss (cons ?cc ?tt)] =>
      let TL := fresh "TL" in let ETL := fresh "ETL" in
      remember tt as TL eqn:ETL; rewrite (xb_cons ss cc TL);
      rewrite (exec_for call_ref prim _ _ _ _ _ _ H)
  end.

Definition BETWEEN (x lo hi : pv) : pv :=
  record (zs (ast_cls "Between")) [("operand", x); ("lower", lo); ("upper", hi)].

Definition res3 (ra rl rh : Compile.result nat cerr) : Compile.result (nat * nat * nat) cerr :=
  Compile.bind ra (fun a => Compile.bind rl (fun l => Compile.bind rh (fun h => Compile.Ok (a, l, h)))).

Theorem between_src : forall (t0 t1 t2 t3 x lo hi : pv) (ra rl rh : Compile.result nat cerr),
  call_ref kC [t0; x] = enc_res (fun a => PTuple [t1; nref a]) ra ->
  call_ref kC [t1; lo] = enc_res (fun a => PTuple [t2; nref a]) rl ->
  call_ref kC [t2; hi] = enc_res (fun a => PTuple [t3; nref a]) rh ->
  call_method call_ref prim compile_between (flds t0) [BETWEEN x lo hi] =
  match res3 ra rl rh with
  | Compile.Err e => Exc (CompErr e)
  | Compile.Ok (a, l, h) =>
      match Compile.build_between (tbl a) (tbl l) (tbl h) with
      | Compile.Ok n => Ok (flds t3, nref (mk n))
      | Compile.Err e => Exc (CompErr e)
      end
  end.
Proof.
  intros t0 t1 t2 t3 x lo hi ra rl rh H1 H2 H3.
  unfold call_method, compile_between, res3. cbn [f_params f_body bind_params bind f_gen].
  step. rewrite H1. destruct ra as [a|e]; cbn [enc_res Compile.bind]; [|reflexivity]. cbn.
  step. rewrite H2. destruct rl as [l|e]; cbn [enc_res Compile.bind]; [|reflexivity]. cbn.
  step. rewrite H3. destruct rh as [h|e]; cbn [enc_res Compile.bind]; [|reflexivity]. cbn.
  step. norm.
  destruct between_registered as (ovs & Ea & Hout & Hne).
  unfold Compile.build_between, Compile.exact_lookup, Compile.overloads. rewrite Ea.
  set (sg := [Compile.dtype (tbl a); Compile.dtype (tbl l); Compile.dtype (tbl h)]).
  subst TL.
  match goal with |- context [PyMini.exec_block _ _ ?ss (SFor _ ?it _ :: _)] =>
    assert (Eit : eval ss it = Ok (ss, PList (enc_classes true "Between" 0 ovs))) end.
  { cbn. rewrite operators_get, Ea. reflexivity. }
  step_for Eit. fold (cand_body "candidate"
    [SAssign (TName "func") (XPrim "apply" [XName "candidate"; XName "operand"; XName "lower"; XName "upper"]);
     SReturn (Some (XName "func"))]).
  rewrite (cand_loop _ _ "Between" sg) by reflexivity.
  destruct (Compile.find_ov 0 ovs sg) as [[i o]|] eqn:Ef.
  - apply find_ov_nth in Ef as (_ & Hn & _). rewrite Nat.sub_0_r in Hn.
    assert (Hn' : nth_error (Compile.overloads R.operators "Between") i = Some o)
      by (unfold Compile.overloads; now rewrite Ea).
    cbn.
    rewrite (apply_op "Between" i o [a; l; h] Hn' : apply_class tbl mk (CLS true "Between" i o) [nref a; nref l; nref h] = _).
    cbn. rewrite (out_is_nth _ _ _ _ Hout Hn). reflexivity.
  - cbn [bind]. unfold last_class. destruct (rev ovs) as [|q r] eqn:Er.
    + exfalso. apply Hne. destruct ovs as [|y t']; [reflexivity|]. cbn in Er. destruct (rev t'); discriminate.
    + subst TL. step. norm. change 1%nat with kN. rewrite Hname. norm. rewrite Hname. norm. rewrite Hname. cbn. reflexivity.
Qed.

(* ---------------------------------------------------------------- Compiler._inop *)
Definition INOP (op : string) (x y : pv) : pv := record (zs (ast_cls op)) [("left", x); ("right", y)].

(* what compiling the right operand may return: a node, a SELECT, a SELECT with PIVOT BY *)
Inductive rval := RVNode (b : nat) | RVQuery (pts : list ptarget) | RVPivot (pts : list ptarget) (p : nat * nat).

Variables qtb qlim qdist : pv.
Variable qcw : option nat.
Variable qgi : option (list nat).
Variable qhi : option nat.
Variable qos : option (list (nat * bool)).

Definition enc_rval (v : rval) : pv :=
  match v with
  | RVNode b => nref b
  | RVQuery pts => enc_query qtb pts qcw qgi qhi qos qlim qdist
  | RVPivot pts p => enc_pivot (enc_query qtb pts qcw qgi qhi qos qlim qdist) (fst p) (snd p)
  end.

Definition T (t : ptarget) : Compile.ctarget := match t with (i, n, a) => Compile.mk_target (tbl i) n a end.
Definition qdummy (pts : list ptarget) (piv : option (nat * nat)) : Compile.cquery :=
  Compile.mk_query Compile.empty_table (map T pts) None None None None None false piv.
Definition cres_of (v : rval) : Compile.cres :=
  match v with
  | RVNode b => Compile.RNode (tbl b)
  | RVQuery pts => Compile.RQuery (qdummy pts None)
  | RVPivot pts p => Compile.RQuery (qdummy pts (Some p))
  end.

Lemma visible_count pts :
  length (filter has_name (map enc_target pts)) = length (Compile.visible (map T pts)).
Proof.
  induction pts as [|[[i n] a] r IH]; [reflexivity|]. cbn [map filter Compile.visible T Compile.ct_name].
  destruct n as [n|]; cbn; now rewrite IH.
Qed.

Theorem inop_src : forall (t0 t1 t2 x y : pv) (op : string) (ra : Compile.result nat cerr)
                          (rr : Compile.result rval cerr) (s1d : nat),
  Compile.is_in_op op = true ->
  call_ref kC [t0; x] = enc_res (fun a => PTuple [t1; nref a]) ra ->
  call_ref kC [t1; y] = enc_res (fun v => PTuple [t2; enc_rval v]) rr ->
  (forall q, call_ref k1D [q] = nref s1d) -> tbl s1d = Compile.NSub1D ->
  call_method call_ref prim compile_inop (flds t0) [INOP op x y] =
  match ra with
  | Compile.Err e => Exc (CompErr e)
  | Compile.Ok a =>
      match rr with
      | Compile.Err e => Exc (CompErr e)
      | Compile.Ok v => match Compile.build_in_any op (tbl a) (cres_of v) with
                        | Compile.Ok n => Ok (flds t2, nref (mk n))
                        | Compile.Err e => Exc (CompErr e)
                        end
      end
  end.
Proof.
  intros t0 t1 t2 x y op ra rr s1d Hop H1 H2 H1d Hs.
  destruct (in_registered op Hop) as (o & orest & Ea & Hout).
  assert (Hn : nth_error (Compile.overloads R.operators op) 0 = Some o)
    by (unfold Compile.overloads; rewrite Ea; reflexivity).
  unfold call_method, compile_inop. cbn [f_params f_body bind_params bind f_gen].
  step. rewrite H1. destruct ra as [a|e]; cbn [enc_res]; [|reflexivity]. cbn.
  step. rewrite H2. destruct rr as [v|e]; cbn [enc_res]; [|reflexivity]. cbn.
  unfold Compile.build_in_any, Compile.build_in.
  destruct v as [b|pts|pts p]; cbn [enc_rval cres_of qdummy Compile.cq_pivots Compile.cq_targets].
  - step. norm. step. norm. step. rewrite operators_get, Ea. cbn. rewrite enc_class_CLS.
    step. norm.
    rewrite (apply_op op 0 o [a; b] Hn : apply_class tbl mk (CLS true op 0 o) [nref a; nref b] = _).
    cbn. rewrite Hout. reflexivity.
  - step. step. rewrite visible_count.
    destruct (Nat.eqb_spec (length (Compile.visible (map T pts))) 1) as [E|N].
    + rewrite E. cbn. change 2%nat with k1D. rewrite H1d. cbn.
      step. rewrite operators_get, Ea. cbn. rewrite enc_class_CLS.
      step. norm. change (PTuple [PStr node_tag; PInt (Z.of_nat s1d)]) with (nref s1d).
      rewrite (apply_op op 0 o [a; s1d] Hn : apply_class tbl mk (CLS true op 0 o) [nref a; nref s1d] = _).
      cbn. rewrite Hout, Hs. reflexivity.
    + rewrite val_eq_int.
      destruct (Z.eqb_spec (Z.of_nat (length (Compile.visible (map T pts)))) 1) as [E|_]; [exfalso; apply N; lia|].
      cbn. reflexivity.
  - step. reflexivity.
Qed.

(* ---------------------------------------------------------------- Compiler._binaryop *)
(* the nodes the method may construct: the operator node over the operands as they are or with one of them cast, and
   the cast node *)
Definition op_nodes (op : string) (x y : Compile.cnode) : list Compile.cnode :=
  match Compile.exact_lookup op [Compile.dtype x; Compile.dtype y] with
  | Some (i, o) => [Compile.NOp op i [x; y] (Compile.ov_out o)]
  | None => []
  end.
Definition cast_nodes (t : string) (x : Compile.cnode) : list Compile.cnode :=
  match Compile.assoc t R.cast_names with
  | Some name => match Compile.function_lookup R.functions name [Compile.dtype x] with
                 | Some (i, o) => [Compile.NFunc name i [x] (Compile.ov_out o) (Compile.ov_agg o)]
                 | None => []
                 end
  | None => []
  end.
Definition binary_allocs (op : string) (l r : Compile.cnode) : list Compile.cnode :=
  let cl := cast_nodes (Compile.cast_target (Compile.dtype r)) l in
  let cr := cast_nodes (Compile.cast_target (Compile.dtype l)) r in
  op_nodes op l r ++ cl ++ cr ++ flat_map (fun l' => op_nodes op l' r) cl ++ flat_map (fun r' => op_nodes op l r') cr.

(* conditions on datatypes: `t is object`, `t is int` are string comparisons with facts in the context *)
Ltac conds :=
  norm;
  repeat (first [rewrite zeqb_object | rewrite zeqb_int
                | match goal with H : String.eqb _ _ = _ |- _ => rewrite H end]; norm);
  reflexivity.

Ltac raise_tac := norm; change (call_ref 1%nat) with (call_ref kN); repeat (rewrite Hname; norm); reflexivity.

Definition bin_match : list stmt :=
  [SAssign (TName "function") (XPrim "apply" [XName "op"; XName "left"; XName "right"]);
   SIf (XBoolOp true [XPrim "isinstance:beanquery.query_compile.EvalConstant" [XName "left"];
                      XPrim "isinstance:beanquery.query_compile.EvalConstant" [XName "right"]])
     [SReturn (Some (XPrim "beanquery.query_compile.EvalConstant"
                       [XPrim "apply" [XName "function"; XConst PNone]; XAttr (XName "function") "dtype"]))] [];
   SReturn (Some (XName "function"))].

Theorem binaryop_src : forall (t0 t1 t2 x y : pv) (op : string) (ra rb : Compile.result nat cerr)
                              (ovs : list Compile.overload),
  @Compile.assoc (list Compile.overload) op R.operators = Some ovs ->
  call_ref kC [t0; x] = enc_res (fun a => PTuple [t1; nref a]) ra ->
  call_ref kC [t1; y] = enc_res (fun a => PTuple [t2; nref a]) rb ->
  (forall name a, call_ref kFL [enc_functions; PStr name; PList [nref a]] =
                  enc_cfound false name (Compile.function_lookup R.functions name [Compile.dtype (tbl a)])) ->
  (forall a b n, ra = Compile.Ok a -> rb = Compile.Ok b -> In n (binary_allocs op (tbl a) (tbl b)) -> tbl (mk n) = n) ->
  call_method call_ref prim compile_binaryop (flds t0) [INOP op x y] =
  match ra with
  | Compile.Err e => Exc (CompErr e)
  | Compile.Ok a =>
      match rb with
      | Compile.Err e => Exc (CompErr e)
      | Compile.Ok b => match Compile.build_binary op (tbl a) (tbl b) with
                        | Compile.Ok n => Ok (flds t2, nref (mk n))
                        | Compile.Err e => Exc (CompErr e)
                        end
      end
  end.
Proof.
  intros t0 t1 t2 x y op ra rb ovs Ea H1 H2 Hfl Hheap.
  pose proof (registered_nonempty op ovs Ea) as Hne.
  unfold call_method, compile_binaryop. cbn [f_params f_body bind_params bind f_gen].
  step. rewrite H1. destruct ra as [a|e]; cbn [enc_res]; [|reflexivity]. cbn.
  step. rewrite H2. destruct rb as [b|e]; cbn [enc_res]; [|reflexivity]. cbn.
  specialize (Hheap a b). 
  step. rewrite operators_get, Ea. cbn.
  (* pass 1 *)
  step. norm.
  set (sg := [Compile.dtype (tbl a); Compile.dtype (tbl b)]).
  subst TL.
  match goal with |- context [PyMini.exec_block _ _ ?ss (SFor _ ?it _ :: _)] =>
    assert (Eit : eval ss it = Ok (ss, PList (enc_classes true op 0 ovs))) by reflexivity end.
  step_for Eit. fold bin_match. fold (cand_body "op" bin_match).
  rewrite (cand_loop _ _ op sg) by reflexivity.
  unfold Compile.build_binary. unfold Compile.exact_lookup at 1. unfold Compile.overloads at 1. rewrite Ea. fold sg.
  destruct (Compile.find_ov 0 ovs sg) as [[i o]|] eqn:Ef.
  - pose proof Ef as Ef'. apply find_ov_nth in Ef as (_ & Hn & _). rewrite Nat.sub_0_r in Hn.
    assert (Hn' : nth_error (Compile.overloads R.operators op) i = Some o)
      by (unfold Compile.overloads; now rewrite Ea).
    cbn.
    rewrite (apply_op op i o [a; b] Hn' : apply_class tbl mk (CLS true op i o) [nref a; nref b] = _).
    norm.
    assert (Hh : tbl (mk (Compile.NOp op i [tbl a; tbl b] (Compile.ov_out o))) =
                 Compile.NOp op i [tbl a; tbl b] (Compile.ov_out o)).
    { apply Hheap; try reflexivity. unfold binary_allocs, op_nodes. fold sg.
      unfold Compile.exact_lookup, Compile.overloads. rewrite Ea, Ef'. now left. }
    destruct (Compile.is_const (tbl a)); [destruct (Compile.is_const (tbl b))|]; norm;
      rewrite ?Hh, ?unzs_zs; reflexivity.
  - cbn [bind]. unfold last_class. destruct (rev ovs) as [|q rv] eqn:Er.
    { exfalso. apply Hne. destruct ovs as [|y0 t0']; [reflexivity|]. cbn in Er. destruct (rev t0'); discriminate. }
    subst TL. cbn [bind write locals fields update String.eqb Ascii.eqb Bool.eqb].
    set (qi := (0 + length ovs - 1)%nat). clearbody qi.
    destruct (Compile.dtype (tbl a) =? "object")%string eqn:Eao;
      destruct (Compile.dtype (tbl b) =? "object")%string eqn:Ebo; cbn [andb negb].
    + (* both untyped *)
      step_if false conds. step_if false conds. raise_tac.
    + (* the LEFT operand is untyped: cast it to the type of the right one *)
      step_if true conds.
      step. norm. subst TL. fold promote_stmt.
      rewrite (promote_step _ _ (Compile.dtype (tbl b))) by reflexivity.
      cbn [write locals fields update String.eqb Ascii.eqb Bool.eqb].
      set (T := Compile.cast_target (Compile.dtype (tbl b))).
      step. rewrite unzs_zs.
      destruct (Compile.assoc T R.cast_names) as [name|] eqn:Ecast.
      2:{ step_if true ltac:(reflexivity). raise_tac. }
      destruct (cast_found T name Ecast) as (ci & co & Elook & Hno & Hagg).
      apply String.eqb_eq in Eao. rewrite Eao in *. rewrite Elook.
      step_if false ltac:(reflexivity).
      step. change (call_ref 0%nat) with (call_ref kFL). rewrite Hfl. rewrite Eao, Elook. cbn [enc_cfound]. rewrite enc_class_CLS. norm.
      assert (Hnf : nth_error (Compile.overloads R.functions name) ci = Some co) by (apply function_lookup_nth in Elook; exact Elook).
      rewrite (apply_fn name ci co ctx [a] Hnf : apply_class tbl mk (CLS false name ci co) [ctx; PList [nref a]] = _).
      unfold func_node. rewrite Hagg. cbn [map].
      set (CN := Compile.NFunc name ci [tbl a] (Compile.ov_out co) (Compile.ov_agg co)).
      assert (Hcn : In CN (cast_nodes T (tbl a))).
      { unfold cast_nodes. rewrite Ecast, Eao, Elook. now left. }
      assert (Ha' : tbl (mk CN) = CN).
      { apply Hheap; try reflexivity. unfold binary_allocs. fold T. rewrite !in_app_iff. right. left. exact Hcn. }
      set (a' := mk CN) in *.
      cbn.
      (* pass 2 *)
      step. norm. rewrite Ha'. cbn [Compile.dtype CN].
      set (sg2 := [Compile.ov_out co; Compile.dtype (tbl b)]).
      subst TL.
      match goal with |- context [PyMini.exec_block _ _ ?ss (SFor _ ?it _ :: _)] =>
        assert (Eit2 : eval ss it = Ok (ss, PList (enc_classes true op 0 ovs))) by reflexivity end.
      step_for Eit2. fold bin_match. fold (cand_body "op" bin_match).
      rewrite (cand_loop _ _ op sg2) by reflexivity.
      unfold Compile.exact_lookup, Compile.overloads. rewrite Ea. fold sg2.
      destruct (Compile.find_ov 0 ovs sg2) as [[i2 o2]|] eqn:Ef2.
      * pose proof Ef2 as Ef2'. apply find_ov_nth in Ef2 as (_ & Hn2 & _). rewrite Nat.sub_0_r in Hn2.
        assert (Hn2' : nth_error (Compile.overloads R.operators op) i2 = Some o2)
          by (unfold Compile.overloads; now rewrite Ea).
        cbn.
        rewrite (apply_op op i2 o2 [a'; b] Hn2' : apply_class tbl mk (CLS true op i2 o2) [nref a'; nref b] = _).
        norm. rewrite Ha'. cbn [Compile.is_const CN eqb]. norm. reflexivity.
      * cbn [bind]. unfold last_class. rewrite Er.
        cbn [bind write locals fields update String.eqb Ascii.eqb Bool.eqb].
        apply String.eqb_neq in Hno.
        step_if false ltac:(norm; rewrite ?Ha'; cbn [Compile.dtype CN]; conds).
        step_if false ltac:(norm; rewrite ?Ha'; cbn [Compile.dtype CN]; conds).
        norm. rewrite Ha'. cbn [Compile.dtype CN]. raise_tac.
    + (* the RIGHT operand is untyped: cast it to the type of the left one *)
      step_if false conds. step_if true conds.
      step. norm. subst TL. fold promote_stmt.
      rewrite (promote_step _ _ (Compile.dtype (tbl a))) by reflexivity.
      cbn [write locals fields update String.eqb Ascii.eqb Bool.eqb].
      set (T := Compile.cast_target (Compile.dtype (tbl a))).
      step. rewrite unzs_zs.
      destruct (Compile.assoc T R.cast_names) as [name|] eqn:Ecast.
      2:{ step_if true ltac:(reflexivity). raise_tac. }
      destruct (cast_found T name Ecast) as (ci & co & Elook & Hno & Hagg).
      apply String.eqb_eq in Ebo. rewrite Ebo in *. rewrite Elook.
      step_if false ltac:(reflexivity).
      step. change (call_ref 0%nat) with (call_ref kFL). rewrite Hfl. rewrite Ebo, Elook. cbn [enc_cfound]. rewrite enc_class_CLS. norm.
      assert (Hnf : nth_error (Compile.overloads R.functions name) ci = Some co) by (apply function_lookup_nth in Elook; exact Elook).
      rewrite (apply_fn name ci co ctx [b] Hnf : apply_class tbl mk (CLS false name ci co) [ctx; PList [nref b]] = _).
      unfold func_node. rewrite Hagg. cbn [map].
      set (CN := Compile.NFunc name ci [tbl b] (Compile.ov_out co) (Compile.ov_agg co)).
      assert (Hcn : In CN (cast_nodes T (tbl b))).
      { unfold cast_nodes. rewrite Ecast, Ebo, Elook. now left. }
      assert (Hb' : tbl (mk CN) = CN).
      { apply Hheap; try reflexivity. unfold binary_allocs. fold T. rewrite !in_app_iff. right. right. left. exact Hcn. }
      set (b' := mk CN) in *.
      cbn.
      (* pass 2 *)
      step. norm. rewrite Hb'. cbn [Compile.dtype CN].
      set (sg2 := [Compile.dtype (tbl a); Compile.ov_out co]).
      subst TL.
      match goal with |- context [PyMini.exec_block _ _ ?ss (SFor _ ?it _ :: _)] =>
        assert (Eit2 : eval ss it = Ok (ss, PList (enc_classes true op 0 ovs))) by reflexivity end.
      step_for Eit2. fold bin_match. fold (cand_body "op" bin_match).
      rewrite (cand_loop _ _ op sg2) by reflexivity.
      unfold Compile.exact_lookup, Compile.overloads. rewrite Ea. fold sg2.
      destruct (Compile.find_ov 0 ovs sg2) as [[i2 o2]|] eqn:Ef2.
      * pose proof Ef2 as Ef2'. apply find_ov_nth in Ef2 as (_ & Hn2 & _). rewrite Nat.sub_0_r in Hn2.
        assert (Hn2' : nth_error (Compile.overloads R.operators op) i2 = Some o2)
          by (unfold Compile.overloads; now rewrite Ea).
        cbn.
        rewrite (apply_op op i2 o2 [a; b'] Hn2' : apply_class tbl mk (CLS true op i2 o2) [nref a; nref b'] = _).
        norm. rewrite ?Hb'. cbn [Compile.is_const CN eqb]. rewrite andb_false_r.
        destruct (Compile.is_const (tbl a)); norm; rewrite ?Hb'; cbn [Compile.is_const CN]; norm; reflexivity.
      * cbn [bind]. unfold last_class. rewrite Er.
        cbn [bind write locals fields update String.eqb Ascii.eqb Bool.eqb].
        apply String.eqb_neq in Hno.
        step_if false ltac:(norm; rewrite ?Hb'; cbn [Compile.dtype CN]; conds).
        step_if false ltac:(norm; rewrite ?Hb'; cbn [Compile.dtype CN]; conds).
        norm. change (call_ref 1%nat) with (call_ref kN). rewrite Hname. norm. rewrite Hb'. cbn [Compile.dtype CN]. rewrite Hname. norm. reflexivity.
    + (* both typed *)
      step_if false conds. step_if false conds. raise_tac.
Qed.

(* the guard the unrolled `while True` ends in means nothing ... *)
Lemma guard_is_stuck : prim "unroll:exhausted" [] = Stuck.
Proof. reflexivity. Qed.

(* ... and is never reached: three passes suffice (in fact two: a cast operand is no longer untyped, because no cast
   function of the registry announces `object` - casts_checked).  Were the loop to need a fourth pass, the interpretation
   of the unrolled body would be Stuck. *)
Theorem binaryop_terminates : forall (t0 t1 t2 x y : pv) (op : string) (ra rb : Compile.result nat cerr)
                                     (ovs : list Compile.overload),
  @Compile.assoc (list Compile.overload) op R.operators = Some ovs ->
  call_ref kC [t0; x] = enc_res (fun a => PTuple [t1; nref a]) ra ->
  call_ref kC [t1; y] = enc_res (fun a => PTuple [t2; nref a]) rb ->
  (forall name a, call_ref kFL [enc_functions; PStr name; PList [nref a]] =
                  enc_cfound false name (Compile.function_lookup R.functions name [Compile.dtype (tbl a)])) ->
  (forall a b n, ra = Compile.Ok a -> rb = Compile.Ok b -> In n (binary_allocs op (tbl a) (tbl b)) -> tbl (mk n) = n) ->
  call_method call_ref prim compile_binaryop (flds t0) [INOP op x y] <> Stuck.
Proof.
  intros t0 t1 t2 x y op ra rb ovs Ea H1 H2 Hfl Hheap.
  rewrite (binaryop_src t0 t1 t2 x y op ra rb ovs Ea H1 H2 Hfl Hheap).
  destruct ra as [a|e]; [|discriminate]. destruct rb as [b|e]; [|discriminate].
  destruct (Compile.build_binary op (tbl a) (tbl b)); discriminate.
Qed.

End Tie.
