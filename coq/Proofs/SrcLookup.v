(* Tie by translation, C05/C04 (group `lookup`): the PyMini terms generated on every run from the CURRENT source of
   beanquery/types.py - function_lookup and _bases (Gen/SrcLookup.v) - compute what Model/Compile.v says:
   [Compile.function_lookup] (the first overload, in registry order, matching the first signature of the product of
   the operands' bases that has a match) and [Compile.bases_of] (through the method resolution orders of the live
   classes, emitted next to the generated terms).  Primitive semantics: Model/PrimsCompiler.v. *)
From Coq Require Import String Ascii ZArith List Bool Lia.
Import ListNotations.
From Verif Require Import Base.PyValue Model.Eval Model.PyMini Model.PrimsApi Model.PrimsCompiler Proofs.PyMiniLemmas
  Proofs.PyMiniLemmas2 Proofs.SrcApi Proofs.PyValueProofs.
From Verif Require Model.Compile.
From Verif Require Import Gen.SrcLookup.
Open Scope string_scope.
Open Scope list_scope.
Open Scope Z_scope.

(* ---------------------------------------------------------------- strings *)
Lemma ascii_code_eqb a b : (Z.of_N (N_of_ascii a) =? Z.of_N (N_of_ascii b)) = Ascii.eqb a b.
Proof.
  destruct (Ascii.eqb_spec a b) as [->|N]; [apply Z.eqb_refl|].
  apply Z.eqb_neq. intros H. apply N2Z.inj in H. apply N. rewrite <- (ascii_N_embedding a), <- (ascii_N_embedding b).
  now rewrite H.
Qed.

Lemma zeqb_zs a : forall b, zeqb (zs a) (zs b) = String.eqb a b.
Proof.
  induction a as [|c a IH]; intros [|d b]; cbn; try reflexivity.
  rewrite ascii_code_eqb, IH. destruct (Ascii.eqb c d); reflexivity.
Qed.

Lemma unzs_zs s : unzs (zs s) = s.
Proof. induction s as [|c s IH]; cbn; [reflexivity|]. now rewrite N2Z.id, ascii_N_embedding, IH. Qed.

Lemma as_strs_map l : as_strs (map PStr l) = Some l.
Proof. induction l as [|x t IH]; cbn; [reflexivity|]. now rewrite IH, unzs_zs. Qed.

Lemma key_eqb_PStr a b : key_eqb (PStr a) (PStr b) = String.eqb a b.
Proof. apply zeqb_zs. Qed.

Lemma as_nref_nref i : as_nref (nref i) = Some i.
Proof.
  unfold as_nref, nref, PStr, PInt. rewrite zeqb_refl. cbn [andb].
  destruct (Z.leb_spec 0 (Z.of_nat i)); [now rewrite Nat2Z.id|lia].
Qed.

Lemma as_nref_str s : as_nref (PV (VStr s)) = None.
Proof. reflexivity. Qed.

(* ---------------------------------------------------------------- _bases *)
Definition bases_from_mro (t : string) (m : list string) : list string :=
  if String.eqb t "NoneType" then ["object"]
  else if (1 <? Z.of_nat (length m))
          && match nth_error m (length m - 1) with Some x => String.eqb x "object" | None => false end
       then firstn (length m - 1) m else m.

Lemma index_at_last {A} (l : list A) (f : A -> pv) : l <> [] ->
  index_at (map f l) (-1) = match nth_error l (length l - 1) with Some x => Ok (f x) | None => Stuck end.
Proof.
  intros H. unfold index_at. rewrite map_length. cbn [Z.ltb Z.compare].
  assert (L : (0 < length l)%nat) by (destruct l; [congruence|cbn; lia]).
  replace (-1 + Z.of_nat (length l)) with (Z.of_nat (length l - 1)) by lia.
  destruct (Z.ltb_spec (Z.of_nat (length l - 1)) 0); [lia|].
  destruct (Z.leb_spec (Z.of_nat (length l)) (Z.of_nat (length l - 1))); [lia|]. cbn [orb].
  rewrite Nat2Z.id, nth_error_map. destruct (nth_error l (length l - 1)); reflexivity.
Qed.

Lemma slice_drop_last {A} (l : list A) : slice_list l None (Some (-1)) = firstn (length l - 1) l.
Proof.
  unfold slice_list, clipz. cbn [Z.ltb Z.compare]. rewrite Z.sub_0_r. cbn [Z.to_nat skipn].
  f_equal. lia.
Qed.

Section Tie.
Variable call_ref : nat -> list pv -> pv.
Variable tbl : nat -> Compile.cnode.
Variable kids : nat -> list nat.
Variable mro : string -> list string.
Variable msg : string -> list pv -> pv.
Notation prim := (prim_compiler tbl kids mro msg).
Notation eval := (PyMini.eval call_ref prim).
Notation exec_block := (PyMini.exec_block call_ref prim).
Notation for_loop := (for_loop call_ref prim).

Lemma prim_node_dtype i : prim ("attr:" ++ "dtype") [nref i] = Ok (PStr (Compile.dtype (tbl i))).
Proof.
  unfold prim_compiler. change (strip_prefix "attr:" ("attr:" ++ "dtype")) with (Some "dtype").
  cbv iota beta. rewrite as_nref_nref. reflexivity.
Qed.

Theorem bases_src : forall t : string,
  call_function call_ref prim types_bases [PStr t] = Ok (PTuple (map PStr (bases_from_mro t (mro t)))).
Proof.
  intros t. unfold call_function, types_bases, bases_from_mro.
  cbn [f_params f_body f_gen bind_params PyMini.exec_block PyMini.exec PyMini.eval bind read write locals fields lookup
       String.eqb Ascii.eqb Bool.eqb update].
  change (prim "is:NoneType" [PStr t]) with (Ok (A:=pv) (PBool (zeqb (zs t) (zs "NoneType")))).
  rewrite zeqb_zs. cbn [bind pv_truthy PBool truthy].
  destruct (String.eqb t "NoneType") eqn:En.
  { reflexivity. }
  cbn [PyMini.exec_block PyMini.exec PyMini.eval bind read write locals fields lookup String.eqb Ascii.eqb Bool.eqb update].
  change (prim ("attr:" ++ "__mro__") [PStr t]) with (Ok (A:=pv) (PTuple (map PStr (mro (unzs (zs t)))))).
  rewrite unzs_zs. set (m := mro t).
  cbn [PStr bind PyMini.exec_block PyMini.exec PyMini.eval read write locals fields lookup String.eqb Ascii.eqb Bool.eqb update].
  rewrite map_length.
  unfold compare1, PInt. cbn [is_null orb rank Z.eqb negb].
  rewrite val_le_int.
  replace (negb (Z.of_nat (length m) <=? 1)) with (1 <? Z.of_nat (length m))
    by (destruct (Z.ltb_spec 1 (Z.of_nat (length m))), (Z.leb_spec (Z.of_nat (length m)) 1); try reflexivity; lia).
  cbn [bind pv_truthy PBool truthy Bool.eqb Pos.eqb negb].
  destruct (1 <? Z.of_nat (length m)) eqn:E1; cbn [andb bind Bool.eqb pv_truthy PBool truthy PyMini.eval read locals fields lookup
    String.eqb Ascii.eqb Bool.eqb].
  - assert (Hne : m <> []) by (intros ->; cbn in E1; discriminate).
    change (prim "getitem" [PTuple (map PStr m); PV (VInt (-1))]) with (index_at (map PStr m) (-1)).
    rewrite (index_at_last m PStr Hne).
    destruct (nth_error m (length m - 1)) as [x|] eqn:En1.
    + cbn [bind]. change (prim "is:object" [PStr x]) with (Ok (A:=pv) (PBool (zeqb (zs x) (zs "object")))).
      rewrite zeqb_zs. cbn [bind pv_truthy PBool truthy].
      destruct (String.eqb x "object"); cbn [PyMini.exec_block PyMini.exec PyMini.eval bind read write locals fields
        lookup String.eqb Ascii.eqb Bool.eqb update as_bound PNone].
      * rewrite slice_drop_last, map_length, <- firstn_map. reflexivity.
      * reflexivity.
    + exfalso. apply nth_error_None in En1. destruct m; [congruence|cbn in En1; lia].
  - reflexivity.
Qed.

(* ---------------------------------------------------------------- function_lookup *)
Definition enc_found (r : option (nat * Compile.overload)) : pv :=
  match r with Some (i, o) => enc_overload i o | None => PNone end.

Lemma pvproduct_map (ls : list (list string)) :
  pvproduct (map (map PStr) ls) = map (map PStr) (Compile.product ls).
Proof.
  induction ls as [|l rest IH]; [reflexivity|]. cbn [map pvproduct Compile.product]. rewrite IH.
  induction l as [|x t IHl]; [reflexivity|]. cbn [map flat_map]. rewrite map_app, IHl. f_equal.
  rewrite !map_map. reflexivity.
Qed.

Lemma all_items_tuples (ls : list (list string)) :
  all_items (map (fun l => PTuple (map PStr l)) ls) = Some (map (map PStr) ls).
Proof. induction ls as [|l t IH]; cbn; [reflexivity|]. now rewrite IH. Qed.

Lemma registry_get (reg : list (string * list Compile.overload)) name dflt :
  dict_get (enc_registry reg) (PStr name) dflt =
  Ok (match Compile.assoc name reg with Some l => PList (enc_overloads 0 l) | None => dflt end).
Proof.
  unfold dict_get, enc_registry, pdict, PStr at 1. rewrite zeqb_refl. f_equal.
  rewrite <- map_rev, rev_involutive, map_map. cbn [fst snd].
  induction reg as [|[k v] t IH]; [reflexivity|].
  cbn [map assoc fst snd Compile.assoc]. rewrite key_eqb_PStr.
  destruct (String.eqb name k); [reflexivity|exact IH].
Qed.

Definition inner_body : list stmt :=
  [SIf (XPrim "sig_eq" [XAttr (XName "func") "__intypes__"; XPrim "builtins.list" [XName "signature"]])
     [SReturn (Some (XName "func"))] []].

(* the state the loops of function_lookup run in: only `signature` and `func` are written *)
Definition stable (F N : pv) (loc : env) : Prop :=
  lookup "functions" loc = Some F /\ lookup "name" loc = Some N.

Lemma stable_update F N loc x v : stable F N loc -> x = "signature" \/ x = "func" -> stable F N (update x v loc).
Proof.
  intros [H1 H2] [->| ->]; split; rewrite lookup_update_neq by reflexivity; assumption.
Qed.

Lemma inner_loop : forall (ovs : list Compile.overload) (i : nat) (sg : list string) F N loc flds,
  stable F N loc -> lookup "signature" loc = Some (PTuple (map PStr sg)) ->
  match Compile.find_ov i ovs sg with
  | Some (k, o) => exists loc', for_loop inner_body "func" {| locals := loc; fields := flds |} (enc_overloads i ovs) =
                                Ok (Ret {| locals := loc'; fields := flds |} (enc_overload k o))
  | None => exists loc', for_loop inner_body "func" {| locals := loc; fields := flds |} (enc_overloads i ovs) =
                         Ok (Next {| locals := loc'; fields := flds |}) /\ stable F N loc'
  end.
Proof.
  induction ovs as [|o t IH]; intros i sg F N loc flds Hst Hsg.
  - cbn. exists loc. split; [reflexivity|exact Hst].
  - cbn [enc_overloads Compile.find_ov].
    set (loc1 := update "func" (enc_overload i o) loc).
    assert (Hf : lookup "func" loc1 = Some (enc_overload i o)) by apply lookup_update_eq.
    assert (Hs1 : lookup "signature" loc1 = Some (PTuple (map PStr sg)))
      by (unfold loc1; rewrite lookup_update_neq by reflexivity; exact Hsg).
    set (s1 := {| locals := loc1; fields := flds |}).
    assert (Ec : eval s1 (XPrim "sig_eq" [XAttr (XName "func") "__intypes__"; XPrim "builtins.list" [XName "signature"]]) =
                 Ok (s1, PBool (Compile.sig_match (Compile.ov_ins o) sg))).
    { erewrite eval_prim2;
        [|erewrite eval_attr; [|apply eval_name; exact Hf|discriminate];
          change (prim ("attr:" ++ "__intypes__") [enc_overload i o]) with (Ok (A:=pv) (PList (map PStr (Compile.ov_ins o))));
          reflexivity
         |erewrite eval_prim1; [|apply eval_name; exact Hs1];
          change (prim "builtins.list" [PTuple (map PStr sg)]) with (Ok (A:=pv) (PList (map PStr sg))); reflexivity].
      replace (prim "sig_eq" [PList (map PStr (Compile.ov_ins o)); PList (map PStr sg)])
        with (Ok (A:=pv) (PBool (Compile.sig_match (Compile.ov_ins o) sg)))
        by (cbn; now rewrite !as_strs_map).
      reflexivity. }
    assert (Estep : for_loop inner_body "func" {| locals := loc; fields := flds |} (enc_overload i o :: enc_overloads (S i) t) =
                    if Compile.sig_match (Compile.ov_ins o) sg then Ok (Ret s1 (enc_overload i o))
                    else for_loop inner_body "func" s1 (enc_overloads (S i) t)).
    { cbn [PyMiniLemmas.for_loop write locals fields]. fold loc1. fold s1. unfold inner_body at 1.
      rewrite exec_block_cons.
      rewrite (exec_if call_ref prim _ _ _ _ _ _ _ Ec eq_refl). cbn [truthy].
      destruct (Compile.sig_match (Compile.ov_ins o) sg).
      - unfold s1. cbn [PyMini.exec_block PyMini.exec PyMini.eval bind read write locals fields]. rewrite Hf. reflexivity.
      - reflexivity. }
    rewrite Estep.
    destruct (Compile.sig_match (Compile.ov_ins o) sg).
    + exists loc1. reflexivity.
    + apply (IH (S i) sg F N loc1 flds); [apply stable_update; auto|exact Hs1].
Qed.

Definition outer_body : list stmt :=
  [SFor "func" (XCallMethod (XName "functions") "get" [XName "name"; XTuple []]) inner_body].

Lemma outer_loop : forall (sgs : list (list string)) reg name loc flds,
  stable (enc_registry reg) (PStr name) loc ->
  match Compile.first_some (Compile.find_ov 0 (Compile.overloads reg name)) sgs with
  | Some (k, o) => exists loc', for_loop outer_body "signature" {| locals := loc; fields := flds |}
                                  (map (fun sg => PTuple (map PStr sg)) sgs) =
                                Ok (Ret {| locals := loc'; fields := flds |} (enc_overload k o))
  | None => exists loc', for_loop outer_body "signature" {| locals := loc; fields := flds |}
                           (map (fun sg => PTuple (map PStr sg)) sgs) =
                         Ok (Next {| locals := loc'; fields := flds |})
  end.
Proof.
  induction sgs as [|sg t IH]; intros reg name loc flds Hst.
  - cbn. exists loc. reflexivity.
  - cbn [map Compile.first_some].
    set (loc1 := update "signature" (PTuple (map PStr sg)) loc).
    assert (Hst1 : stable (enc_registry reg) (PStr name) loc1) by (apply stable_update; auto).
    assert (Hs1 : lookup "signature" loc1 = Some (PTuple (map PStr sg))) by apply lookup_update_eq.
    set (s1 := {| locals := loc1; fields := flds |}).
    assert (Eit : exists l, (l = PList (enc_overloads 0 (Compile.overloads reg name)) \/
                             (l = PTuple [] /\ Compile.overloads reg name = [])) /\
              eval s1 (XCallMethod (XName "functions") "get" [XName "name"; XTuple []]) = Ok (s1, l)).
    { destruct Hst1 as [H1 H2]. unfold s1. repeat (progress (cbn [PyMini.eval bind read locals fields]; rewrite ?H1, ?H2)).
      change (prim ("call:" ++ "get") [enc_registry reg; PStr name; PTuple []])
        with (dict_get (enc_registry reg) (PStr name) (PTuple [])).
      rewrite registry_get. unfold Compile.overloads.
      destruct (Compile.assoc name reg); eexists; (split; [|reflexivity]); auto. }
    destruct Eit as [l [Hl Eit]].
    assert (Efor : PyMini.exec call_ref prim s1
                     (SFor "func" (XCallMethod (XName "functions") "get" [XName "name"; XTuple []]) inner_body) =
                   for_loop inner_body "func" s1 (enc_overloads 0 (Compile.overloads reg name))).
    { destruct Hl as [->|[-> E0]].
      - apply (exec_for call_ref prim _ _ _ _ _ _ Eit).
      - rewrite E0. apply (exec_for_tuple call_ref prim _ _ _ _ _ _ Eit). }
    assert (Estep : for_loop outer_body "signature" {| locals := loc; fields := flds |}
                      (PTuple (map PStr sg) :: map (fun sg => PTuple (map PStr sg)) t) =
                    bind (for_loop inner_body "func" s1 (enc_overloads 0 (Compile.overloads reg name)))
                      (fun o => match o with
                                | Next s' => for_loop outer_body "signature" s' (map (fun sg => PTuple (map PStr sg)) t)
                                | Ret _ _ => Ok o
                                end)).
    { cbn [PyMiniLemmas.for_loop write locals fields]. fold loc1. fold s1. unfold outer_body at 1.
      rewrite exec_block_cons, Efor.
      destruct (for_loop inner_body "func" s1 (enc_overloads 0 (Compile.overloads reg name))) as [[s'|s' v]| |];
        reflexivity. }
    rewrite Estep.
    pose proof (inner_loop (Compile.overloads reg name) 0 sg _ _ loc1 flds Hst1 Hs1) as HI. fold s1 in HI.
    destruct (Compile.find_ov 0 (Compile.overloads reg name) sg) as [[k o]|].
    + destruct HI as [loc' ->]. cbn [bind]. exists loc'. reflexivity.
    + destruct HI as [loc' [-> Hst']]. cbn [bind].
      apply (IH reg name loc' flds Hst').
Qed.

Theorem function_lookup_src : forall (kb : nat) (reg : list (string * list Compile.overload)) (name : string)
                                     (operands : list nat),
  ref_of refs "beanquery.types._bases" = Some kb ->
  (forall t, call_ref kb [PStr t] = PTuple (map PStr (Compile.bases_of t))) ->
  call_function call_ref prim types_function_lookup [enc_registry reg; PStr name; PList (map nref operands)] =
  Ok (enc_found (Compile.function_lookup reg name (map (fun i => Compile.dtype (tbl i)) operands))).
Proof.
  intros kb reg name operands Hk Hb. cbn in Hk. injection Hk as <-.
  unfold call_function, types_function_lookup. cbn [f_params f_body f_gen bind_params].
  set (loc0 := [("functions", enc_registry reg); ("name", PStr name); ("operands", PList (map nref operands))]).
  rewrite exec_block_cons.
  set (sgs := Compile.product (map Compile.bases_of (map (fun i => Compile.dtype (tbl i)) operands))).
  assert (Eit : eval {| locals := loc0; fields := [] |}
                  (XPrim "itertools.product:*"
                     [XListComp (XCall (XConst (PRef 0)) [XAttr (XName "operand") "dtype"] None) "operand"
                        (XName "operands") None]) =
                Ok ({| locals := loc0; fields := [] |}, PList (map (fun sg => PTuple (map PStr sg)) sgs))).
  { erewrite eval_prim1; [|erewrite eval_listcomp by reflexivity;
                            erewrite (map_res_ok _ (fun v => match as_nref v with
                                                              | Some i => PTuple (map PStr (Compile.bases_of (Compile.dtype (tbl i))))
                                                              | None => PNone end)); [reflexivity|]].
    - cbn [bind]. rewrite map_map.
      replace (map (fun x => match as_nref (nref x) with
                             | Some i => PTuple (map PStr (Compile.bases_of (Compile.dtype (tbl i))))
                             | None => PNone end) operands)
        with (map (fun l => PTuple (map PStr l)) (map Compile.bases_of (map (fun i => Compile.dtype (tbl i)) operands)))
        by (rewrite !map_map; apply map_ext; intros i; now rewrite as_nref_nref).
      change (prim "itertools.product:*" [PList (map (fun l => PTuple (map PStr l))
                (map Compile.bases_of (map (fun i => Compile.dtype (tbl i)) operands)))])
        with (match all_items (map (fun l => PTuple (map PStr l))
                (map Compile.bases_of (map (fun i => Compile.dtype (tbl i)) operands))) with
              | Some lls => Ok (A:=pv) (PList (map PTuple (pvproduct lls))) | None => Stuck end).
      rewrite all_items_tuples, pvproduct_map, map_map. reflexivity.
    - intros a Ha. apply in_map_iff in Ha as (i & <- & _). rewrite as_nref_nref.
      cbn [PyMini.eval bind read write locals fields]. rewrite lookup_update_eq. cbn [bind].
      rewrite prim_node_dtype.
      cbn [nref bind do_call]. rewrite Hb. reflexivity. }
  rewrite (exec_for call_ref prim _ _ _ _ _ _ Eit). fold inner_body. fold outer_body.
  assert (Hst : stable (enc_registry reg) (PStr name) loc0) by (split; reflexivity).
  pose proof (outer_loop sgs reg name loc0 [] Hst) as HO.
  unfold Compile.function_lookup. fold sgs.
  destruct (Compile.first_some (Compile.find_ov 0 (Compile.overloads reg name)) sgs) as [[k o]|].
  - destruct HO as [loc' ->]. reflexivity.
  - destruct HO as [loc' ->]. reflexivity.
Qed.

End Tie.

(* ---------------------------------------------------------------- the live classes: bases computed from the method
   resolution orders emitted next to the generated terms are the snapshot's (kernel-checked on every run) *)
Fixpoint strs_eqb (a b : list string) : bool :=
  match a, b with
  | [], [] => true
  | x :: a', y :: b' => String.eqb x y && strs_eqb a' b'
  | _, _ => false
  end.

Lemma strs_eqb_eq a : forall b, strs_eqb a b = true -> a = b.
Proof.
  induction a as [|x a IH]; intros [|y b]; cbn; try discriminate; [reflexivity|].
  intros H. apply andb_true_iff in H as [H1 H2]. apply String.eqb_eq in H1. apply IH in H2. congruence.
Qed.

Theorem bases_table : forall n m, In (n, m) type_mros -> bases_from_mro n m = Compile.bases_of n.
Proof.
  assert (H : forallb (fun p => strs_eqb (bases_from_mro (fst p) (snd p)) (Compile.bases_of (fst p))) type_mros = true)
    by (vm_compute; reflexivity).
  intros n m Hin. rewrite forallb_forall in H. apply strs_eqb_eq. apply (H (n, m) Hin).
Qed.

(* every datatype of the snapshot's type table has its method resolution order in that table *)
Theorem mro_table_covers_snapshot :
  forallb (fun r => match r with (n, _, _, _, _) => existsb (fun p => String.eqb (fst p) n) type_mros end)
          Model.RegistrySnapshot.types = true.
Proof. vm_compute. reflexivity. Qed.
