(* Tie by translation, group `env` (C18): the PyMini terms generated on every run from the SOURCE of the plain Python
   functions behind the registered BQL scalar functions of beanquery/query_env.py (Gen/SrcEnv.v, harness/vf/src_env.py)
   compute, for ALL argument values of the declared parameter types, exactly what the hand-written models the C18
   theorems are stated over compute (Model/Dates.v, Model/StrFuncs.v; a few corollaries for Eval.apply_func),
   including the NULL and exception outcomes.

   The interpreter runs with [prim_env] (Model/PrimsEnv.v): what int(), Decimal(), str.split, datetime.date(...),
   date.isocalendar(), re.search on a literal pattern, ... do is the already trusted model of the Python library;
   what is verified here is how each beanquery function COMPOSES them: which call, argument order, the +1 / -1 and
   the modulus, which branch for which field name, which exception classes are caught.  [call_ref] is arbitrary: no
   function of this group calls an opaque callable.

   Dates: a theorem that needs the year/month of the date to fit datetime.date's C ints assumes [valid_ord o = true]
   (date.min <= o <= date.max, which every Python date satisfies).  Cast arguments range over StrFuncs.xval (every BQL
   value and the special Decimals), minus exception values (and minus None for str: the NULL-strict wrapper never
   passes None, str(None) is 'None'). *)
From Coq Require Import String ZArith QArith List Bool Lia Sorted.
Import ListNotations.
From Verif Require Import Base.StableSort Base.PyValue Model.Eval Model.PyMini Model.Dates Model.StrFuncs Model.PrimsEnv Gen.SrcEnv
  Proofs.PyMiniLemmas Proofs.PyValueProofs.
Open Scope string_scope.
Open Scope Z_scope.

Local Arguments val_le : simpl never.
Local Arguments val_eq : simpl never.
Local Arguments year_of : simpl never.
Local Arguments month_of : simpl never.
Local Arguments day_of : simpl never.
Local Arguments mk_date : simpl never.
Local Arguments fits_int : simpl never.
Local Arguments add_days : simpl never.
Local Arguments weekday : simpl never.
Local Arguments isoweekday : simpl never.
Local Arguments isocalendar : simpl never.
Local Arguments f_weekday : simpl never.
Local Arguments f_maxwidth : simpl never.
Local Arguments f_root : simpl never.
Local Arguments f_parent : simpl never.
Local Arguments f_leaf : simpl never.
Local Arguments f_subst_lit : simpl never.
Local Arguments find_sub : simpl never.
Local Arguments StrFuncs.dec_div : simpl never.
Local Arguments StrFuncs.dec_neg : simpl never.
Local Arguments StrFuncs.dec_abs : simpl never.
Local Arguments dec_quantize : simpl never.
Local Arguments div_half_even : simpl never.
Local Arguments parse_int : simpl never.
Local Arguments parse_decimal : simpl never.
Local Arguments parse_date : simpl never.
Local Arguments dec_to_int : simpl never.
Local Arguments dec_str : simpl never.
Local Arguments date_str : simpl never.
Local Arguments str_of_int : simpl never.
Local Arguments pad0 : simpl never.
Local Arguments nat_digits : simpl never.
Local Arguments split : simpl never.
Local Arguments join : simpl never.
Local Arguments account_sign : simpl never.
Local Arguments index_of : simpl never.
Local Arguments acc_type : simpl never.
Local Arguments slice_list : simpl never.
Local Arguments lift : simpl never.
Local Arguments date_trunc : simpl never.
Local Arguments date_part : simpl never.
Local Arguments rd_weekday_jump : simpl never.
Local Arguments trunc_u : simpl never.
Local Arguments part_u : simpl never.
Local Arguments f_abs : simpl never.
Local Arguments f_neg : simpl never.
Local Arguments f_round_dec : simpl never.
Local Arguments f_round_int : simpl never.
Local Arguments cast_str : simpl never.
Local Arguments cast_bool : simpl never.
Local Arguments dec_of_int : simpl never.

Lemma parse_date_cases s : (exists o, parse_date s = VDate o) \/ parse_date s = VNull.
Proof.
  unfold parse_date.
  repeat match goal with
         | |- context [match ?x with _ => _ end] => destruct x; eauto
         end.
Qed.


Lemma ord2ymd_bounds o : valid_ord o = true ->
  0 <= year_of o <= 10500 /\ 0 <= month_of o <= 12.
Proof.
  unfold valid_ord, MAXORD. intros H. apply andb_prop in H as [H1 H2]. apply Z.leb_le in H1, H2.
  unfold year_of, month_of, ord2ymd, DI400Y, DI100Y, DI4Y.
  rewrite !Z.shiftr_div_pow2 by lia. change (2 ^ 5) with 32.
  cbv zeta.
  set (n0 := o - 1).
  set (n1 := n0 mod 146097).
  set (n2 := n1 mod 36524).
  set (n3 := n2 mod 1461).
  set (n4 := n3 mod 365).
  assert (0 <= n0 < 3652059) by (unfold n0; lia).
  assert (0 <= n1 < 146097) by (unfold n1; apply Z.mod_pos_bound; lia).
  assert (0 <= n2 < 36524) by (unfold n2; apply Z.mod_pos_bound; lia).
  assert (0 <= n3 < 1461) by (unfold n3; apply Z.mod_pos_bound; lia).
  assert (0 <= n4 < 365) by (unfold n4; apply Z.mod_pos_bound; lia).
  assert (0 <= n0 / 146097 <= 24) by (split; [apply Z.div_pos; lia | apply Z.lt_succ_r, Z.div_lt_upper_bound; lia]).
  assert (0 <= n1 / 36524 <= 4) by (split; [apply Z.div_pos; lia | apply Z.lt_succ_r, Z.div_lt_upper_bound; lia]).
  assert (0 <= n2 / 1461 <= 24) by (split; [apply Z.div_pos; lia | apply Z.lt_succ_r, Z.div_lt_upper_bound; lia]).
  assert (0 <= n3 / 365 <= 4) by (split; [apply Z.div_pos; lia | apply Z.lt_succ_r, Z.div_lt_upper_bound; lia]).
  assert (1 <= (n4 + 50) / 32 <= 12) by (split; [apply Z.div_le_lower_bound; lia | apply Z.lt_succ_r, Z.div_lt_upper_bound; lia]).
  clearbody n0 n1 n2 n3 n4.
  generalize dependent (n0 / 146097). generalize dependent (n1 / 36524). generalize dependent (n2 / 1461).
  generalize dependent (n3 / 365). generalize dependent ((n4 + 50) / 32).
  intros mth ? q1 ? q4 ? q100 ? q400 ?.
  repeat match goal with |- context [if ?b then _ else _] => destruct b end; cbn [fst snd]; lia.
Qed.

Lemma fits_small z : -20000 <= z <= 20000 -> fits_int z = true.
Proof. intros H. unfold fits_int, C_INT_MAX. apply andb_true_intro; split; apply Z.leb_le; lia. Qed.

Lemma val_eq_str a b : val_eq (VStr a) (VStr b) = zeqb a b.
Proof.
  unfold val_eq, StableSort.eqv. rewrite !val_le_str. revert b.
  induction a as [|x a IH]; intros [|y b]; cbn; try reflexivity.
  destruct (Z.ltb_spec x y), (Z.ltb_spec y x), (Z.eqb_spec x y); cbn; try lia; try reflexivity. apply IH.
Qed.

Lemma val_eq_int a b : val_eq (VInt a) (VInt b) = (a =? b).
Proof.
  unfold val_eq, StableSort.eqv. rewrite !val_le_int.
  destruct (a =? b) eqn:E; [apply Z.eqb_eq in E; subst; rewrite Z.leb_refl; reflexivity|].
  apply Z.eqb_neq in E. destruct (a <=? b) eqn:E1; destruct (b <=? a) eqn:E2; try reflexivity.
  apply Z.leb_le in E1, E2. lia.
Qed.

Lemma val_eq_dec_zero d : val_eq (VDec d) (VInt 0) = StrFuncs.dec_is_zero d.
Proof.
  unfold val_eq, StableSort.eqv, val_le, StableSort.lex, StableSort.on, StrFuncs.dec_is_zero. cbn [rank num_q str_of].
  cbn [Z.leb Z.compare list_le]. unfold Qle_bool, dec_q, dec_signed.
  destruct d as [ng c e]; cbn [dneg dcoef dexp].
  destruct (0 <=? e) eqn:Ee; cbn [Qnum Qden]; change (0 * _) with 0.
  - apply Z.leb_le in Ee. assert (0 < 10 ^ e) by (apply Z.pow_pos_nonneg; lia).
    set (s := (if ng then - c else c) * 10 ^ e * 1).
    assert (Hs : s = 0 <-> c = 0) by (unfold s; destruct ng; nia).
    destruct (Z.leb_spec s 0), (Z.leb_spec 0 s), (Z.eqb_spec c 0); cbn; try reflexivity; lia.
  - set (p := Z.pos (Z.to_pos (10 ^ - e))). assert (0 < p) by (unfold p; lia).
    set (s := (if ng then - c else c) * 1).
    assert (Hs : s = 0 <-> c = 0) by (unfold s; destruct ng; lia).
    change (0 * p) with 0.
    destruct (Z.leb_spec s 0), (Z.leb_spec 0 s), (Z.eqb_spec c 0); cbn; try reflexivity; lia.
Qed.

Lemma slice_py_slice (s : list Z) a b : slice_list s (Some a) (Some b) = py_slice s a b.
Proof.
  unfold slice_list, py_slice, clipz, clamp_idx.
  rewrite (Z.add_comm a), (Z.add_comm b). reflexivity.
Qed.

Lemma index_at_pstrs l i :
  index_at (pstrs l) i = match py_index l i with Some c => Ok (pstr c) | None => Exc IndexError end.
Proof.
  unfold index_at, py_index, pstrs. rewrite map_length.
  set (n := Z.of_nat (length l)). set (j := if i <? 0 then i + n else i).
  destruct (j <? 0) eqn:E1; destruct (n <=? j) eqn:E2; cbn [orb];
    destruct (0 <=? j) eqn:E3; destruct (j <? n) eqn:E4; cbn [andb]; try reflexivity;
    try (apply Z.ltb_lt in E1); try (apply Z.ltb_ge in E1); try (apply Z.leb_le in E2); try (apply Z.leb_gt in E2);
    try (apply Z.leb_le in E3); try (apply Z.leb_gt in E3); try (apply Z.ltb_lt in E4); try (apply Z.ltb_ge in E4);
    try lia.
  rewrite nth_error_map. destruct (nth_error l (Z.to_nat j)) eqn:En; [reflexivity|].
  apply nth_error_None in En. lia.
Qed.

Lemma strs_of_pstrs l : strs_of (pstrs l) = Some l.
Proof. induction l as [|x l IH]; cbn; [reflexivity|]. unfold pstrs in IH. rewrite IH. reflexivity. Qed.

Lemma weekday_range o : 0 <= weekday o < 7.
Proof. unfold weekday. apply Z.mod_pos_bound. lia. Qed.

Lemma monday_before o : rd_weekday_jump o 0 (-1) = - weekday o.
Proof.
  unfold rd_weekday_jump. cbn [Z.eqb Z.ltb Z.compare Z.abs]. 
  rewrite Z.sub_0_r. rewrite (Z.mod_small (weekday o) 7) by apply weekday_range. lia.
Qed.

Lemma nat_digits_nonempty n : (1 <= length (nat_digits n))%nat.
Proof.
  unfold nat_digits. generalize (Z.to_nat (Z.log2 n)) as f. intros f.
  assert (G : forall f n acc, (length acc <= length (digits_fuel f n acc))%nat).
  { clear. induction f as [|f IH]; intros n acc; cbn [digits_fuel]; [lia|].
    destruct (n <? 10); [cbn [length]; lia|]. etransitivity; [|apply IH]. cbn [length]. lia. }
  cbn [digits_fuel]. destruct (n <? 10); [cbn [length]; lia|].
  etransitivity; [|apply G]. cbn [length]. lia.
Qed.

(* ---------------------------------------------------------------- findfirst: the first match in sorted order is the
   least match (the model folds a running minimum over the set) *)
Section MinFind.
Variable P : list Z -> bool.
Notation le := list_le.

Definition combine (x : list Z) (rest : option (list Z)) : option (list Z) :=
  if P x then match rest with None => Some x | Some b => if le x b then Some x else Some b end else rest.

Lemma find_insert x : forall l, sorted le l ->
  find P (insert le x l) = combine x (find P l).
Proof.
  induction l as [|y l IH]; intros S; cbn [insert find]; unfold combine.
  - destruct (P x); reflexivity.
  - inversion S as [|? ? S' Hy]; subst.
    destruct (le x y) eqn:Exy; cbn [find].
    + destruct (P x) eqn:Px; [|reflexivity].
      destruct (P y) eqn:Py; [rewrite Exy; reflexivity|].
      destruct (find P l) as [b|] eqn:Fb; [|reflexivity].
      apply find_some in Fb as [Hin _].
      rewrite Forall_forall in Hy. specialize (Hy b Hin).
      rewrite (list_le_trans x y b Exy Hy). reflexivity.
    + destruct (P y) eqn:Py.
      * destruct (P x); [rewrite Exy|]; reflexivity.
      * rewrite (IH S'). reflexivity.
Qed.

Lemma find_isort l : find P (isort le l) = fold_right combine None l.
Proof.
  induction l as [|x l IH]; [reflexivity|]. cbn [isort fold_right].
  rewrite find_insert by (apply isort_sorted; [apply list_le_total|apply list_le_trans]).
  rewrite IH. reflexivity.
Qed.

Definition step (best : option (list Z)) (v : list Z) : option (list Z) :=
  if P v then match best with None => Some v | Some b => if str_lt v b then Some v else best end else best.
Definition merge (acc r : option (list Z)) : option (list Z) :=
  match acc, r with
  | None, _ => r
  | Some a, None => Some a
  | Some a, Some b => if str_lt b a then Some b else Some a
  end.

Lemma fold_left_merge : forall l acc, fold_left step l acc = merge acc (fold_right combine None l).
Proof.
  induction l as [|x l IH]; intros acc; cbn [fold_left fold_right].
  - destruct acc; reflexivity.
  - rewrite IH. generalize (fold_right combine None l) as r. intros r. unfold step, combine, merge, str_lt.
    destruct (P x); [|reflexivity].
    destruct acc as [a|]; destruct r as [b|]; try reflexivity.
    + pose proof (list_le_total a x). pose proof (list_le_total x b). pose proof (list_le_total a b).
      pose proof (list_le_trans a x b). pose proof (list_le_trans x b a). pose proof (list_le_trans b a x).
      pose proof (list_le_trans x a b). pose proof (list_le_trans a b x). pose proof (list_le_trans b x a).
      destruct (le a x) eqn:E1; destruct (le x a) eqn:E2; destruct (le x b) eqn:E3; destruct (le b x) eqn:E4;
        destruct (le a b) eqn:E5; destruct (le b a) eqn:E6; cbn; try rewrite E1; try rewrite E2; try rewrite E3; try rewrite E4; try rewrite E5; try rewrite E6; cbn;
        try reflexivity; try (exfalso; intuition congruence).
    + destruct (negb (le a x)); reflexivity.
    + destruct (le x b) eqn:E; cbn; [reflexivity|]. 
      pose proof (list_le_total x b) as T. rewrite E in T. destruct T as [T|T]; [discriminate|]. 
      reflexivity.
Qed.

Theorem findfirst_min : forall vs, fold_left step vs None = find P (isort le vs).
Proof. intros. rewrite fold_left_merge, find_isort. reflexivity. Qed.
End MinFind.

(* ---------------------------------------------------------------- date_bin(str, date, date): calls two other
   functions of the module (opaque callables: interval, and date_bin whose while-True loops are outside the fragment) *)
Definition ref_of (name : string) : nat :=
  match find (fun p => String.eqb (snd p) name) Gen.SrcEnv.refs with Some p => fst p | None => 0%nat end.
Definition p_rd (r : rdelta) : pv := tagged "relativedelta" [PInt (rd_years r); PInt (rd_months r); PInt (rd_days r)].
(* a callee's result: an exception value is raised unchanged *)
Definition raised (v : value) : res pv := match v with VErr k => Exc k | _ => Ok (PV v) end.

Local Arguments prefix_of : simpl never.
Local Arguments isort : simpl never.
Local Arguments date_bin_rd : simpl never.
Local Arguments interval : simpl never.

Section Tie.
Variable call_ref : nat -> list pv -> pv.
Notation run := (call_function call_ref prim_env).



Ltac fin := repeat match goal with |- context [lift ?v] => destruct (lift v) end; reflexivity.

Theorem year_src : forall o, run env_year [PV (VDate o)] = lift (f_year o).
Proof. intros. reflexivity. Qed.
Theorem month_src : forall o, run env_month [PV (VDate o)] = lift (f_month o).
Proof. intros. reflexivity. Qed.
Theorem day_src : forall o, run env_day [PV (VDate o)] = lift (f_day o).
Proof. intros. reflexivity. Qed.
Theorem date_diff_src : forall x y, run env_date_diff [PV (VDate x); PV (VDate y)] = lift (date_diff x y).
Proof. intros. reflexivity. Qed.
Theorem upper_src : forall s, run env_upper [pstr s] = lift (f_upper s).
Proof. intros. reflexivity. Qed.
Theorem lower_src : forall s, run env_lower [pstr s] = lift (f_lower s).
Proof. intros. reflexivity. Qed.
Theorem length_src : forall s, run env_length [pstr s] = lift (f_length s).
Proof. intros. reflexivity. Qed.
Theorem date_add_src : forall o n, run env_date_add [PV (VDate o); PInt n] = lift (date_add o n).
Proof. intros. cbn. unfold date_add. fin. Qed.
Theorem maxwidth_src : forall s n, run env_maxwidth [pstr s; PInt n] = lift (f_maxwidth s n).
Proof. intros. cbn. fin. Qed.
Theorem abs_src : forall d, run env_abs [PV (VDec d)] = lift (f_abs d).
Proof. intros. reflexivity. Qed.
Theorem neg_dec_src : forall d, run env_neg [PV (VDec d)] = lift (f_neg d).
Proof. intros. reflexivity. Qed.
Theorem neg_int_src : forall z, run env_neg [PInt z] = lift (f_neg_int z).
Proof. intros. reflexivity. Qed.
Theorem round_dec_src : forall d n, run env_round [PV (VDec d); PInt n] = lift (f_round_dec d n).
Proof. intros. cbn. fin. Qed.
Theorem round_int_src : forall z n, run env_round [PInt z; PInt n] = lift (f_round_int z n).
Proof. intros. cbn. fin. Qed.
Theorem subst_src : forall p r s, run env_subst [pstr p; pstr r; pstr s] = lift (f_subst_lit p r s).
Proof. intros. reflexivity. Qed.
Theorem grep_src : forall p s, run env_grep [pstr p; pstr s] = lift (f_grep_lit p s).
Proof. intros. cbn. unfold f_grep_lit. destruct (find_sub p s); reflexivity. Qed.
Theorem grepn_src : forall p s n, run env_grepn [pstr p; pstr s; PInt n] = lift (f_grepn_lit p s n).
Proof. intros. cbn. unfold f_grepn_lit. destruct (find_sub p s); [|reflexivity]. cbn. destruct (n =? 0); reflexivity. Qed.
Theorem bool_src : forall x, no_err x = true -> StrFuncs.is_null x = false ->
  run env_bool [pv_of_x x] = Ok (pv_of_x (cast_bool x)).
Proof. intros [v|n k] H N; [destruct v as [|b|z|d|s|o|e]; try discriminate|]; reflexivity. Qed.
Theorem int_src : forall x, no_err x = true -> run env_int [pv_of_x x] = Ok (pv_of_x (cast_int x)).
Proof.
  intros [v|n k] H; [destruct v as [|b|z|d|s|o|e]; try discriminate; try reflexivity|].
  - cbn. destruct (parse_int s); reflexivity.
  - cbn. unfold cast_int, cast_int_gen. destruct k as [|[ | |]|]; reflexivity.
Qed.
Theorem decimal_src : forall x, no_err x = true -> run env_decimal [pv_of_x x] = Ok (pv_of_x (cast_decimal x)).
Proof.
  intros [v|n k] H; [destruct v as [|b|z|d|s|o|e]; try discriminate; try reflexivity|reflexivity].
  cbn. destruct (parse_decimal s) as [[v|n k]|]; reflexivity.
Qed.
Theorem str_src : forall x, no_err x = true -> StrFuncs.is_null x = false ->
  run env_str [pv_of_x x] = Ok (pv_of_x (cast_str x)).
Proof.
  intros [v|n k] H N; [destruct v as [|b|z|d|s|o|e]; try discriminate; try reflexivity|reflexivity].
  destruct b; reflexivity. 
Qed.
Theorem date_from_ymd_src : forall y m d, run env_date_from_ymd [PInt y; PInt m; PInt d] = lift (cast_date3 y m d).
Proof.
  intros. cbn. unfold cast_date3, cast_date3_gen.
  destruct (fits_int y && fits_int m && fits_int d); [|reflexivity].
  unfold mk_date. destruct (valid_ymd y m d); reflexivity.
Qed.
Theorem date_src : forall x, no_err x = true -> run env_date [pv_of_x x] = Ok (pv_of_x (cast_date x)).
Proof.
  intros [v|n k] H; [destruct v as [|b|z|d|s|o|e]; try discriminate; try reflexivity|reflexivity].
  cbn. destruct (parse_date_cases s) as [[o ->]| ->]; reflexivity.
Qed.
Theorem root_src : forall a n, run env_root [pstr a; PInt n] = lift (f_root a n).
Proof. intros. reflexivity. Qed.
Theorem parent_src : forall a, run env_parent [pstr a] = lift (f_parent a).
Proof. intros. cbn. unfold f_parent. destruct a; reflexivity. Qed.
Theorem leaf_src : forall a, run env_leaf [pstr a] = lift (f_leaf a).
Proof. intros. cbn. unfold f_leaf. destruct a; reflexivity. Qed.
Theorem weekday_src : forall o, run env_weekday [PV (VDate o)] = lift (f_weekday o).
Proof. intros. reflexivity. Qed.

Theorem substr_src : forall s a b, run env_substr [pstr s; PInt a; PInt b] = lift (f_substr s a b).
Proof. intros. cbn. rewrite slice_py_slice. reflexivity. Qed.

Theorem splitcomp_src : forall s d i, run env_splitcomp [pstr s; pstr d; PInt i] = lift (f_splitcomp s d i).
Proof.
  intros. cbn. unfold f_splitcomp. destruct d as [|c d]; [reflexivity|].
  cbn. rewrite index_at_pstrs. destruct (py_index (split (c :: d) s) i); reflexivity.
Qed.

Theorem joinstr_src : forall vs, run env_joinstr [PList (pstrs vs)] = lift (f_joinstr vs).
Proof. intros. cbn. rewrite strs_of_pstrs. reflexivity. Qed.

Theorem safediv_src : forall x y, run env_safediv [PV (VDec x); PV (VDec y)] = lift (f_safediv x y).
Proof.
  intros. cbn. rewrite val_eq_dec_zero. unfold f_safediv.
  destruct (StrFuncs.dec_is_zero y) eqn:E; cbn; [reflexivity|]. rewrite E. reflexivity.
Qed.

Theorem safediv_int_src : forall x y, run env_safediv [PV (VDec x); PInt y] = lift (f_safediv_int x y).
Proof.
  intros. cbn. rewrite val_eq_int. unfold f_safediv_int, f_safediv.
  assert (Ez : StrFuncs.dec_is_zero (dec_of_int y) = (y =? 0)).
  { unfold StrFuncs.dec_is_zero, dec_of_int. cbn [dcoef].
    destruct (y =? 0) eqn:E; [apply Z.eqb_eq in E; subst; reflexivity|]. apply Z.eqb_neq in E. apply Z.eqb_neq. lia. }
  rewrite Ez. destruct (y =? 0) eqn:E; cbn; [reflexivity|]. rewrite E. reflexivity.
Qed.

Theorem yearmonth_src : forall o, valid_ord o = true -> run env_yearmonth [PV (VDate o)] = lift (f_yearmonth o).
Proof.
  intros o V. destruct (ord2ymd_bounds o V) as [Hy Hm]. cbn.
  rewrite !fits_small by lia. cbn. unfold f_yearmonth. fin.
Qed.

Theorem quarter_src : forall o, valid_ord o = true -> run env_quarter [PV (VDate o)] = lift (f_quarter o).
Proof.
  intros o V. destruct (ord2ymd_bounds o V) as [Hy Hm]. cbn.
  assert (Hq : 0 <= (month_of o - 1) / 3 + 1) by (assert (-1 <= (month_of o - 1) / 3) by (apply Z.div_le_lower_bound; lia); lia).
  unfold str_of_int, f_quarter.
  destruct (Z.ltb_spec (year_of o) 0); [lia|].
  destruct (Z.ltb_spec ((month_of o - 1) / 3 + 1) 0); [lia|].
  change (Pos.to_nat 4) with 4%nat. change (Pos.to_nat 1) with 1%nat.
  pose proof (nat_digits_nonempty ((month_of o - 1) / 3 + 1)) as Hn.
  replace (1 - length (nat_digits ((month_of o - 1) / 3 + 1)))%nat with 0%nat by lia.
  cbn. rewrite app_nil_r. reflexivity.
Qed.

Lemma trunc_u_alt u o : trunc_u u o = trunc_ymd u (year_of o, month_of o, day_of o) o.
Proof. unfold trunc_u, year_of, month_of, day_of. destruct (ord2ymd o) as [[y m] d]. reflexivity. Qed.
Lemma part_u_alt u o : part_u u o = part_ymd u (year_of o, month_of o, day_of o) o.
Proof. unfold part_u, year_of, month_of, day_of. destruct (ord2ymd o) as [[y m] d]. reflexivity. Qed.


Ltac field_step f :=
  cbn; rewrite ?val_eq_str;
  lazymatch goal with |- context [zeqb f ?c] => destruct (zeqb f c) eqn:? end.
Ltac use_fields :=
  repeat match goal with E : zeqb _ _ = _ |- _ => rewrite E; clear E end.

Theorem date_trunc_src : forall f o, valid_ord o = true ->
  run env_date_trunc [pstr f; PV (VDate o)] = lift (date_trunc f o).
Proof.
  intros f o V. destruct (ord2ymd_bounds o V) as [Hy Hm].
  assert (0 <= (month_of o - 1) mod 3 < 3) by (apply Z.mod_pos_bound; lia).
  assert (0 <= year_of o mod 10 < 10) by (apply Z.mod_pos_bound; lia).
  assert (0 <= (year_of o - 1) mod 100 < 100) by (apply Z.mod_pos_bound; lia).
  assert (0 <= (year_of o - 1) mod 1000 < 1000) by (apply Z.mod_pos_bound; lia).
  do 7 (field_step f;
    [cbn; rewrite ?monday_before, ?fits_small by lia; cbn;
     unfold date_trunc, tunit_of, all_tunits; cbn; use_fields; cbn; rewrite ?trunc_u_alt; cbn; fin|]).
  cbn. unfold date_trunc, tunit_of, all_tunits; cbn; use_fields. reflexivity.
Qed.
Lemma epoch_date : mk_date 1970 1 1 = VDate EPOCH_ORD.
Proof. reflexivity. Qed.

Theorem date_part_src : forall f o,
  run env_date_part [pstr f; PV (VDate o)] = lift (date_part f o).
Proof.
  intros f o.
  do 13 (field_step f;
    [cbn; rewrite ?fits_small by lia; rewrite ?epoch_date; cbn;
     unfold date_part, punit_of, punit_names; cbn; use_fields; cbn; rewrite ?part_u_alt; cbn; reflexivity|]).
  cbn. unfold date_part, punit_of, punit_names; cbn; use_fields. reflexivity.
Qed.

Theorem possign_src : forall types d a,
  run env_possign [p_types types; PV (VDec d); pstr a] = lift (f_possign types d a).
Proof.
  intros. cbn. unfold p_types. rewrite strs_of_pstrs. cbn. rewrite val_le_int. unfold f_possign.
  destruct (0 <=? account_sign types a); reflexivity.
Qed.

Theorem account_sortkey_src : forall types a,
  run env_account_sortkey [p_types types; pstr a] = lift (f_account_sortkey types a).
Proof.
  intros. cbn. unfold p_types. rewrite strs_of_pstrs. cbn. unfold f_account_sortkey.
  destruct (index_of (acc_type a) types 0); cbn; [|reflexivity]. rewrite app_nil_r. reflexivity.
Qed.

(* ---------------------------------------------------------------- findfirst (loop over sorted(values)) *)
Definition ff_body : list stmt :=
  [SIf (XPrim "re.match" [XName "pattern"; XName "value"]) [SReturn (Some (XName "value"))] []].

Lemma ff_loop p : forall l loc, lookup "pattern" loc = Some (pstr p) ->
  exists loc', 
  for_loop call_ref prim_env ff_body "value" {| locals := loc; fields := [] |} (pstrs l) =
  Ok (match find (prefix_of p) l with
      | Some v => Ret {| locals := loc'; fields := [] |} (pstr v)
      | None => Next {| locals := loc'; fields := [] |}
      end).
Proof.
  induction l as [|v l IH]; intros loc Hp; [exists loc; reflexivity|].
  cbn [pstrs map for_loop find]. fold (pstrs l).
  assert (Hp' : lookup "pattern" (update "value" (pstr v) loc) = Some (pstr p))
    by (rewrite lookup_update_neq by reflexivity; exact Hp).
  destruct (IH (update "value" (pstr v) loc) Hp') as [loc' IH'].
  unfold ff_body at 1.
  cbn [PyMini.exec_block PyMini.exec PyMini.eval bind read write locals fields].
  rewrite Hp'. cbn [bind locals fields]. rewrite lookup_update_eq. cbn.
  destruct (prefix_of p v) eqn:E; cbn.
  - rewrite ?lookup_update_eq. exists (update "value" (pstr v) loc). reflexivity.
  - exists loc'. exact IH'.
Qed.


Lemma eval_sorted : forall s vs, lookup "values" (locals s) = Some (PList (pstrs vs)) ->
  PyMini.eval call_ref prim_env s (XPrim "builtins.sorted" [XName "values"]) = Ok (s, PList (pstrs (isort list_le vs))).
Proof. intros s vs H. cbn. rewrite H. cbn. rewrite strs_of_pstrs. reflexivity. Qed.

Theorem findfirst_sorted : forall p vs,
  run env_findfirst [pstr p; PList (pstrs vs)] =
  lift (match find (prefix_of p) (isort list_le vs) with Some v => VStr v | None => VNull end).
Proof.
  intros p vs. unfold call_function. cbn [env_findfirst f_params f_body bind_params f_gen].
  cbn [PyMini.exec_block].
  destruct vs as [|v0 t]; [reflexivity|].
  set (vs := v0 :: t).
  set (s0 := {| locals := [("pattern", pstr p); ("values", PList (pstrs vs))]; fields := [] |}).
  rewrite (exec_if call_ref prim_env _ _ _ s0 s0 (PBool false) false) by reflexivity.
  cbn [PyMini.exec_block bind].
  rewrite (exec_for call_ref prim_env "value" _ _ s0 s0 (pstrs (isort list_le vs))) by (apply eval_sorted; reflexivity).
  destruct (ff_loop p (isort list_le vs) [("pattern", pstr p); ("values", PList (pstrs vs))] eq_refl) as [loc' E].
  unfold ff_body in E. subst s0. rewrite E.
  destruct (find (prefix_of p) (isort list_le vs)); reflexivity.
Qed.

Theorem findfirst_src : forall p vs, run env_findfirst [pstr p; PList (pstrs vs)] = lift (f_findfirst_lit p vs).
Proof.
  intros. rewrite findfirst_sorted. unfold f_findfirst_lit.
  rewrite <- (findfirst_min (prefix_of p) vs). reflexivity.
Qed.

Theorem date_bin_str_src : forall s source origin,
  call_ref (ref_of "beanquery.query_env.interval") [pstr s] =
    match interval s with None => PNone | Some r => p_rd r end ->
  (forall r, interval s = Some r ->
     call_ref (ref_of "beanquery.query_env.date_bin") [p_rd r; PV (VDate source); PV (VDate origin)] =
     PV (date_bin_rd r source origin)) ->
  run env_date_bin_str [pstr s; PV (VDate source); PV (VDate origin)] = raised (date_bin s source origin).
Proof.
  intros s source origin Hi Hb. unfold date_bin. unfold p_rd, tagged in *. cbn in Hi, Hb. cbn. rewrite Hi.
  destruct (interval s) as [r|]; [|reflexivity].
  cbn. rewrite (Hb r eq_refl). destruct (date_bin_rd r source origin); reflexivity.
Qed.

(* ---------------------------------------------------------------- the same functions as Model/Eval.v's apply_func
   (the scalar functions of the C01 expression model) sees them *)
Theorem length_apply_func : forall s, run env_length [pstr s] = lift (apply_func FLength [VStr s]).
Proof. intros. reflexivity. Qed.
Theorem upper_apply_func : forall s, run env_upper [pstr s] = lift (apply_func FUpper [VStr s]).
Proof. intros. reflexivity. Qed.
Theorem lower_apply_func : forall s, run env_lower [pstr s] = lift (apply_func FLower [VStr s]).
Proof. intros. reflexivity. Qed.
Theorem substr_apply_func : forall s a b,
  run env_substr [pstr s; PInt a; PInt b] = lift (apply_func FSubstr [VStr s; VInt a; VInt b]).
Proof. intros. reflexivity. Qed.
Theorem bool_apply_func : forall v, (forall k, v <> VErr k) -> run env_bool [PV v] = lift (apply_func FBool [v]).
Proof. intros v H. destruct v; try reflexivity. exfalso. eapply H. reflexivity. Qed.

End Tie.
