(* C14: proofs about Model/Statements.v.
   - lexing a template with an arbitrary identifier spliced in (induction on the identifier);
   - BALANCES / JOURNAL expansions for every summary function, FROM, WHERE, account pattern;
   - the pre-fix text splice of the account pattern: correct exactly for patterns the
     double-quoted literal can hold; refuted by witnesses containing a double quote;
   - PRINT selection = filter, in order. *)
From Coq Require Import String ZArith List Bool Lia ZifyBool.
Import ListNotations.
From Verif Require Import Base.Out Base.PyValue Model.Statements.
Open Scope list_scope.
Open Scope Z_scope.

(* ------------------------------------------------------------------ lexer *)

Lemma lex_run_app : forall a b st,
  lex_run st (a ++ b) =
  match lex_run st a with
  | None => None
  | Some (ta, st') =>
      match lex_run st' b with
      | None => None
      | Some (tb, st'') => Some (ta ++ tb, st'')
      end
  end.
Proof.
  induction a as [|c a IH]; intros b st; simpl.
  - destruct (lex_run st b) as [[tb st'']|]; reflexivity.
  - destruct (lstep st c) as [[ts st']|]; [|reflexivity].
    rewrite IH. destruct (lex_run st' a) as [[ta st1]|]; [|reflexivity].
    destruct (lex_run st1 b) as [[tb st2]|]; [|reflexivity].
    rewrite app_assoc. reflexivity.
Qed.

Lemma idstart_not_space : forall c, is_idstart c = true -> is_space c = false.
Proof. unfold is_idstart, is_space, is_upper, is_lower. intros. lia. Qed.

Lemma idstart_idchar : forall c, is_idstart c = true -> is_idchar c = true.
Proof. unfold is_idchar. intros c H. rewrite H. reflexivity. Qed.

Lemma lex_run_idchars : forall r acc,
  forallb is_idchar r = true -> lex_run (LId acc) r = Some ([], LId (rev r ++ acc)).
Proof.
  induction r as [|c r IH]; intros acc H; simpl in *.
  - reflexivity.
  - apply andb_true_iff in H. destruct H as [Hc Hr]. rewrite Hc.
    rewrite (IH (c :: acc) Hr). rewrite <- app_assoc. reflexivity.
Qed.

Definition id_shaped (s : str) : bool :=
  match s with [] => false | c :: r => is_idstart c && forallb is_idchar r end.

Lemma is_identifier_shape : forall s,
  is_identifier s = true -> id_shaped s = true /\ is_keyword s = false.
Proof.
  intros [|c r]; simpl; [discriminate|]. intros H.
  apply andb_true_iff in H. destruct H as [H Hk].
  apply negb_true_iff in Hk. split; assumption.
Qed.

(* an identifier-shaped string, read from a token boundary, is read whole *)
Lemma lex_run_ident : forall s, id_shaped s = true -> lex_run LNone s = Some ([], LId (rev s)).
Proof.
  intros [|c r]; simpl; [discriminate|]. intros H.
  apply andb_true_iff in H. destruct H as [Hc Hr].
  unfold lstart. rewrite (idstart_not_space c Hc), Hc.
  rewrite (lex_run_idchars r [c] Hr). reflexivity.
Qed.

Lemma flush_id_ident : forall s, is_keyword s = false -> flush_id (rev s) = TId (lower s).
Proof. intros s H. unfold flush_id. rewrite rev_involutive, H. reflexivity. Qed.

(* the identifier followed by an opening parenthesis and any further text *)
Lemma lex_run_ident_lp : forall s rest,
  id_shaped s = true -> is_keyword s = false ->
  lex_run LNone (s ++ 40 :: rest) =
  match lex_run LNone rest with
  | None => None
  | Some (ts, st) => Some (TId (lower s) :: TLP :: ts, st)
  end.
Proof.
  intros s rest Hs Hk. rewrite lex_run_app, (lex_run_ident s Hs).
  simpl. rewrite (flush_id_ident s Hk).
  destruct (lex_run LNone rest) as [[ts st]|]; reflexivity.
Qed.

(* the same for what the grammar rule `identifier` accepts *)
Lemma summary_is_one_token : forall (s : str) (rest : str),
  is_identifier s = true ->
  lex_run LNone (s ++ 40 :: rest) =
  match lex_run LNone rest with
  | None => None
  | Some (ts, st) => Some (TId (lower s) :: TLP :: ts, st)
  end.
Proof.
  intros s rest H. destruct (is_identifier_shape s H) as [Hs Hk].
  exact (lex_run_ident_lp s rest Hs Hk).
Qed.

(* a string body without the closing quote character, then the quote *)
Lemma lex_run_string : forall q p acc rest,
  forallb (fun c => negb (c =? q)) p = true ->
  lex_run (LStr q acc) (p ++ q :: rest) =
  match lex_run LNone rest with
  | None => None
  | Some (ts, st) => Some (TStr (rev acc ++ p) :: ts, st)
  end.
Proof.
  intros q p. induction p as [|c p IH]; intros acc rest H; simpl in *.
  - rewrite Z.eqb_refl. rewrite app_nil_r.
    destruct (lex_run LNone rest) as [[ts st]|]; reflexivity.
  - apply andb_true_iff in H. destruct H as [Hc Hp].
    apply negb_true_iff in Hc. rewrite Hc.
    rewrite (IH (c :: acc) rest Hp). simpl. rewrite <- app_assoc.
    destruct (lex_run LNone rest) as [[ts st]|]; reflexivity.
Qed.

(* ------------------------------------------------------------- expansions *)

Definition summary_ok (f : option str) : bool :=
  match f with None => true | Some s => is_identifier s end.

Lemma summary_of_ident : forall s e, id_shaped s = true ->
  summary_of (Some s) e = Function (lower s) [e].
Proof. intros [|c r] e H; [discriminate|reflexivity]. Qed.

Theorem balances_expansion : forall f fr wh,
  summary_ok f = true ->
  transform_balances (mkBalances f fr wh) = TOk (expected_balances f fr wh).
Proof.
  intros [s|] fr wh H.
  - simpl in H. destruct (is_identifier_shape s H) as [Hs Hk].
    unfold transform_balances, parse_template, lex, expected_balances.
    rewrite (summary_of_ident s _ Hs).
    unfold format, balances_template. cbn [map concat b_summary_func or_empty].
    rewrite app_nil_r.
    rewrite lex_run_app.
    match goal with |- context [lex_run LNone (s2z ?x)] =>
      let v := eval vm_compute in (lex_run LNone (s2z x)) in
      change (lex_run LNone (s2z x)) with v end.
    cbv iota beta.
    match goal with |- context [s ++ s2z ?x] =>
      let v := eval vm_compute in (s2z x) in change (s2z x) with v end.
    rewrite (lex_run_ident_lp s _ Hs Hk).
    match goal with |- context [lex_run LNone ?x] =>
      let v := eval vm_compute in (lex_run LNone x) in change (lex_run LNone x) with v end.
    cbv iota beta. generalize (lower s) as x. intro x. vm_compute. reflexivity.
  - vm_compute. reflexivity.
Qed.

(* the empty summary function (reachable only through the API) is `x or ""` = no function *)
Lemma balances_empty_summary : forall fr wh,
  transform_balances (mkBalances (Some []) fr wh) = transform_balances (mkBalances None fr wh).
Proof. reflexivity. Qed.

Lemma journal_cooked : forall s,
  id_shaped s = true -> is_keyword s = false ->
  parse_template (format journal_template (fun _ => s)) =
  Some (expected_journal None (Some s) None).
Proof.
  intros s Hs Hk. unfold parse_template, lex, expected_journal.
  rewrite (summary_of_ident s _ Hs), (summary_of_ident s _ Hs).
  unfold format, journal_template. cbn [map concat]. rewrite app_nil_r.
  rewrite lex_run_app.
  match goal with |- context [lex_run LNone (s2z ?x)] =>
    let v := eval vm_compute in (lex_run LNone (s2z x)) in
    change (lex_run LNone (s2z x)) with v end.
  cbv iota beta.
  repeat match goal with |- context [s2z ?x] =>
    let v := eval vm_compute in (s2z x) in change (s2z x) with v end.
  match goal with |- context [s ++ (40 :: ?l) ++ ?r] =>
    change (s ++ (40 :: l) ++ r) with (s ++ 40 :: (l ++ r)) end.
  rewrite (lex_run_ident_lp s _ Hs Hk).
  match goal with |- context [lex_run LNone (?a ++ s ++ ?b)] =>
    rewrite (lex_run_app a (s ++ b) LNone);
    let v := eval vm_compute in (lex_run LNone a) in change (lex_run LNone a) with v
  end.
  cbv iota beta.
  rewrite (lex_run_ident_lp s _ Hs Hk).
  match goal with |- context [lex_run LNone ?x] =>
    let v := eval vm_compute in (lex_run LNone x) in change (lex_run LNone x) with v end.
  cbv iota beta. generalize (lower s) as x. intro x. vm_compute. reflexivity.
Qed.

Theorem journal_expansion : forall a f fr,
  summary_ok f = true ->
  transform_journal (mkJournal a f fr) = TOk (expected_journal a f fr).
Proof.
  intros a [s|] fr H.
  - simpl in H. destruct (is_identifier_shape s H) as [Hs Hk].
    unfold transform_journal. cbn [j_summary_func or_empty j_account j_from].
    rewrite (journal_cooked s Hs Hk).
    destruct a as [[|c r]|]; reflexivity.
  - destruct a as [[|c r]|]; vm_compute; reflexivity.
Qed.

(* the account pattern is data: whatever its characters, it is the Constant of the WHERE clause *)
Corollary journal_pattern_is_constant : forall p f fr,
  summary_ok f = true -> p <> [] ->
  exists s, transform_journal (mkJournal (Some p) f fr) = TOk s
            /\ s_where s = Some (BinaryOp Match (Column (s2z "account")) (Constant (VStr p)))
            /\ s_from s = fr.
Proof.
  intros p f fr H Hp. eexists. split; [apply journal_expansion; assumption|].
  destruct p; [congruence|]. split; reflexivity.
Qed.

(* ------------------------------------------- the pre-fix text-level splice *)

Definition no_dquote (p : str) : bool := forallb (fun c => negb (c =? dquote)) p.

Lemma lex_where : forall p rest,
  no_dquote p = true ->
  lex_run LNone ((s2z "WHERE account ~ """ ++ p ++ [dquote]) ++ rest) =
  match lex_run LNone rest with
  | None => None
  | Some (ts, st) =>
      Some (TKw (s2z "WHERE") :: TId (s2z "account") :: TTilde :: TStr p :: ts, st)
  end.
Proof.
  intros p rest Hp. rewrite <- !app_assoc. rewrite lex_run_app.
  match goal with |- context [lex_run LNone (s2z ?x)] =>
    let v := eval vm_compute in (lex_run LNone (s2z x)) in
    change (lex_run LNone (s2z x)) with v end.
  cbv iota beta.
  change ([dquote] ++ rest) with (dquote :: rest).
  change (LStr 34 []) with (LStr dquote []).
  rewrite (lex_run_string dquote p [] rest Hp).
  destruct (lex_run LNone rest) as [[ts st]|]; reflexivity.
Qed.

Ltac step_lit :=
  match goal with |- context [lex_run LNone (s2z ?x ++ ?rest)] =>
    rewrite (lex_run_app (s2z x) rest LNone);
    let v := eval vm_compute in (lex_run LNone (s2z x)) in
    change (lex_run LNone (s2z x)) with v; cbv iota beta
  end.

Lemma legacy_cooked : forall s p,
  (s = [] \/ (id_shaped s = true /\ is_keyword s = false)) ->
  no_dquote p = true ->
  parse_template (format journal_template_legacy
     (legacy_env (s2z "WHERE account ~ """ ++ p ++ [dquote]) s)) =
  Some (mkSelect (s_targets (expected_journal None (Some s) None)) None
                 (Some (account_match p)) None None None None false).
Proof.
  intros s p Hs Hp. unfold parse_template, lex, expected_journal.
  unfold format, journal_template_legacy, legacy_env. cbn [map concat]. rewrite app_nil_r.
  repeat match goal with |- context [str_eqb (s2z ?a) (s2z ?b)] =>
    let v := eval vm_compute in (str_eqb (s2z a) (s2z b)) in
    change (str_eqb (s2z a) (s2z b)) with v end.
  cbv iota.
  destruct Hs as [-> | [Hs Hk]].
  - rewrite !app_nil_l. do 3 step_lit. rewrite (lex_where p _ Hp).
    match goal with |- context [lex_run LNone (s2z ?x)] =>
      let v := eval vm_compute in (lex_run LNone (s2z x)) in
      change (lex_run LNone (s2z x)) with v end.
    cbv iota beta. vm_compute. reflexivity.
  - step_lit.
    match goal with |- context [s ++ s2z ?x ++ ?r] =>
      let v := eval vm_compute in (s2z x) in change (s2z x) with v end.
    match goal with |- context [s ++ (40 :: ?l) ++ ?r] =>
      change (s ++ (40 :: l) ++ r) with (s ++ 40 :: (l ++ r)) end.
    rewrite (lex_run_ident_lp s _ Hs Hk).
    match goal with |- context [lex_run LNone (?a ++ s ++ ?b)] =>
      rewrite (lex_run_app a (s ++ b) LNone);
      let v := eval vm_compute in (lex_run LNone a) in change (lex_run LNone a) with v
    end.
    cbv iota beta.
    match goal with |- context [s ++ s2z ?x ++ ?r] =>
      let v := eval vm_compute in (s2z x) in change (s2z x) with v end.
    match goal with |- context [s ++ (40 :: ?l) ++ ?r] =>
      change (s ++ (40 :: l) ++ r) with (s ++ 40 :: (l ++ r)) end.
    rewrite (lex_run_ident_lp s _ Hs Hk).
    match goal with |- context [lex_run LNone (?a ++ ?w ++ ?b)] =>
      rewrite (lex_run_app a (w ++ b) LNone);
      let v := eval vm_compute in (lex_run LNone a) in change (lex_run LNone a) with v
    end.
    cbv iota beta.
    rewrite (lex_where p _ Hp).
    match goal with |- context [lex_run LNone (s2z ?x)] =>
      let v := eval vm_compute in (lex_run LNone (s2z x)) in
      change (lex_run LNone (s2z x)) with v end.
    cbv iota beta.
    rewrite (summary_of_ident s _ Hs), (summary_of_ident s _ Hs).
    generalize (lower s) as x. intro x. vm_compute. reflexivity.
Qed.

Lemma legacy_cooked_nowhere : forall s,
  (s = [] \/ (id_shaped s = true /\ is_keyword s = false)) ->
  parse_template (format journal_template_legacy
     (legacy_env [] s)) =
  Some (expected_journal None (Some s) None).
Proof.
  intros s [-> | [Hs Hk]]; [vm_compute; reflexivity|].
  unfold parse_template, lex, expected_journal.
  unfold format, journal_template_legacy, legacy_env. cbn [map concat]. rewrite app_nil_r.
  repeat match goal with |- context [str_eqb (s2z ?a) (s2z ?b)] =>
    let v := eval vm_compute in (str_eqb (s2z a) (s2z b)) in
    change (str_eqb (s2z a) (s2z b)) with v end.
  cbv iota. rewrite !app_nil_l.
  step_lit.
  repeat match goal with |- context [s2z ?x] =>
    let v := eval vm_compute in (s2z x) in change (s2z x) with v end.
  match goal with |- context [s ++ (40 :: ?l) ++ ?r] =>
    change (s ++ (40 :: l) ++ r) with (s ++ 40 :: (l ++ r)) end.
  rewrite (lex_run_ident_lp s _ Hs Hk).
  match goal with |- context [lex_run LNone (?a ++ s ++ ?b)] =>
    rewrite (lex_run_app a (s ++ b) LNone);
    let v := eval vm_compute in (lex_run LNone a) in change (lex_run LNone a) with v
  end.
  cbv iota beta.
  match goal with |- context [s ++ (40 :: ?l) ++ ?r] =>
    change (s ++ (40 :: l) ++ r) with (s ++ 40 :: (l ++ r)) end.
  rewrite (lex_run_ident_lp s _ Hs Hk).
  match goal with |- context [lex_run LNone ?x] =>
    let v := eval vm_compute in (lex_run LNone x) in change (lex_run LNone x) with v end.
  cbv iota beta.
  rewrite (summary_of_ident s _ Hs), (summary_of_ident s _ Hs).
  generalize (lower s) as x. intro x. vm_compute. reflexivity.
Qed.

(* Before 7579a2f: the splice is right exactly as long as the double-quoted literal can
   hold the pattern ... *)
Theorem journal_text_splice_without_dquote : forall a f fr,
  summary_ok f = true ->
  no_dquote (or_empty a) = true ->
  transform_journal_text_splice (mkJournal a f fr) = TOk (expected_journal a f fr).
Proof.
  intros a f fr Hf Hq.
  assert (Hs : or_empty f = [] \/ (id_shaped (or_empty f) = true /\ is_keyword (or_empty f) = false)).
  { destruct f as [s|]; [right; apply is_identifier_shape; exact Hf | left; reflexivity]. }
  assert (Hsum : forall e, summary_of (Some (or_empty f)) e = summary_of f e).
  { intro e. destruct f as [[|c r]|]; reflexivity. }
  unfold transform_journal_text_splice. cbn [j_account j_summary_func j_from].
  destruct a as [[|c r]|]; cbn [nonempty or_empty] in *.
  - rewrite (legacy_cooked_nowhere _ Hs). unfold expected_journal. rewrite !Hsum. reflexivity.
  - rewrite (legacy_cooked _ (c :: r) Hs Hq). unfold expected_journal. rewrite !Hsum. reflexivity.
  - rewrite (legacy_cooked_nowhere _ Hs). unfold expected_journal. rewrite !Hsum. reflexivity.
Qed.

(* ... and wrong beyond: a pattern containing a double quote breaks out of the literal.
   Witness 1 (injection): the pattern  x DQ OR account ~ DQ  (DQ = double quote) gets
   WHERE account ~ "x" OR account ~ "", which every posting satisfies.
   Witness 2: the pattern  a DQ b  does not parse. *)
Definition injection_pattern : str := s2z "x"" OR account ~ """.
Definition unparsable_pattern : str := s2z "a""b".

Theorem journal_text_splice_injection :
  exists s, transform_journal_text_splice (mkJournal (Some injection_pattern) None None) = TOk s
    /\ s_where s = Some (BoolOp Or [account_match (s2z "x"); account_match []])
    /\ s_where s <> s_where (expected_journal (Some injection_pattern) None None).
Proof.
  eexists. split; [vm_compute; reflexivity|]. split; [reflexivity|]. vm_compute. discriminate.
Qed.

Theorem journal_text_splice_parse_error :
  transform_journal_text_splice (mkJournal (Some unparsable_pattern) None None) = TParseError.
Proof. vm_compute. reflexivity. Qed.

Theorem journal_text_splice_refuted :
  ~ (forall a f fr, summary_ok f = true ->
       transform_journal_text_splice (mkJournal a f fr) = TOk (expected_journal a f fr)).
Proof.
  intro H. specialize (H (Some unparsable_pattern) None None eq_refl).
  rewrite journal_text_splice_parse_error in H. discriminate.
Qed.

(* the fixed code is right on both witnesses (instances of journal_expansion) *)
Lemma journal_fixed_on_witnesses :
  transform_journal (mkJournal (Some injection_pattern) None None)
    = TOk (expected_journal (Some injection_pattern) None None)
  /\ transform_journal (mkJournal (Some unparsable_pattern) None None)
    = TOk (expected_journal (Some unparsable_pattern) None None).
Proof. split; apply journal_expansion; reflexivity. Qed.

(* ------------------------------------------------------------------ PRINT *)

Section Print.
Context {E : Type}.

Definition selected (w : option (E -> value)) (e : E) : bool :=
  match w with None => true | Some f => truthy (f e) end.

Definition raises (w : option (E -> value)) (e : E) : option Z :=
  match w with Some f => match f e with VErr k => Some k | _ => None end | None => None end.

Lemma execute_print_step : forall w e t,
  execute_print w (e :: t) =
  match raises w e with
  | Some k => PRaise k
  | None => match execute_print w t with
            | PRaise k => PRaise k
            | POk es => POk (if selected w e then e :: es else es)
            end
  end.
Proof.
  intros [f|] e t; simpl; [|reflexivity].
  destruct (f e); reflexivity.
Qed.

(* no row raises: the output is the filter, in table order *)
Theorem print_selection : forall w (t : list E),
  (forall e, In e t -> raises w e = None) ->
  execute_print w t = POk (filter (selected w) t).
Proof.
  intros w t. induction t as [|e t IH]; intros H.
  - reflexivity.
  - rewrite execute_print_step. rewrite (H e (or_introl eq_refl)).
    rewrite IH by (intros x Hx; apply H; right; exact Hx).
    simpl. destruct (selected w e); reflexivity.
Qed.

(* some row raises: the statement raises what the FIRST such row raises, nothing is printed *)
Theorem print_raises_first : forall w (t1 t2 : list E) e k,
  (forall x, In x t1 -> raises w x = None) -> raises w e = Some k ->
  execute_print w (t1 ++ e :: t2) = PRaise k.
Proof.
  intros w t1 t2 e k. induction t1 as [|x t1 IH]; intros H Hk.
  - simpl app. rewrite execute_print_step, Hk. reflexivity.
  - simpl app. rewrite execute_print_step. rewrite (H x (or_introl eq_refl)).
    rewrite IH; [reflexivity| |exact Hk]. intros y Hy. apply H. right. exact Hy.
Qed.

Theorem print_ok_iff : forall w (t : list E),
  (exists es, execute_print w t = POk es) <-> (forall e, In e t -> raises w e = None).
Proof.
  intros w t. split.
  - induction t as [|x t IH]; intros [es Hes] e He; [destruct He|].
    rewrite execute_print_step in Hes.
    destruct (raises w x) eqn:Rx; [discriminate|].
    destruct (execute_print w t) as [es'|k] eqn:Et; [|discriminate].
    destruct He as [<-|He]; [exact Rx|]. apply IH; [eexists; reflexivity|exact He].
  - intro H. eexists. apply print_selection. exact H.
Qed.

(* without a FROM expression everything is printed *)
Theorem print_no_filter : forall t : list E, execute_print None t = POk t.
Proof.
  intro t. rewrite print_selection by reflexivity.
  induction t as [|e t IH]; [reflexivity|]. simpl. simpl in IH. congruence.
Qed.

(* order preserved, nothing else: the output is a subsequence of the table *)
Inductive subseq : list E -> list E -> Prop :=
| sub_nil : subseq [] []
| sub_skip : forall x a b, subseq a b -> subseq a (x :: b)
| sub_keep : forall x a b, subseq a b -> subseq (x :: a) (x :: b).

Lemma filter_subseq : forall (p : E -> bool) t, subseq (filter p t) t.
Proof.
  intros p t. induction t as [|x t IH]; simpl; [constructor|].
  destruct (p x); constructor; exact IH.
Qed.

Theorem print_output_characterised : forall w (t es : list E),
  execute_print w t = POk es ->
  es = filter (selected w) t /\ subseq es t
  /\ (forall e, In e es <-> In e t /\ selected w e = true)
  /\ (NoDup t -> NoDup es).
Proof.
  intros w t es H.
  assert (Hr : forall e, In e t -> raises w e = None)
    by (apply print_ok_iff; eexists; exact H).
  rewrite (print_selection w t Hr) in H. injection H as <-.
  split; [reflexivity|]. split; [apply filter_subseq|]. split.
  - intro e. apply filter_In.
  - apply NoDup_filter.
Qed.

(* statement level: compile (CompilationError first), OPEN/CLOSE order check, table update,
   then the selection *)
Variable compile_expr : expr -> option (E -> value).
Variable update : option Z -> option closev -> bool -> list E -> list E.

Theorem run_print_no_from : forall entries,
  run_print compile_expr update entries (mkPrint None) = PrOk entries.
Proof. intro entries. unfold run_print. simpl. rewrite print_no_filter. reflexivity. Qed.

Theorem run_print_selection : forall entries f w,
  match f_expression f with
  | None => w = None
  | Some e => exists g, compile_expr e = Some g /\ w = Some g
  end ->
  close_before_open f = false ->
  let table := update (f_open f) (f_close f) (f_clear f) entries in
  (forall e, In e table -> raises w e = None) ->
  run_print compile_expr update entries (mkPrint (Some f)) = PrOk (filter (selected w) table).
Proof.
  intros entries f w Hw Hc table Hr. unfold run_print. cbn [p_from].
  destruct (f_expression f) as [e|].
  - destruct Hw as [g [Hg ->]]. rewrite Hg, Hc.
    fold table. rewrite (print_selection (Some g) table Hr). reflexivity.
  - subst w. rewrite Hc. fold table. rewrite (print_selection None table Hr). reflexivity.
Qed.

Theorem run_print_close_before_open : forall entries f,
  (forall e, f_expression f = Some e -> compile_expr e <> None) ->
  close_before_open f = true ->
  run_print compile_expr update entries (mkPrint (Some f)) = PrCompilationError.
Proof.
  intros entries f Hc Hb. unfold run_print. cbn [p_from].
  destruct (f_expression f) as [e|].
  - destruct (compile_expr e) eqn:Ce; [rewrite Hb; reflexivity|reflexivity].
  - rewrite Hb. reflexivity.
Qed.

End Print.

(* CLOSE without a date never trips the order check (9c21b78) *)
Lemma close_true_no_check : forall e o cl,
  close_before_open (mkFrom e o (Some CloseTrue) cl) = false.
Proof. intros e [o|] cl; reflexivity. Qed.

Lemma close_before_open_iff : forall e o c cl,
  close_before_open (mkFrom e (Some o) (Some (CloseOn c)) cl) = true <-> c < o.
Proof. intros. unfold close_before_open. simpl. lia. Qed.

(* -------------------------------------------- tie to the code (Gen/Templates.v) *)
(* Gen/Templates.v is regenerated on every run from the imported beanquery.  Editing a
   template in compiler.py, the keyword list of the grammar, or the way the WHERE clause /
   summary function is built breaks one of these lemmas. *)
From Verif Require Gen.Templates.

Definition subset (a b : list str) : bool := forallb (fun x => existsb (str_eqb x) b) a.

Lemma keywords_tie :
  subset Gen.Templates.keywords keywords && subset keywords Gen.Templates.keywords = true.
Proof. vm_compute. reflexivity. Qed.

(* the template texts of the code and of the model: same replacement fields, same tokens
   (white space is free) *)
Definition probe (t : list seg) : option (list token) :=
  lex (format t (fun n => s2z "zz_" ++ n ++ s2z "_zz")).

Lemma balances_template_tie : probe Gen.Templates.balances_template = probe balances_template
  /\ probe balances_template <> None.
Proof. split; [vm_compute; reflexivity | vm_compute; discriminate]. Qed.

Lemma journal_template_tie : probe Gen.Templates.journal_template = probe journal_template
  /\ probe journal_template <> None.
Proof. split; [vm_compute; reflexivity | vm_compute; discriminate]. Qed.

(* the real functions applied to the sentinel statements = the model applied to them *)
Lemma balances_cases_tie :
  Gen.Templates.balances_cases = map transform_balances Gen.Templates.balances_inputs.
Proof. vm_compute. reflexivity. Qed.

Lemma journal_cases_tie :
  Gen.Templates.journal_cases = map transform_journal Gen.Templates.journal_inputs.
Proof. vm_compute. reflexivity. Qed.

(* ... and these are the expansions of the property text *)
Lemma balances_cases_expected :
  Gen.Templates.balances_cases =
  map (fun b => TOk (expected_balances (b_summary_func b) (b_from b) (b_where b)))
      Gen.Templates.balances_inputs.
Proof. vm_compute. reflexivity. Qed.

Lemma journal_cases_expected :
  Gen.Templates.journal_cases =
  map (fun j => TOk (expected_journal (j_account j) (j_summary_func j) (j_from j)))
      Gen.Templates.journal_inputs.
Proof. vm_compute. reflexivity. Qed.

(* The caller's FROM / WHERE nodes are carried over as the SAME objects (Python `is`), not as
   copies: Compiler.compile numbers positional placeholders by id(node) on the statement as
   parsed, so a copied clause loses its %s parameters.  Observed on every sentinel statement. *)
Lemma clauses_shared_tie : Gen.Templates.clauses_shared = true.
Proof. vm_compute. reflexivity. Qed.

(* the sentinel set does contain patterns with a double quote, and the pre-fix model differs there *)
Lemma sentinels_cover_dquote :
  existsb (fun j => negb (no_dquote (or_empty (j_account j)))) Gen.Templates.journal_inputs = true.
Proof. vm_compute. reflexivity. Qed.

Lemma text_splice_breaks_tie :
  Gen.Templates.journal_cases <> map transform_journal_text_splice Gen.Templates.journal_inputs.
Proof. vm_compute. discriminate. Qed.
