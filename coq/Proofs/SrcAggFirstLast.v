(* Tie by translation (C12, bld-inv2; group `agginv`, Gen/SrcAggInv.v): `first` / `last` over Inventory / Position /
   Amount operands.

   1. Census.  query_env.First / Last are registered ONCE each, for [types.Any]; `first_last_overloads` is generated
      from EVERY overload the live query_compile.FUNCTIONS has under `first` / `last`, `first_last_dispatch` from what
      the live types.function_lookup returns for an operand of every datatype of the registry (and Inventory / Position
      / Amount): all of them are the two classes whose methods are translated here - there is no separate overload for
      inventories, hence no code of its own (no copy of the inventory) to translate.
   2. The methods of those two classes (`aggi_First_*`, `aggi_Last_*`, and the EvalAggregator methods they inherit,
      resolved through the live MRO - the same function objects group `agg` translates for C02) are tied on stores whose
      slots hold ENCODED inventories / positions / amounts (C02's theorems are over scalar `value` slots):
        initialize  puts None into the node's slot, every other slot untouched;
        First.update  if the slot is None: the operand's value on the row (evaluated ONLY then: `first(balance)` is
                      lazy), else nothing;   Last.update  the operand's value, always;
        the value is stored AS IS (no add_*, no copy: the term contains no method call on it);
      hence, by induction over the rows, the protocol run the way execute_select drives it (SrcAggInv.run_group)
      returns FirstLast.first_value / last_value of the group's values: the first non-NULL one (`first_some`) / the
      last one, for every store, handle and group; on a group of inventories: `hd` / `last` of the list.

   Operands are opaque pure callables of the row context, as in Proofs/SrcAggInv.v. *)
From Coq Require Import String ZArith List Bool Lia.
Import ListNotations.
From Verif Require Import Base.PyValue Model.Eval Model.PyMini Model.PrimsLedger Model.PrimsAgg Model.PrimsAggInv
  Model.Inventory Model.FirstLast Gen.SrcAggInv Proofs.PyMiniLemmas Proofs.PyMiniLemmas2 Proofs.SrcAggInv.
Open Scope string_scope.
Open Scope list_scope.
Open Scope Z_scope.

(* ------------------------------------------------------------------ census *)
Lemma first_last_overloads_table :
  first_last_overloads =
  [("first", "beanquery.query_env.First", "any", class_First);
   ("last", "beanquery.query_env.Last", "any", class_Last)].
Proof. vm_compute. reflexivity. Qed.

(* the methods behind the two classes: First / Last define initialize and update, the rest is EvalAggregator's - the
   SAME terms the inventory sums inherit (tied in Proofs/SrcAggInv.v) *)
Lemma first_last_methods :
  class_First = {| c_allocate := aggi_EvalAggregator_allocate; c_initialize := aggi_First_initialize;
                   c_update := aggi_First_update; c_finalize := aggi_EvalAggregator_finalize;
                   c_call := aggi_EvalAggregator_call |} /\
  class_Last = {| c_allocate := aggi_EvalAggregator_allocate; c_initialize := aggi_Last_initialize;
                  c_update := aggi_Last_update; c_finalize := aggi_EvalAggregator_finalize;
                  c_call := aggi_EvalAggregator_call |}.
Proof. split; reflexivity. Qed.

Definition dispatch_ok (x : string * string * string) : bool :=
  let '(name, _, cls) := x in
  (String.eqb name "first" && String.eqb cls "beanquery.query_env.First") ||
  (String.eqb name "last" && String.eqb cls "beanquery.query_env.Last").

(* every datatype of the registry dispatches `first` to First and `last` to Last; the three inventory types are among them *)
Lemma first_last_dispatch_all : forallb dispatch_ok first_last_dispatch = true.
Proof. vm_compute. reflexivity. Qed.

Lemma first_last_dispatch_inventory_types :
  forall name cls, (name = "first" /\ cls = "beanquery.query_env.First") \/ (name = "last" /\ cls = "beanquery.query_env.Last") ->
  In (name, "beancount.core.inventory.Inventory", cls) first_last_dispatch /\
  In (name, "beancount.core.position.Position", cls) first_last_dispatch /\
  In (name, "beancount.core.amount.Amount", cls) first_last_dispatch.
Proof.
  intros name cls [[-> ->]|[-> ->]]; repeat split;
    (apply (existsb_exists (fun x => let '(a, b, c) := x in String.eqb a _ && String.eqb b _ && String.eqb c _)
              first_last_dispatch) ||
     idtac).
  all: unfold first_last_dispatch; cbn [In]; repeat (first [left; reflexivity | right]).
Qed.

(* ------------------------------------------------------------------ model facts *)
Lemma first_fold_some o : forall vals, fold_left first_step vals (Some o) = Some o.
Proof. induction vals as [|v t IH]; cbn; auto. Qed.
Lemma first_value_first_some : forall vals, first_value vals = first_some vals.
Proof.
  unfold first_value. induction vals as [|[o|] t IH]; cbn; auto. apply first_fold_some.
Qed.
Lemma last_cons {A} : forall (t : list A) (v cur : A), last (v :: t) cur = last t v.
Proof.
  induction t as [|y t IH]; intros v cur; [reflexivity|].
  change (last (v :: y :: t) cur) with (last (y :: t) cur). rewrite (IH y cur), (IH y v). reflexivity.
Qed.
Lemma last_fold : forall vals cur, fold_left last_step vals cur = last vals cur.
Proof.
  induction vals as [|v t IH]; intros cur; [reflexivity|]. cbn [fold_left]. rewrite IH. unfold last_step.
  rewrite last_cons. reflexivity.
Qed.
Lemma last_value_last vals : last_value vals = last vals None.
Proof. apply last_fold. Qed.

(* a group of inventories (no NULLs): the first / the last of the list *)
Lemma first_value_inventories : forall (l : list inventory),
  first_value (map (fun i => Some (OInventory i)) l) = option_map OInventory (hd_error l).
Proof. intros l. rewrite first_value_first_some. destruct l; reflexivity. Qed.
Lemma last_value_inventories : forall (l : list inventory),
  last_value (map (fun i => Some (OInventory i)) l) = option_map OInventory (hd_error (rev l)).
Proof.
  intros l. rewrite last_value_last. induction l as [|x t IH] using rev_ind; [reflexivity|].
  rewrite map_app. cbn [map]. rewrite last_last, rev_unit. reflexivity.
Qed.

Local Arguments set_item : simpl never.
Local Arguments index_at : simpl never.
Local Arguments do_call : simpl never.

Lemma enc_operand_is_none v : pv_is_none (enc_operand v) = match v with None => true | Some _ => false end.
Proof. destruct v as [[a|p|i]|]; reflexivity. Qed.

Section Tie.
Variable call_ref : nat -> list pv -> pv.
Notation callm := (call_method call_ref prims_agginv).

Lemma index_at_0 (x : pv) l : index_at (x :: l) 0 = Ok x.
Proof. reflexivity. Qed.

(* ------------------------------------------------------------------ initialize *)
Theorem initialize_none_src : forall (f : fdef) (i kd ko : nat) (value : pv) (slots : list pv),
  f = aggi_First_initialize \/ f = aggi_Last_initialize ->
  (i < length slots)%nat ->
  callm f (inv_node i kd ko value) [PList slots] = Ok (inv_node i kd ko value, PList (set_nth i PNone slots)).
Proof.
  intros f i kd ko value slots [-> | ->] Hi; cbn; rewrite set_item_nat by exact Hi; reflexivity.
Qed.

(* ------------------------------------------------------------------ update *)
(* First: the operand is evaluated only when the slot is None *)
Theorem update_first_src : forall (i kd ko : nat) (value : pv) (slots : list pv) (ctx : pv) (cur v : option operand),
  (i < length slots)%nat -> nth i slots PNone = enc_operand cur ->
  (cur = None -> call_ref ko [ctx] = enc_operand v) ->
  callm aggi_First_update (inv_node i kd ko value) [PList slots; ctx] =
  Ok (inv_node i kd ko value, PList (set_nth i (enc_operand (first_step cur v)) slots)).
Proof.
  intros i kd ko value slots ctx cur v Hi Hb Hc.
  pose proof (enc_operand_is_none cur) as Hn.
  unfold call_method. cbn [bind_params f_params aggi_First_update f_body f_gen inv_node node_fields].
  cbn. rewrite (index_at_nat _ _ PNone) by exact Hi. cbn. rewrite Hb.
  destruct cur as [o|].
  - (* occupied: nothing happens, the operand is not called *)
    cbn [first_step]. remember (enc_operand (Some o)) as ec eqn:Eec.
    cbn. rewrite Hn. cbn. rewrite <- Hb, set_nth_same. reflexivity.
  - cbn [first_step enc_operand]. cbn. rewrite index_at_0. cbn.
    rewrite (enc_operand_ok call_ref ko v ctx (Hc eq_refl)). remember (enc_operand v) as ev eqn:Eev. cbn.
    rewrite set_item_nat by exact Hi. reflexivity.
Qed.

Theorem update_last_src : forall (i kd ko : nat) (value : pv) (slots : list pv) (ctx : pv) (cur v : option operand),
  (i < length slots)%nat -> call_ref ko [ctx] = enc_operand v ->
  callm aggi_Last_update (inv_node i kd ko value) [PList slots; ctx] =
  Ok (inv_node i kd ko value, PList (set_nth i (enc_operand (last_step cur v)) slots)).
Proof.
  intros i kd ko value slots ctx cur v Hi Hc. unfold last_step.
  unfold call_method. cbn [bind_params f_params aggi_Last_update f_body f_gen inv_node node_fields].
  cbn. rewrite index_at_0. cbn.
  rewrite (enc_operand_ok call_ref ko v ctx Hc). remember (enc_operand v) as ev eqn:Eev. cbn.
  rewrite set_item_nat by exact Hi. reflexivity.
Qed.

(* ------------------------------------------------------------------ the protocol over the rows of one group *)
Inductive fl := FFirst | FLast.
Definition fl_class (k : fl) : aggcls := match k with FFirst => class_First | FLast => class_Last end.
Definition fl_step (k : fl) := match k with FFirst => first_step | FLast => last_step end.
Definition fl_value (k : fl) := match k with FFirst => first_value | FLast => last_value end.

Lemma fl_class_registered k : In (fl_class k) (map snd first_last_overloads).
Proof. destruct k; cbn; auto. Qed.

Lemma update_fl_src : forall (k : fl) (i kd ko : nat) (value : pv) (slots : list pv) (ctx : pv) (cur v : option operand),
  (i < length slots)%nat -> nth i slots PNone = enc_operand cur -> call_ref ko [ctx] = enc_operand v ->
  callm (c_update (fl_class k)) (inv_node i kd ko value) [PList slots; ctx] =
  Ok (inv_node i kd ko value, PList (set_nth i (enc_operand (fl_step k cur v)) slots)).
Proof.
  intros [|] i kd ko value slots ctx cur v Hi Hb Hc.
  - apply update_first_src; auto.
  - apply update_last_src; auto.
Qed.

Lemma updates_fold_fl : forall (k : fl) (i kd ko : nat) (value : pv) (ctxs : list pv) (vals : list (option operand)),
  operands_on call_ref ko ctxs vals ->
  forall (slots : list pv) (cur : option operand),
  (i < length slots)%nat -> nth i slots PNone = enc_operand cur ->
  run_updates call_ref (c_update (fl_class k)) (inv_node i kd ko value) (PList slots) ctxs =
  Ok (inv_node i kd ko value, PList (set_nth i (enc_operand (fold_left (fl_step k) vals cur)) slots)).
Proof.
  intros k i kd ko value ctxs vals Hop. induction Hop as [|c v ctxs vals Hc Hop IH]; intros slots cur Hi Hb.
  - cbn [run_updates fold_left]. rewrite <- Hb, set_nth_same. reflexivity.
  - cbn [run_updates fold_left].
    rewrite (update_fl_src k i kd ko value slots c cur v Hi Hb Hc).
    cbn [bind]. rewrite (IH _ (fl_step k cur v)).
    + rewrite set_nth_set_nth. reflexivity.
    + rewrite set_nth_length. exact Hi.
    + apply nth_set_nth. exact Hi.
Qed.

(* THE FOLD: for every store, handle and group the cell of first(x) / last(x) is first_value / last_value of the group's
   values, the node's slot holds it (the value itself, as the operand returned it), no other slot has changed *)
Theorem first_last_fold_src : forall (k : fl) (i kd ko : nat) (value : pv) (slots : list pv) (ctxs : list pv) (ctx : pv)
    (vals : list (option operand)),
  (i < length slots)%nat -> operands_on call_ref ko ctxs vals ->
  run_group call_ref (fl_class k) (inv_node i kd ko value) (PList slots) ctxs ctx =
  Ok (inv_node i kd ko (enc_operand (fl_value k vals)),
      PList (set_nth i (enc_operand (fl_value k vals)) slots),
      enc_operand (fl_value k vals)).
Proof.
  intros k i kd ko value slots ctxs ctx vals Hi Hop. unfold run_group.
  replace (c_finalize (fl_class k)) with aggi_EvalAggregator_finalize by (destruct k; reflexivity).
  replace (c_call (fl_class k)) with aggi_EvalAggregator_call by (destruct k; reflexivity).
  rewrite (initialize_none_src (c_initialize (fl_class k)) i kd ko value slots) by (destruct k; auto).
  cbn [bind].
  rewrite (updates_fold_fl k i kd ko value ctxs vals Hop (set_nth i PNone slots) None)
    by (rewrite ?set_nth_length; try exact Hi; apply nth_set_nth; exact Hi).
  cbn [bind]. rewrite set_nth_set_nth.
  rewrite finalize_src by (rewrite set_nth_length; exact Hi). cbn [bind].
  rewrite nth_set_nth by exact Hi. rewrite call_src.
  replace (fold_left (fl_step k) vals None) with (fl_value k vals) by (destruct k; reflexivity).
  reflexivity.
Qed.
End Tie.

(* a group of inventories: first(inv) is the inventory of the group's first row, last(inv) that of its last row *)
Theorem first_inventory_src : forall (call_ref : nat -> list pv -> pv) (i kd ko : nat) (value : pv) (slots ctxs : list pv)
    (ctx : pv) (x : inventory) (l : list inventory),
  (i < length slots)%nat ->
  operands_on call_ref ko ctxs (map (fun i => Some (OInventory i)) (x :: l)) ->
  run_group call_ref class_First (inv_node i kd ko value) (PList slots) ctxs ctx =
  Ok (inv_node i kd ko (Inv.enc_inv x), PList (set_nth i (Inv.enc_inv x) slots), Inv.enc_inv x).
Proof.
  intros call_ref i kd ko value slots ctxs ctx x l Hi Hop.
  change class_First with (fl_class FFirst).
  rewrite (first_last_fold_src call_ref FFirst i kd ko value slots ctxs ctx _ Hi Hop).
  cbn [fl_value]. rewrite first_value_inventories. reflexivity.
Qed.

Theorem last_inventory_src : forall (call_ref : nat -> list pv -> pv) (i kd ko : nat) (value : pv) (slots ctxs : list pv)
    (ctx : pv) (x : inventory) (l : list inventory),
  (i < length slots)%nat ->
  operands_on call_ref ko ctxs (map (fun i => Some (OInventory i)) (x :: l)) ->
  run_group call_ref class_Last (inv_node i kd ko value) (PList slots) ctxs ctx =
  Ok (inv_node i kd ko (Inv.enc_inv (last l x)), PList (set_nth i (Inv.enc_inv (last l x)) slots), Inv.enc_inv (last l x)).
Proof.
  intros call_ref i kd ko value slots ctxs ctx x l Hi Hop.
  change class_Last with (fl_class FLast).
  rewrite (first_last_fold_src call_ref FLast i kd ko value slots ctxs ctx _ Hi Hop).
  cbn [fl_value]. rewrite last_value_last.
  assert (E : last (map (fun i0 => Some (OInventory i0)) (x :: l)) None = Some (OInventory (last l x))).
  { clear. cbn [map]. rewrite last_cons. revert x. induction l as [|y t IH]; intros x; [reflexivity|].
    cbn [map]. rewrite !last_cons. apply IH. }
  rewrite E. reflexivity.
Qed.
