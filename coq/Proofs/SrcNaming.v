(* Tie by translation, C07: the PyMini term generated on every run from the CURRENT source of
   compiler.get_target_name (Gen/SrcNaming.v) computes Model/Naming.target_name for every parsed target. *)
From Coq Require Import String Ascii ZArith List Bool Lia.
Import ListNotations.
From Verif Require Import Base.PyValue Model.Eval Model.PyMini Model.PrimsApi Proofs.SrcApi.
From Verif Require Import Model.Naming Gen.SrcNaming.
Open Scope string_scope.
Open Scope list_scope.
Open Scope Z_scope.


Definition column_tag : list Z := zs "beanquery.parser.ast.Column".
Definition target_tag : list Z := zs "beanquery.parser.ast.Target".

(* a parsed target as the object get_target_name reads: .name (the AS alias or None), .expression - a Column node
   with its .name, or a node of any other class (tag) - and the expression's source text *)
Definition enc_target (tag : list Z) (t : ptarget) : pv :=
  record target_tag
    [("name", match p_alias t with Some a => PV (VStr a) | None => PNone end);
     ("expression",
      match p_column t with
      | Some c => record column_tag [("name", PV (VStr c)); ("text", PV (VStr (p_text t)))]
      | None => record tag [("text", PV (VStr (p_text t)))]
      end)].

Definition naming_lib : strlib :=
  {| sl_strip := Naming.strip; sl_lower := fun s => s; sl_parseline := fun _ => None; sl_getattr := fun _ => None;
     sl_ext := no_ext |}.

Theorem target_name_src : forall call_ref msg tag t,
  zeqb tag column_tag = false ->                      (* the class of a non-Column expression node *)
  call_function call_ref (prim_api naming_lib msg) get_target_name [enc_target tag t] =
  Ok (PV (VStr (target_name t))).
Proof.
  intros call_ref msg tag [[a|] [c|] text] Htag; try reflexivity.
  unfold column_tag in Htag. cbn in Htag.
  cbn -[Naming.strip]. unfold isinstance, is_a. cbn -[Naming.strip]. rewrite Htag. reflexivity.
Qed.
