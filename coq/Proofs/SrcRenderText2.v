(* Tie by translation (C16): query_render.render_text (Gen/SrcRender.v render_text_fn), the whole function.
   After the first six statements (Proofs/SrcRenderText.v: renderers primed, widths = Render.table_widths) the translated
   body selects the table style (boxed / unicode: frmt, colsep, top, hline, bottom), writes top, the header line
   (header[:width].center(width) joined with colsep inside frmt), hline, one padded line per line of render_rows
   (ljust / rjust by the column's alignment) and bottom.  Proved here: for all options, descriptions and rows the text
   appended to the file is exactly  unlines (Render.text_lines o desc rows)  = the text of Render.render_text. *)
From Coq Require Import String ZArith List Bool Lia Arith.
Import ListNotations.
From Verif Require Import Base.PyValue Model.Eval Model.PyMini Model.Render Model.PrimsRender Gen.SrcRender
  Proofs.PyMiniLemmas Proofs.PyMiniLemmas2 Proofs.SrcRenderTop Proofs.SrcRenderCsv Proofs.SrcRenderText.
Open Scope string_scope.
Open Scope Z_scope.
Open Scope list_scope.

Ltac step_env := repeat (rewrite ?lookup_update_eq; rewrite ?lookup_update_neq by reflexivity).

Definition text_rest : list stmt := Eval cbv in skipn 6 (f_body render_text_fn).
Lemma text_body_split : f_body render_text_fn = text_prefix ++ text_rest.
Proof. reflexivity. Qed.

Definition style_if : stmt := Eval cbv in nth 0 text_rest SPass.
Definition header_expr : expr :=
  Eval cbv in match nth 2 text_rest SPass with SExpr (XMethod _ _ [e]) => e | _ => XConst PNone end.
Definition header_comp : expr :=
  Eval cbv in match header_expr with XCallMethod _ _ [XCallMethod _ _ [e]] => e | _ => XConst PNone end.
Definition row_body : list stmt := Eval cbv in match nth 4 text_rest SPass with SFor _ _ b => b | _ => [] end.
Definition row_expr : expr :=
  Eval cbv in match nth 0 row_body SPass with SExpr (XMethod _ _ [e]) => e | _ => XConst PNone end.
Definition row_comp : expr :=
  Eval cbv in match row_expr with XCallMethod _ _ [XCallMethod _ _ [e]] => e | _ => XConst PNone end.

Lemma text_rest_shape : text_rest =
  [style_if;
   SExpr (XMethod (TName "file") "write" [XName "top"]);
   SExpr (XMethod (TName "file") "write"
            [XCallMethod (XName "frmt") "format" [XCallMethod (XName "colsep") "join" [header_comp]]]);
   SExpr (XMethod (TName "file") "write" [XName "hline"]);
   SFor "row" (XCall (XConst (PRef 1)) [XName "rows"; XName "renderers"; XName "ctx"] None)
     [SExpr (XMethod (TName "file") "write"
               [XCallMethod (XName "frmt") "format" [XCallMethod (XName "colsep") "join" [row_comp]]])];
   SExpr (XMethod (TName "file") "write" [XName "bottom"])].
Proof. reflexivity. Qed.

(* ---- lists and strings *)
Lemma firstn_min {A} (l : list A) (w : nat) : firstn (Nat.min w (length l)) l = firstn w l.
Proof.
  destruct (Nat.le_ge_cases w (length l)) as [H|H].
  - now rewrite Nat.min_l by exact H.
  - rewrite Nat.min_r by exact H. rewrite firstn_all. symmetry. now apply firstn_all2.
Qed.

Lemma slice_upto (x : str) (w : nat) : slice_list x None (Some (Z.of_nat w)) = firstn w x.
Proof.
  unfold slice_list, clipz.
  assert (E : (Z.of_nat w <? 0) = false) by (apply Z.ltb_ge; lia). rewrite E.
  cbn [skipn Z.to_nat]. rewrite Z.sub_0_r, <- Nat2Z.inj_min, Nat2Z.id. apply firstn_min.
Qed.

Lemma rjust_fill_empty (w : nat) (c : Z) : rjust_fill (Z.to_nat (Z.of_nat w)) c [] = repeat c w.
Proof. unfold rjust_fill. rewrite Nat2Z.id. cbn [length]. now rewrite Nat.sub_0_r, app_nil_r. Qed.

(* the model's rjust is the primitive's with the space as fill character *)
Lemma rjust_fill_space (w : nat) (s : str) : rjust_fill w 32 s = rjust w s.
Proof. reflexivity. Qed.

Lemma unlines_app a b : unlines (a ++ b) = unlines a ++ unlines b.
Proof. unfold unlines. apply flat_map_app. Qed.

Lemma dec_s_inv : forall l cells, n_map_opt dec_s l = Some cells -> l = map enc_s cells.
Proof.
  induction l as [|v l IH]; intros cells H; cbn in H.
  - injection H as <-. reflexivity.
  - destruct v as [[]| | | |]; try discriminate. cbn in H.
    destruct (n_map_opt dec_s l) eqn:E; [|discriminate]. injection H as <-. cbn [map enc_s]. now rewrite (IH l0 eq_refl).
Qed.

Lemma line_of_inv v cells : line_of v = Some cells -> seq_of v = Some (map enc_s cells).
Proof. unfold line_of. destruct (seq_of v) as [l|]; [|discriminate]. intros H. now rewrite (dec_s_inv l cells H). Qed.

Lemma exec_block_app call_ref prim : forall l1 l2 s,
  exec_block call_ref prim s (l1 ++ l2) =
  bind (exec_block call_ref prim s l1)
       (fun o => match o with Next s1 => exec_block call_ref prim s1 l2 | Ret _ _ => Ok o end).
Proof.
  induction l1 as [|c t IH]; intros l2 s; [reflexivity|].
  cbn [app]. rewrite !exec_block_cons. destruct (exec call_ref prim s c) as [[s1|s1 v]| |]; cbn [bind]; auto.
Qed.

Lemma eval_callmethod1 call_ref prim ob m a s s1 s2 ov av :
  PyMini.eval call_ref prim s ob = Ok (s1, ov) -> PyMini.eval call_ref prim s1 a = Ok (s2, av) ->
  PyMini.eval call_ref prim s (XCallMethod ob m [a]) = bind (prim (String.append "call:" m) [ov; av]) (fun r => Ok (s2, r)).
Proof. intros H1 H2. cbn [PyMini.eval]. rewrite H1. cbn [bind]. rewrite H2. reflexivity. Qed.

Lemma eval_method1 call_ref prim t m a s s1 v recv recv' x :
  PyMini.eval call_ref prim s a = Ok (s1, v) -> read s1 t = Ok recv ->
  method_call prim m recv [v] = Ok (recv', x) ->
  PyMini.eval call_ref prim s (XMethod t m [a]) = Ok (write s1 t recv', x).
Proof. intros H1 H2 H3. cbn [PyMini.eval]. rewrite H1. cbn [bind]. rewrite H2. cbn [bind]. rewrite H3. reflexivity. Qed.

Lemma eval_prim3 call_ref prim name a b c s s1 s2 s3 v w u :
  PyMini.eval call_ref prim s a = Ok (s1, v) -> PyMini.eval call_ref prim s1 b = Ok (s2, w) ->
  PyMini.eval call_ref prim s2 c = Ok (s3, u) ->
  PyMini.eval call_ref prim s (XPrim name [a; b; c]) = bind (prim name [v; w; u]) (fun r => Ok (s3, r)).
Proof. intros H1 H2 H3. cbn [PyMini.eval]. rewrite H1. cbn [bind]. rewrite H2. cbn [bind]. rewrite H3. reflexivity. Qed.

Lemma eval_slice_hi call_ref prim a hi s s1 s2 x z :
  PyMini.eval call_ref prim s a = Ok (s1, PV (VStr x)) -> PyMini.eval call_ref prim s1 hi = Ok (s2, PV (VInt z)) ->
  PyMini.eval call_ref prim s (XSlice a None (Some hi)) = Ok (s2, PV (VStr (slice_list x None (Some z)))).
Proof. intros H1 H2. cbn [PyMini.eval]. rewrite H1. cbn [bind]. rewrite H2. reflexivity. Qed.

Lemma eval_compare_const call_ref prim a op bv s s1 av r :
  PyMini.eval call_ref prim s a = Ok (s1, av) -> compare1 op av bv = Ok r ->
  PyMini.eval call_ref prim s (XCompare a [(op, XConst bv)]) = Ok (s1, PBool r).
Proof. intros H1 H2. cbn [PyMini.eval]. rewrite H1. cbn [bind PyMini.eval]. rewrite H2. destruct r; reflexivity. Qed.

Lemma eval_ifexp call_ref prim c a b s s1 cv t :
  PyMini.eval call_ref prim s c = Ok (s1, cv) -> pv_truthy cv = Ok t ->
  PyMini.eval call_ref prim s (XIfExp c a b) = if t then PyMini.eval call_ref prim s1 a else PyMini.eval call_ref prim s1 b.
Proof. intros H1 H2. cbn [PyMini.eval]. rewrite H1. cbn [bind]. rewrite H2. reflexivity. Qed.

Lemma item_idx call_ref prim loc l z x : index_at l z = Ok x ->
  PyMini.eval call_ref prim {| locals := update "$item" (PTuple l) loc; fields := [] |}
    (XIndex (XName "$item") (XConst (PV (VInt z)))) =
  Ok ({| locals := update "$item" (PTuple l) loc; fields := [] |}, x).
Proof. intros H. cbn [PyMini.eval read locals bind]. rewrite lookup_update_eq. cbn [bind]. rewrite H. reflexivity. Qed.

Section Text2.
Variable call_ref : nat -> list pv -> pv.
Variable quant : dec -> str -> dec.
Variable numfmt : list (dec * str) -> dec -> str -> str.
Notation PT := (prims_top quant numfmt).
Variables (dc : pv) (o : opts).
Notation ctx := (enc_ctx dc o).
Notation rnd := (rend dc o).
Hypothesis Hget : forall t c, call_ref 0 [enc_rdtype t; c] = robj t c [].
Hypothesis Hrr : forall a b c, call_ref 1 [a; b; c] = res_val (call_function call_ref PT render_rows_fn [a; b; c]).

(* ---- the primitives render_text uses *)
Lemma truth_prim b : PT "truth" [PBool b] = Ok (PBool b). Proof. reflexivity. Qed.
Lemma rjustfill_prim (w : nat) c : PT "call:rjust" [enc_s []; PInt (Z.of_nat w); enc_s [c]] = Ok (enc_s (repeat c w)).
Proof. cbn -[Z.of_nat Z.to_nat rjust_fill]. now rewrite rjust_fill_empty. Qed.
Lemma join_prim sep ss : PT "call:join" [enc_s sep; PList (map enc_s ss)] = Ok (enc_s (join sep ss)).
Proof. cbn -[n_map_opt join]. now rewrite dec_enc_strs. Qed.
Lemma format_tmpl_prim t x : PT "call:format" [enc_s t; enc_s x] =
  match fmt1 t x with Some y => Ok (enc_s y) | None => Stuck end.
Proof. reflexivity. Qed.
Lemma center_prim s (w : nat) : PT "call:center" [enc_s s; PInt (Z.of_nat w)] = Ok (enc_s (center w s)).
Proof. cbn -[Z.of_nat Z.to_nat center]. now rewrite Nat2Z.id. Qed.
Lemma ljust_prim s (w : nat) : PT "call:ljust" [enc_s s; PInt (Z.of_nat w)] = Ok (enc_s (ljust w s)).
Proof. cbn -[Z.of_nat Z.to_nat ljust]. now rewrite Nat2Z.id. Qed.
Lemma rjust_prim s (w : nat) : PT "call:rjust" [enc_s s; PInt (Z.of_nat w)] = Ok (enc_s (rjust w s)).
Proof. cbn -[Z.of_nat Z.to_nat rjust]. now rewrite Nat2Z.id. Qed.
Lemma write_call f x : method_call PT "write" (enc_s f) [enc_s x] = Ok (enc_s (f ++ x), PInt (Z.of_nat (length x))).
Proof. reflexivity. Qed.
Lemma zip3_prim a b c x y z : seq_of a = Some x -> seq_of b = Some y -> seq_of c = Some z ->
  PT "builtins.zip" [a; b; c] = Ok (PList (zip3 x y z)).
Proof. intros Ha Hb Hc. cbn -[seq_of]. now rewrite Ha, Hb, Hc. Qed.

(* ---- the table style *)
Definition tmpl : str :=
  if o_boxed o then (if o_unicode o then [9474; 32; 123; 125; 32; 9474; 10] else [124; 32; 123; 125; 32; 124; 10])
  else [123; 125; 10].
Lemma fmt_tmpl s : fmt1 tmpl s = Some (frmt o s ++ [10]).
Proof.
  unfold tmpl, frmt, u_v. destruct (o_boxed o); [destruct (o_unicode o)|]; cbn -[app]; rewrite <- ?app_assoc; reflexivity.
Qed.
Definition top_str (ws : list nat) : str := if o_boxed o then top_line o ws ++ [10] else [].
Definition bot_str (ws : list nat) : str := if o_boxed o then bottom_line o ws ++ [10] else [].

Definition enc_w (w : nat) : pv := PInt (Z.of_nat w).

Local Arguments prims_top : simpl never.
Local Arguments Z.of_nat : simpl never.
Local Arguments Z.to_nat : simpl never.
Local Arguments join : simpl never.
Local Arguments fmt1 : simpl never.
Local Arguments enc_s : simpl never.

(* [''.rjust(width, c) for width in widths] *)
Lemma lines_eval (cexpr : expr) (c : Z) loc ws :
  lookup "widths" loc = Some (PList (map enc_w ws)) ->
  (forall v, PyMini.eval call_ref PT {| locals := update "width" v loc; fields := [] |} cexpr =
             Ok ({| locals := update "width" v loc; fields := [] |}, enc_s [c])) ->
  PyMini.eval call_ref PT {| locals := loc; fields := [] |}
    (XListComp (XCallMethod (XConst (PV (VStr []))) "rjust" [XName "width"; cexpr]) "width" (XName "widths") None) =
  Ok ({| locals := loc; fields := [] |}, PList (map enc_s (map (fun w => repeat c w) ws))).
Proof.
  intros Hw Hc. erewrite eval_listcomp; [|cbn; rewrite Hw; reflexivity].
  rewrite (map_res_map_ok' enc_w _ (fun w => enc_s (repeat c w))).
  - cbn [bind]. now rewrite map_map.
  - intros w _. cbn [write locals fields]. cbn -[PyMini.eval]. cbn [PyMini.eval read locals bind]. step_env.
    cbn [bind]. rewrite Hc. cbn [bind String.append]. change (PV (VStr [])) with (enc_s []). unfold enc_w.
    rewrite rjustfill_prim. reflexivity.
Qed.

Definition style_keep (loc loc' : env) : Prop :=
  forall x, String.eqb x "frmt" = false -> String.eqb x "colsep" = false -> String.eqb x "top" = false ->
            String.eqb x "hline" = false -> String.eqb x "bottom" = false -> String.eqb x "lines" = false ->
            lookup x loc' = lookup x loc.

Ltac keep_style := let x := fresh "x" in intros x ? ? ? ? ? ?;
  repeat (rewrite lookup_update_neq by assumption); reflexivity.

Lemma style_exec loc ws :
  lookup "widths" loc = Some (PList (map enc_w ws)) ->
  lookup "boxed" loc = Some (PBool (o_boxed o)) -> lookup "unicode" loc = Some (PBool (o_unicode o)) ->
  exists loc',
    PyMini.exec call_ref PT {| locals := loc; fields := [] |} style_if = Ok (Next {| locals := loc'; fields := [] |}) /\
    lookup "frmt" loc' = Some (enc_s tmpl) /\ lookup "colsep" loc' = Some (enc_s (colsep o)) /\
    lookup "top" loc' = Some (enc_s (top_str ws)) /\ lookup "hline" loc' = Some (enc_s (h_line o ws ++ [10])) /\
    lookup "bottom" loc' = Some (enc_s (bot_str ws)) /\ style_keep loc loc'.
Proof.
  intros Hw Hb Hu. unfold style_if.
  erewrite exec_if; [|erewrite eval_prim1; [|apply eval_name; exact Hb]; rewrite truth_prim; reflexivity|reflexivity].
  cbn [truthy].
  unfold tmpl, top_str, bot_str, h_line, top_line, bottom_line, rule_line, rule_char, colsep, u_v, u_h.
  destruct (o_boxed o).
  - rewrite exec_block_cons.
    erewrite exec_if; [|erewrite eval_prim1; [|apply eval_name; exact Hu]; rewrite truth_prim; reflexivity|reflexivity].
    cbn [truthy].
    destruct (o_unicode o).
    + (* boxed, unicode *)
      rewrite exec_block_cons. erewrite exec_assign; [|reflexivity]. cbn [bind write locals fields].
      rewrite exec_block_cons. erewrite exec_assign; [|reflexivity]. cbn [bind write locals fields].
      rewrite exec_block_cons.
      erewrite exec_assign; [|apply (lines_eval _ 9472 _ ws); [step_env; exact Hw|reflexivity]].
      cbn [bind write locals fields].
      do 3 (rewrite exec_block_cons;
            erewrite exec_assign;
              [|cbn [PyMini.eval read locals bind]; step_env; cbn [bind String.append];
                change (PV (VStr ?x)) with (enc_s x); rewrite join_prim; cbn [bind]; rewrite format_tmpl_prim;
                cbn [fmt1 Z.eqb Pos.eqb andb negb existsb is_brace orb option_map]; reflexivity];
            cbn [bind write locals fields]).
      rewrite !exec_block_nil. cbn [bind]. rewrite exec_block_nil.
      eexists. split; [reflexivity|]. step_env.
      repeat split; try (cbn [app]; rewrite <- ?app_assoc; reflexivity). keep_style.
    + (* boxed, ascii *)
      rewrite exec_block_cons. erewrite exec_assign; [|reflexivity]. cbn [bind write locals fields].
      rewrite exec_block_cons. erewrite exec_assign; [|reflexivity]. cbn [bind write locals fields].
      rewrite exec_block_cons.
      erewrite exec_assign.
      2:{ erewrite eval_callmethod1; [|reflexivity|].
          2:{ erewrite eval_callmethod1; [|reflexivity|apply (lines_eval _ 45 _ ws); [step_env; exact Hw|reflexivity]].
              cbn [String.append]. change (PV (VStr ?x)) with (enc_s x). rewrite join_prim. reflexivity. }
          cbn [bind String.append]. change (PV (VStr ?x)) with (enc_s x).
          rewrite format_tmpl_prim. cbn [fmt1 Z.eqb Pos.eqb andb negb existsb is_brace orb option_map]. reflexivity. }
      cbn [bind write locals fields].
      do 2 (rewrite exec_block_cons; erewrite exec_assign; [|apply eval_name; cbn [locals]; step_env; reflexivity];
            cbn [bind write locals fields]).
      rewrite !exec_block_nil. cbn [bind]. rewrite exec_block_nil.
      eexists. split; [reflexivity|]. step_env.
      repeat split; try (cbn [app]; rewrite <- ?app_assoc; reflexivity). keep_style.
  - (* not boxed *)
    do 3 (rewrite exec_block_cons; erewrite exec_assign; [|reflexivity]; cbn [bind write locals fields]).
    rewrite exec_block_cons. erewrite exec_assign; [|apply eval_name; cbn [locals]; step_env; reflexivity].
    cbn [bind write locals fields].
    rewrite exec_block_cons.
    erewrite exec_assign.
    2:{ erewrite eval_callmethod1; [|reflexivity|].
        2:{ erewrite eval_callmethod1; [|apply eval_name; cbn [locals]; step_env; reflexivity|
              apply (lines_eval _ (if o_unicode o then 9472 else 45) _ ws); [step_env; exact Hw|]].
            2:{ intros v. cbn [PyMini.eval read locals bind]. step_env. rewrite Hu. cbn [bind]. rewrite truth_prim.
                cbn [bind pv_truthy truthy PBool]. destruct (o_unicode o); reflexivity. }
            cbn [String.append]. change (PV (VStr ?x)) with (enc_s x). rewrite join_prim. reflexivity. }
        cbn [bind String.append]. change (PV (VStr ?x)) with (enc_s x).
        rewrite format_tmpl_prim. cbn [fmt1 Z.eqb Pos.eqb andb negb existsb is_brace orb option_map]. reflexivity. }
    cbn [bind write locals fields]. rewrite exec_block_nil.
    eexists. split; [reflexivity|]. step_env.
    repeat split; try (destruct (o_unicode o); reflexivity). keep_style.
Qed.

(* ---- frmt.format(colsep.join(parts)) and file.write *)
Lemma fmt_join_eval loc e ss :
  lookup "frmt" loc = Some (enc_s tmpl) -> lookup "colsep" loc = Some (enc_s (colsep o)) ->
  PyMini.eval call_ref PT {| locals := loc; fields := [] |} e = Ok ({| locals := loc; fields := [] |}, PList (map enc_s ss)) ->
  PyMini.eval call_ref PT {| locals := loc; fields := [] |}
    (XCallMethod (XName "frmt") "format" [XCallMethod (XName "colsep") "join" [e]]) =
  Ok ({| locals := loc; fields := [] |}, enc_s (frmt o (join (colsep o) ss) ++ [10])).
Proof.
  intros Hf Hc He.
  erewrite eval_callmethod1; [|apply eval_name; exact Hf|].
  2:{ erewrite eval_callmethod1; [|apply eval_name; exact Hc|exact He]. cbn [String.append]. rewrite join_prim. reflexivity. }
  cbn [String.append]. rewrite format_tmpl_prim, fmt_tmpl. reflexivity.
Qed.

Lemma write_stmt loc e f x :
  PyMini.eval call_ref PT {| locals := loc; fields := [] |} e = Ok ({| locals := loc; fields := [] |}, enc_s x) ->
  lookup "file" loc = Some (enc_s f) ->
  PyMini.exec call_ref PT {| locals := loc; fields := [] |} (SExpr (XMethod (TName "file") "write" [e])) =
  Ok (Next {| locals := update "file" (enc_s (f ++ x)) loc; fields := [] |}).
Proof.
  intros He Hf. cbn [PyMini.exec].
  erewrite eval_method1; [|exact He|cbn [read locals]; rewrite Hf; reflexivity|apply write_call]. reflexivity.
Qed.

(* ---- the header cells: header[:width].center(width) for header, width in zip(headers, widths) *)
Local Arguments center : simpl never.
Local Arguments firstn : simpl never.

Lemma header_eval hs ws loc :
  lookup "headers" loc = Some (PList (map enc_s hs)) -> lookup "widths" loc = Some (PList (map enc_w ws)) ->
  PyMini.eval call_ref PT {| locals := loc; fields := [] |} header_comp =
  Ok ({| locals := loc; fields := [] |}, PList (map enc_s (map2 (fun h w => center w (firstn w h)) hs ws))).
Proof.
  intros Hh Hw. unfold header_comp.
  erewrite eval_listcomp; [|erewrite eval_prim2; [|apply eval_name; exact Hh|apply eval_name; exact Hw]; reflexivity].
  match goal with |- bind ?m _ = _ =>
    assert (E : m = Ok (map enc_s (map2 (fun h w => center w (firstn w h)) hs ws))) end.
  { clear Hh Hw. revert ws. induction hs as [|h hs IH]; intros ws; [reflexivity|].
    destruct ws as [|w ws]; [reflexivity|]. cbn [map zip2 map2 map_res write locals fields].
    erewrite eval_callmethod1.
    2:{ erewrite eval_slice_hi; [|apply item_idx; reflexivity|apply item_idx; reflexivity]. reflexivity. }
    2:{ apply item_idx; reflexivity. }
    cbn [String.append]. rewrite slice_upto. change (PV (VStr ?x)) with (enc_s x). unfold enc_w at 1. rewrite center_prim.
    cbn [bind snd]. rewrite IH. reflexivity. }
  rewrite E. reflexivity.
Qed.

(* ---- the cells of one line: x.ljust(w) if a == Align.LEFT else x.rjust(w) for x, w, a in zip(row, widths, alignment) *)
Definition aenc (a : align) : pv := PInt (match a with ARight => 1 | ALeft => 0 end).
Local Arguments ljust : simpl never.
Local Arguments rjust : simpl never.

Lemma row_eval cells ws als loc v :
  seq_of v = Some (map enc_s cells) -> lookup "row" loc = Some v ->
  lookup "widths" loc = Some (PList (map enc_w ws)) -> lookup "alignment" loc = Some (PList (map aenc als)) ->
  PyMini.eval call_ref PT {| locals := loc; fields := [] |} row_comp =
  Ok ({| locals := loc; fields := [] |},
      PList (map enc_s (map2 (fun (x : str) (wa : nat * align) => Render.pad (snd wa) (fst wa) x) cells (combine ws als)))).
Proof.
  intros Hv Hr Hw Ha. unfold row_comp.
  erewrite eval_listcomp.
  2:{ erewrite eval_prim3; [|apply eval_name; exact Hr|apply eval_name; exact Hw|apply eval_name; exact Ha].
      rewrite (zip3_prim v (PList (map enc_w ws)) (PList (map aenc als)) _ _ _ Hv eq_refl eq_refl). reflexivity. }
  match goal with |- bind ?m _ = _ =>
    assert (E : m = Ok (map enc_s (map2 (fun (x : str) (wa : nat * align) => Render.pad (snd wa) (fst wa) x)
                                        cells (combine ws als)))) end.
  { clear Hv Hr Hw Ha. revert ws als. induction cells as [|c cells IH]; intros ws als; [reflexivity|].
    destruct ws as [|w ws]; [reflexivity|]. destruct als as [|a als]; [reflexivity|].
    cbn [map zip3 map2 combine map_res write locals fields fst snd].
    erewrite eval_ifexp.
    2:{ eapply eval_compare_const with (r := match a with ALeft => true | ARight => false end);
          [apply item_idx; reflexivity|]. unfold aenc. destruct a; reflexivity. }
    2:{ reflexivity. }
    cbn [truthy]. destruct a; cbn [Render.pad].
    - erewrite eval_callmethod1; [|apply item_idx; reflexivity|apply item_idx; reflexivity].
      cbn [String.append]. unfold enc_w at 1. rewrite ljust_prim. cbn [bind snd]. rewrite IH. reflexivity.
    - erewrite eval_callmethod1; [|apply item_idx; reflexivity|apply item_idx; reflexivity].
      cbn [String.append]. unfold enc_w at 1. rewrite rjust_prim. cbn [bind snd]. rewrite IH. reflexivity. }
  rewrite E. reflexivity.
Qed.

(* ---- the loop over the lines of render_rows *)
Definition text_inv (ws : list nat) (als : list align) (loc : env) : Prop :=
  lookup "frmt" loc = Some (enc_s tmpl) /\ lookup "colsep" loc = Some (enc_s (colsep o)) /\
  lookup "widths" loc = Some (PList (map enc_w ws)) /\ lookup "alignment" loc = Some (PList (map aenc als)).

Lemma row_body_shape : row_body =
  [SExpr (XMethod (TName "file") "write"
            [XCallMethod (XName "frmt") "format" [XCallMethod (XName "colsep") "join" [row_comp]]])].
Proof. reflexivity. Qed.

Lemma rows_write ws als : forall vs lines loc f,
  n_map_opt line_of vs = Some lines -> text_inv ws als loc -> lookup "file" loc = Some (enc_s f) ->
  exists loc',
    for_loop call_ref PT row_body "row" {| locals := loc; fields := [] |} vs = Ok (Next {| locals := loc'; fields := [] |}) /\
    lookup "file" loc' = Some (enc_s (f ++ flat_map (fun cells => row_line o als ws cells ++ [10]) lines)) /\
    (forall x, String.eqb x "file" = false -> String.eqb x "row" = false -> lookup x loc' = lookup x loc).
Proof.
  induction vs as [|v vs IH]; intros lines loc f Hl Hi Hf.
  - cbn in Hl. injection Hl as <-. exists loc. cbn [flat_map]. rewrite app_nil_r. repeat split; auto.
  - cbn [n_map_opt] in Hl. destruct (line_of v) as [cells|] eqn:Ev; [|discriminate].
    destruct (n_map_opt line_of vs) as [rest|] eqn:Er; [|discriminate]. injection Hl as <-.
    destruct Hi as [H1 [H2 [H3 H4]]].
    cbn [for_loop write locals fields]. rewrite row_body_shape, exec_block_cons.
    erewrite write_stmt.
    2:{ apply fmt_join_eval; [step_env; exact H1|step_env; exact H2|].
        apply (row_eval cells ws als _ v (line_of_inv v cells Ev)); step_env; [reflexivity|exact H3|exact H4]. }
    2:{ step_env. exact Hf. }
    cbn [bind]. rewrite exec_block_nil. cbn [bind].
    match goal with |- context [for_loop _ _ _ _ {| locals := ?L; fields := _ |} _] =>
      destruct (IH rest L (f ++ row_line o als ws cells ++ [10]) eq_refl) as [loc' [E [Hf' K]]] end.
    { unfold text_inv. step_env. auto. }
    { rewrite lookup_update_eq. unfold row_line. reflexivity. }
    exists loc'. split; [exact E|]. split.
    + rewrite Hf'. cbn [flat_map]. rewrite <- !app_assoc. reflexivity.
    + intros x Hx1 Hx2. rewrite (K x Hx1 Hx2). rewrite lookup_update_neq by exact Hx1. apply lookup_update_neq. exact Hx2.
Qed.

(* ---- the whole function *)
Theorem render_text_src : forall (desc : list (str * dtype)) (rows : list (list cellv)) (f0 : str),
  exists s',
    PyMini.exec_block call_ref PT {| locals := text_locals dc o desc rows f0; fields := [] |} (f_body render_text_fn) =
      Ok (Next s') /\
    lookup "file" (locals s') = Some (enc_s (f0 ++ unlines (text_lines quant numfmt o desc rows))).
Proof.
  intros desc rows f0. rewrite text_body_split, exec_block_app.
  destruct (text_widths_full call_ref quant numfmt dc o Hget desc rows f0)
    as [loc0 [E0 [Hw [Hr [Ha [Hh [Hc [Hf [Hrows [Hb Hu]]]]]]]]]].
  rewrite E0. cbn [bind]. clear E0.
  set (ws := table_widths quant numfmt o desc rows) in *.
  set (als := map (fun d : str * dtype => align_of (snd d)) desc).
  set (tvsF := fold_left upd rows (map (fun d : str * dtype => (snd d, @nil cellv)) desc)) in *.
  assert (Ha' : lookup "alignment" loc0 = Some (PList (map aenc als))).
  { rewrite Ha. unfold als. rewrite map_map. reflexivity. }
  rewrite text_rest_shape.
  (* style *)
  rewrite exec_block_cons.
  destruct (style_exec loc0 ws Hw Hb Hu) as [loc1 [E1 [Sf [Sc [St [Sh [Sb K1]]]]]]].
  rewrite E1. cbn [bind]. clear E1.
  assert (Hw1 : lookup "widths" loc1 = Some (PList (map enc_w ws))) by (rewrite K1 by reflexivity; exact Hw).
  assert (Ha1 : lookup "alignment" loc1 = Some (PList (map aenc als))) by (rewrite K1 by reflexivity; exact Ha').
  assert (Hh1 : lookup "headers" loc1 = Some (PList (map enc_s (map fst desc)))) by (rewrite K1 by reflexivity; exact Hh).
  assert (Hf1 : lookup "file" loc1 = Some (enc_s f0)) by (rewrite K1 by reflexivity; exact Hf).
  assert (Hrows1 : lookup "rows" loc1 = Some (PList (map enc_rrow rows))) by (rewrite K1 by reflexivity; exact Hrows).
  assert (Hr1 : lookup "renderers" loc1 = Some (PList (map rnd tvsF))) by (rewrite K1 by reflexivity; exact Hr).
  assert (Hc1 : lookup "ctx" loc1 = Some ctx) by (rewrite K1 by reflexivity; exact Hc).
  clear K1 Hw Ha Ha' Hh Hf Hrows Hr Hc Hb Hu.
  (* file.write(top) *)
  rewrite exec_block_cons. erewrite write_stmt; [|apply eval_name; exact St|exact Hf1]. cbn [bind].
  (* the header line *)
  rewrite exec_block_cons.
  erewrite write_stmt.
  2:{ apply fmt_join_eval; [step_env; exact Sf|step_env; exact Sc|].
      apply header_eval; step_env; [exact Hh1|exact Hw1]. }
  2:{ apply lookup_update_eq. }
  cbn [bind].
  (* file.write(hline) *)
  rewrite exec_block_cons. erewrite write_stmt; [|apply eval_name; cbn [locals]; step_env; exact Sh|apply lookup_update_eq].
  cbn [bind].
  (* the rows *)
  rewrite exec_block_cons.
  erewrite (exec_for call_ref PT "row" _ row_body _ _ (flat_map (row_pv quant numfmt o tvsF) rows)).
  2:{ cbn [PyMini.eval read locals bind]. step_env. rewrite Hrows1. cbn [PyMini.eval read locals bind]. step_env.
      rewrite Hr1. cbn [PyMini.eval read locals bind]. step_env. rewrite Hc1.
      cbn [bind do_call]. rewrite Hrr, (render_rows_pv call_ref quant numfmt dc o tvsF rows). reflexivity. }
  match goal with |- context [for_loop _ _ _ _ {| locals := ?L; fields := _ |} _] =>
    match goal with |- context [update "file" (enc_s ?F) _] =>
      destruct (rows_write ws als _ _ L F (rows_pv_lines quant numfmt o tvsF rows)) as [loc2 [E2 [Hf2 K2]]] end end.
  { unfold text_inv. step_env. auto. }
  { apply lookup_update_eq. }
  fold row_body. rewrite E2. cbn [bind]. clear E2.
  (* file.write(bottom) *)
  rewrite exec_block_cons.
  erewrite write_stmt; [|apply eval_name; cbn [locals]; rewrite K2 by reflexivity; step_env; exact Sb|exact Hf2].
  cbn [bind]. rewrite exec_block_nil.
  eexists. split; [reflexivity|]. cbn [locals]. rewrite lookup_update_eq. do 2 f_equal.
  (* the text *)
  unfold text_lines. fold ws. fold als. unfold tvsF. rewrite col_states_fold.
  rewrite !unlines_app. unfold top_str, bot_str, unlines at 2. cbn [flat_map]. rewrite app_nil_r.
  assert (Eb : forall l, unlines (if o_boxed o then [l] else []) = if o_boxed o then l ++ [10] else []).
  { intros l. destruct (o_boxed o); [unfold unlines; cbn [flat_map]; now rewrite app_nil_r|reflexivity]. }
  assert (Em : forall (g : list str -> str) L, unlines (map g L) = flat_map (fun c => g c ++ [10]) L).
  { intros g L. unfold unlines. rewrite !flat_map_concat_map, map_map. reflexivity. }
  rewrite !Eb, Em. unfold header_line. rewrite <- !app_assoc. reflexivity.
Qed.

(* ... which is the text of Render.render_text whenever the model renders the table *)
Corollary render_text_src_model : forall (desc : list (str * dtype)) (rows : list (list cellv)) (f0 text : str),
  render_text quant numfmt o desc rows = Some text ->
  exists s',
    PyMini.exec_block call_ref PT {| locals := text_locals dc o desc rows f0; fields := [] |} (f_body render_text_fn) =
      Ok (Next s') /\
    lookup "file" (locals s') = Some (enc_s (f0 ++ text)).
Proof.
  intros desc rows f0 text H. unfold render_text in H.
  destruct (well_typed desc rows && supported o desc); [|discriminate]. injection H as <-. apply render_text_src.
Qed.

End Text2.

Lemma text_refs : nth_error refs 0 = Some (0%nat, "beanquery.query_render._get_renderer") /\
  nth_error refs 1 = Some (1%nat, "beanquery.query_render.render_rows").
Proof. split; reflexivity. Qed.

(* a concrete oracle for examples: _get_renderer builds a renderer that has seen nothing, render_rows is its translation *)
Definition example_refs (n : nat) (args : list pv) : pv :=
  match n, args with
  | O, [t; c] => PTuple [PInt 60; t; c; PList []]
  | S O, _ => res_val (call_function (fun _ _ => PNone) (prims_top no_quant no_numfmt) render_rows_fn args)
  | _, _ => PNone
  end.
Definition run_render_text (o : opts) (desc : list (str * dtype)) (rows : list (list cellv)) : option str :=
  match PyMini.exec_block example_refs (prims_top no_quant no_numfmt)
          {| locals := text_locals PNone o desc rows []; fields := [] |} (f_body render_text_fn) with
  | Ok (Next s') => match lookup "file" (locals s') with Some (PV (VStr x)) => Some x | _ => None end
  | _ => None
  end.
