(* C18 -- general (arithmetic / inductive) lemmas about the date model, and the machinery that
   lifts a boolean check run over every date of a range to a universally quantified statement. *)
From Coq Require Import String ZArith List Bool Lia.
Import ListNotations.
From Verif Require Import Base.Out Base.PyValue Model.Dates.
Open Scope Z_scope.

(* ---------- exhaustive check over lo, lo+1, ..., lo+n-1 (Pos.iter: linear) ---------- *)
Definition range_step (f : Z -> bool) (p : Z * bool) : Z * bool := (fst p + 1, snd p && f (fst p)).
Definition all_in_range (f : Z -> bool) (lo : Z) (n : positive) : bool :=
  snd (Pos.iter (range_step f) (lo, true) n).

Lemma iter_range_nat f lo : forall k b,
  nat_rect (fun _ => (Z * bool)%type) (lo, b) (fun _ => range_step f) k =
  (lo + Z.of_nat k, b && forallb f (map (fun i => lo + Z.of_nat i) (seq 0 k))).
Proof.
  induction k; intros b.
  - simpl. rewrite Z.add_0_r, andb_true_r. reflexivity.
  - rewrite seq_S, map_app, forallb_app. cbn [nat_rect]. rewrite IHk. unfold range_step. cbn [fst snd].
    f_equal; [lia|]. simpl. rewrite andb_true_r, andb_assoc. reflexivity.
Qed.

Lemma all_in_range_spec f lo n :
  all_in_range f lo n = true -> forall i, lo <= i < lo + Zpos n -> f i = true.
Proof.
  unfold all_in_range. rewrite Pos2Nat.inj_iter, iter_range_nat. simpl.
  intros H i Hi. rewrite forallb_forall in H. apply H.
  apply in_map_iff. exists (Z.to_nat (i - lo)). split; [lia|]. apply in_seq. lia.
Qed.

(* small explicit ranges *)
Fixpoint zrange (lo : Z) (n : nat) : list Z :=
  match n with O => [] | S k => lo :: zrange (lo + 1) k end.
Lemma zrange_in : forall n lo i, lo <= i < lo + Z.of_nat n -> In i (zrange lo n).
Proof.
  induction n; intros lo i H; [lia|]. simpl.
  destruct (Z.eq_dec lo i); [left; auto|right; apply IHn; lia].
Qed.

(* a function that is monotone on consecutive points of an interval is monotone on it *)
Lemma mono_from_consecutive (g : Z -> Z) lo hi :
  (forall i, lo <= i < hi -> g i <= g (i + 1)) ->
  forall a b, lo <= a -> a <= b -> b <= hi -> g a <= g b.
Proof.
  intros H a b Ha Hab Hb.
  replace b with (a + Z.of_nat (Z.to_nat (b - a))) in * by lia.
  generalize dependent (Z.to_nat (b - a)). induction n; intros.
  - rewrite Z.add_0_r. lia.
  - rewrite Nat2Z.inj_succ in *. etransitivity; [apply IHn; lia|].
    replace (a + Z.succ (Z.of_nat n)) with (a + Z.of_nat n + 1) by lia. apply H. lia.
Qed.

Lemma zeqb_eq : forall a b, zeqb a b = true -> a = b.
Proof.
  induction a; destruct b; simpl; intros H; try discriminate; auto.
  apply andb_prop in H. destruct H as [H1 H2]. apply Z.eqb_eq in H1. f_equal; auto.
Qed.
Lemma zeqb_refl : forall a, zeqb a a = true.
Proof. induction a; simpl; auto. rewrite Z.eqb_refl. auto. Qed.

(* ---------- date_add / date_diff / date +- int (ordinal arithmetic) ---------- *)
Lemma add_days_inv o n r : add_days o n = VDate r -> r = o + n /\ valid_ord r = true.
Proof. unfold add_days. destruct (valid_ord (o + n)) eqn:E; intros H; inversion H; subst; auto. Qed.

Lemma date_add_diff o n r :
  date_add o n = VDate r -> date_diff r o = VInt n /\ date_minus_date r o = VInt n.
Proof. intros H. apply add_days_inv in H. destruct H as [-> _]. unfold date_diff, date_minus_date. split; f_equal; lia. Qed.

Lemma date_diff_add x y : valid_ord x = true -> date_add y (x - y) = VDate x.
Proof. intros H. unfold date_add, add_days. replace (y + (x - y)) with x by lia. rewrite H. reflexivity. Qed.

Lemma date_add_back o n r :
  valid_ord o = true -> date_add o n = VDate r ->
  date_add r (- n) = VDate o /\ date_minus_int r n = VDate o /\ date_plus_int r (- n) = VDate o.
Proof.
  intros Ho H. apply add_days_inv in H. destruct H as [-> _].
  unfold date_add, date_minus_int, date_plus_int, add_days.
  replace (o + n + - n) with o by lia. rewrite Ho. auto.
Qed.

Lemma date_plus_minus_int o n r :
  valid_ord o = true -> date_plus_int o n = VDate r -> date_minus_int r n = VDate o /\ date_minus_date r o = VInt n.
Proof.
  intros Ho H. apply add_days_inv in H. destruct H as [-> _].
  unfold date_minus_int, date_minus_date, add_days. replace (o + n + - n) with o by lia. rewrite Ho.
  split; f_equal; lia.
Qed.

Lemma date_minus_plus_int o n r :
  valid_ord o = true -> date_minus_int o n = VDate r -> date_plus_int r n = VDate o.
Proof.
  intros Ho H. apply add_days_inv in H. destruct H as [-> _].
  unfold date_plus_int, add_days. replace (o + - n + n) with o by lia. rewrite Ho. auto.
Qed.

(* ---------- week truncation: pure ordinal arithmetic, all dates ---------- *)
Lemma weekday_range o : 0 <= weekday o <= 6.
Proof. unfold weekday. pose proof (Z.mod_pos_bound (o + 6) 7). lia. Qed.

Lemma trunc_week_spec o r :
  trunc_u UWeek o = VDate r ->
  r <= o /\ o - 6 <= r /\ weekday r = 0 /\ r = o - weekday o.
Proof.
  unfold trunc_u, trunc_ymd. destruct (ord2ymd o) as [[y m] d]. intros H.
  apply add_days_inv in H. destruct H as [-> _]. pose proof (weekday_range o).
  repeat split; try lia. unfold weekday in *.
  replace (o + - ((o + 6) mod 7) + 6) with ((o + 6) - ((o + 6) mod 7)) by lia.
  rewrite Zminus_mod, Z.mod_mod, Z.sub_diag by lia. reflexivity.
Qed.

Lemma trunc_week_idem o r : trunc_u UWeek o = VDate r -> trunc_u UWeek r = VDate r.
Proof.
  intros H. pose proof (trunc_week_spec _ _ H) as (_ & _ & Hw & _).
  unfold trunc_u, trunc_ymd in *. destruct (ord2ymd o) as [[y m] d]. destruct (ord2ymd r) as [[y' m'] d'].
  apply add_days_inv in H. destruct H as [_ Hv]. unfold add_days. rewrite Hw.
  replace (r + - 0) with r by lia. rewrite Hv. reflexivity.
Qed.

(* the Monday found is the only Monday among the seven days ending at the date *)
Lemma trunc_week_first o r x :
  trunc_u UWeek o = VDate r -> weekday x = 0 -> o - 6 <= x <= o -> x = r.
Proof.
  intros H Hx Hr. apply trunc_week_spec in H. destruct H as (H1 & H2 & H3 & H4).
  unfold weekday in *.
  assert (E : (x + 6) mod 7 = (r + 6) mod 7) by lia.
  assert (K : (x - r) mod 7 = 0).
  { replace (x - r) with ((x + 6) - (r + 6)) by lia. rewrite Zminus_mod, E, Z.sub_diag. reflexivity. }
  apply Z.mod_divide in K; [|lia]. destruct K as [k K]. lia.
Qed.

Lemma trunc_week_mono a b ra rb :
  a <= b -> trunc_u UWeek a = VDate ra -> trunc_u UWeek b = VDate rb -> ra <= rb.
Proof.
  intros Hab Ha Hb. apply trunc_week_spec in Ha. apply trunc_week_spec in Hb.
  destruct Ha as (_ & _ & _ & ->). destruct Hb as (_ & _ & _ & ->). unfold weekday.
  pose proof (Z.div_mod (a + 6) 7). pose proof (Z.div_mod (b + 6) 7).
  assert ((a + 6) / 7 <= (b + 6) / 7) by (apply Z.div_le_mono; lia). lia.
Qed.

(* ---------- the simple extractors are date_part / date_trunc ---------- *)
Lemma year_is_part o : f_year o = VInt (part_u PYear o).
Proof. unfold f_year, part_u, part_ymd, year_of. destruct (ord2ymd o) as [[y m] d]. reflexivity. Qed.
Lemma month_is_part o : f_month o = VInt (part_u PMonth o).
Proof. unfold f_month, part_u, part_ymd, month_of. destruct (ord2ymd o) as [[y m] d]. reflexivity. Qed.
Lemma quarter_is_part o :
  f_quarter o = VStr (pad0 4 (part_u PYear o) ++ s2z "-Q"%string ++ nat_digits (part_u PQuarter o)).
Proof. unfold f_quarter, part_u, part_ymd, year_of, month_of. destruct (ord2ymd o) as [[y m] d]. reflexivity. Qed.
Lemma weekday_is_part o :
  f_weekday o = VStr (s2z (nth (Z.to_nat (part_u PWeekday o)) day_names ""%string)).
Proof. unfold f_weekday, part_u, part_ymd. destruct (ord2ymd o) as [[y m] d]. reflexivity. Qed.
Lemma yearmonth_is_trunc o : f_yearmonth o = trunc_u UMonth o.
Proof. unfold f_yearmonth, trunc_u, trunc_ymd, year_of, month_of. destruct (ord2ymd o) as [[y m] d]. reflexivity. Qed.
Lemma date_trunc_dispatch u o : date_trunc (s2z (tunit_name u)) o = trunc_u u o.
Proof. destruct u; reflexivity. Qed.

(* ---------- date_bin with a stride in days ---------- *)
Lemma date_bin_days k source origin :
  0 < k ->
  exists q, date_bin_rd (mkrd 0 0 k) source origin = VDate (origin + q * k) /\
            origin + q * k <= source < origin + q * k + k.
Proof.
  intros Hk. exists ((source - origin) / k). unfold date_bin_rd, date_bin_gen. simpl.
  destruct (k <? 0) eqn:E1; [apply Z.ltb_lt in E1; lia|].
  destruct (k =? 0) eqn:E2; [apply Z.eqb_eq in E2; lia|].
  split; [reflexivity|].
  pose proof (Z.div_mod (source - origin) k). pose proof (Z.mod_pos_bound (source - origin) k). lia.
Qed.

Lemma date_bin_days_negative k source origin :
  k < 0 -> date_bin_rd (mkrd 0 0 k) source origin = VNull.
Proof. intros Hk. unfold date_bin_rd, date_bin_gen. simpl. apply Z.ltb_lt in Hk. rewrite Hk. reflexivity. Qed.

(* ---------- date_bin with a month / year stride: the two loops ---------- *)
(* k-fold addition of the stride *)
Fixpoint iter_step (step : Z -> value) (k : nat) (o : Z) : value :=
  match k with
  | O => VDate o
  | S k' => match iter_step step k' o with VDate n => step n | e => e end
  end.

Lemma iter_step_S_left step : forall k o n, step o = VDate n -> iter_step step k n = iter_step step (S k) o.
Proof.
  induction k; intros o n H; simpl.
  - symmetry. exact H.
  - rewrite (IHk o n H). reflexivity.
Qed.

(* forward loop: if every addition makes progress, the loop returns b = origin + k*stride (k-fold
   addition) with b <= source < b + stride *)
Lemma bin_fwd_spec (step : Z -> value) source : forall fuel d,
  (forall n, d <= n <= source -> exists n', step n = VDate n' /\ n < n') ->
  d <= source -> (Z.to_nat (source - d) < fuel)%nat ->
  exists k b nxt, bin_fwd true step fuel d source = VDate b /\ iter_step step k d = VDate b /\
                  b <= source /\ step b = VDate nxt /\ source < nxt.
Proof.
  induction fuel; intros d Hp Hd Hf; [lia|].
  destruct (Hp d ltac:(lia)) as (n' & Hs & Hlt). simpl. rewrite Hs.
  destruct (source <? n') eqn:E.
  - apply Z.ltb_lt in E. exists O, d, n'. simpl. auto.
  - apply Z.ltb_ge in E.
    destruct (IHfuel n') as (k & b & nxt & H1 & H2 & H3 & H4 & H5); try lia.
    { intros n Hn. apply Hp. lia. }
    exists (S k), b, nxt. rewrite <- (iter_step_S_left step k d n' Hs). auto.
Qed.

(* backward loop: returns b = origin - k*stride, k >= 1, the first such value that is <= source *)
Lemma bin_bwd_spec (step : Z -> value) source : forall fuel n,
  (forall x, source < x <= n -> exists x', step x = VDate x' /\ x' < x) ->
  source < n -> (Z.to_nat (n - source) <= fuel)%nat ->
  exists k b prev, bin_bwd step fuel n source = VDate b /\ iter_step step (S k) n = VDate b /\
                   b <= source /\ iter_step step k n = VDate prev /\ source < prev.
Proof.
  induction fuel; intros n Hp Hn Hf; [lia|].
  destruct (Hp n ltac:(lia)) as (n' & Hs & Hlt). cbn [bin_bwd]. rewrite Hs.
  destruct (n' <=? source) eqn:E.
  - apply Z.leb_le in E. exists O, n', n. simpl. rewrite Hs. auto.
  - apply Z.leb_gt in E.
    destruct (IHfuel n') as (k & b & prev & H1 & H2 & H3 & H4 & H5); try lia.
    { intros x Hx. apply Hp. lia. }
    exists (S k), b, prev. rewrite <- (iter_step_S_left step (S k) n n' Hs).
    rewrite <- (iter_step_S_left step k n n' Hs). auto.
Qed.

Lemma date_bin_months_fwd r source origin :
  (rd_months r <> 0 \/ rd_years r <> 0) ->
  (forall n, origin <= n <= source -> exists n', rd_add n r = VDate n' /\ n < n') ->
  origin <= source ->
  exists k b nxt, date_bin_rd r source origin = VDate b /\
                  iter_step (fun n => rd_add n r) k origin = VDate b /\
                  b <= source /\ rd_add b r = VDate nxt /\ source < nxt.
Proof.
  intros Hr Hp Hs. unfold date_bin_rd, date_bin_gen.
  assert (E : negb (rd_months r =? 0) || negb (rd_years r =? 0) = true).
  { destruct Hr as [H|H]; apply Z.eqb_neq in H; rewrite H; simpl; auto. apply orb_true_r. }
  rewrite E. destruct (Hp origin ltac:(lia)) as (o1 & H1 & H2). rewrite H1.
  destruct (o1 <=? origin) eqn:E1; [apply Z.leb_le in E1; lia|].
  destruct (origin <=? source) eqn:E2; [|apply Z.leb_gt in E2; lia].
  apply bin_fwd_spec; auto. lia.
Qed.

Lemma date_bin_months_bwd r source origin :
  (rd_months r <> 0 \/ rd_years r <> 0) ->
  (exists o1, rd_add origin r = VDate o1 /\ origin < o1) ->
  (forall x, source < x <= origin -> exists x', rd_add x (rd_neg r) = VDate x' /\ x' < x) ->
  source < origin ->
  exists k b prev, date_bin_rd r source origin = VDate b /\
                   iter_step (fun n => rd_add n (rd_neg r)) (S k) origin = VDate b /\
                   b <= source /\ iter_step (fun n => rd_add n (rd_neg r)) k origin = VDate prev /\
                   source < prev.
Proof.
  intros Hr (o1 & H1 & H2) Hp Hs. unfold date_bin_rd, date_bin_gen.
  assert (E : negb (rd_months r =? 0) || negb (rd_years r =? 0) = true).
  { destruct Hr as [H|H]; apply Z.eqb_neq in H; rewrite H; simpl; auto. apply orb_true_r. }
  rewrite E, H1.
  destruct (o1 <=? origin) eqn:E1; [apply Z.leb_le in E1; lia|].
  destruct (origin <=? source) eqn:E2; [apply Z.leb_le in E2; lia|].
  apply bin_bwd_spec; auto. lia.
Qed.

(* a stride that does not move the origin forward gives NULL *)
Lemma date_bin_months_nonpositive r source origin o1 :
  (rd_months r <> 0 \/ rd_years r <> 0) -> rd_add origin r = VDate o1 -> o1 <= origin ->
  date_bin_rd r source origin = VNull.
Proof.
  intros Hr H1 H2. unfold date_bin_rd, date_bin_gen.
  assert (E : negb (rd_months r =? 0) || negb (rd_years r =? 0) = true).
  { destruct Hr as [H|H]; apply Z.eqb_neq in H; rewrite H; simpl; auto. apply orb_true_r. }
  rewrite E, H1. apply Z.leb_le in H2. rewrite H2. reflexivity.
Qed.

(* the comparison `n >= source` of the code before the repair: a source on a bin boundary is
   attributed to the previous bin *)
Lemma date_bin_old_refuted :
  exists r source origin b,
    date_bin_rd_old r source origin = VDate b /\ rd_add b r = VDate source /\
    date_bin_rd r source origin = VDate source.
Proof.
  exists (rd_make 0 1 0), (ymd2ord 2020 2 1), (ymd2ord 2020 1 1), (ymd2ord 2020 1 1).
  vm_compute. auto.
Qed.
