From Coq Require Import ZArith List Bool Lia ZifyBool.
Import ListNotations.
From Verif Require Import Model.Cursor.
Open Scope Z_scope.

Section P.
Variable A : Type.
Notation cur := (cur A).
Notation op := (op A).
Notation res := (res A).

Lemma firstn_add (k m : nat) (l : list A) :
  firstn (k + m) l = firstn k l ++ firstn m (skipn k l).
Proof.
  revert l; induction k as [|k IH]; intros l; simpl; [reflexivity|].
  destruct l as [|x t]; simpl; [destruct m; reflexivity|]. now rewrite IH.
Qed.

Lemma skipn_add (k m : nat) (l : list A) : skipn m (skipn k l) = skipn (k + m) l.
Proof.
  revert l; induction k as [|k IH]; intros l; simpl; [reflexivity|].
  destruct l as [|x t]; simpl; [destruct m; reflexivity|]. apply IH.
Qed.

Lemma clip_le len n : 0 <= len -> (Z.of_nat (clip len n) <= len).
Proof. unfold clip. intros H. destruct (n <? 0) eqn:E; lia. Qed.

Lemma clip_pos len n : 1 <= n -> 1 <= len -> (1 <= clip len n)%nat.
Proof. unfold clip. intros H1 H2. destruct (n <? 0) eqn:E; lia. Qed.

Definition is_execute (o : op) : bool := match o with Execute _ => true | _ => false end.

(* The concrete state represents "k rows of R delivered". *)
Definition Rep (R : list A) (k : nat) (c : cur) : Prop :=
  (k <= length R)%nat /\ rows A c = Some (skipn k R) /\ pos A c = Z.of_nat k
  /\ count A c = Z.of_nat (length R).

Lemma fetchone_rep R k c :
  Rep R k c ->
  let '(c', r) := fetchone A c in
  exists k', Rep R k' c' /\ firstn k R ++ delivered_by A r = firstn k' R
             /\ iters A c' = iters A c /\ arraysize A c' = arraysize A c
             /\ (r = RNone <-> k = length R) /\ (forall x, r = RRow x -> nth_error R k = Some x)
             /\ (r = RNone \/ exists x, r = RRow x).
Proof.
  intros (Hk & Hr & Hp & Hc). unfold fetchone. rewrite Hr.
  destruct (skipn k R) as [|x t] eqn:E.
  - assert (Hk' : k = length R).
    { assert (length (skipn k R) = 0%nat) by (rewrite E; reflexivity). rewrite skipn_length in *. lia. }
    exists k. split; [unfold Rep; rewrite E; auto|]. split; [simpl; apply app_nil_r|].
    split; [reflexivity|]. split; [reflexivity|]. split; [tauto|]. split; [discriminate|now left].
  - assert (Hlen : (S k <= length R)%nat).
    { assert (length (skipn k R) = S (length t)) by (rewrite E; reflexivity). rewrite skipn_length in *. lia. }
    assert (Ht : skipn (S k) R = t).
    { replace (S k) with (k + 1)%nat by lia. rewrite <- skipn_add, E. reflexivity. }
    exists (S k). split.
    { unfold Rep. cbn [rows pos count]. split; [lia|]. split; [now rewrite Ht|]. split; [lia|exact Hc]. }
    split. { replace (S k) with (k + 1)%nat by lia. rewrite firstn_add, E. reflexivity. }
    split; [reflexivity|]. split; [reflexivity|]. split; [split; [discriminate|lia]|].
    split; [|right; now exists x].
    intros y [= <-]. clear -E. revert R E. induction k as [|k IH]; intros [|a R] E; simpl in *; try discriminate.
    + now inversion E.
    + now apply IH.
Qed.

Lemma step_rep R k c o :
  Rep R k c -> is_execute o = false ->
  let '(c', r) := step A c o in
  exists k', Rep R k' c' /\ firstn k R ++ delivered_by A r = firstn k' R.
Proof.
  intros HR Ho. pose proof HR as (Hk & Hr & Hp & Hc).
  destruct o; try discriminate; simpl.
  - (* FetchOne *)
    pose proof (fetchone_rep R k c HR) as H. destruct (fetchone A c) as [c' r].
    destruct H as (k' & H1 & H2 & _). eauto.
  - (* FetchMany *)
    unfold fetchmany. rewrite Hr.
    set (n := match size with Some n => n | None => arraysize A c end).
    set (m := clip (Z.of_nat (length (skipn k R))) n).
    assert (Hm : (m <= length R - k)%nat).
    { pose proof (clip_le (Z.of_nat (length (skipn k R))) n ltac:(lia)) as H. fold m in H.
      rewrite skipn_length in H. lia. }
    exists (k + m)%nat. unfold Rep, py_take, py_drop; fold m; simpl. repeat split.
    + lia.
    + now rewrite skipn_add.
    + rewrite firstn_length, skipn_length. lia.
    + exact Hc.
    + now rewrite firstn_add.
  - (* FetchAll *)
    unfold fetchall. rewrite Hr. exists (length R). unfold Rep; simpl. repeat split.
    + lia.
    + now rewrite skipn_all.
    + rewrite skipn_length. lia.
    + exact Hc.
    + rewrite firstn_all. apply firstn_skipn.
  - exists k. unfold Rep; simpl. rewrite app_nil_r. auto.
  - exists k. unfold Rep; simpl. rewrite app_nil_r. auto.
  - (* Next *)
    destruct (nth_error (iters A c) h) as [[|]|]; try (exists k; simpl; rewrite app_nil_r; now auto).
    pose proof (fetchone_rep R k c HR) as H. destruct (fetchone A c) as [c' r].
    destruct H as (k' & H1 & H2 & _ & _ & _ & _ & [->|[x ->]]).
    + exists k'. split; [|exact H2]. destruct H1 as (?&?&?&?). unfold Rep; simpl; auto.
    + exists k'. auto.
  - exists k. unfold Rep; simpl. rewrite app_nil_r. auto.
  - exists k. unfold Rep; simpl. rewrite app_nil_r. auto.
  - exists k. unfold Rep; simpl. rewrite app_nil_r. auto.
Qed.

Lemma run_rep R : forall ops k c,
  Rep R k c -> forallb (fun o => negb (is_execute o)) ops = true ->
  let '(c', rs) := run A c ops in
  exists k', Rep R k' c' /\ firstn k R ++ concat (map (delivered_by A) rs) = firstn k' R.
Proof.
  induction ops as [|o ops IH]; intros k c HR Hall; simpl.
  - exists k. rewrite app_nil_r. auto.
  - simpl in Hall. apply andb_prop in Hall as [Ho Hall]. apply negb_true_iff in Ho.
    pose proof (step_rep R k c o HR Ho) as H1. destruct (step A c o) as [c1 r].
    destruct H1 as (k1 & HR1 & E1).
    pose proof (IH k1 c1 HR1 Hall) as H2. destruct (run A c1 ops) as [c2 rs].
    destruct H2 as (k2 & HR2 & E2). exists k2. split; [exact HR2|].
    simpl. rewrite app_assoc, E1. exact E2.
Qed.

Lemma execute_rep R c : Rep R 0 (fst (step A c (Execute R))).
Proof. unfold Rep; simpl. repeat split; lia. Qed.

(* Main delivery theorem: after execute(R), whatever fetch/iteration calls
   follow, the rows handed out, concatenated in call order, are a prefix of R
   (in order, nothing twice, nothing skipped), rownumber is the length of that
   prefix, rowcount is |R|, and what remains in the buffer is the rest of R. *)
Theorem delivery c R ops :
  forallb (fun o => negb (is_execute o)) ops = true ->
  let '(c', rs) := run A c (Execute R :: ops) in
  let got := concat (map (delivered_by A) rs) in
  got = firstn (length got) R /\ rows A c' = Some (skipn (length got) R)
  /\ pos A c' = Z.of_nat (length got) /\ count A c' = Z.of_nat (length R)
  /\ (length got <= length R)%nat.
Proof.
  intros Hall. cbn [run]. destruct (step A c (Execute R)) as [c1 r1] eqn:E1.
  assert (HR : Rep R 0 c1) by (pose proof (execute_rep R c) as H; rewrite E1 in H; exact H).
  assert (r1 = RNone) by (simpl in E1; now inversion E1). subst r1.
  pose proof (run_rep R ops 0%nat c1 HR Hall) as H. destruct (run A c1 ops) as [c2 rs].
  destruct H as (k' & (Hk & Hr & Hp & Hc) & E). simpl in E. simpl.
  assert (Hlen : length (concat (map (delivered_by A) rs)) = k').
  { rewrite E, firstn_length. lia. }
  rewrite Hlen. repeat split; auto.
Qed.

(* Exhaustion. *)
Theorem fetchone_none_iff R k c :
  Rep R k c -> (snd (fetchone A c) = RNone <-> k = length R).
Proof.
  intros HR. pose proof (fetchone_rep R k c HR) as H. destruct (fetchone A c) as [c' r].
  destruct H as (k' & _ & _ & _ & _ & H & _). exact H.
Qed.

Theorem fetchone_row R k c x :
  Rep R k c -> snd (fetchone A c) = RRow x -> nth_error R k = Some x.
Proof.
  intros HR. pose proof (fetchone_rep R k c HR) as H. destruct (fetchone A c) as [c' r].
  destruct H as (k' & _ & _ & _ & _ & _ & H & _). apply H.
Qed.

Theorem fetchmany_empty_iff R k c n :
  Rep R k c -> 1 <= n ->
  (snd (fetchmany A c (Some n)) = RRows [] <-> k = length R).
Proof.
  intros (Hk & Hr & Hp & Hc) Hn. unfold fetchmany. rewrite Hr. simpl. unfold py_take.
  set (len := length (skipn k R)). assert (Hlen : len = (length R - k)%nat) by apply skipn_length.
  split.
  - intros [= E]. destruct (Nat.eq_dec k (length R)) as [|Hne]; [assumption|exfalso].
    assert (1 <= clip (Z.of_nat len) n)%nat by (apply clip_pos; lia).
    assert (length (firstn (clip (Z.of_nat len) n) (skipn k R)) = 0%nat) by (rewrite E; reflexivity).
    rewrite firstn_length in *. fold len in H0. lia.
  - intros ->. rewrite skipn_all. now rewrite firstn_nil.
Qed.

Theorem fetchall_empty_iff R k c :
  Rep R k c -> (snd (fetchall A c) = RRows [] <-> k = length R).
Proof.
  intros (Hk & Hr & Hp & Hc). unfold fetchall. rewrite Hr. simpl. split.
  - intros [= E]. assert (length (skipn k R) = 0%nat) by (rewrite E; reflexivity).
    rewrite skipn_length in *. lia.
  - intros ->. now rewrite skipn_all.
Qed.

(* Before any execute. *)
Theorem before_execute :
  snd (step A init FetchOne) = RNone /\ snd (step A init (FetchMany None)) = RRows []
  /\ snd (step A init FetchAll) = RRows [] /\ snd (step A init RowCount) = RInt (-1)
  /\ snd (step A init HasDescription) = RBool false.
Proof. repeat split. Qed.

(* A new execute resets everything the fetch protocol can observe: outputs
   after it depend on the earlier history only through arraysize and the
   iterator objects already handed out. *)
Theorem execute_resets c1 c2 R ops :
  arraysize A c1 = arraysize A c2 -> iters A c1 = iters A c2 ->
  snd (run A c1 (Execute R :: ops)) = snd (run A c2 (Execute R :: ops)).
Proof.
  intros Ha Hi. cbn [run step]. rewrite Ha, Hi. reflexivity.
Qed.

End P.

(* Column as a sequence. *)
Theorem column_len : length col_items = 7%nat.
Proof. reflexivity. Qed.

Theorem column_index_spec i :
  py_index col_items i =
  if (i <? -7) || (7 <=? i) then None
  else Some (if (i =? 0) || (i =? -7) then IName else if (i =? 1) || (i =? -6) then ICode else INull).
Proof.
  unfold py_index. change (Z.of_nat (length col_items)) with 7. change (- (7)) with (-7).
  destruct ((i <? -7) || (7 <=? i)) eqn:E; [reflexivity|].
  apply orb_false_iff in E as [E1 E2].
  assert (H : -7 <= i < 7) by lia.
  assert (Hc : i = -7 \/ i = -6 \/ i = -5 \/ i = -4 \/ i = -3 \/ i = -2 \/ i = -1 \/ i = 0 \/ i = 1
               \/ i = 2 \/ i = 3 \/ i = 4 \/ i = 5 \/ i = 6) by lia.
  repeat (destruct Hc as [->|Hc]; [reflexivity|]). subst. reflexivity.
Qed.

Theorem slice_full {A} (l : list A) : py_slice l None None None = Some l.
Proof.
  unfold py_slice. simpl. f_equal.
  assert (G : forall (pre l : list A),
             flat_map (fun i => match nth_error (pre ++ l) (Z.to_nat i) with Some x => [x] | None => [] end)
               (range_fuel (S (length l)) (Z.of_nat (length pre)) (Z.of_nat (length pre + length l)) 1) = l).
  { clear. intros pre l. revert pre. induction l as [|x t IH]; intros pre.
    - simpl. replace (Z.of_nat (length pre) <? Z.of_nat (length pre + 0)) with false by (symmetry; lia). reflexivity.
    - cbn [range_fuel length]. replace (1 <? 0) with false by reflexivity.
      replace (Z.of_nat (length pre) <? Z.of_nat (length pre + S (length t))) with true by (symmetry; lia).
      cbn [flat_map]. rewrite Nat2Z.id. rewrite nth_error_app2 by lia. rewrite Nat.sub_diag. simpl.
      f_equal. specialize (IH (pre ++ [x])). rewrite <- app_assoc in IH. simpl in IH.
      rewrite app_length in IH. simpl in IH.
      replace (Z.of_nat (length pre) + 1) with (Z.of_nat (length pre + 1)) by lia.
      replace (length pre + S (length t))%nat with (length pre + 1 + length t)%nat by lia. exact IH. }
  specialize (G [] l). simpl in G. exact G.
Qed.
