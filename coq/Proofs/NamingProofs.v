From Coq Require Import ZArith List Bool Lia.
Import ListNotations.
From Verif Require Import Base.PyValue Model.Naming.
Open Scope Z_scope.

Lemma lstrip_idem s : lstrip (lstrip s) = lstrip s.
Proof. induction s as [|c t IH]; [reflexivity|]. simpl. destruct (is_ws c) eqn:E; [exact IH|]. simpl. now rewrite E. Qed.

Lemma lstrip_head s : match lstrip s with [] => True | c :: _ => is_ws c = false end.
Proof. induction s as [|c t IH]; [exact I|]. simpl. destruct (is_ws c) eqn:E; [exact IH|exact E]. Qed.

Lemma lstrip_noop s : match s with [] => True | c :: _ => is_ws c = false end -> lstrip s = s.
Proof. destruct s as [|c t]; [reflexivity|]. simpl. intros ->. reflexivity. Qed.

Lemma lstrip_suffix s : exists pre, s = pre ++ lstrip s /\ forallb is_ws pre = true.
Proof.
  induction s as [|c t (pre & E & W)]; [exists []; now split|]. simpl. destruct (is_ws c) eqn:Ec.
  - exists (c :: pre). simpl. rewrite Ec, W. split; [now f_equal|reflexivity].
  - exists []. now split.
Qed.

(* the stripped name has no white space at either end *)
Theorem strip_no_outer_ws s :
  match strip s with [] => True | c :: _ => is_ws c = false end
  /\ match rev (strip s) with [] => True | c :: _ => is_ws c = false end.
Proof.
  unfold strip. split.
  - (* head: the first character of rev (lstrip (rev u)) with u = lstrip s is the first character of u *)
    set (u := lstrip s). pose proof (lstrip_head s) as Hu. fold u in Hu.
    destruct (lstrip_suffix (rev u)) as (pre & E & W).
    assert (Hrev : u = rev (lstrip (rev u)) ++ rev pre).
    { rewrite <- rev_app_distr, <- E. now rewrite rev_involutive. }
    destruct (rev (lstrip (rev u))) as [|c t] eqn:E2; [exact I|].
    rewrite Hrev in Hu. exact Hu.
  - rewrite rev_involutive. apply lstrip_head.
Qed.

Theorem strip_idempotent s : strip (strip s) = strip s.
Proof.
  destruct (strip_no_outer_ws s) as [H1 H2]. unfold strip at 1.
  rewrite (lstrip_noop (strip s) H1). rewrite (lstrip_noop _ H2). apply rev_involutive.
Qed.

Theorem strip_keeps_inner s : (match s with [] => True | c :: _ => is_ws c = false end) ->
  (match rev s with [] => True | c :: _ => is_ws c = false end) -> strip s = s.
Proof. intros H1 H2. unfold strip. rewrite (lstrip_noop s H1), (lstrip_noop _ H2). apply rev_involutive. Qed.

(* naming rule: alias, else the column name of a bare column, else the stripped source text *)
Theorem name_rule t :
  target_name t = match p_alias t, p_column t with
                  | Some a, _ => a
                  | None, Some c => c
                  | None, None => strip (p_text t)
                  end.
Proof. unfold target_name. destruct (p_alias t), (p_column t); reflexivity. Qed.

(* description = the visible targets, in order; hidden helpers never appear *)
Theorem description_visible_only ts :
  description ts = map (fun t => (match c_name t with Some n => n | None => [] end, c_type t))
                       (filter (fun t => match c_name t with Some _ => true | None => false end) ts).
Proof.
  unfold description. induction ts as [|t r IH]; [reflexivity|]. cbn [flat_map filter].
  destruct (c_name t) eqn:E; cbn [map app]; rewrite IH; [rewrite E|]; reflexivity.
Qed.

Definition idxs (k : nat) (ts : list ctarget) : list nat :=
  flat_map (fun it : nat * ctarget => match c_name (snd it) with Some _ => [fst it] | None => [] end)
           (combine (seq k (length ts)) ts).

Lemma idxs_shift ts : forall k j, idxs (k + j) ts = map (fun i => (i + k)%nat) (idxs j ts).
Proof.
  unfold idxs. induction ts as [|t r IH]; intros k j; [reflexivity|]. cbn [length seq combine flat_map fst snd].
  rewrite map_app. f_equal.
  - destruct (c_name t); [simpl; f_equal; lia|reflexivity].
  - replace (S (k + j)) with (k + S j)%nat by lia. apply IH.
Qed.

Lemma result_indexes_shift ts k :
  flat_map (fun it : nat * ctarget => match c_name (snd it) with Some _ => [fst it] | None => [] end)
           (combine (seq k (length ts)) ts)
  = map (fun i => (i + k)%nat)
        (flat_map (fun it : nat * ctarget => match c_name (snd it) with Some _ => [fst it] | None => [] end)
                  (combine (seq 0 (length ts)) ts)).
Proof. pose proof (idxs_shift ts k 0) as H. rewrite Nat.add_0_r in H. exact H. Qed.

(* one value per described column: |result_indexes| = |description|, and they are exactly the visible positions *)
Theorem width_matches_description ts : length (result_indexes ts) = length (description ts).
Proof.
  unfold result_indexes, description. induction ts as [|t r IH]; [reflexivity|]. simpl.
  rewrite (result_indexes_shift r 1). rewrite app_length, app_length, map_length, IH.
  destruct (c_name t); reflexivity.
Qed.

Theorem result_indexes_visible ts i : In i (result_indexes ts) <->
  exists t, nth_error ts i = Some t /\ c_name t <> None.
Proof.
  unfold result_indexes. revert i. induction ts as [|t r IH]; intros i; simpl.
  - split; [tauto|]. intros (t & H & _). destruct i; discriminate.
  - rewrite in_app_iff, (result_indexes_shift r 1), in_map_iff. split.
    + intros [H|(j & <- & Hj)].
      * destruct (c_name t) eqn:E; [|destruct H]. destruct H as [<-|[]]. exists t. split; [reflexivity|congruence].
      * apply IH in Hj as (t' & H1 & H2). exists t'. split; [|exact H2]. replace (j + 1)%nat with (S j) by lia. exact H1.
    + intros (t' & H1 & H2). destruct i as [|i].
      * left. simpl in H1. injection H1 as <-. destruct (c_name t); [now left|congruence].
      * right. exists i. split; [lia|]. apply IH. exists t'. now split.
Qed.

(* if all hidden targets follow all visible ones, the visible positions are 0..n-1: positional references are stable *)
Theorem hidden_after_visible ts n :
  (forall i t, nth_error ts i = Some t -> (c_name t <> None <-> (i < n)%nat)) -> (n <= length ts)%nat ->
  result_indexes ts = seq 0 n.
Proof.
  revert n. unfold result_indexes. induction ts as [|t r IH]; intros n H Hn.
  - simpl in *. assert (n = 0%nat) by lia. now subst.
  - simpl. rewrite (result_indexes_shift r 1). destruct n as [|n].
    + assert (E : c_name t = None).
      { destruct (c_name t) eqn:E; [|reflexivity]. exfalso. specialize (H 0%nat t eq_refl). rewrite E in H.
        assert (0 < 0)%nat by (apply H; congruence). lia. }
      rewrite E. simpl. rewrite (IH 0%nat); [reflexivity| |lia].
      intros i t' Hi. specialize (H (S i) t' Hi). split; [intros Hc; apply H in Hc; lia|lia].
    + assert (E : c_name t <> None) by (apply (H 0%nat t eq_refl); lia).
      destruct (c_name t) as [nm|]; [|congruence]. simpl. f_equal.
      rewrite (IH n); [|intros i t' Hi; specialize (H (S i) t' Hi); rewrite H; lia|simpl in Hn; lia].
      rewrite <- seq_shift. apply map_ext. intros; lia.
Qed.

(* SELECT * : the table's wildcard columns, in order, each named by its column name *)
Theorem wildcard_names wc : map target_name (expand_wildcard wc) = wc.
Proof. unfold expand_wildcard. rewrite map_map. simpl. apply map_id. Qed.
