(* C18 -- boolean checks evaluated on every date of 1900-01-01 .. 2100-12-31 (Proofs/DatesRange*.v
   run them by vm_compute) and the lemmas that turn a successful check into the stated facts. *)
From Coq Require Import String ZArith List Bool Lia.
Import ListNotations.
From Verif Require Import Base.Out Base.PyValue Model.Dates Model.StrFuncs Proofs.DatesProofs.
Open Scope Z_scope.

Definition in_range (o : Z) : Prop := LO <= o <= HI.

(* the date_part values that identify the unit a date belongs to *)
Definition unit_id (u : tunit) (o : Z) : list Z :=
  match u with
  | UWeek => [part_u PIsoyear o; part_u PWeek o]
  | UMonth => [part_u PYear o; part_u PMonth o]
  | UQuarter => [part_u PYear o; part_u PQuarter o]
  | UYear => [part_u PYear o]
  | UDecade => [part_u PDecade o]
  | UCentury => [part_u PCentury o]
  | UMillennium => [part_u PMillennium o]
  end.

(* the same from an already computed (y, m, d) *)
Definition ids (u : tunit) (t : Z * Z * Z) : list Z :=
  let '(y, m, d) := t in
  match u with
  | UWeek => []
  | UMonth => [y; m]
  | UQuarter => [y; (m - 1) / 3 + 1]
  | UYear => [y]
  | UDecade => [y / 10]
  | UCentury => [(y - 1) / 100 + 1]
  | UMillennium => [(y - 1) / 1000 + 1]
  end.

Lemma ids_unit_id u o : u <> UWeek -> ids u (ord2ymd o) = unit_id u o.
Proof.
  intros Hu. destruct u; try congruence; unfold unit_id, part_u, part_ymd, ids;
    destruct (ord2ymd o) as [[y m] d]; reflexivity.
Qed.

Definition trunc_ord (u : tunit) (o : Z) : Z := match trunc_u u o with VDate r => r | _ => 0 end.

(* one date, one unit; t = ord2ymd o, t1 = ord2ymd (o + 1) *)
Definition check_ymd (u : tunit) (t t1 : Z * Z * Z) (o : Z) : bool :=
  match trunc_ymd u t o with
  | VDate r =>
      let tr := ord2ymd r in
      (r <=? o)
      && (match trunc_ymd u tr r with VDate r' => r' =? r | _ => false end)
      && zeqb (ids u tr) (ids u t)
      && (snd tr =? 1)
      && (match trunc_ymd u t1 (o + 1) with VDate r1 => r <=? r1 | _ => false end)
  | _ => false
  end.

Definition check_units (us : list tunit) (o : Z) : bool :=
  let t := ord2ymd o in
  let t1 := ord2ymd (o + 1) in
  forallb (fun u => check_ymd u t t1 o) us.

Definition unit_facts (u : tunit) (o : Z) : Prop :=
  exists r, trunc_u u o = VDate r /\ r <= o /\ trunc_u u r = VDate r /\
            ids u (ord2ymd r) = ids u (ord2ymd o) /\ day_of r = 1 /\
            exists r1, trunc_u u (o + 1) = VDate r1 /\ r <= r1.

Lemma check_ymd_spec u o :
  check_ymd u (ord2ymd o) (ord2ymd (o + 1)) o = true -> unit_facts u o.
Proof.
  unfold check_ymd. destruct (trunc_ymd u (ord2ymd o) o) as [| | | | |r|] eqn:E; try discriminate.
  intros H. repeat (apply andb_prop in H; destruct H as [H ?]).
  destruct (trunc_ymd u (ord2ymd r) r) as [| | | | |r'|] eqn:E2; try discriminate.
  destruct (trunc_ymd u (ord2ymd (o + 1)) (o + 1)) as [| | | | |r1|] eqn:E3; try discriminate.
  apply Z.leb_le in H. apply Z.eqb_eq in H3. subst r'.
  apply zeqb_eq in H2. apply Z.eqb_eq in H1. apply Z.leb_le in H0.
  exists r. repeat split; auto. exists r1. auto.
Qed.

Lemma check_units_spec us o u : check_units us o = true -> In u us -> unit_facts u o.
Proof.
  unfold check_units. intros H Hu. rewrite forallb_forall in H. apply check_ymd_spec. apply H. exact Hu.
Qed.

(* dates with the same unit id have the same truncation (the truncation only depends on the id) *)
Lemma trunc_of_ids u t t' o o' : u <> UWeek -> ids u t = ids u t' -> trunc_ymd u t o = trunc_ymd u t' o'.
Proof.
  intros Hu. destruct t as [[y m] d]. destruct t' as [[y' m'] d'].
  destruct u; try congruence; simpl; intros H; inversion H; subst; try reflexivity.
  - (* quarter *)
    pose proof (Z.div_mod (m - 1) 3). pose proof (Z.div_mod (m' - 1) 3).
    replace (m - (m - 1) mod 3) with (m' - (m' - 1) mod 3) by lia. reflexivity.
  - pose proof (Z.div_mod y 10). pose proof (Z.div_mod y' 10).
    replace (y - y mod 10) with (y' - y' mod 10) by lia. reflexivity.
  - pose proof (Z.div_mod (y - 1) 100). pose proof (Z.div_mod (y' - 1) 100).
    replace (y - (y - 1) mod 100) with (y' - (y' - 1) mod 100) by lia. reflexivity.
  - pose proof (Z.div_mod (y - 1) 1000). pose proof (Z.div_mod (y' - 1) 1000).
    replace (y - (y - 1) mod 1000) with (y' - (y' - 1) mod 1000) by lia. reflexivity.
Qed.

(* ---- ordinal <-> (y, m, d) ---- *)
Definition check_ord (o : Z) : bool :=
  let '(y, m, d) := ord2ymd o in
  valid_ymd y m d && (ymd2ord y m d =? o) && (1900 <=? y) && (y <=? 2100).

Lemma check_ord_spec o : check_ord o = true ->
  let '(y, m, d) := ord2ymd o in valid_ymd y m d = true /\ ymd2ord y m d = o /\ 1900 <= y <= 2100.
Proof.
  unfold check_ord. destruct (ord2ymd o) as [[y m] d]. intros H.
  apply andb_prop in H as [H H4]. apply andb_prop in H as [H H3]. apply andb_prop in H as [H1 H2].
  apply Z.eqb_eq in H2. apply Z.leb_le in H3. apply Z.leb_le in H4. auto.
Qed.

Definition check_ymd_back (y : Z) : bool :=
  forallb (fun m => forallb (fun d =>
     negb (valid_ymd y m d) ||
     (let '(y', m', d') := ord2ymd (ymd2ord y m d) in (y' =? y) && (m' =? m) && (d' =? d)))
     (zrange 1 31)) (zrange 1 12).

Lemma check_ymd_back_spec y m d :
  check_ymd_back y = true -> valid_ymd y m d = true -> ord2ymd (ymd2ord y m d) = (y, m, d).
Proof.
  unfold check_ymd_back. intros H Hv. rewrite forallb_forall in H.
  assert (Hm : 1 <= m <= 12 /\ 1 <= d <= 31).
  { unfold valid_ymd in Hv. repeat (apply andb_prop in Hv; destruct Hv as [Hv ?]).
    assert (days_in_month y m <= 31).
    { unfold days_in_month, dim_table. repeat match goal with |- context [if ?c then _ else _] => destruct c end; lia. }
    lia. }
  specialize (H m (zrange_in 12 1 m ltac:(lia))). rewrite forallb_forall in H.
  specialize (H d (zrange_in 31 1 d ltac:(lia))). rewrite Hv in H. simpl in H.
  destruct (ord2ymd (ymd2ord y m d)) as [[y' m'] d'].
  repeat (apply andb_prop in H; destruct H as [H ?]).
  apply Z.eqb_eq in H, H1, H0. subst. reflexivity.
Qed.

(* ---- ISO week number / ISO year are constant on a week ---- *)
Definition check_iso (o : Z) : bool :=
  let r := o - weekday o in
  let a := isocal_y (year_of o) o in
  let b := isocal_y (year_of r) r in
  (fst a =? fst b) && (snd a =? snd b).

(* ---- str(date) / date(str) ---- *)
Definition check_date_str (o : Z) : bool :=
  match cast_date (cast_str (XV (VDate o))) with XV (VDate o') => o' =? o | _ => false end.

(* ---- progress of date +/- stride, for date_bin ---- *)
Definition bin_strides : list rdelta :=
  [rd_make 0 1 0; rd_make 0 2 0; rd_make 0 3 0; rd_make 0 6 0; rd_make 1 0 0; rd_make 5 0 0].

Definition check_progress (o : Z) : bool :=
  let t := ord2ymd o in
  forallb (fun r => match rd_add_ymd t r with VDate n => o <? n | _ => false end) bin_strides
  && forallb (fun r => match rd_add_ymd t (rd_neg r) with VDate n => n <? o | _ => false end) bin_strides.

Lemma check_progress_spec o r : check_progress o = true -> In r bin_strides ->
  (exists n, rd_add o r = VDate n /\ o < n) /\ (exists n, rd_add o (rd_neg r) = VDate n /\ n < o).
Proof.
  unfold check_progress, rd_add. intros H Hr. apply andb_prop in H. destruct H as [H1 H2].
  rewrite forallb_forall in H1, H2. specialize (H1 r Hr). specialize (H2 r Hr).
  destruct (rd_add_ymd (ord2ymd o) r) as [| | | | |n|]; try discriminate.
  destruct (rd_add_ymd (ord2ymd o) (rd_neg r)) as [| | | | |n'|]; try discriminate.
  apply Z.ltb_lt in H1, H2. split; eexists; eauto.
Qed.

Lemma tunit_eq_dec_week (u : tunit) : u = UWeek \/ u <> UWeek.
Proof. destruct u; (left; reflexivity) || (right; discriminate). Qed.
