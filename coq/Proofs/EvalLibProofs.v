(* The scalar library modelled for C18 (Model/Dates.v, Model/StrFuncs.v) as Eval.apply_func sees it:
   - every EFunc node over a library constructor is NULL-strict and otherwise IS the C18 model function (the
     functions the C18 theorems are stated over), its exception kinds shifted by Eval.LibError;
   - for the overloads Model/Typing.v types, the value is also what the CURRENT source of the Python function
     computes (corollaries of Proofs/SrcEnv.v: the PyMini translation regenerated on every run). *)
From Coq Require Import String ZArith List Bool Lia.
Import ListNotations.
From Verif Require Import Base.PyValue Model.Eval Model.PyMini Model.PrimsEnv Gen.SrcEnv Proofs.SrcEnv.
From Verif Require Model.Dates Model.StrFuncs Model.Typing Proofs.TypingProofs.
Open Scope Z_scope.
Notation meval := Verif.Model.Eval.eval.     (* PyMini has an [eval] too *)

(* ---- the EFunc node ---- *)
Lemma efunc_value r st f args :
  meval r st (EFunc f args) =
  if existsb is_null (map (meval r st) args) then VNull else apply_func f (map (meval r st) args).
Proof. reflexivity. Qed.

Theorem efunc_null_strict r st f args :
  existsb is_null (map (meval r st) args) = true -> meval r st (EFunc f args) = VNull.
Proof. intros H. rewrite efunc_value, H. reflexivity. Qed.

Theorem efunc_call r st f args :
  existsb is_null (map (meval r st) args) = false -> meval r st (EFunc f args) = apply_func f (map (meval r st) args).
Proof. intros H. rewrite efunc_value, H. reflexivity. Qed.

(* the enumeration the typing table (TypingProofs.func_table) ranges over misses no constructor *)
Theorem all_func_complete : forall f, In f TypingProofs.all_func.
Proof. intros f. destruct f; vm_compute; tauto. Qed.

(* [lib] only renumbers exception kinds *)
Lemma lib_id v : (forall k, v <> VErr k) -> lib v = v.
Proof. destruct v; intros H; try reflexivity. exfalso. now apply (H k). Qed.
Lemma lib_err v k : lib v = VErr k <-> exists k', v = VErr k' /\ k = LibError + k'.
Proof.
  split.
  - destruct v; simpl; intros H; try discriminate H. injection H as <-. eauto.
  - intros [k' [-> ->]]. reflexivity.
Qed.

(* ---- one clause per library constructor: the C18 model function ---- *)
Theorem library_clauses :
  (forall o, apply_func FYear [VDate o] = lib (Dates.f_year o))
  /\ (forall o, apply_func FMonth [VDate o] = lib (Dates.f_month o))
  /\ (forall o, apply_func FDay [VDate o] = lib (Dates.f_day o))
  /\ (forall o, apply_func FYearmonth [VDate o] = lib (Dates.f_yearmonth o))
  /\ (forall o, apply_func FQuarter [VDate o] = lib (Dates.f_quarter o))
  /\ (forall o, apply_func FWeekday [VDate o] = lib (Dates.f_weekday o))
  /\ (forall o n, apply_func FDateAdd [VDate o; VInt n] = lib (Dates.date_add o n))
  /\ (forall x y, apply_func FDateDiff [VDate x; VDate y] = lib (Dates.date_diff x y))
  /\ (forall f o, apply_func FDateTrunc [VStr f; VDate o] = lib (Dates.date_trunc f o))
  /\ (forall f o, apply_func FDatePart [VStr f; VDate o] = lib (Dates.date_part f o))
  /\ (forall s d o, apply_func FDateBin [VStr s; VDate d; VDate o] = lib (Dates.date_bin s d o))
  /\ (forall y m d, apply_func FDateYmd [VInt y; VInt m; VInt d] = lib (StrFuncs.cast_date3 y m d))
  /\ (forall v, apply_func FDate [v] = lib_x (StrFuncs.cast_date (StrFuncs.XV v)))
  /\ (forall v, apply_func FStr [v] = lib_x (StrFuncs.cast_str (StrFuncs.XV v)))
  /\ (forall v, apply_func FInt [v] = lib_x (StrFuncs.cast_int (StrFuncs.XV v)))
  /\ (forall v, apply_func FDecimal [v] = lib_x (StrFuncs.cast_decimal (StrFuncs.XV v)))
  /\ (forall s d i, apply_func FSplitcomp [VStr s; VStr d; VInt i] = lib (StrFuncs.f_splitcomp s d i))
  /\ (forall s n, apply_func FMaxwidth [VStr s; VInt n] = lib (StrFuncs.f_maxwidth s n))
  /\ (forall a n, apply_func FRoot [VStr a; VInt n] = lib (StrFuncs.f_root a n))
  /\ (forall a, apply_func FRoot1 [VStr a] = lib (StrFuncs.f_root a 1))
  /\ (forall a, apply_func FParent [VStr a] = lib (StrFuncs.f_parent a))
  /\ (forall a, apply_func FLeaf [VStr a] = lib (StrFuncs.f_leaf a))
  /\ (forall z n, apply_func FRoundInt [VInt z; VInt n] = lib (StrFuncs.f_round_int z n))
  /\ (forall z, apply_func FRoundInt1 [VInt z] = lib (StrFuncs.f_round_int z 0))
  /\ (forall d n, apply_func FRoundDec [VDec d; VInt n] = lib (StrFuncs.f_round_dec d n))
  /\ (forall d, apply_func FRoundDec1 [VDec d] = lib (StrFuncs.f_round_dec d 0)).
Proof. repeat split. Qed.

(* on the total functions [lib] is the identity: the EFunc node's value is the C18 function's value *)
Theorem library_total_values :
  (forall o, apply_func FYear [VDate o] = VInt (Dates.year_of o))
  /\ (forall o, apply_func FMonth [VDate o] = VInt (Dates.month_of o))
  /\ (forall o, apply_func FDay [VDate o] = VInt (Dates.day_of o))
  /\ (forall o, apply_func FQuarter [VDate o] = Dates.f_quarter o)
  /\ (forall o, apply_func FWeekday [VDate o] = Dates.f_weekday o)
  /\ (forall x y, apply_func FDateDiff [VDate x; VDate y] = VInt (x - y))
  /\ (forall f o, apply_func FDatePart [VStr f; VDate o] = Dates.date_part f o)
  /\ (forall y m d, apply_func FDateYmd [VInt y; VInt m; VInt d] = StrFuncs.cast_date3 y m d)
  /\ (forall s, apply_func FDate [VStr s] = StrFuncs.parse_date s)
  /\ (forall a n, apply_func FRoot [VStr a; VInt n] = StrFuncs.f_root a n)
  /\ (forall a, apply_func FParent [VStr a] = StrFuncs.f_parent a)
  /\ (forall a, apply_func FLeaf [VStr a] = StrFuncs.f_leaf a)
  /\ (forall z n, apply_func FRoundInt [VInt z; VInt n] = StrFuncs.f_round_int z n).
Proof.
  repeat split; intros; try reflexivity.
  - change (lib (Dates.date_part f o) = Dates.date_part f o). unfold Dates.date_part, Dates.part_opt.
    destruct (Dates.punit_of f); reflexivity.
  - change (lib (StrFuncs.cast_date3 y m d) = StrFuncs.cast_date3 y m d).
    destruct (StrFuncsProofs.cast_date3_total y m d) as [[o E]|E]; rewrite E; reflexivity.
  - change (lib (StrFuncs.parse_date s) = StrFuncs.parse_date s).
    destruct (StrFuncsProofs.parse_date_date_or_null s) as [[o E]|E]; rewrite E; reflexivity.
  - change (lib (StrFuncs.f_parent a) = StrFuncs.f_parent a). destruct a; reflexivity.
  - change (lib (StrFuncs.f_leaf a) = StrFuncs.f_leaf a). destruct a; reflexivity.
  - change (lib (StrFuncs.f_round_int z n) = StrFuncs.f_round_int z n). unfold StrFuncs.f_round_int.
    destruct (0 <=? n); reflexivity.
Qed.

(* ---- tie to the source, for the typed overloads: interpreting the translated body of the registered Python
   function returns the value Eval.apply_func gives the EFunc node ---- *)
Section Tie.
Variable call_ref : nat -> list pv -> pv.
Notation run := (call_function call_ref prim_env).

Theorem year_apply_func : forall o, run env_year [PV (VDate o)] = lift (apply_func FYear [VDate o]).
Proof. intros. rewrite year_src. reflexivity. Qed.
Theorem month_apply_func : forall o, run env_month [PV (VDate o)] = lift (apply_func FMonth [VDate o]).
Proof. intros. rewrite month_src. reflexivity. Qed.
Theorem day_apply_func : forall o, run env_day [PV (VDate o)] = lift (apply_func FDay [VDate o]).
Proof. intros. rewrite day_src. reflexivity. Qed.
Theorem quarter_apply_func : forall o, Dates.valid_ord o = true ->
  run env_quarter [PV (VDate o)] = lift (apply_func FQuarter [VDate o]).
Proof. intros o V. rewrite (quarter_src call_ref o V). reflexivity. Qed.
Theorem weekday_apply_func : forall o, run env_weekday [PV (VDate o)] = lift (apply_func FWeekday [VDate o]).
Proof. intros. rewrite weekday_src. reflexivity. Qed.
Theorem date_diff_apply_func : forall x y,
  run env_date_diff [PV (VDate x); PV (VDate y)] = lift (apply_func FDateDiff [VDate x; VDate y]).
Proof. intros. rewrite date_diff_src. reflexivity. Qed.
Theorem date_part_apply_func : forall f o,
  run env_date_part [pstr f; PV (VDate o)] = lift (apply_func FDatePart [VStr f; VDate o]).
Proof.
  intros. rewrite date_part_src. destruct library_total_values as (_ & _ & _ & _ & _ & _ & H & _). now rewrite H.
Qed.
Theorem date_ymd_apply_func : forall y m d,
  run env_date_from_ymd [PInt y; PInt m; PInt d] = lift (apply_func FDateYmd [VInt y; VInt m; VInt d]).
Proof.
  intros. rewrite date_from_ymd_src. destruct library_total_values as (_ & _ & _ & _ & _ & _ & _ & H & _). now rewrite H.
Qed.
Theorem root_apply_func : forall a n, run env_root [pstr a; PInt n] = lift (apply_func FRoot [VStr a; VInt n]).
Proof. intros. rewrite root_src. reflexivity. Qed.
(* root(acc): the default of the second parameter in the source is the 1 of the FRoot1 clause *)
Theorem root1_default : env_root_defaults = [XConst (PInt 1)].
Proof. reflexivity. Qed.
Theorem parent_apply_func : forall a, run env_parent [pstr a] = lift (apply_func FParent [VStr a]).
Proof.
  intros. rewrite parent_src.
  destruct library_total_values as (_ & _ & _ & _ & _ & _ & _ & _ & _ & _ & H & _). now rewrite H.
Qed.
Theorem leaf_apply_func : forall a, run env_leaf [pstr a] = lift (apply_func FLeaf [VStr a]).
Proof.
  intros. rewrite leaf_src.
  destruct library_total_values as (_ & _ & _ & _ & _ & _ & _ & _ & _ & _ & _ & H & _). now rewrite H.
Qed.
Theorem round_int_apply_func : forall z n,
  run env_round [PInt z; PInt n] = lift (apply_func FRoundInt [VInt z; VInt n]).
Proof.
  intros. rewrite round_int_src.
  destruct library_total_values as (_ & _ & _ & _ & _ & _ & _ & _ & _ & _ & _ & _ & H). now rewrite H.
Qed.
(* round(num): the default of `digits` in the source is the 0 of the FRoundInt1 clause *)
Theorem round1_default : env_round_defaults = [XConst (PInt 0)].
Proof. reflexivity. Qed.

(* casts: arguments are the BQL values (no exception value; the wrapper never passes NULL) *)
Definition arg_ok (v : value) : Prop := (forall k, v <> VErr k) /\ v <> VNull.

Lemma arg_ok_x v : arg_ok v -> StrFuncs.no_err (StrFuncs.XV v) = true /\ StrFuncs.is_null (StrFuncs.XV v) = false.
Proof.
  intros [E N]. destruct v; try (split; reflexivity).
  - exfalso. now apply N.
  - exfalso. now apply (E k).
Qed.

Theorem str_apply_func : forall v, arg_ok v -> run env_str [PV v] = lift (apply_func FStr [v]).
Proof.
  intros v A. destruct (arg_ok_x v A) as [E N].
  change (PV v) with (pv_of_x (StrFuncs.XV v)). rewrite (str_src call_ref _ E N).
  destruct v; try reflexivity; discriminate.
Qed.
Theorem int_apply_func : forall v, arg_ok v -> run env_int [PV v] = lift (apply_func FInt [v]).
Proof.
  intros v A. destruct (arg_ok_x v A) as [E N].
  change (PV v) with (pv_of_x (StrFuncs.XV v)). rewrite (int_src call_ref _ E).
  destruct v; try reflexivity; try discriminate.
  change (apply_func FInt [VStr s]) with (lib_x (StrFuncs.cast_int (StrFuncs.XV (VStr s)))).
  unfold StrFuncs.cast_int, StrFuncs.cast_int_gen. destruct (StrFuncs.parse_int s); reflexivity.
Qed.
Theorem date_apply_func : forall v, arg_ok v -> run env_date [PV v] = lift (apply_func FDate [v]).
Proof.
  intros v A. destruct (arg_ok_x v A) as [E N].
  change (PV v) with (pv_of_x (StrFuncs.XV v)). rewrite (date_src call_ref _ E).
  destruct v; try reflexivity; try discriminate.
  change (apply_func FDate [VStr s]) with (lib (StrFuncs.parse_date s)). unfold StrFuncs.cast_date.
  destruct (StrFuncsProofs.parse_date_date_or_null s) as [[o Ep]|Ep]; rewrite Ep; reflexivity.
Qed.
(* decimal(x) on the typed argument types (bool, Decimal) *)
Theorem decimal_apply_func : forall v, (exists b, v = VBool b) \/ (exists d, v = VDec d) ->
  run env_decimal [PV v] = lift (apply_func FDecimal [v]).
Proof.
  intros v [[b ->]|[d ->]].
  - change (PV (VBool b)) with (pv_of_x (StrFuncs.XV (VBool b))). rewrite (decimal_src call_ref (StrFuncs.XV (VBool b)) eq_refl). reflexivity.
  - change (PV (VDec d)) with (pv_of_x (StrFuncs.XV (VDec d))). rewrite (decimal_src call_ref (StrFuncs.XV (VDec d)) eq_refl). reflexivity.
Qed.
End Tie.
