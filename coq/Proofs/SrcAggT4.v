From Coq Require Import String ZArith List Bool Lia.
Import ListNotations.
From Verif Require Import Base.StableSort Base.PyValue Model.Eval Model.Order Model.Exec Model.PyMini Model.PrimsAgg
  Proofs.PyValueProofs.
Open Scope string_scope.
Open Scope Z_scope.
Local Arguments val_le : simpl never.
Local Arguments val_eq : simpl never.

(* ------------------------------------------------------------------ encodings of the model's store *)
Definition key_pv (k : list value) : pv := PTuple (map PV k).
Definition slots_pv (sl : list value) : pv := PList (map PV sl).
Definition entry_pv (ks : list value * list value) : pv := PTuple [key_pv (fst ks); slots_pv (snd ks)].
Definition dict_pv (s : store) : pv := PList (map entry_pv s).

Lemma pv_eqb_value x y : pv_eqb (PV x) (PV y) = val_eq x y.
Proof.
  cbn [pv_eqb]. unfold val_eq, val_le. rewrite !eqv_lex.
  destruct x, y; cbn [is_null orb andb rank Z.eqb]; try reflexivity;
    try (cbn; reflexivity);
    unfold eqv at 1, on; cbn [rank]; try reflexivity.
Qed.

Lemma pv_eqb_key a : forall b, pv_eqb (key_pv a) (key_pv b) = row_eq a b.
Proof.
  unfold key_pv. induction a as [|x a IH]; intros [|y b]; try reflexivity.
  specialize (IH b). cbn [map row_eq].
  change (pv_eqb (PTuple (PV x :: map PV a)) (PTuple (PV y :: map PV b)))
    with (pv_eqb (PV x) (PV y) && pv_eqb (PTuple (map PV a)) (PTuple (map PV b))).
  rewrite pv_eqb_value, IH. reflexivity.
Qed.

Fixpoint mget (key : list value) (s : store) : option (list value) :=
  match s with
  | [] => None
  | (k, x) :: t => if row_eq k key then Some x else mget key t
  end.
Fixpoint mset (key sl : list value) (s : store) : store :=
  match s with
  | [] => [(key, sl)]
  | (k, x) :: t => if row_eq k key then (k, sl) :: t else (k, x) :: mset key sl t
  end.

Lemma entry_has_pv key ks : entry_has (key_pv key) (entry_pv ks) = row_eq (fst ks) key.
Proof. unfold entry_has, entry_pv. apply pv_eqb_key. Qed.

Lemma dict_contains_pv key s : existsb (entry_has (key_pv key)) (map entry_pv s) = match mget key s with Some _ => true | None => false end.
Proof.
  induction s as [|[k x] t IH]; [reflexivity|]. cbn [map existsb mget]. rewrite entry_has_pv. cbn [fst].
  destruct (row_eq k key); [reflexivity|exact IH].
Qed.

Lemma dict_get_pv key s : dict_get (map entry_pv s) (key_pv key) = option_map slots_pv (mget key s).
Proof.
  induction s as [|[k x] t IH]; [reflexivity|]. cbn [map dict_get mget]. rewrite entry_has_pv. cbn [fst].
  destruct (row_eq k key); [reflexivity|exact IH].
Qed.

Lemma dict_set_pv key sl s : dict_set (map entry_pv s) (key_pv key) (slots_pv sl) = map entry_pv (mset key sl s).
Proof.
  induction s as [|[k x] t IH]; [reflexivity|]. cbn [map dict_set mset]. rewrite entry_has_pv. cbn [fst].
  destruct (row_eq k key); [reflexivity|]. cbn [map]. rewrite IH. reflexivity.
Qed.

Lemma mget_mset_same key sl s : mget key (mset key sl s) = Some sl.
Proof.
  induction s as [|[k x] t IH]; cbn [mset mget]; [now rewrite row_eq_refl|].
  destruct (row_eq k key) eqn:E; cbn [mget]; rewrite E; [reflexivity|exact IH].
Qed.

Lemma mset_mset key a b s : mset key b (mset key a s) = mset key b s.
Proof.
  induction s as [|[k x] t IH]; cbn [mset]; [now rewrite row_eq_refl|].
  destruct (row_eq k key) eqn:E; cbn [mset]; rewrite E; [reflexivity|]. rewrite IH. reflexivity.
Qed.

Definition upd_all (q : query) (r : row) (sl : list value) : list value :=
  map (fun '(a, cur) => agg_update a r cur) (combine (q_aggs q) sl).
Definition init_all (q : query) : list value := map agg_init (q_aggs q).

Lemma upd_all_init q r : upd_all q r (init_all q) = map (fun a => agg_update a r (agg_init a)) (q_aggs q).
Proof.
  unfold upd_all, init_all. induction (q_aggs q) as [|a t IH]; [reflexivity|]. cbn [map combine]. rewrite IH. reflexivity.
Qed.

(* what the translated statements do to the dict, on the model side: find-or-create, read, update, write back *)
Lemma store_update_dict q r key s :
  let s1 := match mget key s with Some _ => s | None => mset key (init_all q) s end in
  exists sl, mget key s1 = Some sl /\ store_update q r key s = mset key (upd_all q r sl) s1.
Proof.
  induction s as [|[k x] t IH]; cbn zeta.
  - cbn [mget mset]. exists (init_all q). rewrite row_eq_refl. split; [reflexivity|].
    cbn [store_update]. rewrite upd_all_init. reflexivity.
  - cbn [mget store_update]. destruct (row_eq k key) eqn:E.
    + exists x. cbn [mget mset]. rewrite E. split; reflexivity.
    + cbn zeta in IH. destruct (mget key t) eqn:G.
      * destruct IH as [sl [H1 H2]]. exists sl. cbn [mget mset]. rewrite E. split; [exact H1|]. rewrite H2. reflexivity.
      * destruct IH as [sl [H1 H2]]. exists sl. cbn [mget mset]. rewrite E. cbn [mget mset]. rewrite E.
        split; [exact H1|]. rewrite H2. reflexivity.
Qed.
