(* Proofs about Model/Compile.v: error classes, overload lookup = "an overload exists", the aggregate predicates
   vs the literal two-accumulator walk, invariants of every accepted query. *)
From Coq Require Import String ZArith List Bool Lia Arith.
Import ListNotations.
From Verif Require Import Base.Out Base.PyValue Model.Compile.
Open Scope list_scope.
Open Scope nat_scope.

(* ------------------------------------------------------------------ error classes *)
Lemma class_of_every_error : forall e,
  e = EParamContainer \/ cerr_class e = PyProgrammingError \/ cerr_class e = PyCompilationError.
Proof. destruct e; simpl; auto. Qed.

Lemma type_error_only_container : forall e, cerr_class e = PyTypeError -> e = EParamContainer.
Proof. destruct e; simpl; intro H; try discriminate; reflexivity. Qed.

Lemma no_third_outcome : forall sch p st,
  (exists q, compile sch p st = Ok q) \/
  (exists e, compile sch p st = Err e /\
             (e = EParamContainer \/ cerr_class e = PyProgrammingError \/ cerr_class e = PyCompilationError)).
Proof.
  intros. destruct (compile sch p st) as [q|e] eqn:E.
  - left; eauto.
  - right; exists e; split; auto. apply class_of_every_error.
Qed.

(* the parameter validation raises the container TypeError exactly when the container does not fit the style *)
Definition all_named (phs : list (string * Z)) := forallb (fun n => negb (String.eqb n "")) (map fst phs).
Definition all_positional (phs : list (string * Z)) := forallb (fun n => String.eqb n "") (map fst phs).
Definition is_map (p : params) := match p with PMap _ => true | _ => false end.
Definition is_seq (p : params) := match p with PSeq _ => true | _ => false end.

Lemma bind_params_container : forall p phs,
  bind_params p phs = Err EParamContainer <->
  phs <> [] /\ ((all_named phs = true /\ is_map p = false)
                \/ (all_named phs = false /\ all_positional phs = true /\ is_seq p = false)).
Proof.
  intros p phs. unfold bind_params, all_named, all_positional.
  destruct phs as [|ph phs']; [split; [discriminate | intros [H _]; congruence]|].
  remember (map fst (ph :: phs')) as names.
  destruct (forallb (fun n => negb (String.eqb n "")) names) eqn:A;
  destruct (forallb (fun n => String.eqb n "") names) eqn:B;
  destruct p as [|l|m]; simpl;
  repeat match goal with |- context [if ?c then _ else _] => destruct c end;
  (split; [intros H; first [discriminate H | (split; [discriminate | tauto])]
          | intros [_ [[H1 H2]|[H1 [H2 H3]]]]; try discriminate; try reflexivity]).
Qed.

(* ------------------------------------------------------------------ overload lookup: "an overload exists" *)
Lemma find_ov_some_iff : forall ovs sg i,
  (exists r, find_ov i ovs sg = Some r) <-> exists o, In o ovs /\ sig_match (ov_ins o) sg = true.
Proof.
  induction ovs as [|o t IH]; intros sg i; simpl.
  - split; [intros [r H]; discriminate | intros [o [[] _]]].
  - destruct (sig_match (ov_ins o) sg) eqn:M.
    + split; [intros _; exists o; auto | intros _; eauto].
    + rewrite IH. split.
      * intros [o' [Hin Hm]]; exists o'; auto.
      * intros [o' [[->|Hin] Hm]]; [congruence | exists o'; auto].
Qed.

(* the overload found is the FIRST of the list that matches the signature *)
Lemma find_ov_first : forall ovs sg i k o,
  find_ov i ovs sg = Some (k, o) ->
  exists pre post, ovs = pre ++ o :: post /\ k = i + length pre /\ sig_match (ov_ins o) sg = true
                   /\ forall o', In o' pre -> sig_match (ov_ins o') sg = false.
Proof.
  induction ovs as [|o t IH]; intros sg i k o' H; simpl in H; [discriminate|].
  destruct (sig_match (ov_ins o) sg) eqn:M.
  - inversion H; subst. exists [], t. simpl. repeat split; auto; try lia; try (intros ? []).
  - apply IH in H. destruct H as [pre [post [-> [-> [Hm Hpre]]]]].
    exists (o :: pre), post. simpl. repeat split; auto; try lia;
    try (intros o'' [<-|Hin]; auto).
Qed.

Lemma first_some_some_iff : forall {A B} (f : A -> option B) l,
  (exists r, first_some f l = Some r) <-> exists x, In x l /\ exists r, f x = Some r.
Proof.
  induction l as [|x t IH]; simpl.
  - split; [intros [r H]; discriminate | intros [x [[] _]]].
  - destruct (f x) eqn:F.
    + split; [intros _; exists x; split; eauto | intros _; eauto].
    + rewrite IH. split.
      * intros [y [Hin Hr]]; exists y; auto.
      * intros [y [[->|Hin] [r Hr]]]; [congruence | exists y; eauto].
Qed.

(* types.function_lookup succeeds iff some overload of that name accepts some combination of bases of the operand types *)
Theorem function_lookup_some_iff : forall reg name tys,
  (exists r, function_lookup reg name tys = Some r) <->
  exists sg o, In sg (product (map bases_of tys)) /\ In o (overloads reg name) /\ sig_match (ov_ins o) sg = true.
Proof.
  intros. unfold function_lookup. rewrite first_some_some_iff. split.
  - intros [sg [Hin Hr]]. apply find_ov_some_iff in Hr. destruct Hr as [o [Ho Hm]]. exists sg, o; auto.
  - intros [sg [o [Hin [Ho Hm]]]]. exists sg; split; auto. apply find_ov_some_iff. exists o; auto.
Qed.

Theorem exact_lookup_some_iff : forall name tys,
  (exists r, exact_lookup name tys = Some r) <->
  exists o, In o (overloads RegistrySnapshot.operators name) /\ sig_match (ov_ins o) tys = true.
Proof. intros. unfold exact_lookup. apply find_ov_some_iff. Qed.

(* ------------------------------------------------------------------ small arithmetic facts *)
Lemma nat_index_lt : forall z b i, nat_index z b = Some i -> i < b.
Proof.
  unfold nat_index. intros z b i H.
  destruct ((1 <=? z)%Z && (z <=? Z.of_nat b)%Z) eqn:E; [|discriminate].
  inversion H; subst. apply andb_true_iff in E. destruct E as [E1 E2].
  apply Z.leb_le in E1. apply Z.leb_le in E2. lia.
Qed.

Lemma index_of_lt : forall n l i k, index_of n l i = Some k -> i <= k < i + length l.
Proof.
  induction l as [|x t IH]; intros i k H; simpl in H; [discriminate|].
  destruct (node_eqb x n).
  - inversion H; subst; simpl; lia.
  - apply IH in H. simpl. lia.
Qed.

Lemma assoc_last_in : forall {A} k (l : list (string * A)) v, assoc_last k l = Some v -> exists k', In (k', v) l.
Proof.
  induction l as [|[k' v'] t IH]; intros v H; simpl in H; [discriminate|].
  destruct (assoc_last k t) eqn:E.
  - inversion H; subst. destruct (IH v eq_refl) as [k'' Hin]. exists k''; right; auto.
  - destruct (String.eqb k k'); [|discriminate]. inversion H; subst. exists k'; left; auto.
Qed.

Definition named (t : ctarget) : bool := match ct_name t with Some _ => true | None => false end.

Lemma names_of_aux : forall ts i0 n i,
  In (n, i) (flat_map (fun '(i, t) => match ct_name t with Some n => [(n, i)] | None => [] end)
                      (combine (seq i0 (length ts)) ts)) ->
  i0 <= i < i0 + length ts /\ exists t, nth_error ts (i - i0) = Some t /\ named t = true.
Proof.
  induction ts as [|t ts IH]; intros i0 n i H; simpl in H; [contradiction|].
  apply in_app_or in H. destruct H as [H|H].
  - unfold named. destruct (ct_name t) eqn:N; [|contradiction].
    destruct H as [H|[]]. inversion H; subst. simpl. split; [lia|].
    replace (i - i) with 0 by lia. exists t; simpl; rewrite N; auto.
  - apply IH in H. destruct H as [Hr [t' [Hn Hnm]]]. simpl. split; [lia|].
    exists t'. split; auto. replace (i - i0) with (S (i - S i0)) by lia. simpl. exact Hn.
Qed.

Lemma names_of_lt : forall ts n i, assoc_last n (names_of ts) = Some i ->
  i < length ts /\ exists t, nth_error ts i = Some t /\ named t = true.
Proof.
  intros ts n i H. apply assoc_last_in in H. destruct H as [k H].
  unfold names_of in H. apply names_of_aux in H. destruct H as [Hr [t [Hn Hnm]]].
  rewrite Nat.sub_0_r in Hn. split; [lia|eauto].
Qed.

Lemma visible_length_le : forall ts, length (visible ts) <= length ts.
Proof.
  intros. unfold visible. induction ts as [|t ts IH]; simpl; auto.
  destruct (match ct_name t with Some _ => true | None => false end); simpl; lia.
Qed.

(* ------------------------------------------------------------------ the key loops *)
Definition hidden (t : ctarget) : Prop := ct_name t = None.

Lemma resolve_key_spec : forall ei b nm chk na c ts ts' i,
  resolve_key ei b nm chk na c ts = Ok (ts', i) ->
  b <= length ts ->
  (forall n k, assoc_last n nm = Some k -> k < length ts) ->
  (exists ex, ts' = ts ++ ex /\ Forall hidden ex) /\ i < length ts'.
Proof.
  intros ei b nm chk na c ts ts' i H Hb Hnm. unfold resolve_key in H.
  destruct c as [z|[name r]].
  - destruct (nat_index z b) eqn:N; [|discriminate]. inversion H; subst.
    apply nat_index_lt in N. split; [exists []; rewrite app_nil_r; auto | lia].
  - destruct (match name with Some n => assoc_last n nm | None => None end) eqn:A.
    + inversion H; subst. split; [exists []; rewrite app_nil_r; auto|].
      destruct name; [|discriminate]. eapply Hnm; eauto.
    + destruct r as [n|e]; simpl in H; [|discriminate].
      destruct (chk n); [discriminate|].
      destruct (index_of n (map ct_expr ts) 0) eqn:I.
      * inversion H; subst. split; [exists []; rewrite app_nil_r; auto|].
        apply index_of_lt in I. rewrite map_length in I. lia.
      * inversion H; subst. split.
        -- exists [mk_target n None (na n)]. split; auto. constructor; [reflexivity|constructor].
        -- rewrite app_length; simpl; lia.
Qed.

Lemma group_loop_spec : forall b nm l ts gi ts' gi',
  group_loop b nm l ts gi = Ok (ts', gi') ->
  b <= length ts ->
  (forall n k, assoc_last n nm = Some k -> k < b) ->
  Forall (fun i => i < length ts) gi ->
  (exists ex, ts' = ts ++ ex /\ Forall hidden ex) /\ Forall (fun i => i < length ts') gi'.
Proof.
  induction l as [|c rest IH]; intros ts gi ts' gi' H Hb Hnm Hgi; simpl in H.
  - inversion H; subst. split; [exists []; rewrite app_nil_r; auto | auto].
  - destruct (resolve_key _ _ _ _ _ c ts) as [[ts1 i]|e] eqn:R; simpl in H; [|discriminate].
    apply resolve_key_spec in R; auto; [|intros n k Hk; apply Hnm in Hk; lia].
    destruct R as [[ex [-> Hex]] Hi].
    destruct (nth_error (ts ++ ex) i); [|discriminate].
    destruct (has_agg (ct_expr c0)); [discriminate|].
    destruct (negb (hashable (dtype (ct_expr c0)))); [discriminate|].
    apply IH in H.
    + destruct H as [[ex2 [-> Hex2]] Hg]. split; auto.
      exists (ex ++ ex2). rewrite app_assoc. split; auto. apply Forall_app; auto.
    + rewrite app_length; lia.
    + auto.
    + apply Forall_app. split.
      * eapply Forall_impl; [|exact Hgi]. simpl. intros a Ha. rewrite app_length. lia.
      * constructor; auto.
Qed.

Lemma order_loop_spec : forall b nm l ts spec ts' spec',
  order_loop b nm l ts spec = Ok (ts', spec') ->
  b <= length ts ->
  (forall n k, assoc_last n nm = Some k -> k < length ts) ->
  Forall (fun p => fst p < length ts) spec ->
  (exists ex, ts' = ts ++ ex /\ Forall hidden ex) /\ Forall (fun p => fst p < length ts') spec'.
Proof.
  induction l as [|[c d] rest IH]; intros ts spec ts' spec' H Hb Hnm Hs; simpl in H.
  - inversion H; subst. split; [exists []; rewrite app_nil_r; auto | auto].
  - destruct (resolve_key _ _ _ _ _ c ts) as [[ts1 i]|e] eqn:R; simpl in H; [|discriminate].
    apply resolve_key_spec in R; auto.
    destruct R as [[ex [-> Hex]] Hi].
    apply IH in H.
    + destruct H as [[ex2 [-> Hex2]] Hg]. split; auto.
      exists (ex ++ ex2). rewrite app_assoc. split; auto. apply Forall_app; auto.
    + rewrite app_length; lia.
    + intros n k Hk. apply Hnm in Hk. rewrite app_length. lia.
    + apply Forall_app. split.
      * eapply Forall_impl; [|exact Hs]. simpl. intros a Ha. rewrite app_length. lia.
      * constructor; auto.
Qed.

(* ------------------------------------------------------------------ clauses *)
Lemma nonagg_indexes_aux : forall ts i0 i,
  In i (flat_map (fun '(i, t) => if ct_agg t then [] else [i]) (combine (seq i0 (length ts)) ts)) <->
  exists t, i0 <= i /\ nth_error ts (i - i0) = Some t /\ ct_agg t = false.
Proof.
  induction ts as [|t ts IH]; intros i0 i; simpl.
  - split; [contradiction | intros [t [_ [H _]]]; destruct (i - i0); discriminate].
  - rewrite in_app_iff, IH. split.
    + intros [H|[t' [Hle [Hn Ha]]]].
      * destruct (ct_agg t) eqn:A; [contradiction|]. destruct H as [<-|[]].
        exists t. rewrite Nat.sub_diag. auto.
      * exists t'. split; [lia|]. split; auto.
        replace (i - i0) with (S (i - S i0)) by lia. exact Hn.
    + intros [t' [Hle [Hn Ha]]]. destruct (Nat.eq_dec i i0) as [->|Hne].
      * rewrite Nat.sub_diag in Hn. simpl in Hn. inversion Hn; subst. rewrite Ha. left; left; auto.
      * right. exists t'. split; [lia|]. split; auto.
        replace (i - i0) with (S (i - S i0)) in Hn by lia. exact Hn.
Qed.

Lemma nonagg_indexes_spec : forall ts i,
  In i (nonagg_indexes ts) <-> exists t, nth_error ts i = Some t /\ ct_agg t = false.
Proof.
  intros. unfold nonagg_indexes. rewrite nonagg_indexes_aux. rewrite Nat.sub_0_r.
  split; [intros [t [_ H]]; eauto | intros [t H]; exists t; split; [lia|auto]].
Qed.

Lemma mem_nat_In : forall n l, mem_nat n l = true <-> In n l.
Proof.
  intros. unfold mem_nat. rewrite existsb_exists. split.
  - intros [x [Hin He]]. apply Nat.eqb_eq in He. subst; auto.
  - intros H. exists n. split; auto. apply Nat.eqb_refl.
Qed.

Lemma compile_group_by_spec : forall c_targets grp ts g h,
  compile_group_by c_targets grp = Ok (ts, g, h) ->
  (exists ex, ts = c_targets ++ ex /\ Forall hidden ex)
  /\ (forall gi, g = Some gi -> Forall (fun i => i < length ts) gi)
  /\ (forall k, h = Some k -> k < length ts /\ g <> None).
Proof.
  intros c_targets grp ts g h H. unfold compile_group_by in H.
  destruct grp as [[cols having]|].
  - destruct (group_loop _ _ cols c_targets []) as [[ts0 gi0]|e] eqn:G; simpl in H; [|discriminate].
    apply group_loop_spec in G; auto.
    2:{ intros n k Hk. apply names_of_lt in Hk. lia. }
    destruct G as [[ex [-> Hex]] Hg].
    destruct having as [hr|].
    + destruct hr as [n|e]; simpl in H; [|discriminate].
      destruct (check_aggregates n); [discriminate|].
      destruct (negb (has_agg n)); [discriminate|]. inversion H; subst. split; [|split].
      * exists (ex ++ [mk_target n None true]). rewrite app_assoc. split; auto.
        apply Forall_app. split; auto. constructor; [reflexivity|constructor].
      * intros gi E. inversion E; subst. eapply Forall_impl; [|exact Hg]. simpl. intros a Ha.
        rewrite app_length. apply Nat.lt_lt_add_r. exact Ha.
      * intros k E. inversion E; subst. split; [rewrite !app_length; simpl; lia | discriminate].
    + inversion H; subst. split; [eauto|]. split; [intros gi E; inversion E; subst; auto | intros k E; discriminate].
  - destruct (existsb ct_agg c_targets).
    + destruct (forallb ct_agg c_targets); inversion H; subst.
      * split; [exists []; rewrite app_nil_r; auto|]. split; [intros gi E; inversion E; constructor | discriminate].
      * split; [exists []; rewrite app_nil_r; auto|]. split; [|discriminate].
        intros gi E. inversion E; subst. apply Forall_forall. intros i Hi.
        apply nonagg_indexes_spec in Hi. destruct Hi as [t [Hn _]]. apply nth_error_Some. congruence.
    + inversion H; subst. split; [exists []; rewrite app_nil_r; auto|]. split; discriminate.
Qed.

Lemma compile_order_by_spec : forall ts1 ord ts2 o,
  compile_order_by ts1 ord = Ok (ts2, o) ->
  (exists ex, ts2 = ts1 ++ ex /\ Forall hidden ex)
  /\ (forall spec, o = Some spec -> Forall (fun p => fst p < length ts2) spec).
Proof.
  intros ts1 ord ts2 o H. unfold compile_order_by in H. destruct ord as [|x rest].
  - inversion H; subst. split; [exists []; rewrite app_nil_r; auto | discriminate].
  - destruct (order_loop _ _ (x :: rest) ts1 []) as [[ts0 spec0]|e] eqn:G; simpl in H; [|discriminate].
    inversion H; subst. apply order_loop_spec in G; auto.
    + destruct G as [Hex Hs]. split; auto. intros spec E. inversion E; subst; auto.
    + apply visible_length_le.
    + intros n k Hk. apply names_of_lt in Hk. lia.
Qed.

Lemma compile_pivot_by_spec : forall ts2 g piv i1 i2,
  compile_pivot_by ts2 g piv = Ok (Some (i1, i2)) ->
  i1 <> i2 /\ i1 < length ts2 /\ i2 < length ts2 /\ exists gi, g = Some gi /\ In i2 gi.
Proof.
  intros ts2 g piv i1 i2 H. unfold compile_pivot_by in H. destruct piv as [[p1 p2]|]; [|discriminate].
  assert (R : forall p i, resolve_pivot ts2 p = Ok i -> i < length ts2).
  { intros p i E. unfold resolve_pivot in E. destruct p as [z|n].
    - destruct (nat_index z _) eqn:N; [|discriminate]. inversion E; subst. apply nat_index_lt in N.
      pose proof (visible_length_le ts2). lia.
    - destruct (assoc_last n _) eqn:N; [|discriminate]. inversion E; subst. apply names_of_lt in N. tauto. }
  destruct (resolve_pivot ts2 p1) as [a|e] eqn:E1; simpl in H; [|discriminate].
  destruct (resolve_pivot ts2 p2) as [b|e] eqn:E2; simpl in H; [|discriminate].
  destruct (Nat.eqb a b) eqn:Eab; [discriminate|].
  destruct g as [gi|]; [|discriminate].
  destruct (negb (mem_nat b gi)) eqn:M; [discriminate|]. inversion H; subst.
  apply Nat.eqb_neq in Eab. apply negb_false_iff in M. apply mem_nat_In in M.
  repeat split; eauto.
Qed.

(* ------------------------------------------------------------------ invariants of an accepted SELECT *)
Record query_inv (q : cquery) : Prop := {
  (* hidden targets come after all visible ones *)
  inv_hidden_last : exists vis hid, cq_targets q = vis ++ hid /\ Forall (fun t => named t = true) vis /\ Forall hidden hid;
  (* group_indexes = exactly the non-aggregate targets *)
  inv_group_exact : forall gi, cq_group q = Some gi ->
                    forall i, In i gi <-> exists t, nth_error (cq_targets q) i = Some t /\ ct_agg t = false;
  (* a query that does not aggregate has no aggregate target at all *)
  inv_nonagg : cq_group q = None -> forall t, In t (cq_targets q) -> ct_agg t = false;
  inv_having : forall k, cq_having q = Some k -> k < length (cq_targets q) /\ cq_group q <> None;
  inv_order : forall spec, cq_order q = Some spec -> Forall (fun p => fst p < length (cq_targets q)) spec;
  inv_pivot : forall i1 i2, cq_pivots q = Some (i1, i2) ->
              i1 <> i2 /\ i1 < length (cq_targets q) /\ i2 < length (cq_targets q)
              /\ exists gi, cq_group q = Some gi /\ In i2 gi;
}.

Lemma existsb_false_forall : forall {A} (f : A -> bool) l, existsb f l = false -> forall x, In x l -> f x = false.
Proof.
  intros A f l H x Hin. destruct (f x) eqn:E; auto.
  assert (existsb f l = true) by (apply existsb_exists; eauto). congruence.
Qed.

Lemma compile_group_none_nonagg : forall c_targets grp ts h,
  compile_group_by c_targets grp = Ok (ts, None, h) -> ts = c_targets /\ existsb ct_agg c_targets = false.
Proof.
  intros c_targets grp ts h H. unfold compile_group_by in H. destruct grp as [[cols having]|].
  - destruct (group_loop _ _ cols c_targets []) as [[ts0 gi0]|e]; simpl in H; [|discriminate].
    destruct having as [[n|e]|]; simpl in H; try discriminate.
    destruct (check_aggregates n); [discriminate|]. destruct (negb (has_agg n)); discriminate.
  - destruct (existsb ct_agg c_targets) eqn:E.
    + destruct (forallb ct_agg c_targets); discriminate.
    + inversion H; subst; auto.
Qed.

Theorem finish_select_inv : forall tb c_from c_targets wh grp ord piv lim dist q,
  Forall (fun t => named t = true) c_targets ->
  finish_select tb c_from c_targets wh grp ord piv lim dist = Ok q -> query_inv q.
Proof.
  intros tb c_from c_targets wh grp ord piv lim dist q Hvis H. unfold finish_select in H.
  destruct (match wh with Some r => _ | None => Ok None end) as [c_where|e]; simpl in H; [|discriminate].
  destruct (match c_where with Some n => has_agg n | None => false end); [discriminate|].
  destruct (compile_group_by c_targets grp) as [[[ts1 g] h]|e] eqn:G; simpl in H; [|discriminate].
  destruct (compile_order_by ts1 ord) as [[ts2 o]|e] eqn:O; simpl in H; [|discriminate].
  destruct (match g with None => existsb ct_agg (skipn (length ts1) ts2) | Some _ => false end) eqn:NA; [discriminate|].
  destruct (match g with Some gi => _ | None => false end) eqn:COV; [discriminate|].
  destruct (compile_pivot_by ts2 g piv) as [pv|e] eqn:P; simpl in H; [|discriminate].
  inversion H; subst; clear H.
  pose proof (compile_group_by_spec _ _ _ _ _ G) as [[ex1 [-> Hex1]] [Hg Hh]].
  pose proof (compile_order_by_spec _ _ _ _ O) as [[ex2 [-> Hex2]] Ho].
  constructor; simpl.
  - exists c_targets, (ex1 ++ ex2). rewrite app_assoc. split; auto. split; auto. apply Forall_app; auto.
  - intros gi E. subst g. apply negb_false_iff in COV. apply andb_true_iff in COV. destruct COV as [C1 C2].
    rewrite forallb_forall in C1, C2. intros i. rewrite <- nonagg_indexes_spec. split.
    + intros Hi. apply mem_nat_In. apply C2; auto.
    + intros Hi. apply mem_nat_In. apply C1; auto.
  - intros E. subst g. apply compile_group_none_nonagg in G. destruct G as [E1 E2].
    assert (ex1 = []). { rewrite <- (app_nil_r c_targets) in E1 at 2. apply app_inv_head in E1. auto. }
    subst ex1. rewrite app_nil_r in *. intros t Hin. apply in_app_or in Hin. destruct Hin as [Hin|Hin].
    + eapply existsb_false_forall in E2; eauto.
    + rewrite skipn_app, skipn_all, Nat.sub_diag in NA. simpl in NA.
      eapply existsb_false_forall in NA; eauto.
  - intros k E. subst h. destruct (Hh k eq_refl) as [Hk Hn]. split; auto. rewrite app_length. lia.
  - intros spec E. subst o. apply Ho; auto.
  - intros i1 i2 E. subst pv. apply compile_pivot_by_spec in P. exact P.
Qed.

(* ------------------------------------------------------------------ from finish_select to compile *)
Lemma compile_target_named : forall x alias text r c, compile_target x alias text r = Ok c -> named c = true.
Proof.
  intros x alias text r c H. unfold compile_target in H. destruct r as [n|e]; simpl in H; [|discriminate].
  destruct (check_aggregates n); [discriminate|]. inversion H; subst. reflexivity.
Qed.

Lemma targets_named : forall (f : expr -> rnode) tlist ts,
  (fix go (l : list (expr * option string * string)) : result (list ctarget) cerr :=
     match l with
     | [] => Ok []
     | (x, alias, text) :: t => do c <- compile_target x alias text (f x); do rest <- go t; Ok (c :: rest)
     end) tlist = Ok ts ->
  Forall (fun t => named t = true) ts.
Proof.
  induction tlist as [|[[x alias] text] t IH]; intros ts H.
  - inversion H; constructor.
  - simpl in H. destruct (compile_target x alias text (f x)) as [c|e] eqn:C; simpl in H; [|discriminate].
    match type of H with context [bind ?g _] => destruct g as [rest|e] eqn:G end; simpl in H; [|discriminate].
    inversion H; subst. constructor; [eapply compile_target_named; eauto | apply IH; reflexivity].
Qed.

Lemma wildcard_named : forall tb names ts, wildcard_targets_of tb names = Ok ts -> Forall (fun t => named t = true) ts.
Proof.
  induction names as [|n t IH]; intros ts H; simpl in H.
  - inversion H; constructor.
  - destruct (compile_column tb n); simpl in H; [|discriminate].
    destruct (wildcard_targets_of tb t) eqn:W; simpl in H; [|discriminate].
    inversion H; subst. constructor; [reflexivity | apply IH; reflexivity].
Qed.

Ltac crush_rnode H :=
  repeat (match type of H with
          | context [bind ?x _] => destruct x eqn:?; simpl in H
          | context [match ?x with _ => _ end] => destruct x eqn:?; simpl in H
          end);
  try discriminate H; try (inversion H; fail).

Theorem comp_query_inv : forall sch pv e tbl q, comp sch pv e tbl = Ok (RQuery q) -> query_inv q.
Proof.
  intros sch pv e tbl q H. destruct e; simpl in H; try (crush_rnode H; fail).
  destruct (compile_from sch tbl fk _) as [[tb c_from]|er] eqn:F; simpl in H; [|discriminate].
  match type of H with context [bind ?g _] => destruct g as [c_targets|er] eqn:T end; simpl in H; [|discriminate].
  match type of H with context [bind ?g _] => destruct g as [q0|er] eqn:FS end; simpl in H; [|discriminate].
  inversion H; subst. eapply finish_select_inv; [|exact FS].
  destruct targets as [tlist|].
  - eapply (targets_named (fun x => bind (comp sch pv x tb) as_node)). exact T.
  - eapply wildcard_named. exact T.
Qed.

Theorem compile_inv : forall sch p st q, compile sch p st = Ok (CSelect q) -> query_inv q.
Proof.
  intros sch p st q H. unfold compile in H.
  destruct (bind_params p (stmt_placeholders st)) as [pv|e]; simpl in H; [|discriminate].
  destruct (negb (stmt_subqueries_ok st)); [discriminate|].
  destruct st; simpl in H.
  - destruct (comp sch pv s _) as [[n|q0]|e] eqn:C; simpl in H; try discriminate. inversion H; subst.
    eapply comp_query_inv; eauto.
  - destruct (comp sch pv _ _) as [[n|q0]|e] eqn:C; simpl in H; try discriminate. inversion H; subst.
    eapply comp_query_inv; eauto.
  - destruct (comp sch pv _ _) as [[n|q0]|e] eqn:C; simpl in H; try discriminate. inversion H; subst.
    eapply comp_query_inv; eauto.
  - destruct fk; try discriminate H; crush_rnode H.
Qed.

(* ------------------------------------------------------------------ typing layer: a node is accepted iff an overload exists *)
Definition overload_for (reg : list (string * list overload)) (name : string) (tys : list ty) : Prop :=
  exists sg o, In sg (product (map bases_of tys)) /\ In o (overloads reg name) /\ sig_match (ov_ins o) sg = true.
Definition exact_overload_for (name : string) (tys : list ty) : Prop :=
  exists o, In o (overloads RegistrySnapshot.operators name) /\ sig_match (ov_ins o) tys = true.

Lemma option_some_dec : forall {A} (o : option A), (exists r, o = Some r) \/ o = None.
Proof. destruct o; eauto. Qed.

Theorem build_unary_accepts_iff : forall op x,
  (exists n, build_unary op x = Ok n) <-> overload_for RegistrySnapshot.operators op [dtype x].
Proof.
  intros. unfold overload_for. rewrite <- function_lookup_some_iff. unfold build_unary.
  destruct (function_lookup _ op [dtype x]) as [[i o]|]; split; intros [r H]; try discriminate; eauto.
Qed.

Theorem build_between_accepts_iff : forall a lo hi,
  (exists n, build_between a lo hi = Ok n) <-> exact_overload_for "Between" [dtype a; dtype lo; dtype hi].
Proof.
  intros. unfold exact_overload_for. rewrite <- exact_lookup_some_iff. unfold build_between.
  destruct (exact_lookup _ _) as [[i o]|]; split; intros [r H]; try discriminate; eauto.
Qed.

Theorem apply_function_accepts_iff : forall f ops,
  (exists n, apply_function f ops = Ok n) <-> overload_for RegistrySnapshot.functions f (map dtype ops).
Proof.
  intros. unfold overload_for. rewrite <- function_lookup_some_iff. unfold apply_function.
  destruct (function_lookup _ f _) as [[i o]|]; split; intros [r H]; try discriminate; eauto.
Qed.

(* the implicit cast of an untyped (`object`) operand: its cast function, if the other type has one *)
Definition cast_of (target : ty) (x : cnode) : option cnode :=
  match assoc target RegistrySnapshot.cast_names with
  | None => None
  | Some name => match function_lookup RegistrySnapshot.functions name [dtype x] with
                 | Some (i, o) => Some (NFunc name i [x] (ov_out o) (ov_agg o))
                 | None => None
                 end
  end.

(* a binary operator is accepted iff an overload exists for the operand types themselves, or -- when exactly one
   operand is untyped -- for the types after casting that operand to the type of the other one (int: Decimal) *)
Definition binop_wf (op : string) (l r : cnode) : Prop :=
  exact_overload_for op [dtype l; dtype r]
  \/ (String.eqb (dtype l) "object" = true /\ String.eqb (dtype r) "object" = false
      /\ exists l', cast_of (cast_target (dtype r)) l = Some l' /\ exact_overload_for op [dtype l'; dtype r])
  \/ (String.eqb (dtype l) "object" = false /\ String.eqb (dtype r) "object" = true
      /\ exists r', cast_of (cast_target (dtype l)) r = Some r' /\ exact_overload_for op [dtype l; dtype r']).

Theorem build_binary_accepts_iff : forall op l r,
  (exists n, build_binary op l r = Ok n) <-> binop_wf op l r.
Proof.
  intros op l r. unfold binop_wf, exact_overload_for. repeat rewrite <- exact_lookup_some_iff.
  unfold build_binary. fold (cast_of (cast_target (dtype r)) l). fold (cast_of (cast_target (dtype l)) r).
  destruct (exact_lookup op [dtype l; dtype r]) as [[i o]|] eqn:E0.
  - split; [intros _; left; eauto | intros _; eauto].
  - destruct (String.eqb (dtype l) "object") eqn:L; destruct (String.eqb (dtype r) "object") eqn:Rr; simpl.
    + split; [intros [n H]; discriminate | intros [[x H]|[[_ [H _]]|[H _]]]; discriminate].
    + destruct (cast_of (cast_target (dtype r)) l) as [l'|] eqn:C.
      * destruct (exact_lookup op [dtype l'; dtype r]) as [[i o]|] eqn:E1.
        -- split; [intros _; right; left; repeat split; auto; exists l'; split; auto;
                   apply exact_lookup_some_iff; rewrite E1; eauto | intros _; eauto].
        -- split; [intros [n H]; discriminate|].
           intros [[x H]|[[_ [_ [l2 [H1 H2]]]]|[H _]]]; try discriminate.
           inversion H1; subst. apply exact_lookup_some_iff in H2. rewrite E1 in H2. destruct H2; discriminate.
      * split; [intros [n H]; discriminate|].
        intros [[x H]|[[_ [_ [l2 [H1 H2]]]]|[H _]]]; discriminate.
    + destruct (cast_of (cast_target (dtype l)) r) as [r'|] eqn:C.
      * destruct (exact_lookup op [dtype l; dtype r']) as [[i o]|] eqn:E1.
        -- split; [intros _; right; right; repeat split; auto; exists r'; split; auto;
                   apply exact_lookup_some_iff; rewrite E1; eauto | intros _; eauto].
        -- split; [intros [n H]; discriminate|].
           intros [[x H]|[[H _]|[_ [_ [r2 [H1 H2]]]]]]; try discriminate.
           inversion H1; subst. apply exact_lookup_some_iff in H2. rewrite E1 in H2. destruct H2; discriminate.
      * split; [intros [n H]; discriminate|].
        intros [[x H]|[[H _]|[_ [_ [r2 [H1 H2]]]]]]; discriminate.
    + split; [intros [n H]; discriminate | intros [[x H]|[[H _]|[_ [H _]]]]; discriminate].
Qed.

(* IN / NOT IN: accepted whatever the operand types (OPERATORS[type(node)][0]) *)
Theorem build_in_accepts_always : forall op x n, exists m, build_in_any op x (RNode n) = Ok m.
Proof. intros; simpl; eauto. Qed.

(* aggregate rules of one expression as conditions on the sets the code computes *)
Theorem check_aggregates_none_iff : forall n,
  check_aggregates n = None <-> ~ (has_col n = true /\ has_agg n = true) /\ nested_agg n = false.
Proof.
  intros. unfold check_aggregates.
  destruct (has_col n); destruct (has_agg n); destruct (nested_agg n); simpl; split; intros H;
    try discriminate; try reflexivity; try (split; [intros [A B]; discriminate | reflexivity]);
    try (destruct H as [H1 H2]; try discriminate; exfalso; apply H1; split; reflexivity).
Qed.

(* PIVOT BY: accepted iff both references resolve to visible positions / target names, are different, and the
   second one is a GROUP BY index *)
Theorem compile_pivot_accepts_iff : forall ts g p1 p2,
  (exists r, compile_pivot_by ts g (Some (p1, p2)) = Ok r) <->
  exists i1 i2, resolve_pivot ts p1 = Ok i1 /\ resolve_pivot ts p2 = Ok i2 /\ i1 <> i2
                /\ exists gi, g = Some gi /\ In i2 gi.
Proof.
  intros ts g p1 p2. unfold compile_pivot_by. split.
  - intros [r H]. destruct (resolve_pivot ts p1) as [a|e]; simpl in H; [|discriminate].
    destruct (resolve_pivot ts p2) as [b|e]; simpl in H; [|discriminate].
    destruct (Nat.eqb a b) eqn:E; [discriminate|]. destruct g as [gi|]; [|discriminate].
    destruct (negb (mem_nat b gi)) eqn:M; [discriminate|].
    exists a, b. repeat split; auto. apply Nat.eqb_neq; auto.
    exists gi; split; auto. apply mem_nat_In. apply negb_false_iff; auto.
  - intros [i1 [i2 [H1 [H2 [Hne [gi [-> Hin]]]]]]]. rewrite H1, H2. simpl.
    apply Nat.eqb_neq in Hne. rewrite Hne. apply mem_nat_In in Hin. rewrite Hin. simpl. eauto.
Qed.

(* positional references: in range exactly when 1 <= n <= number of referenceable targets *)
Theorem nat_index_some_iff : forall z b, (exists i, nat_index z b = Some i) <-> (1 <= z <= Z.of_nat b)%Z.
Proof.
  intros. unfold nat_index. destruct ((1 <=? z)%Z && (z <=? Z.of_nat b)%Z) eqn:E.
  - apply andb_true_iff in E. destruct E as [E1 E2]. apply Z.leb_le in E1. apply Z.leb_le in E2.
    split; [intros _; lia | intros _; eauto].
  - split; [intros [i H]; discriminate|]. intros [H1 H2].
    apply andb_false_iff in E. destruct E as [E|E]; apply Z.leb_gt in E; lia.
Qed.

(* ------------------------------------------------------------------ the aggregate predicates are the literal walk
   get_columns_and_aggregates (two accumulators, nothing below an aggregate node is visited): has_col / has_agg say
   whether its two result lists are non-empty; is_aggregate(node) = bool(aggregates) = has_agg *)
Section CnodeInd.
  Variable P : cnode -> Prop.
  Hypothesis HConst : forall v dt, P (NConst v dt).
  Hypothesis HCol : forall c dt, P (NCol c dt).
  Hypothesis HOp : forall op i args dt, Forall P args -> P (NOp op i args dt).
  Hypothesis HAnd : forall args, Forall P args -> P (NAnd args).
  Hypothesis HOr : forall args, Forall P args -> P (NOr args).
  Hypothesis HCoal : forall args dt, Forall P args -> P (NCoalesce args dt).
  Hypothesis HFunc : forall f i args dt agg, Forall P args -> P (NFunc f i args dt agg).
  Hypothesis HGetItem : forall e k, P e -> P (NGetItem e k).
  Hypothesis HGetter : forall e a dt, P e -> P (NGetter e a dt).
  Hypothesis HSub : P NSub1D.

  Fixpoint cnode_ind' (n : cnode) : P n :=
    let many := fix many (l : list cnode) : Forall P l :=
                  match l with
                  | [] => Forall_nil P
                  | x :: t => Forall_cons x (cnode_ind' x) (many t)
                  end in
    match n with
    | NConst v dt => HConst v dt
    | NCol c dt => HCol c dt
    | NOp op i args dt => HOp op i args dt (many args)
    | NAnd args => HAnd args (many args)
    | NOr args => HOr args (many args)
    | NCoalesce args dt => HCoal args dt (many args)
    | NFunc f i args dt agg => HFunc f i args dt agg (many args)
    | NGetItem e k => HGetItem e k (cnode_ind' e)
    | NGetter e a dt => HGetter e a dt (cnode_ind' e)
    | NSub1D => HSub
    end.
End CnodeInd.

Definition nonempty {A} (l : list A) : bool := match l with [] => false | _ => true end.

Lemma nonempty_app : forall {A} (a b : list A), nonempty (a ++ b) = nonempty a || nonempty b.
Proof. intros A [|x a] b; simpl; auto. Qed.

Definition walk_many := fix many (l : list cnode) : list cnode * list cnode :=
  match l with
  | [] => ([], [])
  | x :: t => let (c, a) := cols_aggs x in let (c', a') := many t in (c ++ c', a ++ a')
  end.

Lemma walk_many_spec : forall args,
  Forall (fun n => has_col n = nonempty (fst (cols_aggs n)) /\ has_agg n = nonempty (snd (cols_aggs n))) args ->
  existsb has_col args = nonempty (fst (walk_many args)) /\ existsb has_agg args = nonempty (snd (walk_many args)).
Proof.
  induction 1 as [|x t [Hc Ha] _ [IHc IHa]]; simpl; auto.
  destruct (cols_aggs x) as [c a]. destruct (walk_many t) as [c' a']. simpl in *.
  rewrite !nonempty_app, Hc, Ha, IHc, IHa. auto.
Qed.

Theorem predicates_are_the_walk : forall n,
  has_col n = nonempty (fst (cols_aggs n)) /\ has_agg n = nonempty (snd (cols_aggs n)).
Proof.
  induction n using cnode_ind'; simpl; auto;
    try (apply walk_many_spec; assumption).
  destruct agg; simpl; auto. apply walk_many_spec; assumption.
Qed.
