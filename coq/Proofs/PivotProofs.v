From Coq Require Import ZArith List Bool Lia Arith Sorted.
Import ListNotations.
From Verif Require Import Base.StableSort Base.PyValue Proofs.PyValueProofs Model.Order Model.Pivot.
Open Scope nat_scope.

(* ---- uniform blocks ---- *)
Definition uniform {A} (n : nat) (bs : list (list A)) := Forall (fun b => length b = n) bs.

Lemma firstn_concat_uniform {A} n (bs : list (list A)) j :
  uniform n bs -> firstn (j * n) (concat bs) = concat (firstn j bs).
Proof.
  revert bs. induction j as [|j IH]; intros bs U; [reflexivity|].
  destruct bs as [|b t]; [simpl; now rewrite firstn_nil|].
  inversion U as [|? ? Hb Ht]; subst. simpl.
  replace (length b + j * length b) with (length b + j * length b) by reflexivity.
  rewrite firstn_app, firstn_all2 by lia.
  replace (length b + j * length b - length b) with (j * length b) by lia.
  now rewrite IH.
Qed.

Lemma skipn_concat_uniform {A} n (bs : list (list A)) j :
  uniform n bs -> skipn (j * n) (concat bs) = concat (skipn j bs).
Proof.
  revert bs. induction j as [|j IH]; intros bs U; [reflexivity|].
  destruct bs as [|b t]; [simpl; now rewrite skipn_nil|].
  inversion U as [|? ? Hb Ht]; subst. simpl.
  rewrite skipn_app, skipn_all2 by lia.
  replace (length b + j * length b - length b) with (j * length b) by lia.
  simpl. now apply IH.
Qed.

Definition replace {A} (j : nat) (v : A) (l : list A) : list A := firstn j l ++ v :: skipn (S j) l.

Lemma replace_length {A} j (v : A) l : j < length l -> length (replace j v l) = length l.
Proof.
  intros H. unfold replace. rewrite app_length, firstn_length. cbn [length]. rewrite skipn_length. lia.
Qed.

Lemma in_firstn {A} k (l : list A) x : In x (firstn k l) -> In x l.
Proof. intros H. rewrite <- (firstn_skipn k l). apply in_or_app. now left. Qed.
Lemma in_skipn {A} k (l : list A) x : In x (skipn k l) -> In x l.
Proof. intros H. rewrite <- (firstn_skipn k l). apply in_or_app. now right. Qed.

Lemma replace_uniform {A} n j (v : list A) bs : uniform n bs -> length v = n -> uniform n (replace j v bs).
Proof.
  intros U Hv. unfold replace, uniform in *. rewrite Forall_forall in U. apply Forall_app. split.
  - apply Forall_forall. intros x Hx. apply U. eapply in_firstn; exact Hx.
  - constructor; [exact Hv|]. apply Forall_forall. intros x Hx. apply U. eapply in_skipn; exact Hx.
Qed.

Lemma nth_skipn' {A} k i (l : list A) d : nth i (skipn k l) d = nth (k + i) l d.
Proof. revert l. induction k as [|k IH]; intros l; [reflexivity|]. destruct l; [now destruct i|]. simpl. apply IH. Qed.

Lemma nth_replace_same {A} j (v d : A) l : j < length l -> nth j (replace j v l) d = v.
Proof.
  intros H. unfold replace. rewrite app_nth2; rewrite firstn_length; [|lia].
  replace (j - Nat.min j (length l)) with 0 by lia. reflexivity.
Qed.

Lemma nth_replace_other {A} j i (v d : A) l : j < length l -> i <> j -> nth i (replace j v l) d = nth i l d.
Proof.
  intros Hj H. unfold replace.
  destruct (Nat.lt_ge_cases i j) as [Hi|Hi].
  - rewrite app_nth1 by (rewrite firstn_length; lia).
    rewrite <- (firstn_skipn j l) at 2. rewrite app_nth1 by (rewrite firstn_length; lia). reflexivity.
  - rewrite app_nth2 by (rewrite firstn_length; lia). rewrite firstn_length.
    replace (i - Nat.min j (length l)) with (S (i - S j)) by lia. cbn [nth].
    rewrite nth_skipn'. f_equal. lia.
Qed.

(* ---- slice assignment on a row laid out as field1 :: block_0 ++ block_1 ++ ... ---- *)
Lemma set_block_concat n (bs : list (list value)) j f vals :
  uniform n bs -> j < length bs -> length vals = n ->
  set_block (f :: concat bs) (j * n + 1) n vals = f :: concat (replace j vals bs).
Proof.
  intros U Hj Hv. unfold set_block, replace.
  replace (j * n + 1) with (S (j * n)) by lia. cbn [firstn].
  rewrite (firstn_concat_uniform n bs j U).
  replace (S (j * n) + n) with (S (S j * n)) by (simpl; lia). cbn [skipn].
  rewrite (skipn_concat_uniform n bs (S j) U).
  rewrite concat_app. cbn [concat app]. reflexivity.
Qed.

Lemma repeat_concat {A} (x : A) n k : repeat x (k * n) = concat (repeat (repeat x n) k).
Proof. induction k as [|k IH]; [reflexivity|]. simpl. now rewrite repeat_app, IH. Qed.

Lemma uniform_repeat {A} (b : list A) k : uniform (length b) (repeat b k).
Proof. induction k; constructor; auto. Qed.

Lemma index_of_lt v keys : existsb (fun k => val_eq k v) keys = true -> index_of v keys < length keys.
Proof.
  induction keys as [|k t IH]; simpl; [discriminate|].
  destruct (val_eq k v); simpl; [lia|]. intros H. apply IH in H. lia.
Qed.

Section Row.
Variable keys : list value.
Variable oc : list nat.
Variable col2 : nat.
Let n := length oc.

Definition blocks_step (bs : list (list value)) (r : row) : list (list value) :=
  replace (index_of (cell col2 r) keys) (other oc r) bs.

Definition blocks (group : list row) : list (list value) :=
  fold_left blocks_step group (repeat (repeat VNull n) (length keys)).

Definition in_keys (r : row) : Prop := existsb (fun k => val_eq k (cell col2 r)) keys = true.

Lemma other_length r : length (other oc r) = n.
Proof. unfold other. now rewrite map_length. Qed.

Lemma blocks_inv group bs0 : uniform n bs0 -> length bs0 = length keys -> Forall in_keys group ->
  uniform n (fold_left blocks_step group bs0) /\ length (fold_left blocks_step group bs0) = length keys.
Proof.
  revert bs0. induction group as [|r t IH]; intros bs0 U L F; [now split|].
  inversion F as [|? ? Hr Ht]; subst. simpl. apply IH; [| |exact Ht].
  - apply replace_uniform; [exact U|apply other_length].
  - unfold blocks_step. rewrite replace_length; [exact L|]. rewrite L. now apply index_of_lt.
Qed.

(* The row assembled by repeated slice assignment is field1 followed by the
   concatenation of one block per key. *)
Theorem build_row_blocks field1 group : Forall in_keys group ->
  build_row keys oc col2 (1 + length keys * n) field1 group = field1 :: concat (blocks group).
Proof.
  intros F. unfold build_row, blocks. replace (1 + length keys * n - 1) with (length keys * n) by lia.
  rewrite repeat_concat. fold n.
  assert (G : forall bs0, uniform n bs0 -> length bs0 = length keys ->
            fold_left (fun out r => set_block out (index_of (cell col2 r) keys * n + 1) n (other oc r))
                      group (field1 :: concat bs0)
            = field1 :: concat (fold_left blocks_step group bs0)).
  { induction F as [|r t Hr Ht IH]; intros bs0 U L; [reflexivity|]. simpl.
    rewrite set_block_concat; [|exact U|rewrite L; now apply index_of_lt|apply other_length].
    apply IH.
    - apply replace_uniform; [exact U|apply other_length].
    - unfold blocks_step. rewrite replace_length; [exact L|]. rewrite L. now apply index_of_lt. }
  apply G.
  - replace n with (length (repeat VNull n)) at 1 by apply repeat_length. apply uniform_repeat.
  - apply repeat_length.
Qed.

(* block j holds the remaining columns of the LAST row of the group whose second
   pivot value is key j, or NULLs when there is none *)
Theorem block_content group j : Forall in_keys group -> j < length keys ->
  nth j (blocks group) [] =
  match find (fun r => Nat.eqb (index_of (cell col2 r) keys) j) (rev group) with
  | Some r => other oc r
  | None => repeat VNull n
  end.
Proof.
  intros F Hj. unfold blocks. induction group as [|r t IH] using rev_ind.
  - simpl. clear F. revert j Hj. induction (length keys) as [|k IHk]; intros j Hj; [lia|].
    destruct j; [reflexivity|]. simpl. apply IHk. lia.
  - apply Forall_app in F as [Ft Fr]. inversion Fr as [|? ? Hr _]; subst.
    rewrite fold_left_app, rev_app_distr. simpl.
    destruct (blocks_inv t (repeat (repeat VNull n) (length keys))) as [U L];
      [replace n with (length (repeat VNull n)) at 1 by apply repeat_length; apply uniform_repeat
      |apply repeat_length|exact Ft|].
    unfold blocks_step at 1.
    destruct (Nat.eqb (index_of (cell col2 r) keys) j) eqn:E.
    + apply Nat.eqb_eq in E. subst j. apply nth_replace_same. now rewrite L.
    + apply Nat.eqb_neq in E. rewrite nth_replace_other; [apply IH; exact Ft| |lia].
      rewrite L. now apply index_of_lt.
Qed.
End Row.

(* ---- the key set: sorted ascending, no two equal, complete ---- *)
Lemma nub_vals_fresh seen l y : In y (nub_vals seen l) -> existsb (val_eq y) seen = false.
Proof.
  revert seen. induction l as [|v t IH]; intros seen; simpl; [tauto|].
  destruct (existsb (val_eq v) seen) eqn:E; [apply IH|].
  intros [<-|H]; [exact E|]. apply IH in H. rewrite existsb_app in H. now apply orb_false_iff in H.
Qed.

Lemma nub_vals_complete l x : forall seen, In x l ->
  (exists y, In y (nub_vals seen l) /\ val_eq x y = true) \/ existsb (val_eq x) seen = true.
Proof.
  induction l as [|v t IH]; intros seen; simpl; [tauto|].
  intros [->|H].
  - destruct (existsb (val_eq x) seen) eqn:E; [now right|]. left. exists x. split; [now left|apply val_eq_refl].
  - destruct (existsb (val_eq v) seen) eqn:E; [apply IH; exact H|].
    destruct (IH (seen ++ [v]) H) as [(y & Hy & Hxy)|Hs].
    + left. exists y. split; [now right|exact Hxy].
    + rewrite existsb_app in Hs. apply orb_true_iff in Hs as [Hs|Hs]; [now right|].
      simpl in Hs. rewrite orb_false_r in Hs. left. exists v. split; [now left|exact Hs].
Qed.

Theorem pivot_keys_sorted col2 rows : sorted val_le (pivot_keys col2 rows).
Proof. apply isort_sorted; [apply val_le_total|apply val_le_trans]. Qed.

Theorem pivot_keys_complete col2 rows r : In r rows ->
  existsb (fun k => val_eq k (cell col2 r)) (pivot_keys col2 rows) = true.
Proof.
  intros Hin. destruct (nub_vals_complete (map (cell col2) rows) (cell col2 r) [] (in_map _ _ _ Hin))
    as [(y & Hy & Hxy)|H]; [|discriminate].
  apply existsb_exists. exists y. split; [|now rewrite val_eq_sym].
  unfold pivot_keys. eapply Permutation.Permutation_in; [apply isort_perm|exact Hy].
Qed.

(* header: the leading first/second column, then one block of the remaining columns per key, keys ascending *)
Lemma flat_map_header_length keys (oc : list nat) :
  length (flat_map (fun k : value => map (fun c => Some (k, c)) oc) keys) = length keys * length oc.
Proof. induction keys as [|k ks IH]; [reflexivity|]. cbn [flat_map]. rewrite app_length, map_length, IH. simpl. lia. Qed.

Theorem pivot_header_length keys oc : oc <> [] -> length (pivot_header keys oc) = 1 + length keys * length oc.
Proof.
  intros H. unfold pivot_header. destruct oc as [|c t] eqn:E; [congruence|]. rewrite <- E.
  cbn [length]. now rewrite flat_map_header_length.
Qed.

Theorem pivot_header_entry keys oc j i k c : oc <> [] ->
  nth_error keys j = Some k -> nth_error oc i = Some c ->
  nth_error (pivot_header keys oc) (1 + j * length oc + i) = Some (Some (k, c)).
Proof.
  intros H Hk Hc. unfold pivot_header. destruct oc as [|c0 t] eqn:Eoc; [congruence|]. rewrite <- Eoc in *.
  cbn [plus nth_error]. clear H Eoc c0 t.
  revert j Hk. induction keys as [|k0 ks IH]; intros j Hk; [destruct j; discriminate|].
  cbn [flat_map]. destruct j as [|j].
  - injection Hk as ->. simpl. rewrite nth_error_app1; [exact (map_nth_error (fun c => Some (k, c)) i oc Hc)|].
    rewrite map_length. apply nth_error_Some. congruence.
  - simpl in Hk. rewrite nth_error_app2; rewrite map_length; [|simpl; lia].
    replace (S j * length oc + i - length oc) with (j * length oc + i) by (simpl; lia). now apply IH.
Qed.

(* ---- itertools.groupby on the rows sorted by the first pivot column ---- *)
Definition cur_rows (cur : option (value * list row)) : list row :=
  match cur with None => [] | Some (_, g) => g end.

Lemma groupby_concat col1 rows : forall cur,
  concat (map snd (groupby col1 cur rows)) = cur_rows cur ++ rows.
Proof.
  induction rows as [|r t IH]; intros cur; simpl.
  - destruct cur as [[k g]|]; simpl; now rewrite ?app_nil_r.
  - destruct cur as [[k g]|]; [|rewrite IH; reflexivity].
    destruct (val_eq (cell col1 r) k); simpl; rewrite IH; simpl; [now rewrite <- app_assoc|reflexivity].
Qed.

Definition cur_ok col1 (cur : option (value * list row)) : Prop :=
  match cur with None => True | Some (k, g) => g <> [] /\ Forall (fun r => val_eq (cell col1 r) k = true) g end.

Lemma groupby_groups col1 rows : forall cur, cur_ok col1 cur ->
  Forall (fun kg => snd kg <> [] /\ Forall (fun r => val_eq (cell col1 r) (fst kg) = true) (snd kg))
         (groupby col1 cur rows).
Proof.
  induction rows as [|r t IH]; intros cur Hc; simpl.
  - destruct cur as [[k g]|]; constructor; [exact Hc|constructor].
  - assert (New : cur_ok col1 (Some (cell col1 r, [r]))).
    { split; [discriminate|]. constructor; [apply val_eq_refl|constructor]. }
    destruct cur as [[k g]|]; [|apply IH; exact New].
    destruct (val_eq (cell col1 r) k) eqn:E.
    + apply IH. destruct Hc as [Hne Hall]. split; [destruct g; discriminate|].
      apply Forall_app. split; [exact Hall|constructor; [exact E|constructor]].
    + constructor; [exact Hc|apply IH; exact New].
Qed.

(* strictly below *)
Definition slt (a b : value) : bool := val_le a b && negb (val_le b a).

Lemma groupby_keys_sorted col1 rows : forall k g,
  sorted val_le (k :: map (cell col1) rows) ->
  sorted val_le (map fst (groupby col1 (Some (k, g)) rows))
  /\ Forall (fun k' => val_le k k' = true) (map fst (groupby col1 (Some (k, g)) rows))
  /\ StronglySorted (fun a b => slt a b = true) (map fst (groupby col1 (Some (k, g)) rows)).
Proof.
  induction rows as [|r t IH]; intros k g S; simpl.
  - repeat split; repeat constructor. apply le_refl, val_le_total.
  - inversion S as [|? ? S' Hall]; subst. inversion Hall as [|? ? Hkr Hall']; subst.
    destruct (val_eq (cell col1 r) k) eqn:E.
    + apply IH. constructor; [inversion S'; assumption|exact Hall'].
    + destruct (IH (cell col1 r) [r] S') as (I1 & I2 & I3). simpl.
      assert (Hlt : forall k', val_le (cell col1 r) k' = true -> slt k k' = true).
      { intros k' H. unfold slt. apply andb_true_intro. split; [eapply val_le_trans; eassumption|].
        apply negb_true_iff. destruct (val_le k' k) eqn:E'; [|reflexivity]. exfalso.
        assert (val_le (cell col1 r) k = true) by (eapply val_le_trans; eassumption).
        unfold val_eq, eqv in E. rewrite H0, Hkr in E. discriminate. }
      split; [|split].
      * constructor; [exact I1|]. rewrite Forall_forall in *. intros k' Hk'.
        eapply val_le_trans; [exact Hkr|]. now apply I2.
      * constructor; [apply le_refl, val_le_total|]. rewrite Forall_forall in *. intros k' Hk'.
        eapply val_le_trans; [exact Hkr|]. now apply I2.
      * constructor; [exact I3|]. rewrite Forall_forall in *. intros k' Hk'. apply Hlt. now apply I2.
Qed.

Lemma sorted_map_on col1 (l : list row) : sorted (on (cell col1) val_le) l -> sorted val_le (map (cell col1) l).
Proof.
  induction 1 as [|x l Sl IH Hx]; [constructor|]. simpl. constructor; [exact IH|].
  rewrite Forall_forall in *. intros y Hy. apply in_map_iff in Hy as (z & <- & Hz). now apply Hx.
Qed.

(* one pivoted row per distinct first value, strictly ascending; the groups partition the sorted rows *)
Theorem pivot_groups col1 rows :
  let groups := groupby col1 None (isort (on (cell col1) val_le) rows) in
  concat (map snd groups) = isort (on (cell col1) val_le) rows
  /\ Forall (fun kg => snd kg <> [] /\ Forall (fun r => val_eq (cell col1 r) (fst kg) = true) (snd kg)) groups
  /\ StronglySorted (fun a b => slt a b = true) (map fst groups).
Proof.
  cbn zeta. split; [apply (groupby_concat col1 _ None)|]. split; [apply groupby_groups; exact I|].
  assert (S : sorted (on (cell col1) val_le) (isort (on (cell col1) val_le) rows))
    by (apply isort_sorted; [apply total_on, val_le_total|apply trans_on, val_le_trans]).
  destruct (isort (on (cell col1) val_le) rows) as [|r t]; [constructor|]. simpl.
  apply groupby_keys_sorted. exact (sorted_map_on col1 (r :: t) S).
Qed.

(* ---- losslessness: every un-pivoted row is found again, at its (first, second) place ---- *)
Lemma index_of_hit v keys : existsb (fun k => val_eq k v) keys = true ->
  val_eq (nth (index_of v keys) keys VNull) v = true.
Proof.
  induction keys as [|k t IH]; simpl; [discriminate|].
  destruct (val_eq k v) eqn:E; simpl; [intros _; exact E|]. exact IH.
Qed.

Lemma in_concat_groups (groups : list (value * list row)) r :
  In r (concat (map snd groups)) -> exists kg, In kg groups /\ In r (snd kg).
Proof.
  induction groups as [|kg t IH]; simpl; [tauto|]. intros H. apply in_app_or in H as [H|H].
  - exists kg. split; [now left|exact H].
  - destruct (IH H) as (kg' & H1 & H2). exists kg'. split; [now right|exact H2].
Qed.

Theorem pivot_lossless ncols col1 col2 rows r :
  let oc := other_cols ncols col1 col2 in
  let keys := pivot_keys col2 rows in
  let groups := groupby col1 None (isort (on (cell col1) val_le) rows) in
  (* (first, second) identifies the remaining columns: the query is grouped by exactly these two columns *)
  (forall r1 r2, In r1 rows -> In r2 rows ->
     val_eq (cell col1 r1) (cell col1 r2) = true -> val_eq (cell col2 r1) (cell col2 r2) = true ->
     other oc r1 = other oc r2) ->
  In r rows ->
  exists kg, In kg groups /\ val_eq (cell col1 r) (fst kg) = true
             /\ nth (index_of (cell col2 r) keys) (blocks keys oc col2 (snd kg)) [] = other oc r.
Proof.
  cbn zeta. intros U Hin.
  set (oc := other_cols ncols col1 col2). set (keys := pivot_keys col2 rows).
  destruct (pivot_groups col1 rows) as (Hcat & Hgr & _).
  set (groups := groupby col1 None (isort (on (cell col1) val_le) rows)) in *.
  assert (Hs : In r (isort (on (cell col1) val_le) rows))
    by (eapply Permutation.Permutation_in; [apply isort_perm|exact Hin]).
  rewrite <- Hcat in Hs. destruct (in_concat_groups groups r Hs) as (kg & Hkg & Hr).
  exists kg. split; [exact Hkg|]. rewrite Forall_forall in Hgr. destruct (Hgr kg Hkg) as (_ & Hall).
  rewrite Forall_forall in Hall. split; [now apply Hall|].
  assert (Hsub : forall x, In x (snd kg) -> In x rows).
  { intros x Hx. eapply Permutation.Permutation_in; [apply Permutation.Permutation_sym, isort_perm|].
    rewrite <- Hcat. clear - Hkg Hx. induction groups as [|g t IH]; [destruct Hkg|]. simpl. apply in_or_app.
    destruct Hkg as [->|H]; [now left|right; now apply IH]. }
  assert (Hkeys : Forall (in_keys keys col2) (snd kg)).
  { apply Forall_forall. intros x Hx. apply pivot_keys_complete. now apply Hsub. }
  assert (Hj : index_of (cell col2 r) keys < length keys) by (apply index_of_lt, pivot_keys_complete, Hin).
  rewrite (block_content keys oc col2 (snd kg) _ Hkeys Hj).
  destruct (find (fun r0 => Nat.eqb (index_of (cell col2 r0) keys) (index_of (cell col2 r) keys)) (rev (snd kg))) as [r'|] eqn:F.
  - apply find_some in F as [Hr' Heq]. apply in_rev in Hr'. apply Nat.eqb_eq in Heq.
    apply U; [now apply Hsub|exact Hin| |].
    + eapply val_eq_trans; [apply Hall; exact Hr'|]. rewrite val_eq_sym. now apply Hall.
    + pose proof (index_of_hit (cell col2 r') keys (pivot_keys_complete col2 rows r' (Hsub r' Hr'))) as H1.
      pose proof (index_of_hit (cell col2 r) keys (pivot_keys_complete col2 rows r Hin)) as H2.
      rewrite Heq in H1. rewrite val_eq_sym in H1. eapply val_eq_trans; [exact H1|exact H2].
  - exfalso. assert (Hrr : In r (rev (snd kg))) by (now apply -> in_rev).
    pose proof (find_none _ _ F r Hrr) as Hn. simpl in Hn. rewrite Nat.eqb_refl in Hn. discriminate.
Qed.
