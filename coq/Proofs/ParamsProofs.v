From Coq Require Import ZArith List Bool Lia ZifyBool.
Import ListNotations.
From Verif Require Import Base.StableSort Base.PyValue Base.Decimal Model.Eval Model.Params.
Open Scope Z_scope.

(* ---- history independence (design without AST mutation) ---- *)
Lemma bind_nomut phs p : fst (bind false phs p) = phs.
Proof.
  unfold bind. destruct phs as [|q t]; [reflexivity|].
  destruct (forallb name_truthy _).
  - destruct p; try reflexivity. destruct (forallb _ _); reflexivity.
  - destruct (negb _); [|reflexivity]. destruct p; try reflexivity. destruct (Nat.eqb _ _); reflexivity.
Qed.

Lemma set_nth_same {A} (l : list A) n x : nth_error l n = Some x -> set_nth l n x = l.
Proof.
  revert n. induction l as [|y t IH]; intros [|n] H; simpl in *; try discriminate.
  - now inversion H.
  - now rewrite IH.
Qed.

Lemma exec_many_fresh phs ps : exec_many false phs ps = map (fresh phs) ps.
Proof.
  induction ps as [|p t IH]; [reflexivity|]. simpl.
  destruct (bind false phs p) as [phs' r] eqn:E.
  assert (phs' = phs) by (pose proof (bind_nomut phs p) as H; now rewrite E in H). subst.
  rewrite IH. unfold fresh. now rewrite E.
Qed.

(* Every execution in every history returns what a fresh connection returns for
   that statement and those parameters. *)
Theorem history_independent h : forall store, run_history false store h = expected_history store h.
Proof.
  induction h as [|o t IH]; intros store; [reflexivity|].
  destruct o as [phs|id p|phs p|phs ps]; simpl.
  - now rewrite IH.
  - destruct (nth_error store id) as [phs|] eqn:E; [|now rewrite IH].
    destruct (bind false phs p) as [phs' r] eqn:B.
    assert (phs' = phs) by (pose proof (bind_nomut phs p) as H; now rewrite B in H). subst.
    rewrite (set_nth_same _ _ _ E), IH. unfold fresh. now rewrite B.
  - now rewrite IH.
  - now rewrite IH, exec_many_fresh.
Qed.

(* The design that renumbers placeholders ON the shared AST is NOT history independent:
   re-executing a parsed statement with two %s fails with "mixed". *)
Definition two_positional : list ph := [{| ph_pos := 10; ph_name := PEmpty |}; {| ph_pos := 20; ph_name := PEmpty |}].
Theorem reexecute_refuted :
  run_history true [] [HParse two_positional; HExecAst 0 (PSeq [VInt 1; VInt 2]); HExecAst 0 (PSeq [VInt 1; VInt 2])]
  = [[]; [inl [VInt 1; VInt 2]]; [inr EMixed]].
Proof. reflexivity. Qed.

(* ---- positional parameters bind in left-to-right textual order ---- *)
Definition before (p : Z) (l : list ph) : nat := length (filter (fun q => ph_pos q <? p) l).

Lemma before_insert p x s : before p (insert by_pos x s) = before p (x :: s).
Proof.
  unfold before. induction s as [|y t IH]; [reflexivity|]. simpl.
  destruct (by_pos x y); [reflexivity|]. simpl in *.
  destruct (ph_pos y <? p), (ph_pos x <? p); simpl in *; lia.
Qed.

Lemma before_isort p l : before p (isort by_pos l) = before p l.
Proof.
  induction l as [|x t IH]; [reflexivity|]. simpl. rewrite before_insert. unfold before in *. simpl.
  destruct (ph_pos x <? p); simpl; now rewrite IH.
Qed.

Lemma index_in_sorted p s : sorted by_pos s -> In p (map ph_pos s) -> index_in p s = before p s.
Proof.
  induction 1 as [|q t St IH Hq]; intros Hin; [destruct Hin|].
  unfold before in *. simpl. rewrite Forall_forall in Hq.
  destruct (ph_pos q =? p) eqn:E.
  - apply Z.eqb_eq in E. replace (ph_pos q <? p) with false by lia.
    assert (F : filter (fun q0 => ph_pos q0 <? p) t = []); [|now rewrite F].
    clear IH Hin. induction t as [|y t' IHt]; [reflexivity|]. simpl.
    assert (Hqy : by_pos q y = true) by (apply Hq; now left). unfold by_pos, on in Hqy.
    replace (ph_pos y <? p) with false by lia. apply IHt.
    + inversion St; assumption.
    + intros z Hz. apply Hq. now right.
  - destruct Hin as [Hin|Hin]; [lia|]. rewrite IH by exact Hin.
    apply in_map_iff in Hin as (z & Hz & Hzt). specialize (Hq z Hzt). unfold by_pos, on in Hq.
    replace (ph_pos q <? p) with true by lia. reflexivity.
Qed.

Lemma by_pos_total : total by_pos.
Proof. intros x y. unfold by_pos, on. destruct (Z.leb_spec (ph_pos x) (ph_pos y)); [now left|right; lia]. Qed.
Lemma by_pos_trans : trans by_pos.
Proof. intros x y z. unfold by_pos, on. lia. Qed.

(* the number given to a placeholder = how many placeholders stand before it in the text *)
Theorem positional_left_to_right phs q : In q phs -> number_of phs q = before (ph_pos q) phs.
Proof.
  intros Hin. unfold number_of. rewrite index_in_sorted.
  - apply before_isort.
  - apply isort_sorted; [apply by_pos_total|apply by_pos_trans].
  - apply in_map. eapply Permutation.Permutation_in; [apply isort_perm|exact Hin].
Qed.

Theorem positional_binding phs l : phs <> [] -> forallb (fun q => negb (name_truthy (ph_name q))) phs = true ->
  length phs = length l ->
  snd (bind false phs (PSeq l)) = inl (map (fun q => nth (before (ph_pos q) phs) l VNull) phs).
Proof.
  intros Hne Hall Hlen. unfold bind. destruct phs as [|q0 t] eqn:E; [congruence|]. rewrite <- E in *.
  assert (F1 : forallb name_truthy (map ph_name phs) = false).
  { subst phs. simpl in *. apply andb_prop in Hall as [H _]. apply negb_true_iff in H. now rewrite H. }
  assert (F2 : existsb name_truthy (map ph_name phs) = false).
  { clear - Hall. induction phs as [|x t IH]; [reflexivity|]. simpl in *. apply andb_prop in Hall as [H1 H2].
    apply negb_true_iff in H1. rewrite H1. now apply IH. }
  rewrite F1, F2. simpl. rewrite Hlen, Nat.eqb_refl. simpl. f_equal.
  apply map_ext_in. intros q Hq. now rewrite positional_left_to_right.
Qed.

(* named parameters: every placeholder gets the value stored under its name *)
Theorem named_binding phs m : phs <> [] ->
  Forall (fun q => exists s v, ph_name q = PNamed s /\ s <> [] /\ lookup s m = Some v) phs ->
  snd (bind false phs (PMap m)) =
  inl (map (fun q => match ph_name q with PNamed s => match lookup s m with Some v => v | None => VNull end | _ => VNull end) phs).
Proof.
  intros Hne Hall. unfold bind. destruct phs as [|q0 t] eqn:E; [congruence|]. rewrite <- E in *. clear E Hne q0 t.
  assert (F1 : forallb name_truthy (map ph_name phs) = true).
  { induction Hall as [|q l (s & v & Hn & Hs & Hl) _ IH]; [reflexivity|]. simpl. rewrite Hn, IH.
    destruct s; [congruence|reflexivity]. }
  assert (F2 : forallb (fun n => match n with PNamed s => match lookup s m with Some _ => true | None => false end
                                         | _ => false end) (map ph_name phs) = true).
  { clear F1. induction Hall as [|q l (s & v & Hn & Hs & Hl) _ IH]; [reflexivity|]. cbn [forallb map]. rewrite Hn, Hl, IH. reflexivity. }
  rewrite F1, F2. cbn [snd]. rewrite map_map. reflexivity.
Qed.

(* ---- constant folding is sound ---- *)
Section EnodeInd.
Variable P : enode -> Prop.
Hypothesis Hconst : forall v, P (EConst v).
Hypothesis Hcol : forall i, P (ECol i).
Hypothesis Hagg : forall h, P (EAgg h).
Hypothesis Hun : forall op a, P a -> P (EUnary op a).
Hypothesis Hbin : forall op a b, P a -> P b -> P (EBinary op a b).
Hypothesis Hbet : forall a b c, P a -> P b -> P c -> P (EBetween a b c).
Hypothesis Hand : forall l, Forall P l -> P (EAnd l).
Hypothesis Hor : forall l, Forall P l -> P (EOr l).
Hypothesis Hcoal : forall l, Forall P l -> P (ECoalesce l).
Hypothesis Hfun : forall f l, Forall P l -> P (EFunc f l).
Hypothesis Hin : forall n a items, P a -> P (EIn n a items).

Fixpoint enode_ind' (e : enode) : P e :=
  let fix go (l : list enode) : Forall P l :=
    match l with [] => Forall_nil P | x :: t => Forall_cons x (enode_ind' x) (go t) end in
  match e with
  | EConst v => Hconst v
  | ECol i => Hcol i
  | EAgg h => Hagg h
  | EUnary op a => Hun op a (enode_ind' a)
  | EBinary op a b => Hbin op a b (enode_ind' a) (enode_ind' b)
  | EBetween a b c => Hbet a b c (enode_ind' a) (enode_ind' b) (enode_ind' c)
  | EAnd l => Hand l (go l)
  | EOr l => Hor l (go l)
  | ECoalesce l => Hcoal l (go l)
  | EFunc f l => Hfun f l (go l)
  | EIn n a items => Hin n a items (enode_ind' a)
  end.
End EnodeInd.

Lemma const_inv e : is_const e = true -> exists v, e = EConst v.
Proof. destruct e; try discriminate. eauto. Qed.

Lemma map_fold_eval r st l :
  Forall (fun e => eval r st (fold e) = eval r st e) l -> map (eval r st) (map fold l) = map (eval r st) l.
Proof. induction 1 as [|x t Hx Ht IH]; [reflexivity|]. simpl. now rewrite Hx, IH. Qed.

Lemma consts_eval_any r st l : forallb is_const l = true -> map (eval r st) l = map (eval [] []) l.
Proof.
  induction l as [|x t IH]; [reflexivity|]. simpl. intros H. apply andb_prop in H as [Hx Ht].
  destruct (const_inv _ Hx) as (v & ->). simpl. now rewrite IH.
Qed.

Theorem fold_sound r st e : eval r st (fold e) = eval r st e.
Proof.
  induction e using enode_ind'; try reflexivity.
  - (* unary *) cbn [fold]. destruct (is_const (fold e)) eqn:C.
    + destruct (const_inv _ C) as (v & Hv). rewrite Hv in *. simpl in *. now rewrite <- IHe.
    + simpl. now rewrite IHe.
  - (* binary *) cbn [fold]. destruct (is_const (fold e1) && is_const (fold e2)) eqn:C.
    + apply andb_prop in C as [C1 C2]. destruct (const_inv _ C1) as (v1 & H1). destruct (const_inv _ C2) as (v2 & H2).
      rewrite H1, H2 in *. simpl in *. now rewrite <- IHe1, <- IHe2.
    + simpl. now rewrite IHe1, IHe2.
  - (* between *) simpl. now rewrite IHe1, IHe2, IHe3.
  - (* and *) cbn [fold]. rename H into F. simpl. induction F as [|x t Hx Ht IH]; [reflexivity|]. simpl. rewrite Hx.
    destruct (is_null (eval r st x)); [reflexivity|]. destruct (truthy (eval r st x)); [exact IH|reflexivity].
  - (* or *) cbn [fold]. rename H into F. simpl. generalize (VBool false) as acc.
    induction F as [|x t Hx Ht IH]; intros acc; [reflexivity|]. simpl. rewrite Hx.
    destruct (truthy (eval r st x)); [reflexivity|]. apply IH.
  - (* coalesce *) cbn [fold]. rename H into F. simpl. induction F as [|x t Hx Ht IH]; [reflexivity|]. simpl. rewrite Hx.
    destruct (is_null (eval r st x)); [exact IH|reflexivity].
  - (* func *) cbn [fold]. rename H into F. destruct (forallb is_const (map fold l)) eqn:C.
    + cbn [eval]. rewrite <- (map_fold_eval r st l F). now rewrite (consts_eval_any r st _ C).
    + cbn [eval]. now rewrite (map_fold_eval r st l F).
  - (* in *) simpl. now rewrite IHe.
Qed.

(* a folded constant does not depend on the row at all *)
Theorem fold_const_row_independent e v : fold e = EConst v -> forall r st, eval r st e = v.
Proof. intros H r st. rewrite <- fold_sound, H. reflexivity. Qed.
