(* C04: which REGISTERED scalar overloads the typed model (Model/Typing.v func_out, sound by
   Proofs/TypingProofs.v func_sound) covers, computed from the typing table and compared with the registry
   snapshot (Model/RegistrySnapshot.v, tied to the live registries by Proofs/RegistryTie.v). *)
From Coq Require Import String ZArith List Bool.
Import ListNotations.
From Verif Require Import Base.PyValue Model.Eval Model.Typing Proofs.TypingProofs.
Open Scope string_scope.

(* (function name, declared input types, declared output type) *)
Definition sig3 := (string * list string * string)%type.
Definition sig3_eqb (a b : sig3) : bool :=
  let '(n, i, o) := a in let '(n', i', o') := b in String.eqb n n' && list_eqb i i' && String.eqb o o'.
Definition mem3 (x : sig3) (l : list sig3) : bool := existsb (sig3_eqb x) l.
Fixpoint dedupe (l : list sig3) (seen : list sig3) : list sig3 :=
  match l with
  | [] => []
  | x :: t => if mem3 x seen then dedupe t seen else x :: dedupe t (x :: seen)
  end.

(* the registered signature each row of the typing table lands on, with the announced output type *)
Definition covered_overloads : list sig3 :=
  dedupe (map (fun '(f, ts, t) => (func_name f, func_sig f ts, ty_name t)) func_table) [].

(* the scalar (non-aggregate) overloads of the registry whose declared types are all BQL base types *)
Definition base_names := ["int"; "Decimal"; "str"; "date"; "bool"; "object"; "any"].
Definition is_base (s : string) : bool := existsb (String.eqb s) base_names.
Definition scalar_base_overloads : list sig3 :=
  flat_map (fun e => flat_map (fun o : R.overload => let '(nm, ins, out, pure, agg) := o in
              if negb agg && forallb is_base ins && is_base out then [(nm, ins, out)] else []) (snd e)) R.functions.
Definition uncovered_overloads : list sig3 :=
  filter (fun c => negb (mem3 c covered_overloads)) scalar_base_overloads.

Theorem covered_spec : covered_overloads =
  [("abs", ["Decimal"], "Decimal"); ("neg", ["Decimal"], "Decimal");
   ("safediv", ["Decimal"; "int"], "Decimal"); ("safediv", ["Decimal"; "Decimal"], "Decimal");
   ("length", ["str"], "int"); ("upper", ["str"], "str"); ("lower", ["str"], "str"); ("bool", ["any"], "bool");
   ("int", ["Decimal"], "int"); ("decimal", ["int"], "Decimal"); ("substr", ["str"; "int"; "int"], "str");
   (* the C18 library *)
   ("year", ["date"], "int"); ("month", ["date"], "int"); ("day", ["date"], "int"); ("quarter", ["date"], "str");
   ("weekday", ["date"], "str"); ("date_diff", ["date"; "date"], "int"); ("date_part", ["str"; "date"], "int");
   ("date", ["int"; "int"; "int"], "date"); ("date", ["str"], "date"); ("date", ["date"], "date");
   ("date", ["object"], "date"); ("str", ["any"], "str");
   ("int", ["int"], "int"); ("int", ["str"], "int"); ("int", ["bool"], "int"); ("int", ["object"], "int");
   ("decimal", ["Decimal"], "Decimal"); ("decimal", ["bool"], "Decimal");
   ("root", ["str"; "int"], "str"); ("root", ["str"], "str"); ("parent", ["str"], "str"); ("leaf", ["str"], "str");
   ("round", ["int"; "int"], "int"); ("round", ["int"], "int")].
Proof. vm_compute. reflexivity. Qed.

(* every covered signature is a registered overload with exactly that declared output type *)
Theorem covered_registered : forallb (fun c => mem3 c scalar_base_overloads) covered_overloads = true.
Proof. vm_compute. reflexivity. Qed.

(* what is left: functions that can raise on well-typed arguments (see Typing.func_dom), regular expressions,
   repr, today, and the functions that read the ledger context *)
Theorem uncovered_spec : uncovered_overloads =
  [("decimal", ["object"], "Decimal"); ("decimal", ["str"], "Decimal");
   ("round", ["Decimal"; "int"], "Decimal"); ("round", ["Decimal"], "Decimal"); ("repr", ["any"], "str");
   ("maxwidth", ["str"; "int"], "str"); ("splitcomp", ["str"; "str"; "int"], "str");
   ("yearmonth", ["date"], "date"); ("today", [], "date");
   ("grep", ["str"; "str"], "str"); ("grepn", ["str"; "str"; "int"], "str"); ("subst", ["str"; "str"; "str"], "str");
   ("open_date", ["str"], "date"); ("close_date", ["str"], "date"); ("open_meta", ["str"; "str"], "object");
   ("meta", ["str"], "object"); ("entry_meta", ["str"], "object"); ("any_meta", ["str"], "object");
   ("commodity_meta", ["str"; "str"], "object"); ("currency_meta", ["str"; "str"], "object");
   ("account_sortkey", ["str"], "str"); ("has_account", ["str"], "bool");
   ("getprice", ["str"; "str"; "date"], "Decimal"); ("getprice", ["str"; "str"], "Decimal");
   ("possign", ["Decimal"; "str"], "Decimal");
   ("parse_date", ["str"; "str"], "date"); ("parse_date", ["str"], "date");
   ("date_add", ["date"; "int"], "date"); ("date_trunc", ["str"; "date"], "date");
   ("date_bin", ["str"; "date"; "date"], "date")].
Proof. vm_compute. reflexivity. Qed.

Theorem coverage_counts : (length scalar_base_overloads, length covered_overloads) = (65, 35)%nat.
Proof. vm_compute. reflexivity. Qed.

(* a covered signature is sound: whatever typing-table row lands on it *)
Theorem covered_sound : forall f ts t vs,
  func_out f ts = Some t -> Forall2 (fun v a => has_type v a = true) vs ts -> existsb is_null vs = false ->
  has_type (apply_func f vs) t = true /\ (forall k, apply_func f vs <> VErr k).
Proof.
  intros f ts t vs H F N. pose proof (func_sound f ts t vs H F N) as S. split; [exact S|].
  intros k E. rewrite E in S. destruct t; discriminate S.
Qed.
