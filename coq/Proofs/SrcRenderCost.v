(* Tie by translation (C16, bld-render4): CostRenderer of beanquery/query_render.py (Gen/SrcRender.v render_cost_...).
   Interpreting the translated __init__ / update / prepare / format on the encoded values of Model/PrimsRenderCost.v yields
   Render.v's c_init / c_update / c_width / c_format; and the model's formatted cell never exceeds the prepared width
   (cost_fits). *)
From Coq Require Import String ZArith List Bool Lia Arith.
Import ListNotations.
From Verif Require Import Base.PyValue Model.Eval Model.PyMini Model.Render Model.PrimsRender Gen.SrcRender
  Model.PrimsRenderPos Model.PrimsRenderCost Proofs.SrcRender Proofs.PyMiniLemmas Proofs.PyMiniLemmas2 Proofs.PyValueProofs
  Proofs.SrcRenderAmount.
Open Scope string_scope.
Open Scope Z_scope.
Open Scope list_scope.

(* ================================================================== the model: the cell fits the reserved width *)
Section Fits.
Variable quant : dec -> str -> dec.
Variable numfmt : list (dec * str) -> dec -> str -> str.
Notation cupd := (c_update quant).

Lemma c_dw_mono v st : (c_dw st <= 12 -> c_dw (cupd st v) <= 12)%nat.
Proof. unfold c_update; cbn. destruct (c_date v); lia. Qed.

Lemma fold_lw_mono vals : forall st, (c_lw st <= c_lw (fold_left cupd vals st))%nat.
Proof.
  induction vals as [|a vals IH]; intros st; cbn [fold_left]; [lia|].
  etransitivity; [|apply IH]. unfold c_update; cbn. destruct (c_label a); lia.
Qed.
Lemma fold_dw_keep vals : forall st, c_dw st = 12%nat -> c_dw (fold_left cupd vals st) = 12%nat.
Proof.
  induction vals as [|a vals IH]; intros st H; cbn [fold_left]; [exact H|].
  apply IH. unfold c_update; cbn. destruct (c_date a); auto.
Qed.

Lemma label_reserved vals : forall st v l, In v vals -> c_label v = Some l ->
  (length l + 4 <= c_lw (fold_left cupd vals st))%nat.
Proof.
  induction vals as [|a vals IH]; intros st v l Hin Hl; [destruct Hin|].
  cbn [fold_left]. destruct Hin as [->|Hin]; [|eapply IH; eauto].
  etransitivity; [|apply fold_lw_mono]. unfold c_update; cbn. rewrite Hl. lia.
Qed.
Lemma date_reserved vals : forall st v x, In v vals -> c_date v = Some x -> c_dw (fold_left cupd vals st) = 12%nat.
Proof.
  induction vals as [|a vals IH]; intros st v x Hin Hd; [destruct Hin|].
  cbn [fold_left]. destruct Hin as [->|Hin]; [|eapply IH; eauto].
  apply fold_dw_keep. unfold c_update; cbn. rewrite Hd. reflexivity.
Qed.

(* every value the column has seen fits: the amount part by hypothesis (the number formatter is abstract), a date because
   %Y-%m-%d of a four-digit year has 10 characters (hypothesis on date_str), the label because update() reserved
   len(label) + 4 = ', ' + two quotes + the label AS IS *)
Theorem cost_fits : forall (vals : list cost) (v : cost),
  let st := fold_left cupd vals c_init in
  In v vals ->
  (length (a_format numfmt (c_a st) (c_amt v)) <= a_width numfmt (c_a st))%nat ->
  (forall y m d, c_date v = Some (y, m, d) -> length (date_str y m d) = 10%nat) ->
  (length (c_format numfmt st v) <= c_width numfmt st)%nat.
Proof.
  intros vals v st Hin Ha Hd. unfold c_format, c_parts, c_width.
  pose proof (fun l => label_reserved vals c_init v l Hin) as HL.
  pose proof (fun x => date_reserved vals c_init v x Hin) as HD. fold st in HL, HD.
  destruct (c_date v) as [[[y m] d]|] eqn:Ed; destruct (c_label v) as [l|] eqn:El; cbn [app join];
    repeat (rewrite app_length || cbn [length]);
    try (specialize (HL l eq_refl)); try (specialize (HD _ eq_refl)); try (specialize (Hd _ _ _ eq_refl)).
  all: lia.
Qed.
End Fits.

(* ================================================================== the tie *)
Section Cost.
Variable call_ref : nat -> list pv -> pv.
Variable quant : dec -> str -> dec.
Variable numfmt : list (dec * str) -> dec -> str -> str.
Notation PP := (prims_pos call_ref numfmt).
Notation PC := (prims_cost call_ref numfmt).
Variable kq : nat.
Hypothesis Hq : forall d c, call_ref kq [PV (VDec d); PV (VStr c)] = PV (VDec (quant d c)).
Notation fresh := (fresh_amt kq).
Notation aready := (amt_ready numfmt kq).

Definition cost_env (mw prep : pv) (st : cstate) : env :=
  [("maxwidth", mw); ("prepared", prep); ("amount_renderer", fresh (c_a st));
   ("date_width", PInt (Z.of_nat (c_dw st))); ("label_width", PInt (Z.of_nat (c_lw st)))].
Definition cost_ready (st : cstate) : env :=
  [("maxwidth", PInt (Z.of_nat (c_width numfmt st))); ("prepared", PBool true);
   ("amount_renderer", amt_obj (aready (c_a st)));
   ("date_width", PInt (Z.of_nat (c_dw st))); ("label_width", PInt (Z.of_nat (c_lw st)))].

Theorem cost_init_src : forall (ctx : pv) (ka : nat),
  call_ref ka [ctx] = fresh a_init -> ka = 2%nat ->
  bind (call_method call_ref PC render_base_init [] [ctx])
       (fun r => call_method call_ref PC render_cost_init_tail (fst r) [ctx]) =
  Ok (cost_env (PInt 0) (PBool false) (c_init), PNone).
Proof.
  intros ctx ka Hnew ->. unfold call_method, render_base_init, render_cost_init_tail. cbn -[fresh_amt].
  rewrite Hnew. reflexivity.
Qed.

Local Arguments amt_flds : simpl never.
Local Arguments fresh_amt : simpl never.
Local Arguments amt_env : simpl never.
Local Arguments amt_ready : simpl never.
Local Arguments call_method : simpl never.
Local Arguments enc_amt : simpl never.
Local Arguments Z.of_nat : simpl never.
Local Arguments Z.to_nat : simpl never.
Local Arguments Z.add : simpl never.
Local Arguments Z.max : simpl never.

Lemma upd_call_c st n c d l :
  method_call PC "update" (fresh st) [PTuple [PInt 46; PV (VDec n); PV (VStr c); d; l]] = Ok (fresh (a_update quant st (n, c)), PNone).
Proof.
  change (method_call PC "update" (fresh st) [PTuple [PInt 46; PV (VDec n); PV (VStr c); d; l]])
    with (method_call PP "update" (fresh st) [enc_amt (n, c)]).
  apply (upd_call call_ref quant numfmt kq Hq).
Qed.
(* prims_cost leaves "method:prepare" to prims_pos (stated by itself: letting the kernel find this by conversion inside
   method_call makes it unfold the interpreter on both sides) *)
Lemma pc_method_prepare args : PC "method:prepare" args = PP "method:prepare" args.
Proof. unfold prims_cost. cbn [String.eqb Ascii.eqb Bool.eqb]. reflexivity. Qed.
Lemma prep_call_c st : no_default (c_a st) ->
  method_call PC "prepare" (fresh (c_a st)) [] = Ok (amt_obj (aready (c_a st)), PInt (Z.of_nat (a_width numfmt (c_a st)))).
Proof.
  intros H. rewrite <- (prep_call call_ref numfmt kq _ H).
  unfold method_call, fresh_amt, amt_obj. cbn [String.append]. rewrite pc_method_prepare. reflexivity.
Qed.
Lemma fmt_prim_c st n c d l :
  PC "call:format" [amt_obj (aready st); PTuple [PInt 46; PV (VDec n); PV (VStr c); d; l]] = Ok (PV (VStr (a_format numfmt st (n, c)))).
Proof.
  change (PC "call:format" [amt_obj (aready st); PTuple [PInt 46; PV (VDec n); PV (VStr c); d; l]])
    with (PP "call:format" [amt_obj (aready st); enc_amt (n, c)]).
  apply fmt_prim.
Qed.

Local Arguments method_call : simpl never.
Local Arguments amt_obj : simpl never.

Lemma pc_attr_date n c d l : PC "attr:date" [PTuple [PInt 46; n; c; d; l]] = Ok d. Proof. reflexivity. Qed.
Lemma pc_attr_label n c d l : PC "attr:label" [PTuple [PInt 46; n; c; d; l]] = Ok l. Proof. reflexivity. Qed.
Lemma pc_max a b : PC "builtins.max" [PInt a; PInt b] = Ok (PInt (Z.max a b)). Proof. reflexivity. Qed.
Lemma pc_plain s : PC "format:plain" [PV (VStr s)] = Ok (PV (VStr s)). Proof. reflexivity. Qed.
Lemma pc_spec y m d : PC "format:spec" [PTuple [PInt 40; PInt y; PInt m; PInt d]; PV (VStr [37; 89; 45; 37; 109; 45; 37; 100])]
  = Ok (PV (VStr (date_str y m d))).
Proof. reflexivity. Qed.
Lemma mc_append l x : method_call PC "append" (PList l) [x] = Ok (PList (l ++ [x]), PNone).
Proof. reflexivity. Qed.
Lemma pc_join1 sep a : PC "call:join" [PV (VStr sep); PList [PV (VStr a)]] = Ok (PV (VStr (join sep [a]))).
Proof. reflexivity. Qed.
Lemma pc_join2 sep a b : PC "call:join" [PV (VStr sep); PList [PV (VStr a); PV (VStr b)]] = Ok (PV (VStr (join sep [a; b]))).
Proof. reflexivity. Qed.
Lemma pc_join3 sep a b c : PC "call:join" [PV (VStr sep); PList [PV (VStr a); PV (VStr b); PV (VStr c)]]
  = Ok (PV (VStr (join sep [a; b; c]))).
Proof. reflexivity. Qed.
Lemma pc_fstr1 s : PC "fstr" [PV (VStr s)] = Ok (PV (VStr s)).
Proof. cbn. rewrite app_nil_r. reflexivity. Qed.
Lemma pc_fstr3 a b c : PC "fstr" [PV (VStr a); PV (VStr b); PV (VStr c)] = Ok (PV (VStr (a ++ b ++ c))).
Proof. cbn. rewrite app_nil_r. reflexivity. Qed.
Lemma pc_join sep l : PC "call:join" [PV (VStr sep); PList (map enc_s l)] = Ok (PV (VStr (join sep l))).
Proof.
  change (PC "call:join" [PV (VStr sep); PList (map enc_s l)])
    with (match n_map_opt dec_s (map enc_s l) with Some ss => Ok (PV (VStr (join sep ss))) | None => Stuck end).
  replace (n_map_opt dec_s (map enc_s l)) with (Some l); [reflexivity|].
  induction l as [|x l IH]; cbn; [reflexivity|]. rewrite <- IH. reflexivity.
Qed.

Local Arguments prims_cost : simpl never.

Ltac crw := rewrite ?pc_attr_date, ?pc_attr_label, ?pc_max, ?pc_plain, ?pc_fstr1, ?pc_fstr3, ?upd_call_c, ?fmt_prim_c.

Theorem cost_update_src : forall (mw prep : pv) (st : cstate) (v : cost),
  call_method call_ref PC render_cost_update (cost_env mw prep st) [enc_cost v] =
  Ok (cost_env mw prep (c_update quant st v), PNone).
Proof.
  intros mw prep st [[n c] dt lb]. unfold call_method, render_cost_update, cost_env, c_update, enc_cost.
  cbn [c_amt c_date c_label c_a c_dw c_lw fst snd bind_params f_params f_body f_gen].
  destruct dt as [[[y m] d]|], lb as [l|]; cbn [enc_odate enc_ostr];
    repeat (progress (cbn; crw)); rewrite ?Nat2Z.inj_max, ?Nat2Z.inj_add; reflexivity.
Qed.

Theorem cost_column_src : forall (vals : list cost) (mw prep : pv) (st : cstate),
  run_updates_p call_ref PC render_cost_update (cost_env mw prep st) (map enc_cost vals) =
  Ok (cost_env mw prep (fold_left (c_update quant) vals st)).
Proof.
  induction vals as [|a vals IH]; intros mw prep st; [reflexivity|].
  cbn [map run_updates_p fold_left]. rewrite cost_update_src. cbn [bind fst]. apply IH.
Qed.

Theorem cost_prepare_src : forall (mw prep : pv) (st : cstate),
  no_default (c_a st) ->
  bind (call_method call_ref PC render_cost_prepare_head (cost_env mw prep st) [])
       (fun r => call_method call_ref PC render_base_prepare (fst r) []) =
  Ok (cost_ready st, PInt (Z.of_nat (c_width numfmt st))).
Proof.
  intros mw prep st H. unfold call_method, render_cost_prepare_head, render_base_prepare, cost_env.
  cbn [bind_params f_params f_body f_gen].
  cbn. rewrite (prep_call_c _ H). cbn.
  unfold cost_ready, c_width. rewrite !Nat2Z.inj_add. reflexivity.
Qed.

Ltac crwf := rewrite ?pc_attr_date, ?pc_attr_label, ?pc_max, ?pc_plain, ?pc_fstr1, ?pc_fstr3, ?upd_call_c, ?fmt_prim_c, ?pc_spec, ?mc_append, ?pc_join1, ?pc_join2, ?pc_join3.

Theorem cost_format_src : forall (st : cstate) (v : cost),
  call_method call_ref PC render_cost_format (cost_ready st) [enc_cost v] =
  Ok (cost_ready st, PV (VStr (c_format numfmt st v))).
Proof.
  intros st [[n c] dt lb]. unfold call_method, render_cost_format, cost_ready, c_format, c_parts.
  cbn [c_amt c_date c_label bind_params f_params f_body f_gen].
  unfold enc_cost. cbn [c_amt c_date c_label fst snd].
  destruct dt as [[[y m] d]|], lb as [l|]; cbn [enc_odate enc_ostr];
    repeat (progress (cbn -[c_width join]; crwf)); reflexivity.
Qed.
End Cost.
