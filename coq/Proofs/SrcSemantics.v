(* Tie by translation, C06 (bld-sem): the PyMini terms generated on every run from the CURRENT source of the semantic
   actions of the parser (every function of the live class beanquery.parser.BQLSemantics, parser.parse and
   ParseError.__init__; harness/vf/src_semantics.py -> Gen/SrcSemantics.v), interpreted with the primitives of
   Model/PrimsSemantics.v, compute - for ALL token texts of the rule's lexical class - the value Model/PegActions.v's
   [bql_act] (the hand-written mirror of the class the PEG interpreter runs with) assigns:

     string_src      value[1:-1]: the text between the first and the last character, nothing else is cut
     decimal_src     decimal.Decimal(value): every digit kept, exponent = - number of fraction digits, no context
     integer_src, boolean_src, null_src, asterisk_src, identifier_src (lower-cased), list_src (_NULL -> None),
     ordering_src    ast.Ordering[value or 'ASC']
     date_src        a calendar date (Lexer.valid_date = Dates.valid_ymd, [valid_date_ymd]) -> the date;
                     otherwise FailedSemantics is raised, i.e. the rule FAILS (bql_act: None)
     default_*_src   _default: the node itself / the object ast.<typename> of the fields, names rstrip('_'), _NULL -> None
     act_dispatch    every rule without a method of its own goes to _default; [semantics_methods_ok]: the methods of the
                     live class are exactly the rules bql_act treats specially (+ set_context, _default)
     parse_src       parse(text) = TatSu run on a NEWLY built BQLParser with a NEWLY built BQLSemantics on THE ARGUMENT
                     ITSELF; a rejection becomes ParseError(ParseInfo(tokenizer, item, pos, min(pos + 1, len(text)),
                     line, [])) ([parse_location_src]: the location never ends past the text); [module_state_ok]: the
                     module holds no object besides the _NULL sentinel (no cache, no shared parser). *)
From Coq Require Import String Ascii ZArith NArith List Bool Lia ZifyBool.
Import ListNotations.
From Verif Require Import Base.PyValue Model.Eval Model.PyMini Model.PrimsApi Model.PrimsSemantics Proofs.PyMiniLemmas
  Proofs.PyMiniLemmas2.
From Verif Require Model.Ast Model.Lexer Model.Peg Model.PegActions Model.Dates.
From Verif Require Import Gen.SrcSemantics.
Open Scope string_scope.
Open Scope list_scope.
Open Scope Z_scope.

Definition kN : nat := ref_or0 refs "beanquery.parser._NULL".
Definition kA : nat := ref_or0 refs "beanquery.parser.ast".
Notation bql_act := PegActions.bql_act.
Notation NStr := Peg.NStr.

Lemma slice_1_m1 {A} (s : list A) : slice_list s (Some 1) (Some (-1)) = removelast (tl s).
Proof.
  unfold slice_list, clipz. cbn [Z.ltb Z.compare].
  destruct s as [|a t]; [reflexivity|]. cbn [tl].
  assert (H : Z.min 1 (Z.of_nat (length (a :: t))) = 1) by (cbn [length]; lia). rewrite H.
  replace (Z.to_nat 1) with 1%nat by reflexivity. cbn [skipn].
  rewrite removelast_firstn_len. f_equal. cbn [length]. lia.
Qed.

Lemma list_le_antisym_eqb : forall a b, list_le a b && list_le b a = Ast.str_eqb a b.
Proof.
  induction a as [|x a IH]; destruct b as [|y b]; cbn; try reflexivity.
  destruct (x <? y) eqn:E1; destruct (y <? x) eqn:E2; cbn.
  - apply Z.ltb_lt in E1, E2. lia.
  - assert (x =? y = false) by (apply Z.eqb_neq; apply Z.ltb_lt in E1; lia). now rewrite H.
  - assert (x =? y = false) by (apply Z.eqb_neq; apply Z.ltb_lt in E2; lia). now rewrite H.
  - assert (x =? y = true) by (apply Z.eqb_eq; apply Z.ltb_ge in E1, E2; lia). rewrite H. apply IH.
Qed.

Lemma val_eq_str a b : val_eq (VStr a) (VStr b) = Ast.str_eqb a b.
Proof. rewrite <- list_le_antisym_eqb. reflexivity. Qed.

Lemma ident_ascii s : identifier_class s = true -> is_ascii s = true.
Proof.
  unfold identifier_class. destruct s as [|c t]; [discriminate|]. intros H.
  apply andb_prop in H. destruct H as [_ H]. revert H. generalize (c :: t). clear. unfold is_ascii.
  induction l as [|x l IH]; [reflexivity|]. cbn [forallb]. intros H. apply andb_prop in H. destruct H as [Hx Hl].
  rewrite (IH Hl), andb_true_r.
  unfold Lexer.is_word, Lexer.is_alpha, Lexer.is_upper, Lexer.is_lower, Lexer.is_digit in Hx. lia.
Qed.

Lemma N_eqb_Z a b : (a =? b)%N = (Z.of_N a =? Z.of_N b).
Proof. apply eq_true_iff_eq. rewrite N.eqb_eq, Z.eqb_eq. lia. Qed.
Lemma N_leb_Z a b : (a <=? b)%N = (Z.of_N a <=? Z.of_N b).
Proof. apply eq_true_iff_eq. rewrite N.leb_le, Z.leb_le. lia. Qed.

Lemma leap_eq y : Lexer.leap y = Dates.is_leap (Z.of_N y).
Proof. unfold Lexer.leap, Dates.is_leap. rewrite !N_eqb_Z, !N2Z.inj_mod. reflexivity. Qed.

(* the lexer's calendar test is Model/Dates.v's (the one datetime.date is modelled with) *)
Lemma valid_date_ymd y m d :
  Lexer.valid_date y m d = Dates.valid_ymd (Z.of_N y) (Z.of_N m) (Z.of_N d).
Proof.
  unfold Lexer.valid_date, Dates.valid_ymd, Lexer.dim, Dates.days_in_month, Dates.dim_table.
  rewrite leap_eq, !N_leb_Z, !N_eqb_Z. change (Z.of_N 1) with 1. change (Z.of_N 9999) with 9999.
  change (Z.of_N 12) with 12. change (Z.of_N 2) with 2. change (Z.of_N 4) with 4. change (Z.of_N 6) with 6.
  change (Z.of_N 9) with 9. change (Z.of_N 11) with 11.
  destruct (Dates.is_leap (Z.of_N y)); destruct (Z.of_N m =? 2) eqn:E2; cbn [andb];
  rewrite ?andb_false_r; try reflexivity.
  all: try (destruct ((Z.of_N m =? 4) || (Z.of_N m =? 6) || (Z.of_N m =? 9) || (Z.of_N m =? 11)); reflexivity).
Qed.

Lemma date_class_iff s : date_class s = true <-> exists y m d, Lexer.lex_date s = Some (y, m, d, []).
Proof.
  unfold date_class. destruct (Lexer.lex_date s) as [[[[y m] d] r]|].
  - destruct r; split; intros H; try discriminate; eauto.
    destruct H as (y' & m' & d' & H). discriminate.
  - split; [discriminate|]. intros (y & m & d & H). discriminate.
Qed.

Lemma str_eqb_eq a b : Ast.str_eqb a b = true -> a = b.
Proof.
  revert b. induction a as [|x a IH]; destruct b as [|y b]; cbn; try discriminate; [reflexivity|].
  intros H. apply andb_prop in H. destruct H as [H1 H2]. apply Z.eqb_eq in H1. rewrite (IH b H2), H1. reflexivity.
Qed.
Lemma zeqb_str_eqb a b : zeqb a b = Ast.str_eqb a b.
Proof. revert b. induction a as [|x a IH]; destruct b as [|y b]; cbn; try reflexivity; now rewrite IH. Qed.
Lemma zeqb_refl a : zeqb a a = true.
Proof. induction a as [|x a IH]; [reflexivity|]. cbn. now rewrite Z.eqb_refl, IH. Qed.

Lemma zs_inj a b : zs a = zs b -> a = b.
Proof.
  revert b. induction a as [|c a IH]; destruct b as [|d b]; cbn; try discriminate; [reflexivity|].
  intros H. injection H as H1 H2. apply N2Z.inj in H1. f_equal; [|exact (IH b H2)].
  rewrite <- (ascii_N_embedding c), <- (ascii_N_embedding d), H1. reflexivity.
Qed.

(* name.rstrip('_') on the code points = PegActions.rstrip_us on the field name *)
Lemma zs_rstrip_us k : zs (PegActions.rstrip_us k) = rstrip_z 95 (zs k).
Proof.
  induction k as [|a r IH]; [reflexivity|]. cbn [PegActions.rstrip_us zs rstrip_z]. rewrite <- IH.
  destruct (PegActions.rstrip_us r) as [|b r'] eqn:E; cbn [zs].
  - assert (Ha : Ascii.eqb a "_"%char = (Z.of_N (N_of_ascii a) =? 95)).
    { apply eq_true_iff_eq. rewrite Ascii.eqb_eq, Z.eqb_eq. split; [intros ->; reflexivity|].
      intros H. rewrite <- (ascii_N_embedding a). replace (N_of_ascii a) with 95%N by lia. reflexivity. }
    rewrite Ha. destruct (Z.of_N (N_of_ascii a) =? 95); reflexivity.
  - reflexivity.
Qed.

Definition items_of (l : list (string * pv)) : list pv := map (fun kv => PTuple [PStr (fst kv); snd kv]) l.

Lemma keys_ok_nodup : forall l seen, NoDup (map fst l) -> (forall k, In k (map fst l) -> ~ In (zs k) seen) ->
  keys_ok seen (items_of l) = true.
Proof.
  induction l as [|[k v] t IH]; intros seen Hn Hs; [reflexivity|].
  cbn [items_of map keys_ok item_key fst snd PStr]. cbn [map fst] in Hn, Hs. inversion Hn as [|? ? Hk Ht]; subst.
  assert (E : existsb (zeqb (zs k)) seen = false).
  { destruct (existsb (zeqb (zs k)) seen) eqn:E; [|reflexivity]. apply existsb_exists in E.
    destruct E as [x [Hx Hz]]. rewrite zeqb_str_eqb in Hz. apply str_eqb_eq in Hz. subst x.
    exfalso. exact (Hs k (or_introl eq_refl) Hx). }
  rewrite E. cbn [negb andb]. apply IH; [exact Ht|]. intros k' Hk' [Heq|Hin].
  - apply zs_inj in Heq. subst k'. exact (Hk Hk').
  - exact (Hs k' (or_intror Hk') Hin).
Qed.

Lemma span_app p a rest : forallb p a = true -> match rest with c :: _ => p c = false | [] => True end ->
  Lexer.span p (a ++ rest) = (a, rest).
Proof.
  intros Ha Hr. induction a as [|x a IH]; cbn [app].
  - destruct rest as [|c r]; [reflexivity|]. cbn [Lexer.span]. rewrite Hr. reflexivity.
  - cbn [forallb] in Ha. apply andb_prop in Ha. destruct Ha as [Hx Ha]. cbn [Lexer.span]. rewrite Hx, (IH Ha). reflexivity.
Qed.

(* a decimal literal as it is spelled (Model/Spelling.v, TDec): integer digits, a dot, fraction digits *)
Lemma dec_of_spelled ip fp : forallb Lexer.is_digit ip = true -> forallb Lexer.is_digit fp = true ->
  PegActions.dec_of (ip ++ 46 :: fp) = Peg.NDec (Lexer.digits_val (ip ++ fp)) (length fp).
Proof.
  intros Hi Hf. unfold PegActions.dec_of. rewrite (span_app _ ip (46 :: fp) Hi eq_refl).
  assert (Hs : Lexer.span Lexer.is_digit fp = (fp, [])).
  { rewrite <- (app_nil_r fp) at 1. exact (span_app _ fp [] Hf I). }
  rewrite !Hs. reflexivity.
Qed.

Lemma decimal_class_spelled ip fp : forallb Lexer.is_digit ip = true -> forallb Lexer.is_digit fp = true ->
  (ip <> [] \/ fp <> []) -> decimal_class (ip ++ 46 :: fp) = true.
Proof.
  intros Hi Hf Hne. unfold decimal_class. rewrite (span_app _ ip (46 :: fp) Hi eq_refl).
  assert (Hs : Lexer.span Lexer.is_digit fp = (fp, [])).
  { rewrite <- (app_nil_r fp) at 1. exact (span_app _ fp [] Hf I). }
  rewrite !Hs.
  destruct ip, fp; try reflexivity. destruct Hne as [H|H]; congruence.
Qed.

Lemma string_body {A} (q q' : A) b : removelast (tl (q :: b ++ [q'])) = b.
Proof. cbn [tl]. apply removelast_last. Qed.

(* the rules with an action of their own, in the order bql_act tests them *)
Definition specific_rules : list string :=
  ["null"; "integer"; "decimal"; "date"; "string"; "boolean"; "identifier"; "asterisk"; "list"; "ordering"].

Lemma seqb_false r x : r <> x -> PegActions.seqb r x = false.
Proof. intros H. apply String.eqb_neq. exact H. Qed.

(* every other rule goes to _default: the node itself without a type name, else the object of that type *)
Lemma act_dispatch r ps n : ~ In r specific_rules ->
  bql_act r ps n =
  match ps with
  | [] => Some n
  | ty :: _ => match n with
               | Peg.NDict fs => Some (Peg.NObj (PegActions.before_colons ty)
                                        (map (fun kv => (PegActions.rstrip_us (fst kv), PegActions.unmark (snd kv))) fs))
               | _ => None
               end
  end.
Proof.
  intros H. unfold bql_act. unfold specific_rules in H. cbn [In] in H.
  rewrite !seqb_false by (intros ->; apply H; tauto). reflexivity.
Qed.

(* ---------------------------------------------------------------- what the live objects say (DATA of Gen/SrcSemantics.v) *)
Lemma semantics_methods_ok : semantics_methods = "set_context" :: specific_rules ++ ["_default"].
Proof. reflexivity. Qed.
Lemma semantics_bases_ok : semantics_bases = ["beanquery.parser.BQLSemantics"; "builtins.object"].
Proof. reflexivity. Qed.
Lemma ordering_members_ok : ordering_members = [("ASC", 0); ("DESC", 1)].
Proof. reflexivity. Qed.
(* the module keeps no state between calls: its only module-level object is the _NULL sentinel *)
Lemma module_state_ok : module_state = [("_NULL", "builtins.object")].
Proof. reflexivity. Qed.
Lemma refs_ok : ref_of refs "beanquery.parser._NULL" = Some kN /\ ref_of refs "beanquery.parser.ast" = Some kA /\ kN <> kA.
Proof. repeat split. discriminate. Qed.

Section Tie.
Variable call_ref : nat -> list pv -> pv.
Variable msg : string -> list pv -> pv.
Variable tatsu : list Z -> tres.
Notation prim := (prim_sem kN kA msg tatsu).
Notation enc := (PrimsSemantics.enc kN).
Notation run := (call_method call_ref prim).

Theorem string_src : forall flds ps s,
  run sem_string flds [PV (VStr s)] = Ok (flds, PV (VStr (removelast (tl s)))) /\
  bql_act "string" ps (NStr s) = Some (NStr (removelast (tl s))).
Proof. intros. split; [|reflexivity]. cbn. now rewrite slice_1_m1. Qed.

Theorem integer_src : forall flds ps s, integer_class s = true ->
  run sem_integer flds [PV (VStr s)] = Ok (flds, PInt (Z.of_N (Lexer.digits_val s))) /\
  bql_act "integer" ps (NStr s) = Some (Peg.NInt (Lexer.digits_val s)).
Proof. intros flds ps s H. split; [|reflexivity]. cbn. rewrite H. reflexivity. Qed.


Theorem decimal_src : forall flds ps s, decimal_class s = true ->
  run sem_decimal flds [PV (VStr s)] = Ok (flds, enc (PegActions.dec_of s)) /\
  bql_act "decimal" ps (NStr s) = Some (PegActions.dec_of s).
Proof. intros flds ps s H. split; [|reflexivity]. cbn -[PegActions.dec_of PrimsSemantics.enc]. rewrite H. reflexivity. Qed.

Theorem boolean_src : forall flds ps s,
  run sem_boolean flds [PV (VStr s)] = Ok (flds, PBool (Ast.str_eqb s (Lexer.str_of_string "TRUE"))) /\
  bql_act "boolean" ps (NStr s) = Some (Peg.NBool (Ast.str_eqb s (Lexer.str_of_string "TRUE"))).
Proof.
  intros. split; [|reflexivity]. change (Lexer.str_of_string "TRUE") with [84; 82; 85; 69].
  cbn -[val_eq Ast.str_eqb]. rewrite val_eq_str. destruct (Ast.str_eqb s _); reflexivity.
Qed.

Theorem null_src : forall flds ps v n,
  run sem_null flds [v] = Ok (flds, enc Peg.NNullMark) /\ bql_act "null" ps n = Some Peg.NNullMark.
Proof. intros. split; reflexivity. Qed.

Theorem asterisk_src : forall flds ps v n,
  run sem_asterisk flds [v] = Ok (flds, enc Peg.NAsterisk) /\ bql_act "asterisk" ps n = Some Peg.NAsterisk.
Proof. intros. split; reflexivity. Qed.

Theorem set_context_src : forall flds c,
  run sem_set_context flds [c] = Ok (update "_ctx" c flds, PNone).
Proof. reflexivity. Qed.

Theorem identifier_src : forall flds ps s, identifier_class s = true ->
  run sem_identifier flds [PV (VStr s)] = Ok (flds, PV (VStr (map Lexer.lower s))) /\
  bql_act "identifier" ps (NStr s) = Some (NStr (map Lexer.lower s)).
Proof.
  intros flds ps s H. split; [|reflexivity]. cbn -[is_ascii]. rewrite (ident_ascii s H). reflexivity.
Qed.

Lemma list_item a sx : lookup "item" (locals sx) = Some (enc a) ->
  eval call_ref prim sx (XIfExp (XCompare (XName "item") [(CIs, XConst (PRef kN))]) (XConst PNone) (XName "item")) =
  Ok (sx, enc (PegActions.unmark a)).
Proof.
  intros H. cbn [PyMini.eval read]. rewrite H. destruct a; cbn in H |- *; rewrite ?H; reflexivity.
Qed.

Theorem list_src : forall flds l,
  run sem_list flds [PList (map enc l)] = Ok (flds, PList (map enc (map PegActions.unmark l))).
Proof.
  intros. unfold call_method, sem_list. cbn [bind_params f_params f_body f_gen exec_block PyMini.exec].
  set (s0 := {| locals := _; fields := flds |}).
  rewrite (eval_listcomp call_ref prim _ "item" (XName "value") s0 s0 (map enc l) eq_refl).
  rewrite (map_res_map_ok' enc _ (fun a => enc (PegActions.unmark a))).
  - cbn [bind]. rewrite map_map. reflexivity.
  - intros a _. change (PRef 0) with (PRef kN) || idtac.
    set (sx := write s0 (TName "item") (enc a)).
    refine (_ : bind (eval call_ref prim sx (XIfExp (XCompare (XName "item") [(CIs, XConst (PRef kN))]) (XConst PNone)
                        (XName "item"))) _ = _).
    rewrite (list_item a sx eq_refl). reflexivity.
Qed.

Definition date_failure (s : list Z) : pv :=
  raised (new_obj failed_semantics_cls [msg "str" [value_error [PV (VStr s)]]]).

Theorem date_src : forall flds ps s y m d, Lexer.lex_date s = Some (y, m, d, []) ->
  run sem_date flds [PV (VStr s)] =
    Ok (flds, if Lexer.valid_date y m d then enc (Peg.NDate y m d) else date_failure s) /\
  bql_act "date" ps (NStr s) = if Lexer.valid_date y m d then Some (Peg.NDate y m d) else None.
Proof.
  intros flds ps s y m d H. split.
  - cbn -[Lexer.lex_date Dates.mk_date Lexer.valid_date Dates.ymd2ord]. rewrite H. unfold Dates.mk_date.
    rewrite <- valid_date_ymd. destruct (Lexer.valid_date y m d); reflexivity.
  - cbn -[Lexer.lex_date Lexer.valid_date]. rewrite H. reflexivity.
Qed.

Theorem ordering_src : forall flds ps n, (n = Peg.NNone \/ exists c t, n = NStr (c :: t)) ->
  run sem_ordering flds [enc n] =
  match bql_act "ordering" ps n with Some n' => Ok (flds, enc n') | None => Exc KeyError end.
Proof.
  intros flds ps n [->|(c & t & ->)]; [reflexivity|].
  change (bql_act "ordering" ps (NStr (c :: t))) with
    (if Ast.str_eqb (c :: t) (Lexer.str_of_string "DESC") then Some (Peg.NOrd true)
     else if Ast.str_eqb (c :: t) (Lexer.str_of_string "ASC") then Some (Peg.NOrd false) else None).
  change (Lexer.str_of_string "DESC") with (zs "DESC"). change (Lexer.str_of_string "ASC") with (zs "ASC").
  cbn -[zeqb Ast.str_eqb zs]. change zeqb with Ast.str_eqb.
  destruct (Ast.str_eqb (c :: t) (zs "ASC")) eqn:E1; destruct (Ast.str_eqb (c :: t) (zs "DESC")) eqn:E2; try reflexivity.
  apply str_eqb_eq in E1, E2. rewrite E1 in E2. discriminate.
Qed.

Theorem default_plain_src : forall flds v, run sem_default flds [v; PNone] = Ok (flds, v).
Proof. reflexivity. Qed.

(* the comprehension of _default, cut out of the generated term *)
Definition default_comp : expr :=
  Eval cbv in match f_body sem_default with
              | SIf _ [_; SReturn (Some (XPrim _ [_; XPrim _ [lc]]))] _ :: _ => lc
              | _ => XConst PNone
              end.
Definition default_elt : expr :=
  Eval cbv in match default_comp with XListComp e _ _ _ => e | _ => XConst PNone end.

Definition enc_fields (fs : list (string * node)) : list pv :=
  map (fun kv => match kv with (k, v) => PTuple [PStr k; enc v] end) fs.
Definition default_fields (fs : list (string * node)) : list (string * node) :=
  map (fun kv => (PegActions.rstrip_us (fst kv), PegActions.unmark (snd kv))) fs.

Lemma default_item k v sx : lookup "$t" (locals sx) = Some (PTuple [PStr k; enc v]) ->
  eval call_ref prim sx default_elt =
  Ok (sx, PTuple [PStr (PegActions.rstrip_us k); enc (PegActions.unmark v)]).
Proof.
  intros H. unfold default_elt, PStr. rewrite zs_rstrip_us.
  cbn -[rstrip_z zs PrimsSemantics.enc]. rewrite H. cbn -[rstrip_z zs PrimsSemantics.enc].
  destruct v;
    repeat first [rewrite H | progress cbn -[rstrip_z zs] | progress change (Pos.to_nat 1) with 1%nat]; reflexivity.
Qed.

Lemma default_comp_eval fs s1 : lookup "value" (locals s1) = Some (enc (Peg.NDict fs)) ->
  eval call_ref prim s1 default_comp = Ok (s1, PList (enc_fields (default_fields fs))).
Proof.
  intros H. unfold default_comp.
  rewrite (eval_listcomp call_ref prim _ "$t" _ s1 s1 (enc_fields fs)).
  2:{ cbn -[PrimsSemantics.enc]. rewrite H. reflexivity. }
  unfold enc_fields at 1.
  rewrite (map_res_map_ok' (fun kv : string * node => match kv with (k, v) => PTuple [PStr k; enc v] end) _
             (fun kv => PTuple [PStr (PegActions.rstrip_us (fst kv)); enc (PegActions.unmark (snd kv))])).
  - cbn [bind]. unfold enc_fields, default_fields. rewrite map_map. reflexivity.
  - intros [k v] _. set (sx := write s1 (TName "$t") (PTuple [PStr k; enc v])).
    change (bind (eval call_ref prim sx default_elt) (fun p => Ok (snd p)) =
            Ok (PTuple [PStr (PegActions.rstrip_us k); enc (PegActions.unmark v)])).
    rewrite (default_item k v sx); [reflexivity|]. unfold sx. cbn [write locals]. apply lookup_update_eq.
Qed.

Lemma enc_fields_items fs : enc_fields fs = items_of (map (fun kv => (fst kv, enc (snd kv))) fs).
Proof. unfold enc_fields, items_of. rewrite map_map. apply map_ext. intros [k v]. reflexivity. Qed.

(* _default with a type name: the object ast.<typename> built from the fields as keyword arguments, every field name without its trailing underscores,
   every _NULL marker replaced by None; the field names must stay pairwise different (a dict display cannot repeat a key) *)
Theorem default_typed_src : forall flds ty fs,
  NoDup (map (fun kv => PegActions.rstrip_us (fst kv)) fs) ->
  run sem_default flds [enc (Peg.NDict fs); PStr ty] = Ok (flds, enc (Peg.NObj ty (default_fields fs))).
Proof.
  intros flds ty fs Hn. unfold call_method, sem_default. cbn [bind_params f_params f_body f_gen].
  set (s0 := {| locals := _; fields := flds |}).
  rewrite exec_block_cons.
  rewrite (exec_if call_ref prim _ _ _ s0 s0 (PBool true) true); [|reflexivity|reflexivity].
  rewrite exec_block_cons. rewrite (exec_assign call_ref prim _ _ s0 s0 (class_val (zs ty))); [|reflexivity]. cbn [bind].
  set (s1 := write s0 (TName "func") (class_val (zs ty))).
  rewrite exec_block_cons. cbn [PyMini.exec].
  change (XListComp _ _ _ _) with default_comp.
  assert (Hd : eval call_ref prim s1 (XPrim "builtins.dict" [default_comp]) =
               Ok (s1, PTuple [PStr dict_tag; PList (enc_fields (default_fields fs))])).
  { rewrite (eval_prim1 call_ref prim _ _ s1 s1 _ (default_comp_eval fs s1 eq_refl)).
    unfold prim_sem. cbn [strip_prefix String.eqb Ascii.eqb Bool.eqb].
    rewrite enc_fields_items, keys_ok_nodup; [reflexivity| |intros ? ? []].
    unfold default_fields. rewrite !map_map. cbn [fst]. exact Hn. }
  rewrite (eval_prim2 call_ref prim _ (XName "func") _ s1 s1 s1 (class_val (zs ty)) _ eq_refl Hd).
  reflexivity.
Qed.

Definition line_of (text : list Z) (pos : Z) : pv :=
  match text with [] => PInt 0 | _ => msg "line_info.line" [tokenizer_of text; PInt pos] end.
Definition parse_error (text : list Z) (item : pv) (pos : Z) : pv :=
  new_obj parse_error_cls
    [new_obj parseinfo_cls [tokenizer_of text; item; PInt pos; PInt (Z.min (pos + 1) (Z.of_nat (length text)));
                            line_of text pos; PList []]].

Theorem parse_src : forall text,
  call_function call_ref prim parser_parse [PV (VStr text)] =
  match tatsu text with
  | TAccept n => Ok n
  | TReject item pos => Ok (raised (parse_error text item pos))
  end.
Proof.
  intros text. unfold call_function, parser_parse. cbn -[tokenizer_of Z.min Z.add].
  destruct (tatsu text) as [n|item pos]; cbn -[tokenizer_of Z.min Z.add]; [reflexivity|].
  destruct text; reflexivity.
Qed.

(* the location of a ParseError never ends past the end of the text *)
Corollary parse_location_src : forall text item pos, tatsu text = TReject item pos ->
  exists e,
    call_function call_ref prim parser_parse [PV (VStr text)] =
      Ok (raised (new_obj parse_error_cls
                    [new_obj parseinfo_cls [tokenizer_of text; item; PInt pos; PInt e; line_of text pos; PList []]])) /\
    e <= Z.of_nat (length text) /\ e <= pos + 1 /\ (pos < Z.of_nat (length text) -> e = pos + 1).
Proof.
  intros text item pos H. exists (Z.min (pos + 1) (Z.of_nat (length text))). rewrite parse_src, H.
  split; [reflexivity|]. lia.
Qed.

Theorem parse_error_init_src : forall flds pinfo,
  run parse_error_init flds [pinfo] = Ok (update "parseinfo" pinfo flds, PNone).
Proof. reflexivity. Qed.

End Tie.
