(* Tie by translation, C05 (group `compiler`, third part): one level of the aggregate walk.  The PyMini terms generated
   from compiler._get_columns_and_aggregates and compiler.check_aggregates (Gen/SrcCompiler.v) compute
   Compile.cols_aggs / Compile.check_aggregates on a node of the heap, the calls on the CHILDREN
   (_get_columns_and_aggregates itself; is_aggregate) being opaque callables assumed to return the model's value - the
   structural induction over the tree lives in Coq (CompileProofs.cnode_ind').  [kids i] are the references of the
   children of node i:  map tbl (kids i) = Compile.children (tbl i). *)
From Coq Require Import String Ascii ZArith List Bool Lia.
Import ListNotations.
From Verif Require Import Base.PyValue Model.Eval Model.PyMini Model.PrimsApi Model.PrimsCompiler Proofs.PyMiniLemmas
  Proofs.PyMiniLemmas2 Proofs.SrcApi Proofs.PyValueProofs Proofs.SrcLookup.
From Verif Require Model.Compile Proofs.CompileProofs.
From Verif Require Import Gen.SrcCompiler Proofs.SrcCompiler.
Open Scope string_scope.
Open Scope list_scope.
Open Scope Z_scope.

Notation walk_many := CompileProofs.walk_many.
Notation nonempty := CompileProofs.nonempty.

(* ---------------------------------------------------------------- the model's walk, one level at a time *)
Lemma cols_aggs_unfold n :
  Compile.cols_aggs n =
  if Compile.is_agg_node n then ([], [n])
  else match n with Compile.NCol _ _ => ([n], []) | _ => walk_many (Compile.children n) end.
Proof.
  destruct n as [v dt|c dt|op i args dt|args|args|args dt|f i args dt agg|e k|e a dt|]; try reflexivity.
  - destruct agg; reflexivity.
  - cbn. destruct (Compile.cols_aggs e) as [c a]. now rewrite !app_nil_r.
  - cbn. destruct (Compile.cols_aggs e) as [c a0]. now rewrite !app_nil_r.
Qed.

Definition agg_kids (n : Compile.cnode) : bool := existsb Compile.has_agg (Compile.children n).

Lemma nested_many args :
  Forall (fun n => Compile.nested_agg n = existsb agg_kids (snd (Compile.cols_aggs n))) args ->
  existsb Compile.nested_agg args = existsb agg_kids (snd (walk_many args)).
Proof.
  induction 1 as [|x t Hx _ IH]; [reflexivity|]. cbn [existsb CompileProofs.walk_many].
  destruct (Compile.cols_aggs x) as [c a]. destruct (walk_many t) as [c' a']. cbn [snd] in *.
  rewrite existsb_app, Hx, IH. reflexivity.
Qed.

Lemma nested_agg_walk : forall n, Compile.nested_agg n = existsb agg_kids (snd (Compile.cols_aggs n)).
Proof.
  induction n using CompileProofs.cnode_ind'; try reflexivity; try (cbn; apply nested_many; assumption).
  - destruct agg.
    + cbn. unfold agg_kids. cbn. now rewrite orb_false_r.
    + cbn. apply nested_many. assumption.
  - cbn. exact IHn.
  - cbn. exact IHn.
Qed.

Section Walk.
Variable call_ref : nat -> list pv -> pv.
Variable tbl : nat -> Compile.cnode.
Variable kids : nat -> list nat.
Variable mro : string -> list string.
Variable msg : string -> list pv -> pv.
Notation prim := (prim_compiler tbl kids mro msg).
Notation eval := (PyMini.eval call_ref prim).
Notation exec := (PyMini.exec call_ref prim).
Notation exec_block := (PyMini.exec_block call_ref prim).
Notation for_loop := (for_loop call_ref prim).

Ltac lk := repeat first [rewrite lookup_update_eq | rewrite lookup_update_neq by reflexivity].
Ltac run := repeat (progress (cbn [PyMini.exec_block PyMini.exec PyMini.eval bind read write locals fields pv_truthy truthy
                                   PBool PNone PInt compare1 pv_is_none negb andb orb is_null rank Pos.eqb Z.eqb
                                   method_call String.eqb Ascii.eqb Bool.eqb binop1 binop_builtin fst snd existsb
                                   ValueError as_bound]; lk)).

Lemma isinstance_agg i :
  prim "isinstance:beanquery.query_compile.EvalAggregator" [nref i] = Ok (PBool (Compile.is_agg_node (tbl i))).
Proof.
  unfold prim_compiler.
  change (strip_prefix "attr:" "isinstance:beanquery.query_compile.EvalAggregator") with (@None string).
  change (strip_prefix "isinstance:" "isinstance:beanquery.query_compile.EvalAggregator")
    with (Some "beanquery.query_compile.EvalAggregator").
  cbv iota beta. rewrite as_nref_nref. reflexivity.
Qed.

Lemma isinstance_col i :
  prim "isinstance:beanquery.query_compile.EvalColumn" [nref i] =
  Ok (PBool (match tbl i with Compile.NCol _ _ => true | _ => false end)).
Proof.
  unfold prim_compiler.
  change (strip_prefix "attr:" "isinstance:beanquery.query_compile.EvalColumn") with (@None string).
  change (strip_prefix "isinstance:" "isinstance:beanquery.query_compile.EvalColumn")
    with (Some "beanquery.query_compile.EvalColumn").
  cbv iota beta. rewrite as_nref_nref. reflexivity.
Qed.

Lemma childnodes_nref i : prim ("call:" ++ "childnodes") [nref i] = Ok (PList (map nref (kids i))).
Proof.
  change (prim ("call:" ++ "childnodes") [nref i])
    with (match as_nref (nref i) with Some j => Ok (A:=pv) (PList (map nref (kids j))) | None => Stuck end).
  now rewrite as_nref_nref.
Qed.

(* ================================================================ _get_columns_and_aggregates *)
Definition rec_loop_body : list stmt :=
  Eval cbv in match nth 0 (f_body get_columns_and_aggregates_rec) SPass with
              | SIf _ _ [SIf _ _ [SFor _ _ b]] => b
              | _ => []
              end.

Section Rec.
Variable colsf aggsf : nat -> list nat.       (* what the recursive call appends for a child *)

Lemma rec_loop : forall (ks cs ags : list nat) loc flds,
  (forall c cs ags, In c ks ->
     call_ref 3 [nref c; PList (map nref cs); PList (map nref ags)] =
     PTuple [PList (map nref (cs ++ colsf c)); PList (map nref (ags ++ aggsf c))]) ->
  lookup "columns" loc = Some (PList (map nref cs)) -> lookup "aggregates" loc = Some (PList (map nref ags)) ->
  exists loc', for_loop rec_loop_body "child" {| locals := loc; fields := flds |} (map nref ks) =
               Ok (Next {| locals := loc'; fields := flds |})
               /\ lookup "columns" loc' = Some (PList (map nref (cs ++ flat_map colsf ks)))
               /\ lookup "aggregates" loc' = Some (PList (map nref (ags ++ flat_map aggsf ks))).
Proof.
  induction ks as [|c t IH]; intros cs ags loc flds Hrec Hc Ha.
  - exists loc. cbn [map PyMiniLemmas.for_loop flat_map]. rewrite !app_nil_r. auto.
  - cbn [map PyMiniLemmas.for_loop flat_map]. unfold rec_loop_body at 1.
    run. rewrite Hc. run. rewrite Ha. run. unfold do_call. rewrite (Hrec c cs ags (or_introl eq_refl)).
    cbn [map]. run.
    rewrite !app_assoc. apply IH.
    + intros c' cs' ags' Hin. apply Hrec. now right.
    + lk. reflexivity.
    + lk. reflexivity.
Qed.

Lemma walk_many_kids : forall ks,
  (forall c, In c ks -> map tbl (colsf c) = fst (Compile.cols_aggs (tbl c))
                        /\ map tbl (aggsf c) = snd (Compile.cols_aggs (tbl c))) ->
  map tbl (flat_map colsf ks) = fst (walk_many (map tbl ks))
  /\ map tbl (flat_map aggsf ks) = snd (walk_many (map tbl ks)).
Proof.
  induction ks as [|c t IH]; intros H; [split; reflexivity|].
  cbn [flat_map map CompileProofs.walk_many]. rewrite !map_app.
  destruct (H c (or_introl eq_refl)) as [H1 H2]. destruct (IH (fun c' Hc' => H c' (or_intror Hc'))) as [I1 I2].
  rewrite H1, H2, I1, I2.
  destruct (Compile.cols_aggs (tbl c)) as [a b]. destruct (walk_many (map tbl t)) as [a' b']. split; reflexivity.
Qed.

(* one level of the walk: the columns / aggregates found under node i are appended to the two accumulators *)
Theorem get_columns_and_aggregates_rec_src : forall (kr i : nat) (cs ags : list nat),
  ref_of refs "beanquery.compiler._get_columns_and_aggregates" = Some kr ->
  map tbl (kids i) = Compile.children (tbl i) ->
  (forall c cs ags, In c (kids i) ->
     call_ref kr [nref c; PList (map nref cs); PList (map nref ags)] =
     PTuple [PList (map nref (cs ++ colsf c)); PList (map nref (ags ++ aggsf c))]) ->
  (forall c, In c (kids i) -> map tbl (colsf c) = fst (Compile.cols_aggs (tbl c))
                              /\ map tbl (aggsf c) = snd (Compile.cols_aggs (tbl c))) ->
  exists C A : list nat,
    call_function call_ref prim get_columns_and_aggregates_rec [nref i; PList (map nref cs); PList (map nref ags)] =
    Ok (PTuple [PList (map nref (cs ++ C)); PList (map nref (ags ++ A))])
    /\ map tbl C = fst (Compile.cols_aggs (tbl i)) /\ map tbl A = snd (Compile.cols_aggs (tbl i)).
Proof.
  intros kr i cs ags Hk Hkids Hrec Hmodel. cbn in Hk. injection Hk as <-.
  rewrite cols_aggs_unfold.
  unfold call_function, get_columns_and_aggregates_rec. cbn [f_params f_body f_gen bind_params].
  set (loc0 := [("node", nref i); ("columns", PList (map nref cs)); ("aggregates", PList (map nref ags))]).
  rewrite exec_block_cons.
  erewrite exec_if; [|erewrite eval_prim1 by (apply eval_name; reflexivity); rewrite isinstance_agg; reflexivity|reflexivity].
  destruct (Compile.is_agg_node (tbl i)) eqn:Eagg; cbn [truthy].
  { exists [], [i]. split; [|split; reflexivity].
    unfold loc0. cbn [PyMini.exec_block PyMini.exec PyMini.eval bind read write locals fields lookup update String.eqb
                      Ascii.eqb Bool.eqb method_call]. rewrite !map_app. cbn [map]. rewrite ?app_nil_r. reflexivity. }
  rewrite exec_block_cons.
  erewrite exec_if; [|erewrite eval_prim1 by (apply eval_name; reflexivity); rewrite isinstance_col; reflexivity|reflexivity].
  destruct (match tbl i with Compile.NCol _ _ => true | _ => false end) eqn:Ecol; cbn [truthy].
  { exists [i], []. split; [|split].
    - unfold loc0. cbn [PyMini.exec_block PyMini.exec PyMini.eval bind read write locals fields lookup update String.eqb
                        Ascii.eqb Bool.eqb method_call]. rewrite !map_app. cbn [map]. rewrite ?app_nil_r. reflexivity.
    - cbn [map]. destruct (tbl i); try discriminate Ecol. reflexivity.
    - cbn [map]. destruct (tbl i); try discriminate Ecol. reflexivity. }
  exists (flat_map colsf (kids i)), (flat_map aggsf (kids i)).
  destruct (walk_many_kids (kids i) Hmodel) as [W1 W2]. rewrite Hkids in W1, W2.
  split; [|split; [destruct (tbl i); try discriminate Ecol; exact W1|destruct (tbl i); try discriminate Ecol; exact W2]].
  rewrite exec_block_cons.
  rewrite (exec_for call_ref prim "child" _ rec_loop_body _ {| locals := loc0; fields := [] |} (map nref (kids i)))
    by (unfold loc0; cbn [PyMini.eval bind read locals fields lookup String.eqb Ascii.eqb Bool.eqb];
        rewrite childnodes_nref; reflexivity).
  destruct (rec_loop (kids i) cs ags loc0 [] Hrec eq_refl eq_refl) as (loc' & -> & Hc' & Ha').
  cbn [bind PyMini.exec_block PyMini.exec PyMini.eval read locals fields]. rewrite Hc'. cbn [bind read locals].
  rewrite Ha'. reflexivity.
Qed.

End Rec.

(* ================================================================ check_aggregates *)
Definition chk_outer_body : list stmt :=
  Eval cbv in match nth 2 (f_body check_aggregates) SPass with SFor _ _ b => b | _ => [] end.
Definition chk_inner_body : list stmt :=
  Eval cbv in match nth 0 chk_outer_body SPass with SFor _ _ b => b | _ => [] end.

Section Check.
Hypothesis Hagg : forall c, call_ref 1 [nref c] = PBool (Compile.has_agg (tbl c)).

Lemma prim_raise cls lead m : prim "raise" [PV (VStr cls); PV (VStr lead); m] = Exc (exc_code cls lead).
Proof. reflexivity. Qed.

Lemma chk_inner : forall (ks : list nat) loc flds,
  if existsb (fun c => Compile.has_agg (tbl c)) ks
  then for_loop chk_inner_body "child" {| locals := loc; fields := flds |} (map nref ks) = Exc (CompErr Compile.EAggOfAgg)
  else exists loc', for_loop chk_inner_body "child" {| locals := loc; fields := flds |} (map nref ks) =
                    Ok (Next {| locals := loc'; fields := flds |}).
Proof.
  induction ks as [|c t IH]; intros loc flds.
  - exists loc. reflexivity.
  - assert (Estep : for_loop chk_inner_body "child" {| locals := loc; fields := flds |} (nref c :: map nref t) =
                    if Compile.has_agg (tbl c) then Exc (CompErr Compile.EAggOfAgg)
                    else for_loop chk_inner_body "child" {| locals := update "child" (nref c) loc; fields := flds |}
                           (map nref t)).
    { cbn [PyMiniLemmas.for_loop]. unfold chk_inner_body at 1. run. unfold do_call. rewrite Hagg.
      destruct (Compile.has_agg (tbl c)); run; [rewrite prim_raise; reflexivity|reflexivity]. }
    cbn [map existsb]. rewrite Estep.
    specialize (IH (update "child" (nref c) loc) flds).
    destruct (Compile.has_agg (tbl c)); cbn [orb]; [reflexivity|exact IH].
Qed.

Lemma chk_outer : forall (ags : list nat) loc flds,
  if existsb (fun a => existsb (fun c => Compile.has_agg (tbl c)) (kids a)) ags
  then for_loop chk_outer_body "aggregate" {| locals := loc; fields := flds |} (map nref ags) = Exc (CompErr Compile.EAggOfAgg)
  else exists loc', for_loop chk_outer_body "aggregate" {| locals := loc; fields := flds |} (map nref ags) =
                    Ok (Next {| locals := loc'; fields := flds |}).
Proof.
  induction ags as [|a t IH]; intros loc flds.
  - exists loc. reflexivity.
  - pose proof (chk_inner (kids a) (update "aggregate" (nref a) loc) flds) as HI.
    assert (Estep : for_loop chk_outer_body "aggregate" {| locals := loc; fields := flds |} (nref a :: map nref t) =
                    bind (for_loop chk_inner_body "child" {| locals := update "aggregate" (nref a) loc; fields := flds |}
                            (map nref (kids a)))
                      (fun o => match o with
                                | Next s1 => for_loop chk_outer_body "aggregate" s1 (map nref t)
                                | Ret _ _ => Ok o
                                end)).
    { cbn [PyMiniLemmas.for_loop]. unfold chk_outer_body at 1. rewrite exec_block_cons.
      rewrite (exec_for call_ref prim "child" _ chk_inner_body _
                 {| locals := update "aggregate" (nref a) loc; fields := flds |} (map nref (kids a)))
        by (cbn [PyMini.eval bind read write locals fields]; rewrite lookup_update_eq; cbn [bind];
            rewrite childnodes_nref; reflexivity).
      cbn [write locals fields].
      destruct (for_loop chk_inner_body "child" {| locals := update "aggregate" (nref a) loc; fields := flds |}
                  (map nref (kids a))) as [[s1|s1 v]| |]; reflexivity. }
    cbn [map existsb]. rewrite Estep.
    destruct (existsb (fun c => Compile.has_agg (tbl c)) (kids a)); cbn [orb].
    + rewrite HI. reflexivity.
    + destruct HI as [loc1 ->]. cbn [bind]. apply IH.
Qed.

Theorem check_aggregates_src : forall (kg i : nat) (cs ags : list nat),
  ref_of refs "beanquery.compiler.get_columns_and_aggregates" = Some kg ->
  call_ref kg [nref i] = PTuple [PList (map nref cs); PList (map nref ags)] ->
  map tbl cs = fst (Compile.cols_aggs (tbl i)) -> map tbl ags = snd (Compile.cols_aggs (tbl i)) ->
  (forall a, In a ags -> map tbl (kids a) = Compile.children (tbl a)) ->
  call_function call_ref prim check_aggregates [nref i] =
  match Compile.check_aggregates (tbl i) with
  | Some e => Exc (CompErr e)
  | None => Ok PNone
  end.
Proof.
  intros kg i cs ags Hk Hc Hcs Hags Hkids. cbn in Hk. injection Hk as <-.
  unfold Compile.check_aggregates.
  destruct (CompileProofs.predicates_are_the_walk (tbl i)) as [Pc Pa]. rewrite Pc, Pa, <- Hcs, <- Hags.
  rewrite nested_agg_walk, <- Hags.
  assert (En : existsb agg_kids (map tbl ags) =
               existsb (fun a => existsb (fun c => Compile.has_agg (tbl c)) (kids a)) ags).
  { clear Hags Hc. induction ags as [|a t IH]; [reflexivity|]. cbn [map existsb].
    rewrite IH by (intros a' Ha'; apply Hkids; now right). f_equal.
    unfold agg_kids. rewrite <- (Hkids a (or_introl eq_refl)).
    generalize (kids a). intros l. induction l as [|x r IHl]; [reflexivity|]. cbn. now rewrite IHl. }
  rewrite En.
  unfold call_function, check_aggregates. cbn [f_params f_body f_gen bind_params].
  rewrite exec_block_cons.
  cbn [PyMini.exec PyMini.eval bind read locals fields lookup String.eqb Ascii.eqb Bool.eqb do_call].
  rewrite Hc. cbn [bind write locals fields update String.eqb Ascii.eqb Bool.eqb].
  rewrite exec_block_cons.
  destruct cs as [|c0 cs']; [|destruct ags as [|a0 ags']]; cbn [map CompileProofs.nonempty andb].
  - (* no column outside an aggregate *)
    erewrite exec_if; [|reflexivity|reflexivity].
    rewrite exec_block_nil. cbn [bind]. rewrite exec_block_cons.
    match goal with |- context [SFor "aggregate" (XName "aggregates") ?b] =>
      change (SFor "aggregate" (XName "aggregates") b) with (SFor "aggregate" (XName "aggregates") chk_outer_body) end.
    set (loc2 := [("c_expr", nref i); ("columns", PList []); ("aggregates", PList (map nref ags))]).
    rewrite (exec_for call_ref prim "aggregate" _ chk_outer_body _ {| locals := loc2; fields := [] |} (map nref ags))
      by reflexivity.
    pose proof (chk_outer ags loc2 []) as HO.
    destruct (existsb (fun a => existsb (fun c => Compile.has_agg (tbl c)) (kids a)) ags).
    + rewrite HO. reflexivity.
    + destruct HO as [loc' ->]. reflexivity.
  - (* columns, no aggregate *)
    run. reflexivity.
  - (* both: mixed *)
    run. rewrite prim_raise. reflexivity.
Qed.

End Check.
End Walk.

(* the statements for Properties/C05.v *)
Theorem check_aggregates_source :
  forall (call_ref : nat -> list pv -> pv) (tbl : nat -> Compile.cnode) (kids : nat -> list nat)
         (mro : string -> list string) (msg : string -> list pv -> pv) (kg kagg i : nat) (cs ags : list nat),
  ref_of refs "beanquery.compiler.get_columns_and_aggregates" = Some kg ->
  ref_of refs "beanquery.compiler.is_aggregate" = Some kagg ->
  (forall c, call_ref kagg [nref c] = PBool (Compile.has_agg (tbl c))) ->
  call_ref kg [nref i] = PTuple [PList (map nref cs); PList (map nref ags)] ->
  map tbl cs = fst (Compile.cols_aggs (tbl i)) -> map tbl ags = snd (Compile.cols_aggs (tbl i)) ->
  (forall a, In a ags -> map tbl (kids a) = Compile.children (tbl a)) ->
  call_function call_ref (prim_compiler tbl kids mro msg) check_aggregates [nref i] =
  match Compile.check_aggregates (tbl i) with
  | Some e => Exc (CompErr e)
  | None => Ok PNone
  end.
Proof.
  intros call_ref tbl kids mro msg kg kagg i cs ags Hk Ha Hagg. cbn in Ha. injection Ha as <-.
  apply (check_aggregates_src call_ref tbl kids mro msg Hagg kg i cs ags Hk).
Qed.
