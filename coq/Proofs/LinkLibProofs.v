(* The function table of the lowering (Link.lower_func: registered name + declared input types of the overload the
   compiler selected -> Eval.func constructor) is faithful to the typed model: the constructor it answers stands,
   in Model/Typing.v, for a registered function of exactly that NAME, and the declared input types are one of the
   signatures the constructor stands for.  (The validation in Link.lower_query compares datatypes only: without
   this, answering FYear for "month" - both date -> int - would pass it.) *)
From Coq Require Import String ZArith List Bool.
Import ListNotations.
From Verif Require Import Base.PyValue Model.Compile Model.Link.
From Verif Require Model.Eval Model.Typing Proofs.TypingProofs.
Open Scope string_scope.

Lemma list_eqb_eq : forall a b, Typing.list_eqb a b = true -> a = b.
Proof.
  induction a as [|x a IH]; intros [|y b] H; simpl in H; try discriminate; [reflexivity|].
  apply andb_prop in H as [H1 H2]. apply String.eqb_eq in H1. subst. f_equal. now apply IH.
Qed.

Definition sig_of (fn : Ev.func) (ins : list string) : bool :=
  existsb (fun ts => Typing.list_eqb (Typing.func_sig fn ts) ins) TypingProofs.ty_lists3.

Ltac decode_cond C :=
  let Cn := fresh "Cn" in
  apply andb_prop in C as [Cn C]; apply String.eqb_eq in Cn; subst;
  repeat (apply orb_prop in C as [C|C]); apply list_eqb_eq in C; subst;
  (split; [reflexivity | vm_compute; reflexivity]).

Theorem lower_func_faithful : forall f ins fn,
  lower_func f ins = Some fn -> Typing.func_name fn = f /\ sig_of fn ins = true.
Proof.
  intros f ins fn H. unfold lower_func, str_list_eqb in H.
  repeat match type of H with
         | (if ?c then Some _ else _) = Some _ =>
             let C := fresh "C" in
             destruct c eqn:C; [injection H as <-; decode_cond C|]
         end.
  discriminate H.
Qed.

(* the executor node of a lowered scalar call is the EFunc node over that constructor *)
Theorem lower_call_func : forall name ins args e,
  is_operator name = false -> lower_call name ins args = Some e ->
  exists fn, lower_func name ins = Some fn /\ e = Ev.EFunc fn args /\ Typing.func_name fn = name.
Proof.
  intros name ins args e Hop H. unfold lower_call in H. rewrite Hop in H.
  destruct (lower_func name ins) as [fn|] eqn:L; [|discriminate H]. injection H as <-.
  exists fn. repeat split. now apply (lower_func_faithful name ins fn).
Qed.

(* the library names the lowering knows *)
Example lower_func_library :
  lower_func "date_part" ["str"; "date"] = Some Ev.FDatePart /\ lower_func "date" ["int"; "int"; "int"] = Some Ev.FDateYmd
  /\ lower_func "int" ["str"] = Some Ev.FInt /\ lower_func "int" ["Decimal"] = Some Ev.FIntOfDec
  /\ lower_func "root" ["str"] = Some Ev.FRoot1 /\ lower_func "yearmonth" ["date"] = Some Ev.FYearmonth
  /\ lower_func "grep" ["str"; "str"] = None.
Proof. repeat split. Qed.
