(* C04: soundness of the announced datatypes for the model of Model/Typing.v.
   Every lemma about an operator / function overload computes the overload's
   declared output type from Model.RegistrySnapshot (vm_compute on the lookup), so a
   changed declaration in the code (snapshot regenerated to follow it) breaks the
   lemma of that overload. *)
From Coq Require Import String ZArith List Bool Lia.
Import ListNotations.
From Verif Require Import Base.Out Base.StableSort Base.PyValue Base.Decimal Model.Eval Model.Order Model.Exec Model.Typing.
From Verif Require Import Proofs.OrderProofs Proofs.EvalProofs Proofs.AggProofs.
From Verif Require Model.Dates Model.StrFuncs Proofs.StrFuncsProofs.
Open Scope Z_scope.
Open Scope list_scope.

(* ---- has_type ---- *)
Lemma has_type_isinstance v t : has_type v t = true -> py_isinstance v t = true.
Proof. destruct v, t; simpl; congruence. Qed.

Lemma has_type_not_err v t : has_type v t = true -> forall k, v <> VErr k.
Proof. intros H k E. subst v. destruct t; discriminate. Qed.

Lemma has_type_null t : has_type VNull t = true.
Proof. destruct t; reflexivity. Qed.

Lemma has_type_bool b t : t = TBool -> has_type (VBool b) t = true.
Proof. intros ->. reflexivity. Qed.

Lemma ty_eqb_eq a b : ty_eqb a b = true -> a = b.
Proof. destruct a, b; simpl; congruence. Qed.

Lemma type_of_value_sound v t : type_of_value v = Some t -> has_type v t = true.
Proof. destruct v; simpl; intros H; inversion H; reflexivity. Qed.

(* ---- unary operators: one case per (operator, operand dtype) ---- *)
Lemma unop_sound op a t x :
  unop_out op a = Some t -> has_type x a = true -> has_type (un op x) t = true.
Proof.
  intros H Hx.
  destruct op, a; vm_compute in H; try discriminate H; injection H as <-;
    destruct x; try discriminate Hx; reflexivity.
Qed.

(* ---- binary operators: one case per (constructor, left dtype, right dtype) ---- *)
Lemma binop_sound op a b t x y :
  binop_out op a b = Some t -> has_type x a = true -> has_type y b = true ->
  is_null x = false -> is_null y = false -> has_type (bin op x y) t = true.
Proof.
  intros H Hx Hy Nx Ny.
  destruct op, a, b; vm_compute in H; try discriminate H; injection H as <-;
    destruct x; try discriminate Hx; try discriminate Nx;
    destruct y; try discriminate Hy; try discriminate Ny;
    try reflexivity;
    unfold bin; cbn [as_num num_is_zero to_dec];
    repeat match goal with |- context [if ?c then _ else _] => destruct c end; reflexivity.
Qed.

Lemma between_out_bool a lo hi t : between_out a lo hi = Some t -> t = TBool.
Proof. intros H. destruct a, lo, hi; vm_compute in H; try discriminate H; now injection H as <-. Qed.

Lemma in_out_bool n t : in_out n = Some t -> t = TBool.
Proof. intros H. destruct n; vm_compute in H; now injection H as <-. Qed.

(* ---- the C18 library behind the new constructors: results of the typed (total) overloads ---- *)
Lemma lib_typed v t : has_type v t = true -> has_type (lib v) t = true.
Proof. destruct v; simpl; auto; intros; discriminate. Qed.

Lemma lib_date_part fld o : has_type (lib (Dates.date_part fld o)) TInt = true.
Proof. unfold Dates.date_part, Dates.part_opt. destruct (Dates.punit_of fld); reflexivity. Qed.

Lemma lib_date_ymd y m d : has_type (lib (StrFuncs.cast_date3 y m d)) TDate = true.
Proof. destruct (StrFuncsProofs.cast_date3_total y m d) as [[o E]|E]; rewrite E; reflexivity. Qed.

Lemma lib_parse_date s : has_type (lib (StrFuncs.parse_date s)) TDate = true.
Proof. destruct (StrFuncsProofs.parse_date_date_or_null s) as [[o E]|E]; rewrite E; reflexivity. Qed.

Lemma lib_int_of_str s : has_type (lib_x (StrFuncs.cast_int (StrFuncs.XV (VStr s)))) TInt = true.
Proof. unfold StrFuncs.cast_int, StrFuncs.cast_int_gen. destruct (StrFuncs.parse_int s); reflexivity. Qed.

Lemma lib_round_int z n : has_type (lib (StrFuncs.f_round_int z n)) TInt = true.
Proof. unfold StrFuncs.f_round_int. destruct (0 <=? n); reflexivity. Qed.

Lemma lib_parent a : has_type (lib (StrFuncs.f_parent a)) TStr = true.
Proof. destruct a; reflexivity. Qed.

Lemma lib_leaf a : has_type (lib (StrFuncs.f_leaf a)) TStr = true.
Proof. destruct a; reflexivity. Qed.

(* ---- functions: one case per (function, argument dtypes) ---- *)
Lemma func_sound f ts t vs :
  func_out f ts = Some t -> Forall2 (fun v a => has_type v a = true) vs ts ->
  existsb is_null vs = false -> has_type (apply_func f vs) t = true.
Proof.
  intros H F N. unfold func_out in H. destruct (func_dom f ts) eqn:D; [|discriminate H].
  (* case analysis driven by func_dom: only the argument lists it accepts are enumerated *)
  destruct f; cbn in D; try discriminate D;
    repeat match type of D with
           | context [match ?x with _ => _ end] => destruct x; cbn in D; try discriminate D
           end;
    revert t H; repeat match goal with a : ty |- _ => destruct a end; intros t H;
    vm_compute in H; try discriminate H; injection H as <-;
    repeat match goal with
           | F : Forall2 _ _ (_ :: _) |- _ => inversion F; subst; clear F
           | F : Forall2 _ _ [] |- _ => inversion F; subst; clear F
           end;
    repeat match goal with
           | Hv : has_type ?v _ = true |- _ => destruct v; try discriminate Hv; clear Hv
           end;
    try discriminate N; try reflexivity;
    first [ apply lib_date_part | apply lib_date_ymd | apply lib_parse_date | apply lib_int_of_str
          | apply lib_round_int | apply lib_parent | apply lib_leaf
          | unfold apply_func; cbn [as_num num_is_zero to_dec];
            repeat match goal with |- context [if ?c then _ else _] => destruct c end; reflexivity ].
Qed.

(* ---- induction principle for the nested inductive enode ---- *)
Section EnodeInd.
Variable P : enode -> Prop.
Hypothesis HConst : forall v, P (EConst v).
Hypothesis HCol : forall i, P (ECol i).
Hypothesis HAgg : forall h, P (EAgg h).
Hypothesis HUnary : forall op e, P e -> P (EUnary op e).
Hypothesis HBinary : forall op l r, P l -> P r -> P (EBinary op l r).
Hypothesis HBetween : forall e lo hi, P e -> P lo -> P hi -> P (EBetween e lo hi).
Hypothesis HAnd : forall args, Forall P args -> P (EAnd args).
Hypothesis HOr : forall args, Forall P args -> P (EOr args).
Hypothesis HCoalesce : forall args, Forall P args -> P (ECoalesce args).
Hypothesis HFunc : forall f args, Forall P args -> P (EFunc f args).
Hypothesis HIn : forall n e items, P e -> P (EIn n e items).

Fixpoint enode_ind' (e : enode) : P e :=
  let go := fix go (l : list enode) : Forall P l :=
              match l with
              | [] => Forall_nil P
              | a :: t => Forall_cons a (enode_ind' a) (go t)
              end in
  match e with
  | EConst v => HConst v
  | ECol i => HCol i
  | EAgg h => HAgg h
  | EUnary op a => HUnary op a (enode_ind' a)
  | EBinary op a b => HBinary op a b (enode_ind' a) (enode_ind' b)
  | EBetween a lo hi => HBetween a lo hi (enode_ind' a) (enode_ind' lo) (enode_ind' hi)
  | EAnd args => HAnd args (go args)
  | EOr args => HOr args (go args)
  | ECoalesce args => HCoalesce args (go args)
  | EFunc f args => HFunc f args (go args)
  | EIn n a items => HIn n a items (enode_ind' a)
  end.
End EnodeInd.

(* ---- helper lemmas on lists of typed arguments ---- *)
Lemma all_some_forall2 {A} (l : list (option A)) r : all_some l = Some r -> Forall2 (fun o a => o = Some a) l r.
Proof.
  revert r. induction l as [|o l IH]; intros r H; simpl in H.
  - injection H as <-. constructor.
  - destruct o as [a|]; [|discriminate H]. destruct (all_some l) as [r'|]; [|discriminate H].
    injection H as <-. constructor; [reflexivity|now apply IH].
Qed.

Section Sound.
Variable cols aggs : list ty.
Variable r : row.
Variable st : list value.
Hypothesis Hr : conforms cols r.
Hypothesis Hst : conforms aggs st.

Definition sound_at (e : enode) : Prop :=
  forall t, type_of cols aggs e = Some t -> has_type (eval r st e) t = true.

Lemma args_typed args ts :
  Forall sound_at args -> all_some (map (type_of cols aggs) args) = Some ts ->
  Forall2 (fun v a => has_type v a = true) (map (eval r st) args) ts.
Proof.
  intros F H. apply all_some_forall2 in H. revert ts H.
  induction F as [|a l Ha F IH]; intros ts H; simpl in *; inversion H; subst; constructor.
  - now apply Ha.
  - now apply IH.
Qed.

Lemma and_go_bool : forall l,
  has_type ((fix go (l : list enode) : value :=
               match l with
               | [] => VBool true
               | a :: t => let v := eval r st a in
                           if is_null v then VNull else if truthy v then go t else VBool false
               end) l) TBool = true.
Proof.
  induction l as [|a l IH]; [reflexivity|]. cbv zeta.
  destruct (is_null (eval r st a)); [reflexivity|]. destruct (truthy (eval r st a)); [exact IH|reflexivity].
Qed.

Lemma or_go_bool : forall l acc, has_type acc TBool = true ->
  has_type ((fix go (acc : value) (l : list enode) : value :=
               match l with
               | [] => acc
               | a :: t => let v := eval r st a in
                           if truthy v then VBool true else go (if is_null v then VNull else acc) t
               end) acc l) TBool = true.
Proof.
  induction l as [|a l IH]; intros acc Hacc; [exact Hacc|]. cbv zeta.
  destruct (truthy (eval r st a)); [reflexivity|]. apply IH. destruct (is_null (eval r st a)); [reflexivity|exact Hacc].
Qed.

Lemma coalesce_go_typed t : forall l, Forall (fun a => has_type (eval r st a) t = true) l ->
  has_type ((fix go (l : list enode) : value :=
               match l with
               | [] => VNull
               | a :: t => let v := eval r st a in if is_null v then go t else v
               end) l) t = true.
Proof.
  induction l as [|a l IH]; intros F; [apply has_type_null|]. cbv zeta. inversion F; subst.
  destruct (is_null (eval r st a)); [now apply IH|assumption].
Qed.

Theorem eval_sound_type : forall e, sound_at e.
Proof.
  apply enode_ind'; unfold sound_at.
  - (* EConst *) intros v t H. now apply type_of_value_sound.
  - (* ECol *) intros i t H. now apply Hr.
  - (* EAgg *) intros h t H. now apply Hst.
  - (* EUnary *) intros op e IHe t H. simpl in H. destruct (type_of cols aggs e) as [a|] eqn:E; [|discriminate H].
    simpl. eapply unop_sound; [exact H|now apply IHe].
  - (* EBinary *) intros op e1 e2 IH1 IH2 t H. simpl in H.
    destruct (type_of cols aggs e1) as [a|] eqn:E1; [|discriminate H].
    destruct (type_of cols aggs e2) as [b|] eqn:E2; [|discriminate H].
    simpl. destruct (is_null (eval r st e1)) eqn:N1; [apply has_type_null|].
    destruct (is_null (eval r st e2)) eqn:N2; [apply has_type_null|].
    eapply binop_sound; eauto.
  - (* EBetween *) intros e1 e2 e3 _ _ _ t H. simpl in H.
    destruct (type_of cols aggs e1); [|discriminate H].
    destruct (type_of cols aggs e2); [|discriminate H].
    destruct (type_of cols aggs e3); [|discriminate H].
    apply between_out_bool in H. subst t. simpl.
    destruct (is_null (eval r st e1)); [reflexivity|].
    destruct (is_null (eval r st e2)); [reflexivity|].
    destruct (is_null (eval r st e3)); reflexivity.
  - (* EAnd *) intros args _ t H. simpl in H. destruct (all_some (map (type_of cols aggs) args)); [|discriminate H].
    injection H as <-. apply and_go_bool.
  - (* EOr *) intros args _ t H. simpl in H. destruct (all_some (map (type_of cols aggs) args)); [|discriminate H].
    injection H as <-. simpl. now apply or_go_bool.
  - (* ECoalesce *) intros args F t H. simpl in H.
    destruct (all_some (map (type_of cols aggs) args)) as [[|t0 ts]|] eqn:E; try discriminate H.
    destruct (forallb (ty_eqb t0) ts) eqn:Eq; [|discriminate H]. injection H as <-.
    apply coalesce_go_typed.
    pose proof (args_typed _ _ F E) as F2.
    assert (Hall : Forall (fun a => a = t0) (t0 :: ts)).
    { constructor; [reflexivity|]. rewrite forallb_forall in Eq. apply Forall_forall. intros x Hx.
      symmetry. apply ty_eqb_eq. now apply Eq. }
    clear E Eq F. revert F2 Hall. generalize (t0 :: ts) as tl. clear ts.
    induction args as [|a l IH]; intros tl F2 Hall; [constructor|].
    simpl in F2. inversion F2; subst. inversion Hall; subst. constructor; [assumption|]. eapply IH; eauto.
  - (* EFunc *) intros f args F t H. simpl in H.
    destruct (all_some (map (type_of cols aggs) args)) as [ts|] eqn:E; [|discriminate H].
    simpl. destruct (existsb is_null (map (eval r st) args)) eqn:N; [apply has_type_null|].
    eapply func_sound; [exact H| |exact N]. now apply args_typed.
  - (* EIn *) intros n e items _ t H. simpl in H. destruct (type_of cols aggs e); [|discriminate H].
    apply in_out_bool in H. subst t. simpl.
    destruct (is_null (eval r st e)); [reflexivity|]. destruct items; reflexivity.
Qed.

Theorem eval_sound e t :
  type_of cols aggs e = Some t ->
  has_type (eval r st e) t = true /\ (forall k, eval r st e <> VErr k).
Proof.
  intros H. pose proof (eval_sound_type e t H) as Ht. split; [exact Ht|]. eapply has_type_not_err; eauto.
Qed.
End Sound.

Lemma conforms_nil vs : conforms [] vs.
Proof. intros i t H. destruct i; discriminate H. Qed.

(* ---- description and result rows ---- *)
Theorem description_names cols aggs ts d :
  description cols aggs ts = Some d ->
  map fst d = flat_map (fun tg => match snd tg with Some n => [n] | None => [] end) ts.
Proof.
  revert d. induction ts as [|[e name] ts IH]; intros d H; simpl in H.
  - injection H as <-. reflexivity.
  - destruct (type_of cols aggs e) as [t|]; [|discriminate H].
    destruct (description cols aggs ts) as [d'|]; [|discriminate H]. injection H as <-.
    simpl. destruct name; simpl; now rewrite (IH d' eq_refl).
Qed.

Theorem description_types cols aggs ts d :
  description cols aggs ts = Some d ->
  map (fun x => Some (snd x)) d = visible ts (map (fun tg => type_of cols aggs (fst tg)) ts).
Proof.
  revert d. induction ts as [|[e name] ts IH]; intros d H; simpl in H.
  - injection H as <-. reflexivity.
  - destruct (type_of cols aggs e) as [t|] eqn:E; [|discriminate H].
    destruct (description cols aggs ts) as [d'|]; [|discriminate H]. injection H as <-.
    simpl. rewrite E. destruct name; simpl; now rewrite (IH d' eq_refl).
Qed.

(* every delivered cell inhabits the datatype announced at its position, and no cell is an exception *)
Theorem result_row_sound cols aggs ts d r st :
  description cols aggs ts = Some d -> conforms cols r -> conforms aggs st ->
  Forall2 (fun v nt => has_type v (snd nt) = true /\ forall k, v <> VErr k)
          (visible ts (map (fun tg => eval r st (fst tg)) ts)) d.
Proof.
  intros H Hr Hst. revert d H. induction ts as [|[e name] ts IH]; intros d H; simpl in H.
  - injection H as <-. constructor.
  - destruct (type_of cols aggs e) as [t|] eqn:E; [|discriminate H].
    destruct (description cols aggs ts) as [d'|]; [|discriminate H]. injection H as <-.
    simpl. destruct name; [constructor|]; try now apply IH.
    simpl. now apply eval_sound with (cols := cols) (aggs := aggs).
Qed.

(* the non-aggregate row loop delivers only such rows *)
Theorem scan_rows_sound cols (q : query) (names : list (option (list Z))) d table :
  length names = length (q_targets q) ->
  description cols [] (combine (q_targets q) names) = Some d ->
  Forall (conforms cols) table ->
  Forall (fun out => Forall2 (fun v nt => has_type v (snd nt) = true /\ forall k, v <> VErr k)
                             (visible (combine (q_targets q) names) out) d)
         (scan_nonagg q [] table).
Proof.
  intros L H F. rewrite scan_nonagg_spec. apply Forall_forall. intros out Hin.
  apply in_map_iff in Hin. destruct Hin as [r [<- Hr]]. apply filter_In in Hr. destruct Hr as [Hr _].
  rewrite Forall_forall in F. specialize (F r Hr).
  pose proof (result_row_sound cols [] (combine (q_targets q) names) d r [] H F (conforms_nil [])) as R.
  replace (map (eval r []) (q_targets q))
    with (map (fun tg : target => eval r [] (fst tg)) (combine (q_targets q) names)); [exact R|].
  clear -L. revert names L. induction (q_targets q) as [|e l IH]; intros names L; [reflexivity|].
  destruct names as [|n names]; [discriminate L|]. simpl. f_equal. apply IH. now injection L.
Qed.

(* ---- aggregates ---- *)
Lemma value_eqb_eq a b : value_eqb a b = true -> a = b.
Proof.
  destruct a, b; simpl; try discriminate.
  - intros H. apply Z.eqb_eq in H. now subst.
  - destruct d, d0; simpl. intros H. apply andb_true_iff in H. destruct H as [H H3].
    apply andb_true_iff in H. destruct H as [H1 H2].
    apply Bool.eqb_prop in H1. apply Z.eqb_eq in H2, H3. now subst.
Qed.

Lemma fold_inv (P : value -> Prop) (a : agg) rows :
  (forall cur r, In r rows -> P cur -> P (agg_update a r cur)) ->
  forall init, P init -> P (fold_left (fun cur r => agg_update a r cur) rows init).
Proof.
  induction rows as [|r t IH]; intros Hs init Hi; [exact Hi|]. simpl.
  apply IH; [intros cur r' Hin; apply Hs; now right|]. apply Hs; [now left|exact Hi].
Qed.

Definition is_vint (v : value) : Prop := exists z, v = VInt z.
Definition is_vdec (v : value) : Prop := exists d, v = VDec d.

Theorem agg_sound cols a t rows :
  agg_type cols a = Some t -> Forall (conforms cols) rows ->
  has_type (fold_agg a rows) t = true /\ (forall k, fold_agg a rows <> VErr k).
Proof.
  intros H F.
  assert (Harg : forall r t0, In r rows -> type_of cols [] (aarg a) = Some t0 ->
                              has_type (eval r [] (aarg a)) t0 = true).
  { intros r t0 Hin Ht. rewrite Forall_forall in F.
    apply (eval_sound_type cols [] r [] (F r Hin) (conforms_nil []) _ _ Ht). }
  cut (has_type (fold_agg a rows) t = true).
  { intros Ht. split; [exact Ht|]. eapply has_type_not_err; eauto. }
  destruct a as [f e]. unfold agg_type in H. cbn [afun aarg] in *. unfold fold_agg.
  destruct f.
  - (* count( * ) *)
    vm_compute in H. injection H as <-.
    cut (is_vint (fold_left (fun cur r => agg_update {| afun := ACountStar; aarg := e |} r cur) rows
                            (agg_init {| afun := ACountStar; aarg := e |}))).
    { intros [z ->]. reflexivity. }
    apply fold_inv; [|now exists 0]. intros cur r _ [z ->]. now exists (z + 1).
  - (* count(x) *)
    destruct (type_of cols [] e) as [t0|] eqn:E; [|discriminate H].
    assert (t = TInt) by (destruct t0; vm_compute in H; now injection H as <-). subst t.
    cut (is_vint (fold_left (fun cur r => agg_update {| afun := ACount; aarg := e |} r cur) rows
                            (agg_init {| afun := ACount; aarg := e |}))).
    { intros [z ->]. reflexivity. }
    apply fold_inv; [|now exists 0]. intros cur r _ [z ->]. unfold agg_update. cbn [afun aarg].
    destruct (is_null (eval r [] e)); [now exists z|now exists (z + 1)].
  - (* sum *)
    destruct (type_of cols [] e) as [t0|] eqn:E; [|discriminate H].
    destruct (out_ty (function_lookup R.functions "sum" [t0])) as [o|] eqn:Eo; [|discriminate H].
    destruct (zero_of o) as [z0|] eqn:Ez; [|discriminate H].
    destruct (value_eqb zero z0) eqn:Ev; [|discriminate H]. injection H as <-.
    apply value_eqb_eq in Ev. subst zero.
    destruct t0; vm_compute in Eo; try discriminate Eo; injection Eo as <-;
      vm_compute in Ez; injection Ez as <-.
    + (* int *)
      cut (is_vint (fold_left (fun cur r => agg_update {| afun := ASum (VInt 0); aarg := e |} r cur) rows
                              (agg_init {| afun := ASum (VInt 0); aarg := e |}))).
      { intros [z ->]. reflexivity. }
      apply fold_inv; [|now exists 0]. intros cur r Hin [z ->]. unfold agg_update. cbn [afun aarg].
      specialize (Harg r TInt Hin eq_refl).
      destruct (eval r [] e); try discriminate Harg; cbn [is_null]; [now exists z|]. now eexists.
    + (* Decimal *)
      cut (is_vdec (fold_left (fun cur r => agg_update {| afun := ASum (VDec (mkdec false 0 0)); aarg := e |} r cur) rows
                              (agg_init {| afun := ASum (VDec (mkdec false 0 0)); aarg := e |}))).
      { intros [z ->]. reflexivity. }
      apply fold_inv; [|now eexists]. intros cur r Hin [z ->]. unfold agg_update. cbn [afun aarg].
      specialize (Harg r TDec Hin eq_refl).
      destruct (eval r [] e); try discriminate Harg; cbn [is_null]; [now exists z|]. now eexists.
    + (* bool, through the MRO to SumInt: announced int *)
      cut (is_vint (fold_left (fun cur r => agg_update {| afun := ASum (VInt 0); aarg := e |} r cur) rows
                              (agg_init {| afun := ASum (VInt 0); aarg := e |}))).
      { intros [z ->]. reflexivity. }
      apply fold_inv; [|now exists 0]. intros cur r Hin [z ->]. unfold agg_update. cbn [afun aarg].
      specialize (Harg r TBool Hin eq_refl).
      destruct (eval r [] e); try discriminate Harg; cbn [is_null]; [now exists z|]. now eexists.
  - (* first *)
    destruct (type_of cols [] e) as [t0|] eqn:E; [|discriminate H].
    destruct (function_lookup R.functions "first" [t0]); [|discriminate H]. injection H as <-.
    apply fold_inv with (P := fun v => has_type v t0 = true); [|apply has_type_null].
    intros cur r Hin Hc. unfold agg_update. cbn [afun aarg]. destruct (is_null cur); [now apply Harg|exact Hc].
  - (* last *)
    destruct (type_of cols [] e) as [t0|] eqn:E; [|discriminate H].
    destruct (function_lookup R.functions "last" [t0]); [|discriminate H]. injection H as <-.
    apply fold_inv with (P := fun v => has_type v t0 = true); [|apply has_type_null].
    intros cur r Hin Hc. unfold agg_update. cbn [afun aarg]. now apply Harg.
  - (* min *)
    destruct (type_of cols [] e) as [t0|] eqn:E; [|discriminate H].
    destruct (function_lookup R.functions "min" [t0]); [|discriminate H]. injection H as <-.
    apply fold_inv with (P := fun v => has_type v t0 = true); [|apply has_type_null].
    intros cur r Hin Hc. unfold agg_update. cbn [afun aarg]. cbv zeta.
    destruct (is_null (eval r [] e)); [exact Hc|].
    destruct (is_null cur || val_lt (eval r [] e) cur); [now apply Harg|exact Hc].
  - (* max *)
    destruct (type_of cols [] e) as [t0|] eqn:E; [|discriminate H].
    destruct (function_lookup R.functions "max" [t0]); [|discriminate H]. injection H as <-.
    apply fold_inv with (P := fun v => has_type v t0 = true); [|apply has_type_null].
    intros cur r Hin Hc. unfold agg_update. cbn [afun aarg]. cbv zeta.
    destruct (is_null (eval r [] e)); [exact Hc|].
    destruct (is_null cur || val_lt cur (eval r [] e)); [now apply Harg|exact Hc].
Qed.

(* ---- the defect repaired by 26ccdff, in the model: had sum() kept announcing its operand's dtype (and
   starting from dtype() = False), a bool column with one TRUE row delivers the int 1 under `bool` ---- *)
Theorem sum_announcing_operand_type_refuted :
  exists cols e rows t,
    agg_type_sum_old cols e = Some t /\ Forall (conforms cols) rows /\
    has_type (fold_agg {| afun := ASum (VBool false); aarg := e |} rows) t = false.
Proof.
  exists [TBool], (ECol 0), [[VBool true]], TBool. split; [reflexivity|]. split; [|reflexivity].
  constructor; [|constructor]. intros i t H. destruct i as [|[|i]]; simpl in H; try discriminate H.
  injection H as <-. reflexivity.
Qed.

(* strictness is not vacuous: under Python's isinstance the same value does not inhabit bool either *)
Lemma int_not_instance_of_bool z : py_isinstance (VInt z) TBool = false.
Proof. reflexivity. Qed.

(* ---- the complete typing tables of the modelled constructors, as the registry snapshot declares them.
   Any change of a declared input or output type of one of these overloads in the code (followed into the
   snapshot) changes the computed side and breaks the equality. ---- *)
Definition all_binop := [BAdd; BSub; BMul; BDiv; BDivInt; BMod; BEq; BNe; BLt; BLe; BGt; BGe; BMatch; BNotMatch;
                         BAddDateInt; BAddIntDate; BSubDateInt; BSubDateDate].
Definition all_unop := [UNot; UNeg; UIsNull; UIsNotNull].
Definition all_func := [FAbs; FNeg; FSafediv; FLength; FUpper; FLower; FBool; FIntOfDec; FDecOfInt; FSubstr;
  FYear; FMonth; FDay; FYearmonth; FQuarter; FWeekday; FDateAdd; FDateDiff; FDateTrunc; FDatePart; FDateBin; FDateYmd; FDate;
  FStr; FInt; FDecimal; FSplitcomp; FMaxwidth; FRoot; FRoot1; FParent; FLeaf; FRoundInt; FRoundInt1; FRoundDec; FRoundDec1].
Definition ty_lists3 : list (list ty) :=
  [[]] ++ map (fun a => [a]) all_ty ++ flat_map (fun a => map (fun b => [a; b]) all_ty) all_ty
  ++ flat_map (fun a => flat_map (fun b => map (fun c => [a; b; c]) all_ty) all_ty) all_ty.

Definition binop_table : list (binop * ty * ty * ty) :=
  flat_map (fun op => flat_map (fun a => flat_map (fun b =>
    match binop_out op a b with Some t => [(op, a, b, t)] | None => [] end) all_ty) all_ty) all_binop.
Definition unop_table : list (unop * ty * ty) :=
  flat_map (fun op => flat_map (fun a => match unop_out op a with Some t => [(op, a, t)] | None => [] end) all_ty) all_unop.
Definition func_table : list (func * list ty * ty) :=
  flat_map (fun f => flat_map (fun ts => match func_out f ts with Some t => [(f, ts, t)] | None => [] end) ty_lists3) all_func.

Definition num_pairs (op : binop) : list (binop * ty * ty * ty) :=
  [(op, TInt, TInt, TInt); (op, TInt, TDec, TDec); (op, TDec, TInt, TDec); (op, TDec, TDec, TDec)].
Definition cmp_pairs (op : binop) : list (binop * ty * ty * ty) :=
  [(op, TInt, TInt, TBool); (op, TInt, TDec, TBool); (op, TDec, TInt, TBool); (op, TDec, TDec, TBool);
   (op, TStr, TStr, TBool); (op, TDate, TDate, TBool)].

Theorem binop_table_spec :
  binop_table =
  (num_pairs BAdd ++ num_pairs BSub ++ num_pairs BMul
  ++ [(BDiv, TInt, TDec, TDec); (BDiv, TDec, TInt, TDec); (BDiv, TDec, TDec, TDec); (BDivInt, TInt, TInt, TDec)]
  ++ num_pairs BMod
  ++ cmp_pairs BEq ++ cmp_pairs BNe ++ cmp_pairs BLt ++ cmp_pairs BLe ++ cmp_pairs BGt ++ cmp_pairs BGe
  ++ [(BMatch, TStr, TStr, TBool); (BNotMatch, TStr, TStr, TBool);
      (BAddDateInt, TDate, TInt, TDate); (BAddIntDate, TInt, TDate, TDate);
      (BSubDateInt, TDate, TInt, TDate); (BSubDateDate, TDate, TDate, TInt)])%list.
Proof. vm_compute. reflexivity. Qed.

Theorem unop_table_spec :
  unop_table =
  (map (fun a => (UNot, a, TBool)) all_ty
  ++ [(UNeg, TInt, TInt); (UNeg, TDec, TDec); (UNeg, TBool, TInt)]      (* -<bool> reaches Neg[int] through the MRO *)
  ++ map (fun a => (UIsNull, a, TBool)) all_ty ++ map (fun a => (UIsNotNull, a, TBool)) all_ty)%list.
Proof. vm_compute. reflexivity. Qed.

Theorem func_table_spec :
  func_table =
  ([(FAbs, [TDec], TDec); (FNeg, [TDec], TDec);
   (FSafediv, [TDec; TInt], TDec); (FSafediv, [TDec; TDec], TDec); (FSafediv, [TDec; TBool], TDec);
   (FLength, [TStr], TInt); (FUpper, [TStr], TStr); (FLower, [TStr], TStr)]
  ++ map (fun a => (FBool, [a], TBool)) all_ty
  ++ [(FIntOfDec, [TDec], TInt); (FDecOfInt, [TInt], TDec); (FSubstr, [TStr; TInt; TInt], TStr)]
  (* the C18 library (the overloads whose model is total) *)
  ++ [(FYear, [TDate], TInt); (FMonth, [TDate], TInt); (FDay, [TDate], TInt); (FQuarter, [TDate], TStr);
      (FWeekday, [TDate], TStr); (FDateDiff, [TDate; TDate], TInt); (FDatePart, [TStr; TDate], TInt);
      (FDateYmd, [TInt; TInt; TInt], TDate)]
  (* strict types do not reach the object overloads (types._bases drops object): date(<int>) is rejected *)
  ++ map (fun a => (FDate, [a], TDate)) [TStr; TDate; TObject; TNone]
  ++ map (fun a => (FStr, [a], TStr)) all_ty
  ++ map (fun a => (FInt, [a], TInt)) [TInt; TStr; TBool; TObject; TNone]
  ++ [(FDecimal, [TDec], TDec); (FDecimal, [TBool], TDec);
      (FRoot, [TStr; TInt], TStr); (FRoot1, [TStr], TStr); (FParent, [TStr], TStr); (FLeaf, [TStr], TStr);
      (FRoundInt, [TInt; TInt], TInt); (FRoundInt1, [TInt], TInt)])%list.
Proof. vm_compute. reflexivity. Qed.

(* the compiler rejects what no overload matches: bool operands do not reach the int overloads of binary
   operators (exact match), str/date have no arithmetic, NULL literals have no arithmetic *)
Theorem untyped_examples :
  binop_out BAdd TBool TInt = None /\ binop_out BEq TBool TBool = None /\ binop_out BAdd TStr TStr = None
  /\ binop_out BAdd TNone TInt = None /\ unop_out UNeg TStr = None /\ unop_out UNeg TNone = None
  /\ between_out TInt TStr TInt = None /\ func_out FLength [TInt] = None.
Proof. vm_compute. repeat split. Qed.

(* ---- through ORDER BY / projection / DISTINCT / LIMIT: every row of the final result of a non-aggregate
   query is the projection of a scanned row onto the visible targets ---- *)
Lemma firstn_in {A} n (l : list A) x : In x (firstn n l) -> In x l.
Proof.
  revert l. induction n as [|n IH]; intros l H; [destruct H|]. destruct l as [|a l]; [destruct H|].
  simpl in H. destruct H as [H|H]; [now left|right; now apply IH].
Qed.

Lemma post_in spec vis distinct lim rows out :
  In out (post spec vis distinct lim rows) -> exists r, In r rows /\ out = project vis r.
Proof.
  unfold post. intros H.
  assert (H1 : In out (map (project vis) match spec with None => rows | Some s => order_rows s rows end)).
  { destruct lim as [n|]; simpl in H; [apply firstn_in in H|];
      (destruct distinct; [apply (uniquify_acc_in [] _ _ H)|exact H]). }
  apply in_map_iff in H1. destruct H1 as [r [<- Hr]]. exists r. split; [|reflexivity].
  destruct spec as [s|]; [|exact Hr].
  eapply Permutation.Permutation_in; [apply Permutation.Permutation_sym, order_rows_perm|exact Hr].
Qed.

Lemma cell_app_at (pre : list value) x xs : cell (length pre) (pre ++ x :: xs) = x.
Proof. unfold cell. rewrite app_nth2; [|lia]. now rewrite Nat.sub_diag. Qed.

Lemma project_vis_from : forall (ts : list target) (xs pre : list value),
  length xs = length ts -> project (vis_from (length pre) ts) (pre ++ xs) = visible ts xs.
Proof.
  induction ts as [|[e name] ts IH]; intros xs pre L; [reflexivity|].
  destruct xs as [|x xs]; [discriminate L|]. injection L as L.
  assert (E : pre ++ x :: xs = (pre ++ [x]) ++ xs) by now rewrite <- app_assoc.
  assert (Ln : S (length pre) = length (pre ++ [x])) by (rewrite app_length; simpl; lia).
  destruct name as [n|]; simpl.
  - unfold project in *. simpl. rewrite cell_app_at. f_equal. rewrite E, Ln. now apply IH.
  - rewrite E, Ln. now apply IH.
Qed.

Lemma project_vis0 (ts : list target) (xs : list value) :
  length xs = length ts -> project (vis_from 0 ts) xs = visible ts xs.
Proof. intros L. exact (project_vis_from ts xs [] L). Qed.

Theorem exec_nonagg_sound cols (q : query) (names : list (option (list Z))) d table :
  q_group q = None ->
  length names = length (q_targets q) ->
  q_vis q = vis_from 0 (combine (q_targets q) names) ->
  description cols [] (combine (q_targets q) names) = Some d ->
  Forall (conforms cols) table ->
  Forall (fun out => Forall2 (fun v nt => has_type v (snd nt) = true /\ forall k, v <> VErr k) out d)
         (exec q table).
Proof.
  intros G L V H F. apply Forall_forall. intros out Hin. unfold exec, exec_rows in Hin. rewrite G in Hin.
  apply post_in in Hin. destruct Hin as [r [Hr ->]].
  pose proof (scan_rows_sound cols q names d table L H F) as S. rewrite Forall_forall in S. specialize (S r Hr).
  rewrite V. replace (project _ r) with (visible (combine (q_targets q) names) r); [exact S|].
  symmetry. apply (project_vis_from (combine (q_targets q) names) r []).
  rewrite scan_nonagg_spec in Hr. apply in_map_iff in Hr. destruct Hr as [r0 [<- _]].
  rewrite map_length. unfold target. rewrite combine_length, L. lia.
Qed.

(* ================= the aggregate path ================= *)

(* an expression typed without aggregate dtypes contains no aggregate node and keeps its dtype when they are supplied *)
Lemma all_some_weaken cols aggs args ts :
  Forall (fun e => forall t, type_of cols [] e = Some t -> type_of cols aggs e = Some t) args ->
  all_some (map (type_of cols []) args) = Some ts -> all_some (map (type_of cols aggs) args) = Some ts.
Proof.
  intros F. revert ts. induction F as [|a l Ha F IH]; intros ts H; simpl in *; [exact H|].
  destruct (type_of cols [] a) as [t|] eqn:E; [|discriminate H]. rewrite (Ha t eq_refl).
  destruct (all_some (map (type_of cols []) l)) as [r|]; [|discriminate H]. now rewrite (IH r eq_refl).
Qed.

Lemma type_of_weaken cols aggs : forall e t, type_of cols [] e = Some t -> type_of cols aggs e = Some t.
Proof.
  apply (enode_ind' (fun e => forall t, type_of cols [] e = Some t -> type_of cols aggs e = Some t)).
  - intros v t H. exact H.
  - intros i t H. exact H.
  - intros h t H. simpl in H. destruct h; discriminate H.
  - intros op e IH t H. simpl in *. destruct (type_of cols [] e) as [a|]; [|discriminate H]. now rewrite (IH a eq_refl).
  - intros op e1 e2 IH1 IH2 t H. simpl in *.
    destruct (type_of cols [] e1) as [a|]; [|discriminate H]. destruct (type_of cols [] e2) as [b|]; [|discriminate H].
    now rewrite (IH1 a eq_refl), (IH2 b eq_refl).
  - intros e1 e2 e3 IH1 IH2 IH3 t H. simpl in *.
    destruct (type_of cols [] e1) as [a|]; [|discriminate H]. destruct (type_of cols [] e2) as [b|]; [|discriminate H].
    destruct (type_of cols [] e3) as [c|]; [|discriminate H].
    now rewrite (IH1 a eq_refl), (IH2 b eq_refl), (IH3 c eq_refl).
  - intros args F t H. simpl in *. destruct (all_some (map (type_of cols []) args)) as [ts|] eqn:E; [|discriminate H].
    now rewrite (all_some_weaken cols aggs args ts F E).
  - intros args F t H. simpl in *. destruct (all_some (map (type_of cols []) args)) as [ts|] eqn:E; [|discriminate H].
    now rewrite (all_some_weaken cols aggs args ts F E).
  - intros args F t H. simpl in *. destruct (all_some (map (type_of cols []) args)) as [ts|] eqn:E; [|discriminate H].
    now rewrite (all_some_weaken cols aggs args ts F E).
  - intros f args F t H. simpl in *. destruct (all_some (map (type_of cols []) args)) as [ts|] eqn:E; [|discriminate H].
    now rewrite (all_some_weaken cols aggs args ts F E).
  - intros n e items IH t H. simpl in *. destruct (type_of cols [] e) as [a|]; [|discriminate H]. now rewrite (IH a eq_refl).
Qed.

(* the cells of one output row of an aggregate query: grouped targets evaluated on a row of the group,
   the others on the context row with the finalised aggregates *)
Fixpoint agg_cells (g : list nat) (ctx : row) (slots : list value) (r : row) (i : nat) (ts : list enode) : list value :=
  match ts with
  | [] => []
  | e :: t => (if existsb (Nat.eqb i) g then eval r [] e else eval ctx slots e) :: agg_cells g ctx slots r (S i) t
  end.

Definition group_key_from (g : list nat) (r : row) (i : nat) (ts : list enode) : list value :=
  flat_map (fun ie : nat * enode => if existsb (Nat.eqb (fst ie)) g then [eval r [] (snd ie)] else [])
           (combine (seq i (length ts)) ts).

Lemma group_key_is_from q g r : group_key q g r = group_key_from g r 0 (q_targets q).
Proof.
  unfold group_key, group_key_from. apply flat_map_ext. now intros [i e].
Qed.

(* the key is consumed exactly: the VErr 99 branch of out_values is never taken *)
Lemma out_values_cells g ctx slots r : forall ts i,
  out_values g ctx slots i ts (group_key_from g r i ts) = agg_cells g ctx slots r i ts.
Proof.
  induction ts as [|e t IH]; intros i; [reflexivity|].
  unfold group_key_from. cbn [length seq combine flat_map fst snd out_values agg_cells].
  fold (group_key_from g r (S i) t).
  destruct (existsb (Nat.eqb i) g); simpl; now rewrite IH.
Qed.

Lemma agg_cells_length g ctx slots r : forall ts i, length (agg_cells g ctx slots r i ts) = length ts.
Proof. induction ts as [|e t IH]; intros i; simpl; [reflexivity|now rewrite IH]. Qed.

Lemma existsb_eqb_in i g : existsb (Nat.eqb i) g = true -> In i g.
Proof. intros H. apply existsb_exists in H. destruct H as [x [Hx E]]. apply Nat.eqb_eq in E. now subst. Qed.

Lemma agg_cells_sound cols aggs g ctx slots r :
  conforms cols ctx -> conforms aggs slots -> conforms cols r ->
  forall (ts : list enode) (names : list (option (list Z))) i d,
  length names = length ts ->
  (forall j e, nth_error ts j = Some e -> In (i + j)%nat g -> exists t, type_of cols [] e = Some t) ->
  description cols aggs (combine ts names) = Some d ->
  Forall2 (fun v nt => has_type v (snd nt) = true /\ forall k, v <> VErr k)
          (visible (combine ts names) (agg_cells g ctx slots r i ts)) d.
Proof.
  intros Hc Hs Hr. induction ts as [|e ts IH]; intros names i d L G H.
  - destruct names; [|discriminate L]. simpl in H. injection H as <-. constructor.
  - destruct names as [|n names]; [discriminate L|]. injection L as L. simpl in H.
    destruct (type_of cols aggs e) as [t|] eqn:E; [|discriminate H].
    destruct (description cols aggs (combine ts names)) as [d'|] eqn:D; [|discriminate H]. injection H as <-.
    assert (IH' : Forall2 (fun v nt => has_type v (snd nt) = true /\ forall k, v <> VErr k)
                          (visible (combine ts names) (agg_cells g ctx slots r (S i) ts)) d').
    { apply IH; [exact L| |exact D]. intros j e' Hj Hin. apply (G (S j) e'); [exact Hj|].
      now rewrite Nat.add_succ_r. }
    cbn [agg_cells combine visible]. destruct n as [n|]; [|exact IH'].
    constructor; [|exact IH']. cbn [snd].
    destruct (existsb (Nat.eqb i) g) eqn:Eg.
    + apply existsb_eqb_in in Eg. destruct (G 0%nat e eq_refl) as [t0 Ht0]; [now rewrite Nat.add_0_r|].
      pose proof (type_of_weaken cols aggs e t0 Ht0) as W. rewrite E in W. injection W as <-.
      apply (eval_sound cols [] r [] Hr (conforms_nil []) e t Ht0).
    + apply (eval_sound cols aggs ctx slots Hc Hs e t E).
Qed.

Lemma conforms_slots cols (aggl : list agg) (aggs : list ty) rows :
  Forall2 (fun a t => agg_type cols a = Some t) aggl aggs -> Forall (conforms cols) rows ->
  conforms aggs (map (fun a => fold_agg a rows) aggl).
Proof.
  intros F2 F. induction F2 as [|a t l l' Ha F2 IH]; intros i t' H; [destruct i; discriminate H|].
  destruct i as [|i]; simpl in *.
  - injection H as <-. now apply (agg_sound cols a t rows Ha F).
  - now apply IH.
Qed.

Lemma conforms_last cols table : Forall (conforms cols) table -> conforms cols (last table []).
Proof.
  intros F. destruct table as [|r t]; [intros i ty _; destruct i; destruct ty; reflexivity|].
  rewrite Forall_forall in F. apply F. destruct (@exists_last _ (r :: t)) as [l' [a E]]; [discriminate|].
  rewrite E, last_last. apply in_or_app. right. now left.
Qed.

Theorem exec_agg_sound cols aggs (q : query) (g : list nat) (names : list (option (list Z))) d table :
  q_group q = Some g ->
  length names = length (q_targets q) ->
  q_vis q = vis_from 0 (combine (q_targets q) names) ->
  description cols aggs (combine (q_targets q) names) = Some d ->
  Forall2 (fun a t => agg_type cols a = Some t) (q_aggs q) aggs ->
  (forall j e, nth_error (q_targets q) j = Some e -> In j g -> exists t, type_of cols [] e = Some t) ->
  Forall (conforms cols) table ->
  Forall (fun out => Forall2 (fun v nt => has_type v (snd nt) = true /\ forall k, v <> VErr k) out d)
         (exec q table).
Proof.
  intros G L V H A Hg F. apply Forall_forall. intros out Hin. unfold exec in Hin.
  apply post_in in Hin. destruct Hin as [row [Hrow ->]].
  rewrite (exec_rows_agg q g table G) in Hrow. cbv zeta in Hrow.
  apply in_map_iff in Hrow. destruct Hrow as [k [<- Hk]]. apply filter_In in Hk. destruct Hk as [Hk _].
  set (sel := filter (passes q) table) in *.
  assert (Fsel : Forall (conforms cols) sel).
  { apply Forall_forall. intros x Hx. apply filter_In in Hx. rewrite Forall_forall in F. now apply F. }
  unfold group_keys in Hk. apply (uniquify_acc_in [] _ _) in Hk. apply in_map_iff in Hk. destruct Hk as [r [<- Hr]].
  assert (Hrc : conforms cols r) by (rewrite Forall_forall in Fsel; now apply Fsel).
  set (k := group_key q g r). set (slots := slots_of q g sel k).
  assert (Hslots : conforms aggs slots).
  { apply conforms_slots with (cols := cols); [exact A|]. apply Forall_forall. intros x Hx.
    unfold members in Hx. apply filter_In in Hx. rewrite Forall_forall in Fsel. now apply Fsel. }
  match goal with |- context [out_values g ?c ?s 0%nat ?ts k] => change (out_values g c s 0%nat ts k) with (out_values g c s 0%nat ts (group_key q g r)) end.
  rewrite group_key_is_from, out_values_cells.
  rewrite V. rewrite project_vis0.
  - apply (agg_cells_sound cols aggs g _ _ r (conforms_last cols table F) Hslots Hrc (q_targets q) names 0%nat d L);
      [|exact H]. intros j e Hj Hin. now apply (Hg j e).
  - rewrite agg_cells_length. unfold target. rewrite combine_length, L. lia.
Qed.

(* ================= the implicit cast of _binaryop ================= *)
Lemma cast_out_object tg a' : cast_out tg TObject = Some a' -> a' = tg.
Proof. intros H. destruct tg; vm_compute in H; try discriminate H; now injection H as <-. Qed.

Lemma binop_c_sound castf op a b ca cb t x y :
  cast_contract castf -> binop_c op a b = Some (ca, cb, t) ->
  has_type x a = true -> has_type y b = true -> has_type (bin_c castf op ca cb x y) t = true.
Proof.
  intros CC H Hx Hy. unfold binop_c in H. destruct (binop_out op a b) as [t0|] eqn:E.
  - injection H as <- <- <-. unfold bin_c, apply_cast.
    destruct (is_null x) eqn:Nx; [apply has_type_null|]. destruct (is_null y) eqn:Ny; [apply has_type_null|].
    eapply binop_sound; eauto.
  - destruct (is_obj a && negb (is_obj b)) eqn:C1.
    + apply andb_true_iff in C1. destruct C1 as [Ca _]. apply ty_eqb_eq in Ca. subst a.
      destruct (cast_out (cast_target b) TObject) as [a'|] eqn:Ec; [|discriminate H].
      apply cast_out_object in Ec. subst a'.
      destruct (binop_out op (cast_target b) b) as [t1|] eqn:E2; [|discriminate H]. injection H as <- <- <-.
      unfold bin_c, apply_cast. destruct (is_null x) eqn:Nx; [apply has_type_null|].
      assert (Hc : has_type (castf (cast_target b) x) (cast_target b) = true)
        by (apply CC; eapply has_type_not_err; eauto).
      destruct (is_null (castf (cast_target b) x)) eqn:Nc; [apply has_type_null|].
      destruct (is_null y) eqn:Ny; [apply has_type_null|]. eapply binop_sound; eauto.
    + destruct (is_obj b && negb (is_obj a)) eqn:C2; [|discriminate H].
      apply andb_true_iff in C2. destruct C2 as [Cb _]. apply ty_eqb_eq in Cb. subst b.
      destruct (cast_out (cast_target a) TObject) as [b'|] eqn:Ec; [|discriminate H].
      apply cast_out_object in Ec. subst b'.
      destruct (binop_out op a (cast_target a)) as [t1|] eqn:E2; [|discriminate H]. injection H as <- <- <-.
      unfold bin_c, apply_cast. destruct (is_null x) eqn:Nx; [apply has_type_null|].
      destruct (is_null y) eqn:Ny; [apply has_type_null|].
      assert (Hc : has_type (castf (cast_target a) y) (cast_target a) = true)
        by (apply CC; eapply has_type_not_err; eauto).
      destruct (is_null (castf (cast_target a) y)) eqn:Nc; [apply has_type_null|]. eapply binop_sound; eauto.
Qed.

(* which combinations the cast makes typable: object against int/Decimal (cast to Decimal), date, str *)
Definition cast_table : list (binop * ty * ty * (option ty * option ty * ty)) :=
  flat_map (fun op => flat_map (fun a => flat_map (fun b =>
    if is_obj a || is_obj b then match binop_c op a b with Some r => [(op, a, b, r)] | None => [] end else [])
    all_ty) all_ty) all_binop.

Section SoundC.
Variable cols aggs : list ty.
Variable castf : ty -> value -> value.
Variable r : row.
Variable st : list value.
Hypothesis CC : cast_contract castf.
Hypothesis Hr : conforms cols r.
Hypothesis Hst : conforms aggs st.

Notation tyc := (type_of_c cols aggs).
Notation evc := (eval_c cols aggs castf r st).

Definition sound_c_at (e : enode) : Prop := forall t, tyc e = Some t -> has_type (evc e) t = true.

Lemma args_typed_c args ts :
  Forall sound_c_at args -> all_some (map tyc args) = Some ts ->
  Forall2 (fun v a => has_type v a = true) (map evc args) ts.
Proof.
  intros F H. apply all_some_forall2 in H. revert ts H.
  induction F as [|a l Ha F IH]; intros ts H; simpl in *; inversion H; subst; constructor.
  - now apply Ha.
  - now apply IH.
Qed.

Lemma and_go_bool_c : forall l,
  has_type ((fix go (l : list enode) : value :=
               match l with
               | [] => VBool true
               | a :: t => let v := evc a in
                           if is_null v then VNull else if truthy v then go t else VBool false
               end) l) TBool = true.
Proof.
  induction l as [|a l IH]; [reflexivity|]. cbv zeta.
  destruct (is_null (evc a)); [reflexivity|]. destruct (truthy (evc a)); [exact IH|reflexivity].
Qed.

Lemma or_go_bool_c : forall l acc, has_type acc TBool = true ->
  has_type ((fix go (acc : value) (l : list enode) : value :=
               match l with
               | [] => acc
               | a :: t => let v := evc a in
                           if truthy v then VBool true else go (if is_null v then VNull else acc) t
               end) acc l) TBool = true.
Proof.
  induction l as [|a l IH]; intros acc Hacc; [exact Hacc|]. cbv zeta.
  destruct (truthy (evc a)); [reflexivity|]. apply IH. destruct (is_null (evc a)); [reflexivity|exact Hacc].
Qed.

Lemma coalesce_go_typed_c t : forall l, Forall (fun a => has_type (evc a) t = true) l ->
  has_type ((fix go (l : list enode) : value :=
               match l with
               | [] => VNull
               | a :: t => let v := evc a in if is_null v then go t else v
               end) l) t = true.
Proof.
  induction l as [|a l IH]; intros F; [apply has_type_null|]. cbv zeta. inversion F; subst.
  destruct (is_null (evc a)); [now apply IH|assumption].
Qed.

Theorem eval_c_sound_type : forall e, sound_c_at e.
Proof.
  apply enode_ind'; unfold sound_c_at.
  - intros v t H. now apply type_of_value_sound.
  - intros i t H. now apply Hr.
  - intros h t H. now apply Hst.
  - intros op e IHe t H. simpl in H. destruct (tyc e) as [a|] eqn:E; [|discriminate H].
    simpl. eapply unop_sound; [exact H|now apply IHe].
  - intros op e1 e2 IH1 IH2 t H. simpl in H. simpl.
    destruct (tyc e1) as [a|] eqn:E1; [|discriminate H].
    destruct (tyc e2) as [b|] eqn:E2; [|discriminate H].
    unfold binop_casts. destruct (binop_c op a b) as [[[ca cb] t0]|] eqn:Eb; [|discriminate H]. injection H as <-.
    eapply binop_c_sound; eauto.
  - intros e1 e2 e3 _ _ _ t H. simpl in H.
    destruct (tyc e1); [|discriminate H]. destruct (tyc e2); [|discriminate H]. destruct (tyc e3); [|discriminate H].
    apply between_out_bool in H. subst t. simpl.
    destruct (is_null (evc e1)); [reflexivity|]. destruct (is_null (evc e2)); [reflexivity|].
    destruct (is_null (evc e3)); reflexivity.
  - intros args _ t H. simpl in H. destruct (all_some (map tyc args)); [|discriminate H].
    injection H as <-. apply and_go_bool_c.
  - intros args _ t H. simpl in H. destruct (all_some (map tyc args)); [|discriminate H].
    injection H as <-. simpl. now apply or_go_bool_c.
  - intros args F t H. simpl in H.
    destruct (all_some (map tyc args)) as [[|t0 ts]|] eqn:E; try discriminate H.
    destruct (forallb (ty_eqb t0) ts) eqn:Eq; [|discriminate H]. injection H as <-.
    apply coalesce_go_typed_c.
    pose proof (args_typed_c _ _ F E) as F2.
    assert (Hall : Forall (fun a => a = t0) (t0 :: ts)).
    { constructor; [reflexivity|]. rewrite forallb_forall in Eq. apply Forall_forall. intros x Hx.
      symmetry. apply ty_eqb_eq. now apply Eq. }
    clear E Eq F. revert F2 Hall. generalize (t0 :: ts) as tl. clear ts.
    induction args as [|a l IH]; intros tl F2 Hall; [constructor|].
    simpl in F2. inversion F2; subst. inversion Hall; subst. constructor; [assumption|]. eapply IH; eauto.
  - intros f args F t H. simpl in H.
    destruct (all_some (map tyc args)) as [ts|] eqn:E; [|discriminate H].
    simpl. destruct (existsb is_null (map evc args)) eqn:N; [apply has_type_null|].
    eapply func_sound; [exact H| |exact N]. now apply args_typed_c.
  - intros n e items _ t H. simpl in H. destruct (tyc e); [|discriminate H].
    apply in_out_bool in H. subst t. simpl.
    destruct (is_null (evc e)); [reflexivity|]. destruct items; reflexivity.
Qed.

Theorem eval_c_sound e t :
  tyc e = Some t -> has_type (evc e) t = true /\ (forall k, evc e <> VErr k).
Proof.
  intros H. pose proof (eval_c_sound_type e t H) as Ht. split; [exact Ht|]. eapply has_type_not_err; eauto.
Qed.
End SoundC.

Definition cast_num (op : binop) : list (binop * ty * ty * (option ty * option ty * ty)) :=
  [(op, TInt, TObject, (None, Some TDec, TDec)); (op, TDec, TObject, (None, Some TDec, TDec));
   (op, TObject, TInt, (Some TDec, None, TDec)); (op, TObject, TDec, (Some TDec, None, TDec))].
Definition cast_cmp (op : binop) : list (binop * ty * ty * (option ty * option ty * ty)) :=
  [(op, TInt, TObject, (None, Some TDec, TBool)); (op, TDec, TObject, (None, Some TDec, TBool));
   (op, TStr, TObject, (None, Some TStr, TBool)); (op, TDate, TObject, (None, Some TDate, TBool));
   (op, TObject, TInt, (Some TDec, None, TBool)); (op, TObject, TDec, (Some TDec, None, TBool));
   (op, TObject, TStr, (Some TStr, None, TBool)); (op, TObject, TDate, (Some TDate, None, TBool))].

(* every operand combination the implicit cast makes typable, with the cast inserted and the node's dtype:
   object against int or Decimal is cast to Decimal (never to int), against str to str, against date to date;
   object against bool, object or NULL stays a compilation error, and so does date +/- object on the int side *)
Theorem cast_table_spec :
  cast_table =
  (cast_num BAdd ++ cast_num BSub ++ cast_num BMul ++ cast_num BDiv ++ cast_num BMod
   ++ cast_cmp BEq ++ cast_cmp BNe ++ cast_cmp BLt ++ cast_cmp BLe ++ cast_cmp BGt ++ cast_cmp BGe
   ++ [(BMatch, TStr, TObject, (None, Some TStr, TBool)); (BMatch, TObject, TStr, (Some TStr, None, TBool));
       (BNotMatch, TStr, TObject, (None, Some TStr, TBool)); (BNotMatch, TObject, TStr, (Some TStr, None, TBool));
       (BSubDateDate, TDate, TObject, (None, Some TDate, TInt)); (BSubDateDate, TObject, TDate, (Some TDate, None, TInt))])%list.
Proof. vm_compute. reflexivity. Qed.

(* ---- conservativity: on cast-free trees (typed by type_of) the cast-aware typing and evaluator coincide with
   type_of and Eval.eval, whatever the cast functions are ---- *)
Section Conservative.
Variable cols aggs : list ty.
Variable castf : ty -> value -> value.
Variable r : row.
Variable st : list value.
Notation tyc := (type_of_c cols aggs).
Notation evc := (eval_c cols aggs castf r st).

Definition cons_at (e : enode) : Prop :=
  forall t, type_of cols aggs e = Some t -> tyc e = Some t /\ evc e = eval r st e.

Lemma cons_args args ts :
  Forall cons_at args -> all_some (map (type_of cols aggs) args) = Some ts ->
  all_some (map tyc args) = Some ts /\ Forall (fun a => evc a = eval r st a) args.
Proof.
  intros F. revert ts. induction F as [|a l Ha F IH]; intros ts H; simpl in *; [split; [exact H|constructor]|].
  destruct (type_of cols aggs a) as [t|] eqn:E; [|discriminate H]. destruct (Ha t E) as [Ht Hv].
  destruct (all_some (map (type_of cols aggs) l)) as [rs|] eqn:El; [|discriminate H].
  destruct (IH rs eq_refl) as [Hts Hvs]. rewrite Ht, Hts. split; [exact H|now constructor].
Qed.

Lemma and_go_ext l : Forall (fun a => evc a = eval r st a) l ->
  (fix go (l : list enode) : value :=
     match l with [] => VBool true
     | a :: t => let v := evc a in if is_null v then VNull else if truthy v then go t else VBool false end) l
  = (fix go (l : list enode) : value :=
     match l with [] => VBool true
     | a :: t => let v := eval r st a in if is_null v then VNull else if truthy v then go t else VBool false end) l.
Proof.
  induction 1 as [|a l Ha F IH]; [reflexivity|]. cbv zeta. rewrite Ha.
  destruct (is_null (eval r st a)); [reflexivity|]. destruct (truthy (eval r st a)); [exact IH|reflexivity].
Qed.

Lemma or_go_ext l : Forall (fun a => evc a = eval r st a) l -> forall acc,
  (fix go (acc : value) (l : list enode) : value :=
     match l with [] => acc
     | a :: t => let v := evc a in if truthy v then VBool true else go (if is_null v then VNull else acc) t end) acc l
  = (fix go (acc : value) (l : list enode) : value :=
     match l with [] => acc
     | a :: t => let v := eval r st a in if truthy v then VBool true else go (if is_null v then VNull else acc) t end) acc l.
Proof.
  induction 1 as [|a l Ha F IH]; intros acc; [reflexivity|]. cbv zeta. rewrite Ha.
  destruct (truthy (eval r st a)); [reflexivity|]. apply IH.
Qed.

Lemma coalesce_go_ext l : Forall (fun a => evc a = eval r st a) l ->
  (fix go (l : list enode) : value :=
     match l with [] => VNull | a :: t => let v := evc a in if is_null v then go t else v end) l
  = (fix go (l : list enode) : value :=
     match l with [] => VNull | a :: t => let v := eval r st a in if is_null v then go t else v end) l.
Proof.
  induction 1 as [|a l Ha F IH]; [reflexivity|]. cbv zeta. rewrite Ha.
  destruct (is_null (eval r st a)); [exact IH|reflexivity].
Qed.

Lemma map_ext_forall l : Forall (fun a => evc a = eval r st a) l -> map evc l = map (eval r st) l.
Proof. induction 1 as [|a l Ha F IH]; [reflexivity|]. simpl. now rewrite Ha, IH. Qed.

Theorem conservative : forall e, cons_at e.
Proof.
  apply enode_ind'; unfold cons_at.
  - intros v t H. split; [exact H|reflexivity].
  - intros i t H. split; [exact H|reflexivity].
  - intros h t H. split; [exact H|reflexivity].
  - intros op e IH t H. simpl in H. destruct (type_of cols aggs e) as [a|] eqn:E; [|discriminate H].
    destruct (IH a eq_refl) as [Ht Hv]. simpl. rewrite Ht, Hv. split; [exact H|reflexivity].
  - intros op e1 e2 IH1 IH2 t H. simpl in H.
    destruct (type_of cols aggs e1) as [a|] eqn:E1; [|discriminate H].
    destruct (type_of cols aggs e2) as [b|] eqn:E2; [|discriminate H].
    destruct (IH1 a eq_refl) as [Ht1 Hv1]. destruct (IH2 b eq_refl) as [Ht2 Hv2].
    simpl. rewrite Ht1, Ht2. unfold binop_casts, binop_c. rewrite H. split; [reflexivity|].
    unfold bin_c, apply_cast. now rewrite Hv1, Hv2.
  - intros e1 e2 e3 IH1 IH2 IH3 t H. simpl in H.
    destruct (type_of cols aggs e1) as [a|] eqn:E1; [|discriminate H].
    destruct (type_of cols aggs e2) as [b|] eqn:E2; [|discriminate H].
    destruct (type_of cols aggs e3) as [c|] eqn:E3; [|discriminate H].
    destruct (IH1 a eq_refl) as [Ht1 Hv1]. destruct (IH2 b eq_refl) as [Ht2 Hv2]. destruct (IH3 c eq_refl) as [Ht3 Hv3].
    simpl. rewrite Ht1, Ht2, Ht3, Hv1, Hv2, Hv3. split; [exact H|reflexivity].
  - intros args F t H. simpl in H. destruct (all_some (map (type_of cols aggs) args)) as [ts|] eqn:E; [|discriminate H].
    destruct (cons_args args ts F E) as [Hts Hvs]. simpl. rewrite Hts. split; [exact H|now apply and_go_ext].
  - intros args F t H. simpl in H. destruct (all_some (map (type_of cols aggs) args)) as [ts|] eqn:E; [|discriminate H].
    destruct (cons_args args ts F E) as [Hts Hvs]. simpl. rewrite Hts. split; [exact H|now apply or_go_ext].
  - intros args F t H. simpl in H. destruct (all_some (map (type_of cols aggs) args)) as [ts|] eqn:E; [|discriminate H].
    destruct (cons_args args ts F E) as [Hts Hvs]. simpl. rewrite Hts. split; [exact H|now apply coalesce_go_ext].
  - intros f args F t H. simpl in H. destruct (all_some (map (type_of cols aggs) args)) as [ts|] eqn:E; [|discriminate H].
    destruct (cons_args args ts F E) as [Hts Hvs]. simpl. rewrite Hts, (map_ext_forall args Hvs). split; [exact H|reflexivity].
  - intros n e items IH t H. simpl in H. destruct (type_of cols aggs e) as [a|] eqn:E; [|discriminate H].
    destruct (IH a eq_refl) as [Ht Hv]. simpl. rewrite Ht, Hv. split; [exact H|reflexivity].
Qed.
End Conservative.
