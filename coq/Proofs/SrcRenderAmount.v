(* Tie by translation (C16): AmountRenderer and PositionRenderer of beanquery/query_render.py (Gen/SrcRender.v:
   render_amount_..., render_position_...).  Interpreting the translated __init__ / update / prepare / format on the encoded
   values of Model/PrimsRender.v ([prims_amt]: beancount's DisplayContext abstract, as the ledger quantiser [quant] and the
   column number formatter [numfmt] of Model/Render.v) yields Render.v's a_update / a_width / a_format and
   p_update / p_width / p_format.  A PositionRenderer owns two AmountRenderers: calling a method of an owned renderer is
   interpreting AmountRenderer's translated method on that object's fields ([prims_pos] below). *)
From Coq Require Import String ZArith List Bool Lia Arith.
Import ListNotations.
From Verif Require Import Base.PyValue Model.Eval Model.PyMini Model.Render Model.PrimsRender Gen.SrcRender
  Model.PrimsRenderPos Proofs.SrcRender Proofs.PyMiniLemmas Proofs.PyMiniLemmas2 Proofs.PyValueProofs.
Open Scope string_scope.
Open Scope Z_scope.
Open Scope list_scope.

Ltac step_env := repeat (rewrite ?lookup_update_eq; rewrite ?lookup_update_neq by reflexivity).

Lemma dec_enc_ups ups : n_map_opt dec_up (map enc_up ups) = Some ups.
Proof. induction ups as [|[d c] t IH]; [reflexivity|]. cbn [map n_map_opt dec_up enc_up enc_s fst snd]. now rewrite IH. Qed.

Lemma str_eqb_eq : forall a b, str_eqb a b = true <-> a = b.
Proof.
  induction a as [|x a IH]; intros [|y b]; cbn; split; intros H; try discriminate; try reflexivity.
  - apply andb_true_iff in H. destruct H as [H1 H2]. apply Z.eqb_eq in H1. apply IH in H2. now subst.
  - injection H as -> ->. rewrite Z.eqb_refl. now apply IH.
Qed.

(* max over the distinct items = max over all items *)
Lemma dedupe_in seen l x : In x (dedupe seen l) -> In x l.
Proof.
  revert seen. induction l as [|y t IH]; intros seen H; [destruct H|]. cbn in H.
  destruct (existsb (str_eqb y) seen); [right; eapply IH; exact H|]. destruct H as [<-|H]; [now left|right; eapply IH; exact H].
Qed.
Lemma dedupe_cover seen l x : In x l -> In x seen \/ In x (dedupe seen l).
Proof.
  revert seen. induction l as [|y t IH]; intros seen H; [destruct H|]. cbn.
  destruct (existsb (str_eqb y) seen) eqn:E.
  - destruct H as [E1|H]; [|now apply IH]. subst x. left. apply existsb_exists in E. destruct E as [z [Hz Ez]].
    apply str_eqb_eq in Ez. subst z. exact Hz.
  - destruct H as [E1|H]; [subst x; right; now left|].
    destruct (IH (y :: seen) H) as [[E1|H1]|H1]; [subst x; right; now left|now left|right; now right].
Qed.

Lemma nmax_le_iff (l : list nat) m : (nmax l <= m)%nat <-> forall x, In x l -> (x <= m)%nat.
Proof.
  induction l as [|a l IH].
  - split; [intros _ x []|intros _; apply Nat.le_0_l].
  - cbn [nmax fold_right In]; fold (nmax l). split.
    + intros H x [E|Hx]; [subst x; lia|]. apply (proj1 IH); [lia|exact Hx].
    + intros H. assert (a <= m)%nat by (apply H; now left).
      assert (nmax l <= m)%nat by (apply (proj2 IH); intros x Hx; apply H; now right). lia.
Qed.

Lemma nmax_dedupe (g : str -> nat) l : nmax (map g (dedupe [] l)) = nmax (map g l).
Proof.
  apply Nat.le_antisymm; apply nmax_le_iff; intros x Hx; apply in_map_iff in Hx; destruct Hx as [c [<- Hc]].
  - apply (proj1 (nmax_le_iff (map g l) _) (Nat.le_refl _)). apply in_map. eapply dedupe_in; exact Hc.
  - apply (proj1 (nmax_le_iff (map g (dedupe [] l)) _) (Nat.le_refl _)). apply in_map.
    destruct (dedupe_cover [] l c Hc) as [[]|H]; exact H.
Qed.

Section Amount.
Variable call_ref : nat -> list pv -> pv.
Variable quant : dec -> str -> dec.
Variable numfmt : list (dec * str) -> dec -> str -> str.
Notation PA := (prims_amt numfmt).
(* self.quantize = ctx.dcontext.quantize: the ledger's quantiser, an opaque callable *)
Variable kq : nat.
Hypothesis Hq : forall d c, call_ref kq [PV (VDec d); PV (VStr c)] = PV (VDec (quant d c)).

Definition amt_env (mw prep : pv) (st : astate) (tail : env) : env :=
  ("maxwidth", mw) :: ("prepared", prep) :: ("quantize", PRef kq) :: ("dcontext", enc_dctx (a_ups st)) ::
  ("curwidth", PInt (Z.of_nat (a_curw st))) :: tail.

(* ---- __init__: ColumnRenderer.__init__, then AmountRenderer's own statements *)
Theorem amount_init_src : forall (o : opts),
  let ctx := enc_ctx (PTuple [PInt 67; PRef kq]) o in
  bind (call_method call_ref PA render_base_init [] [ctx])
       (fun r => call_method call_ref PA render_amount_init_tail (fst r) [ctx]) =
  Ok (amt_env (PInt 0) (PBool false) a_init [], PNone).
Proof. intros o. reflexivity. Qed.

Local Arguments Z.of_nat : simpl never.
Local Arguments Z.max : simpl never.
Local Arguments enc_up : simpl never.

(* ---- update: quantise with the ledger's context, feed the column's DisplayContext, widen the currency column *)
Theorem amount_update_src : forall (mw prep : pv) (st : astate) (a : amt) (tail : env),
  call_method call_ref PA render_amount_update (amt_env mw prep st tail) [enc_amt a] =
  Ok (amt_env mw prep (a_update quant st a) tail, PNone).
Proof.
  intros mw prep st [d c] tail. unfold call_method, render_amount_update, amt_env, a_update.
  cbn -[enc_dctx]. rewrite Hq. cbn. unfold enc_dctx. rewrite map_app, Nat2Z.inj_max. reflexivity.
Qed.

(* update(None) (PositionRenderer passes value.cost, which may be None) changes nothing *)
Theorem amount_update_none_src : forall (flds : env),
  call_method call_ref PA render_amount_update flds [PNone] = Ok (flds, PNone).
Proof. reflexivity. Qed.

Fixpoint run_updates_p (prim : string -> list pv -> res pv) (fd : fdef) (flds : env) (vs : list pv) : res env :=
  match vs with
  | [] => Ok flds
  | v :: t => bind (call_method call_ref prim fd flds [v]) (fun r => run_updates_p prim fd (fst r) t)
  end.

Theorem amount_column_src : forall (vals : list amt) (mw prep : pv) (st : astate) (tail : env),
  run_updates_p PA render_amount_update (amt_env mw prep st tail) (map enc_amt vals) =
  Ok (amt_env mw prep (fold_left (a_update quant) vals st) tail).
Proof.
  induction vals as [|a vals IH]; intros mw prep st tail; [reflexivity|].
  cbn [map run_updates_p fold_left]. rewrite amount_update_src. cbn [bind fst]. apply IH.
Qed.

(* ---- prepare: build the formatter, maxwidth = max over the commodities of len(func(0, c)) + 1 + curwidth *)
Definition amt_ready (st : astate) : env :=
  ("maxwidth", PInt (Z.of_nat (a_width numfmt st))) :: ("prepared", PBool true) :: ("quantize", PRef kq) ::
  ("dcontext", enc_dctx (a_ups st)) :: ("curwidth", PInt (Z.of_nat (a_curw st))) :: [("func", enc_func (a_ups st))].

Definition cur_w (st : astate) (c : str) : nat := (length (numfmt (a_ups st) dec_zero c) + 1 + a_curw st)%nat.
Definition no_default (st : astate) : Prop := Forall (fun u => str_eqb (snd u) s_default = false) (a_ups st).

Definition prep_loop : list stmt :=
  Eval cbv in match nth 2 (f_body render_amount_prepare_head) SPass with SFor _ _ b => b | _ => [] end.

Lemma val_eq_str a b : val_eq (VStr a) (VStr b) = str_eqb a b.
Proof.
  unfold val_eq, StableSort.eqv. rewrite !val_le_str. revert b.
  induction a as [|x a IH]; intros [|y b]; cbn; try reflexivity.
  destruct (Z.ltb_spec x y), (Z.ltb_spec y x), (Z.eqb_spec x y); cbn; try lia; try reflexivity. apply IH.
Qed.

Local Arguments val_eq : simpl never.

Definition extra_ok (extra : env) : Prop := extra = [] \/ exists v, extra = [("commodity", v)].

Lemma prep_loop_run (st : astate) (p : pv) : forall (cs : list str) (mw : nat) (extra : env),
  Forall (fun c => str_eqb c s_default = false) cs -> extra_ok extra ->
  exists extra',
  for_loop call_ref PA prep_loop "commodity"
    {| locals := ("self", PSelf) :: ("zero", PV (VDec dec_zero)) :: extra;
       fields := amt_env (PInt (Z.of_nat mw)) p st [("func", enc_func (a_ups st))] |} (map enc_s cs) =
  Ok (Next {| locals := ("self", PSelf) :: ("zero", PV (VDec dec_zero)) :: extra';
              fields := amt_env (PInt (Z.of_nat (Nat.max mw (nmax (map (cur_w st) cs))))) p st
                          [("func", enc_func (a_ups st))] |}).
Proof.
  induction cs as [|c cs IH]; intros mw extra Hd Hx.
  - exists extra. cbn [map for_loop nmax fold_right]. rewrite Nat.max_0_r. reflexivity.
  - inversion Hd as [|? ? Hc Hd']; subst. cbn [map for_loop].
    assert (E : exec_block call_ref PA
                  (write {| locals := ("self", PSelf) :: ("zero", PV (VDec dec_zero)) :: extra;
                            fields := amt_env (PInt (Z.of_nat mw)) p st [("func", enc_func (a_ups st))] |}
                         (TName "commodity") (enc_s c)) prep_loop =
                Ok (Next {| locals := ("self", PSelf) :: ("zero", PV (VDec dec_zero)) :: [("commodity", enc_s c)];
                            fields := amt_env (PInt (Z.of_nat (Nat.max mw (cur_w st c)))) p st
                                        [("func", enc_func (a_ups st))] |})).
    { unfold prep_loop, amt_env. unfold s_default in Hc.
      destruct Hx as [->|[v ->]]; cbn -[enc_func enc_dctx n_map_opt]; rewrite val_eq_str, Hc;
        cbn -[enc_func enc_dctx n_map_opt]; unfold enc_func at 1; rewrite dec_enc_ups;
        cbn -[enc_func enc_dctx n_map_opt];
        replace (Z.max (Z.of_nat mw) (Z.of_nat (length (numfmt (a_ups st) dec_zero c)) + 1 + Z.of_nat (a_curw st)))
          with (Z.of_nat (Nat.max mw (cur_w st c))) by (unfold cur_w; lia); reflexivity. }
    rewrite E. cbn [bind].
    destruct (IH (Nat.max mw (cur_w st c)) [("commodity", enc_s c)] Hd') as [extra' E'].
    { right. eexists. reflexivity. }
    exists extra'. rewrite E'. cbn [map nmax fold_right]. fold (nmax (map (cur_w st) cs)). rewrite Nat.max_assoc. reflexivity.
Qed.

Lemma prep_shape : f_body render_amount_prepare_head =
  [nth 0 (f_body render_amount_prepare_head) SPass; nth 1 (f_body render_amount_prepare_head) SPass;
   SFor "commodity" (XAttr (XAttr (XName "self") "dcontext") "ccontexts") prep_loop].
Proof. reflexivity. Qed.

Lemma a_width_cur st : a_width numfmt st = nmax (map (cur_w st) (map snd (a_ups st))).
Proof. unfold a_width, cur_w. now rewrite map_map. Qed.

Theorem amount_prepare_src : forall (p : pv) (st : astate), no_default st ->
  bind (call_method call_ref PA render_amount_prepare_head (amt_env (PInt 0) p st []) [])
       (fun r => call_method call_ref PA render_base_prepare (fst r) []) =
  Ok (amt_ready st, PInt (Z.of_nat (a_width numfmt st))).
Proof.
  intros p st Hnd. unfold call_method at 1. rewrite prep_shape.
  cbn [bind_params render_amount_prepare_head f_params f_body f_gen nth].
  rewrite exec_block_cons. erewrite exec_assign; [|reflexivity].
  cbn [bind write locals fields amt_env update String.eqb Ascii.eqb Bool.eqb].
  rewrite exec_block_cons. erewrite exec_assign; [|reflexivity].
  cbn [bind write locals fields update String.eqb Ascii.eqb Bool.eqb].
  rewrite exec_block_cons.
  erewrite (exec_for call_ref PA "commodity" _ prep_loop _ _ (map enc_s (s_default :: dedupe [] (map snd (a_ups st))))).
  2:{ cbn -[n_map_opt enc_dctx dedupe]. unfold enc_dctx. rewrite dec_enc_ups. reflexivity. }
  cbn [map]. unfold for_loop at 1. fold (for_loop call_ref PA prep_loop "commodity").
  assert (E0 : forall flds, exec_block call_ref PA
                  (write {| locals := [("self", PSelf); ("zero", PV (VDec dec_zero))]; fields := flds |}
                     (TName "commodity") (enc_s s_default)) prep_loop =
               Ok (Next {| locals := [("self", PSelf); ("zero", PV (VDec dec_zero)); ("commodity", enc_s s_default)];
                           fields := flds |})).
  { intros flds. unfold prep_loop. cbn. rewrite val_eq_str. reflexivity. }
  change (PV (VDec (mkdec false 0 0))) with (PV (VDec dec_zero)).
  rewrite E0. cbn [bind].
  match goal with |- context [for_loop _ _ _ _ {| locals := _; fields := ?F |} _] =>
    change F with (amt_env (PInt (Z.of_nat 0)) p st [("func", enc_func (a_ups st))]) end.
  destruct (prep_loop_run st p (dedupe [] (map snd (a_ups st))) 0 [("commodity", enc_s s_default)]) as [extra' E].
  { apply Forall_forall. intros c Hc. apply dedupe_in in Hc. apply in_map_iff in Hc. destruct Hc as [u [<- Hu]].
    exact (proj1 (Forall_forall _ _) Hnd u Hu). }
  { right. eexists. reflexivity. }
  rewrite E. cbn [bind]. rewrite exec_block_nil. cbn [bind fst fields].
  rewrite Nat.max_0_l, nmax_dedupe, <- a_width_cur. reflexivity.
Qed.

(* ---- format: f'{self.func(value.number, value.currency)} {value.currency:<{self.curwidth}}' *)
Theorem amount_format_src : forall (st : astate) (a : amt),
  call_method call_ref PA render_amount_format (amt_ready st) [enc_amt a] =
  Ok (amt_ready st, PV (VStr (a_format numfmt st a))).
Proof.
  intros st [d c]. unfold call_method, render_amount_format, amt_ready, a_format.
  cbn -[n_map_opt enc_dctx a_width]. rewrite dec_enc_ups.
  cbn -[enc_dctx a_width Z.to_nat].
  assert (E : (Z.of_nat (a_curw st) <? 0) = false) by (apply Z.ltb_ge; lia). rewrite E.
  cbn -[enc_dctx a_width Z.to_nat]. rewrite Nat2Z.id, app_nil_r. reflexivity.
Qed.

End Amount.

(* ================================================================== PositionRenderer *)
Section Position.
Variable call_ref : nat -> list pv -> pv.
Variable quant : dec -> str -> dec.
Variable numfmt : list (dec * str) -> dec -> str -> str.
Notation PP := (prims_pos call_ref numfmt).
Variable kq : nat.
Hypothesis Hq : forall d c, call_ref kq [PV (VDec d); PV (VStr c)] = PV (VDec (quant d c)).
Notation aenv := (amt_env kq).
Notation aready := (amt_ready numfmt kq).

Definition fresh_amt (st : astate) : pv := amt_obj (aenv (PInt 0) (PBool false) st []).
Definition pos_env (mw prep : pv) (st : pstate) : env :=
  [("maxwidth", mw); ("prepared", prep); ("units_renderer", fresh_amt (p_u st)); ("cost_renderer", fresh_amt (p_c st))].
Definition pos_ready (st : pstate) : env :=
  [("maxwidth", PInt (Z.of_nat (p_width numfmt st))); ("prepared", PBool true);
   ("units_renderer", amt_obj (aready (p_u st))); ("cost_renderer", amt_obj (aready (p_c st)))].

Lemma flds_fresh st : amt_flds (fresh_amt st) = Some (aenv (PInt 0) (PBool false) st []).
Proof. reflexivity. Qed.
Lemma flds_ready st : amt_flds (amt_obj (aready st)) = Some (aready st).
Proof. reflexivity. Qed.

(* __init__: ColumnRenderer.__init__, then two fresh AmountRenderers (opaque callable 2 = the class AmountRenderer,
   whose construction is amount_init_src) *)
Theorem position_init_src : forall (ctx : pv) (ka : nat),
  call_ref ka [ctx] = fresh_amt a_init -> ka = 2%nat ->
  bind (call_method call_ref PP render_base_init [] [ctx])
       (fun r => call_method call_ref PP render_position_init_tail (fst r) [ctx]) =
  Ok (pos_env (PInt 0) (PBool false) p_init, PNone).
Proof.
  intros ctx ka Hnew ->. unfold call_method, render_base_init, render_position_init_tail. cbn -[fresh_amt].
  rewrite Hnew. unfold fresh_amt at 1, amt_obj at 1. cbn -[fresh_amt]. rewrite Hnew. reflexivity.
Qed.

Local Arguments amt_flds : simpl never.
Local Arguments fresh_amt : simpl never.
Local Arguments amt_env : simpl never.
Local Arguments amt_ready : simpl never.
Local Arguments call_method : simpl never.
Local Arguments enc_amt : simpl never.
Local Arguments Z.of_nat : simpl never.
Local Arguments Z.to_nat : simpl never.
Local Arguments Z.add : simpl never.

Lemma upd_call st a :
  method_call PP "update" (fresh_amt st) [enc_amt a] = Ok (fresh_amt (a_update quant st a), PNone).
Proof.
  change (method_call PP "update" (fresh_amt st) [enc_amt a])
    with (bind (lift_obj (call_method call_ref (prims_amt numfmt) render_amount_update (aenv (PInt 0) (PBool false) st []) [enc_amt a]))
               (fun r => match r with PTuple [recv'; x] => Ok (recv', x) | _ => Stuck end)).
  rewrite (amount_update_src call_ref quant numfmt kq Hq). reflexivity.
Qed.
Lemma upd_call_none st : method_call PP "update" (fresh_amt st) [PNone] = Ok (fresh_amt st, PNone).
Proof. reflexivity. Qed.
Lemma prep_call st : no_default st ->
  method_call PP "prepare" (fresh_amt st) [] = Ok (amt_obj (aready st), PInt (Z.of_nat (a_width numfmt st))).
Proof.
  intros H.
  change (method_call PP "prepare" (fresh_amt st) [])
    with (bind (lift_obj (bind (call_method call_ref (prims_amt numfmt) render_amount_prepare_head (aenv (PInt 0) (PBool false) st []) [])
                               (fun p => call_method call_ref (prims_amt numfmt) render_base_prepare (fst p) [])))
               (fun r => match r with PTuple [recv'; x] => Ok (recv', x) | _ => Stuck end)).
  rewrite (amount_prepare_src call_ref numfmt kq _ _ H). reflexivity.
Qed.
Lemma fmt_prim st a : PP "call:format" [amt_obj (aready st); enc_amt a] = Ok (PV (VStr (a_format numfmt st a))).
Proof.
  change (PP "call:format" [amt_obj (aready st); enc_amt a])
    with (bind (call_method call_ref (prims_amt numfmt) render_amount_format (aready st) [enc_amt a]) (fun p => Ok (snd p))).
  rewrite amount_format_src. reflexivity.
Qed.

Local Arguments method_call : simpl never.
Local Arguments prims_pos : simpl never.
Local Arguments amt_obj : simpl never.

Lemma is_none_amt (a : amt) : pv_is_none (enc_amt a) = false. Proof. destruct a; reflexivity. Qed.
Lemma pp_attr_units u c : PP "attr:units" [PTuple [PInt 44; u; c]] = Ok u. Proof. reflexivity. Qed.
Lemma pp_attr_cost u c : PP "attr:cost" [PTuple [PInt 44; u; c]] = Ok c. Proof. reflexivity. Qed.

Theorem position_update_src : forall (mw prep : pv) (st : pstate) (p : posn),
  call_method call_ref PP render_position_update (pos_env mw prep st) [enc_posn p] =
  Ok (pos_env mw prep (p_update quant st p), PNone).
Proof.
  intros mw prep st [u c]. unfold call_method, render_position_update, pos_env, p_update, enc_posn.
  cbn [p_units p_cost bind_params f_params f_body f_gen].
  repeat (progress (cbn; rewrite ?pp_attr_units, ?pp_attr_cost, ?upd_call)).
  destruct c as [c|]; repeat (progress (cbn; rewrite ?pp_attr_units, ?pp_attr_cost, ?upd_call, ?upd_call_none)); reflexivity.
Qed.

Theorem position_column_src : forall (vals : list posn) (mw prep : pv) (st : pstate),
  run_updates_p call_ref PP render_position_update (pos_env mw prep st) (map enc_posn vals) =
  Ok (pos_env mw prep (fold_left (p_update quant) vals st)).
Proof.
  induction vals as [|a vals IH]; intros mw prep st; [reflexivity|].
  cbn [map run_updates_p fold_left]. rewrite position_update_src. cbn [bind fst]. apply IH.
Qed.

(* prepare: both owned renderers are prepared (and stay prepared: format needs their formatter), then
   maxwidth = units + cost + (3 if cost > 0 else 0), then ColumnRenderer.prepare *)
Theorem position_prepare_src : forall (mw prep : pv) (st : pstate),
  no_default (p_u st) -> no_default (p_c st) ->
  bind (call_method call_ref PP render_position_prepare_head (pos_env mw prep st) [])
       (fun r => call_method call_ref PP render_base_prepare (fst r) []) =
  Ok (pos_ready st, PInt (Z.of_nat (p_width numfmt st))).
Proof.
  intros mw prep st Hu Hc. unfold call_method, render_position_prepare_head, render_base_prepare, pos_env.
  cbn [bind_params f_params f_body f_gen].
  repeat (progress (cbn; rewrite ?(prep_call _ Hu), ?(prep_call _ Hc), ?int_gt0)).
  unfold pos_ready, p_width.
  destruct (0 <? Z.of_nat (a_width numfmt (p_c st))) eqn:E.
  - assert (E' : (0 <? a_width numfmt (p_c st))%nat = true) by (apply Nat.ltb_lt; apply Z.ltb_lt in E; lia).
    rewrite E'. cbn. rewrite !Nat2Z.inj_add. reflexivity.
  - assert (E' : (0 <? a_width numfmt (p_c st))%nat = false) by (apply Nat.ltb_ge; apply Z.ltb_ge in E; lia).
    rewrite E'. cbn. rewrite !Nat2Z.inj_add. reflexivity.
Qed.

(* format *)
Theorem position_format_src : forall (st : pstate) (p : posn),
  call_method call_ref PP render_position_format (pos_ready st) [enc_posn p] =
  Ok (pos_ready st, PV (VStr (p_format numfmt st p))).
Proof.
  intros st [u c]. unfold call_method, render_position_format, pos_ready, p_format, enc_posn.
  cbn [p_units p_cost bind_params f_params f_body f_gen].
  repeat (progress (cbn -[p_width]; rewrite ?pp_attr_units, ?pp_attr_cost, ?fmt_prim)).
  destruct c as [c|]; repeat (progress (cbn -[p_width]; rewrite ?pp_attr_units, ?pp_attr_cost, ?fmt_prim, ?is_none_amt)).
  - unfold prims_pos, prims_amt. cbn -[p_width]. rewrite <- ?app_assoc. reflexivity.
  - unfold prims_pos, prims_amt. cbn -[p_width]. rewrite Nat2Z.id. reflexivity.
Qed.
End Position.

(* ================================================================== DecimalRenderer.__init__ *)
Theorem decimal_init_src : forall (call_ref : nat -> list pv -> pv) (ctx : pv),
  bind (call_method call_ref prims_render render_base_init [] [ctx])
       (fun r => call_method call_ref prims_render render_decimal_init_tail (fst r) [ctx]) =
  Ok (dec_fields (PInt 0) (0, 0) [], PNone).
Proof. reflexivity. Qed.

Lemma amount_refs : nth_error refs 2 = Some (2%nat, "beanquery.query_render.AmountRenderer").
Proof. reflexivity. Qed.
