(* the modelled cast functions meet the contract C04_eval_cast_sound assumes, as long as Decimal(str) stays finite *)
From Coq Require Import String ZArith List Bool.
Import ListNotations.
From Verif Require Import Base.PyValue Base.Decimal Model.Eval Model.Dates Model.StrFuncs Model.Typing Model.TypingCasts.
Open Scope Z_scope.

Lemma parse_date_typed s : has_type (parse_date s) TDate = true.
Proof.
  unfold parse_date. destruct (split [45] s) as [|y [|m [|d [|]]]]; try reflexivity.
  destruct (_ && _); [|reflexivity]. destruct (mk_date _ _ _); reflexivity.
Qed.

Theorem castf18_contract tg v :
  (forall k, v <> VErr k) -> (tg = TDate \/ tg = TStr \/ tg = TBool \/ tg = TInt) ->
  has_type (castf18 tg v) tg = true.
Proof.
  intros Hv [->|[->|[->| ->]]]; destruct v; simpl; try reflexivity; try (exfalso; now apply (Hv k)).
  - apply parse_date_typed.
  - destruct (parse_int s); reflexivity.
Qed.

Theorem castf18_decimal v w :
  (forall k, v <> VErr k) -> cast_decimal (XV v) = XV w -> has_type (castf18 TDec v) TDec = true.
Proof.
  intros Hv H. unfold castf18. rewrite H. simpl. destruct v; simpl in H; try (injection H as <-; reflexivity).
  - unfold parse_decimal in H.
    destruct (parse_decimal s) as [[u|n k]|] eqn:E; simpl in H; rewrite ?E in H.
    all: try (injection H as <-).
    all: try reflexivity.
    all: try discriminate H.
    revert E. unfold parse_decimal.
    repeat match goal with
           | |- context [let '(_, _) := ?p in _] => destruct p
           | |- context [if ?c then _ else _] => destruct c
           | |- context [match ?l with [] => _ | _ :: _ => _ end] => destruct l
           end; intros E; try discriminate E; injection E as <-; reflexivity.
  - exfalso. now apply (Hv k).
Qed.
