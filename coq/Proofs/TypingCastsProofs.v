(* the modelled cast functions meet the contract C04_eval_cast_sound assumes, as long as Decimal(str) stays finite *)
From Coq Require Import String ZArith List Bool.
Import ListNotations.
From Verif Require Import Base.PyValue Base.Decimal Model.Eval Model.Dates Model.StrFuncs Model.Typing Model.TypingCasts.
Open Scope Z_scope.

Lemma parse_date_typed s : has_type (parse_date s) TDate = true.
Proof.
  unfold parse_date. destruct (split [45] s) as [|y [|m [|d [|]]]]; try reflexivity.
  destruct (_ && _); [|reflexivity]. destruct (mk_date _ _ _); reflexivity.
Qed.

Theorem castf18_contract tg v :
  (forall k, v <> VErr k) -> (tg = TDate \/ tg = TStr \/ tg = TBool \/ tg = TInt) ->
  has_type (castf18 tg v) tg = true.
Proof.
  intros Hv [->|[->|[->| ->]]]; destruct v; simpl; try reflexivity; try (exfalso; now apply (Hv k)).
  - apply parse_date_typed.
  - destruct (parse_int s); reflexivity.
Qed.

(* Decimal(str) either fails (NULL), is a finite Decimal, or a special value outside Base.PyValue *)
Theorem castf18_decimal_nonstr v :
  (forall k, v <> VErr k) -> (forall s, v <> VStr s) -> has_type (castf18 TDec v) TDec = true.
Proof.
  intros Hv Hs. destruct v; try reflexivity.
  - exfalso. now apply (Hs s).
  - exfalso. now apply (Hv k).
Qed.
