(* Tie by translation, C05 (group `compiler`, second part): the PyMini term generated on every run from the CURRENT source
   of Compiler._compile_group_by (Gen/SrcCompiler.v) computes Compile.compile_group_by (group_by_src): keys by position
   (checked against the number of targets of the SELECT list), by name (last target of that name), by expression
   (rejected when an aggregate; reconciled with the first equal target expression or appended as a hidden target); the
   referenced target must not be an aggregate and must have a hashable type; HAVING compiled, checked by check_aggregates,
   required to be an aggregate and appended as hidden target; without a GROUP BY clause: None / [] / the implicit group
   of the non-aggregate targets.  Encodings, opaque callables and hypotheses as in Proofs/SrcCompiler.v. *)
From Coq Require Import String Ascii ZArith List Bool Lia.
Import ListNotations.
From Verif Require Import Base.PyValue Model.Eval Model.PyMini Model.PrimsApi Model.PrimsCompiler Proofs.PyMiniLemmas
  Proofs.PyMiniLemmas2 Proofs.SrcApi Proofs.PyValueProofs Proofs.SrcLookup.
From Verif Require Model.Compile.
From Verif Require Import Gen.SrcCompiler Proofs.SrcCompiler.
Open Scope string_scope.
Open Scope list_scope.
Open Scope Z_scope.

Definition gb_prefix : list stmt := Eval cbv in firstn 4 (f_body compile_group_by).
Definition gb_if : stmt := Eval cbv in nth 4 (f_body compile_group_by) SPass.
Definition gb_ret : stmt := Eval cbv in nth 5 (f_body compile_group_by) SPass.
Definition gb_then : list stmt := Eval cbv in match gb_if with SIf _ a _ => a | _ => [] end.
Definition gb_else : list stmt := Eval cbv in match gb_if with SIf _ _ b => b | _ => [] end.
Definition gb_body : list stmt := Eval cbv in match nth 2 gb_then SPass with SFor _ _ b => b | _ => [] end.
Definition gb_having : stmt := Eval cbv in nth 3 gb_then SPass.
Definition gb_cond : expr := Eval cbv in match nth 1 gb_body SPass with SIf c _ _ => c | _ => XConst PNone end.
Definition gb_int : list stmt := Eval cbv in match nth 1 gb_body SPass with SIf _ a _ => a | _ => [] end.
Definition gb_other : list stmt := Eval cbv in match nth 1 gb_body SPass with SIf _ _ b => b | _ => [] end.
Definition gb_col : stmt := Eval cbv in nth 0 gb_other SPass.
Definition gb_compile : stmt := Eval cbv in nth 1 gb_other SPass.
Definition gb_tail : list stmt := Eval cbv in skipn 2 gb_body.

Lemma group_body_split :
  f_body compile_group_by = gb_prefix ++ [SIf (XName "group_by") gb_then gb_else; gb_ret].
Proof. reflexivity. Qed.
Lemma gb_then_split :
  gb_then = [nth 0 gb_then SPass; nth 1 gb_then SPass;
             SFor "column" (XAttr (XName "group_by") "columns") gb_body; gb_having].
Proof. reflexivity. Qed.
Lemma gb_body_split :
  gb_body = [SAssign (TName "index") (XConst (PV VNull)); SIf gb_cond gb_int gb_other] ++ gb_tail.
Proof. reflexivity. Qed.

Definition chkG (n : Compile.cnode) : option Compile.cerr :=
  if Compile.has_agg n then Some Compile.EGroupAgg else None.
Definition aggG (_ : Compile.cnode) : bool := false.

(* ---------------------------------------------------------------- pure facts *)
Lemma nat_index_lt z b i : Compile.nat_index z b = Some i -> (i < b)%nat.
Proof.
  unfold Compile.nat_index. destruct (Z.leb_spec 1 z) as [A|A], (Z.leb_spec z (Z.of_nat b)) as [B|B]; cbn; try discriminate.
  intros E. injection E as <-. lia.
Qed.

Lemma names_from_lt n : forall ts i j,
  Compile.assoc_last n (names_from i ts) = Some j -> (i <= j < i + length ts)%nat.
Proof.
  induction ts as [|t r IH]; intros i j; cbn [names_from]; [discriminate|].
  destruct (Compile.ct_name t) as [m|]; cbn [Compile.assoc_last length].
  - destruct (Compile.assoc_last n (names_from (S i) r)) as [v|] eqn:E.
    + intros H. injection H as <-. apply IH in E. lia.
    + destruct (String.eqb n m); [|discriminate]. intros H. injection H as <-. lia.
  - intros H. apply IH in H. lia.
Qed.

Lemma index_of_lt x : forall l i j, Compile.index_of x l i = Some j -> (i <= j < i + length l)%nat.
Proof.
  induction l as [|y t IH]; intros i j; cbn [Compile.index_of length]; [discriminate|].
  destruct (Compile.node_eqb y x).
  - intros H. injection H as <-. lia.
  - intros H. apply IH in H. lia.
Qed.

Section Tie.
Variable call_ref : nat -> list pv -> pv.
Variable tbl : nat -> Compile.cnode.
Variable kids : nat -> list nat.
Variable mro : string -> list string.
Variable msg : string -> list pv -> pv.
Variable compf : pv -> Compile.result nat Compile.cerr.
Variable kc : nat.
Hypothesis Hcomp : forall a, call_ref kc [a] = enc_rid (compf a).
Hypothesis Hchk : forall i, call_ref 0 [nref i] =
  match Compile.check_aggregates (tbl i) with Some e => PV (VErr (CompErr e)) | None => PNone end.
Hypothesis Hagg : forall i, call_ref 1 [nref i] = PBool (Compile.has_agg (tbl i)).

Notation prim := (prim_compiler tbl kids mro msg).
Notation eval := (PyMini.eval call_ref prim).
Notation exec := (PyMini.exec call_ref prim).
Notation exec_block := (PyMini.exec_block call_ref prim).
Notation for_loop := (for_loop call_ref prim).
Notation T := (T tbl).
Notation p_new := (p_new tbl compf).
Notation p_resolve := (p_resolve tbl compf).
Notation kref_of := (kref_of tbl compf).

Ltac lk := repeat first [rewrite lookup_update_eq | rewrite lookup_update_neq by reflexivity].
Ltac run := repeat (progress (cbn [PyMini.exec_block PyMini.exec PyMini.eval bind read write locals fields pv_truthy truthy
                                   PBool PNone PInt compare1 pv_is_none negb andb orb is_null rank Pos.eqb Z.eqb
                                   method_call String.eqb Ascii.eqb Bool.eqb binop1 binop_builtin fst snd existsb
                                   ValueError as_bound]; lk)).
Ltac crun := repeat (progress (cbn [PyMini.exec_block PyMini.exec PyMini.eval bind read write locals fields lookup update
                                    String.eqb Ascii.eqb Bool.eqb as_bound PNone PInt pv_truthy truthy PBool negb fst snd])).

Lemma prim_fstring args : prim "fstring" args = Ok (msg "fstring" args).
Proof. reflexivity. Qed.
Lemma prim_raise cls lead m : prim "raise" [PV (VStr cls); PV (VStr lead); m] = Exc (exc_code cls lead).
Proof. reflexivity. Qed.
Lemma prim_getitem l i : prim "getitem" [PList l; PV (VInt i)] = index_at l i.
Proof. reflexivity. Qed.
Lemma prim_hashable t : prim "issubclass:collections.abc.Hashable" [PStr t] = Ok (PBool (Compile.hashable t)).
Proof.
  change (prim "issubclass:collections.abc.Hashable" [PStr t]) with (Ok (A:=pv) (PBool (Compile.hashable (unzs (zs t))))).
  now rewrite unzs_zs.
Qed.
Lemma column_name n : prim ("attr:" ++ "name") [enc_column n] = Ok (PStr n).
Proof. reflexivity. Qed.

Section GroupLoop.
Variable pts0 : list ptarget.
Variable GB : pv.           (* the GroupBy node *)
Let NMA : pv := PTuple [PStr dict_tag; PList (name_items_all 0 pts0)].
Let nm : list (string * nat) := names_from 0 (map T pts0).
Let bound : nat := length pts0.

Definition ginv (loc : env) (pts : list ptarget) (gi : list nat) : Prop :=
  lookup "self" loc = Some PSelf
  /\ lookup "new_targets" loc = Some (PList (map enc_target pts))
  /\ lookup "c_target_expressions" loc = Some (PList (map (fun t => nref (tid t)) pts))
  /\ lookup "group_indexes" loc = Some (enc_idxs gi)
  /\ lookup "targets_name_map" loc = Some NMA
  /\ lookup "c_targets" loc = Some (PList (map enc_target pts0))
  /\ lookup "having_index" loc = Some PNone
  /\ lookup "group_by" loc = Some GB.

Definition p_group_resolve := p_resolve Compile.EGroupIndex chkG aggG bound nm.

Definition p_group_step (k : akey) (pts : list ptarget) : Compile.result (list ptarget * nat) Compile.cerr :=
  match p_group_resolve k pts with
  | Compile.Err e => Compile.Err e
  | Compile.Ok (pts', j) =>
      match nth_error pts' j with
      | Some t => if Compile.has_agg (tbl (tid t)) then Compile.Err Compile.EGroupRefAgg
                  else if negb (Compile.hashable (Compile.dtype (tbl (tid t)))) then Compile.Err Compile.EGroupUnhashable
                  else Compile.Ok (pts', j)
      | None => Compile.Err Compile.EGroupIndex
      end
  end.

Lemma p_group_resolve_bounds k pts pts' j : (length pts0 <= length pts)%nat ->
  p_group_resolve k pts = Compile.Ok (pts', j) -> (j < length pts')%nat /\ (length pts0 <= length pts')%nat.
Proof.
  intros Hl. unfold p_group_resolve, SrcCompiler.p_resolve.
  assert (Hnew : forall a, p_new chkG aggG pts a = Compile.Ok (pts', j) ->
                           (j < length pts')%nat /\ (length pts0 <= length pts')%nat).
  { intros a. unfold SrcCompiler.p_new. destruct (compf a) as [i|e]; [|discriminate].
    destruct (chkG (tbl i)); [discriminate|].
    destruct (Compile.index_of (tbl i) (map tbl (map tid pts)) 0) as [x|] eqn:E; intros H; injection H as <- <-.
    - apply index_of_lt in E. rewrite !map_length in E. lia.
    - rewrite app_length. cbn. lia. }
  destruct k as [z|n|a].
  - destruct (Compile.nat_index z bound) as [i|] eqn:E; [|discriminate]. intros H. injection H as <- <-.
    apply nat_index_lt in E. unfold bound in E. lia.
  - destruct (Compile.assoc_last n nm) as [i|] eqn:E; [|apply Hnew]. intros H. injection H as <- <-.
    apply names_from_lt in E. rewrite map_length in E. lia.
  - apply Hnew.
Qed.

(* ---- the compiled-expression branch *)
Lemma gb_compile_ok : forall (a : pv) loc flds pts gi,
  lookup "_compile" flds = Some (PRef kc) ->
  ginv loc pts gi -> lookup "column" loc = Some a -> lookup "index" loc = Some PNone ->
  match p_new chkG aggG pts a with
  | Compile.Err e => exec {| locals := loc; fields := flds |} gb_compile = Exc (CompErr e)
  | Compile.Ok (pts', j) =>
      exists loc', exec {| locals := loc; fields := flds |} gb_compile = Ok (Next {| locals := loc'; fields := flds |})
                   /\ ginv loc' pts' gi /\ lookup "index" loc' = Some (PInt (Z.of_nat j))
                   /\ lookup "column" loc' = Some a
  end.
Proof.
  intros a loc flds pts gi Hfld (Hself & Hnew & Hexp & Hgi & Hnm & Hct & Hhi & Hgb) Hcol Hidx.
  unfold SrcCompiler.p_new, gb_compile.
  run. rewrite Hidx. run. rewrite Hself. run. rewrite Hfld. run. rewrite Hcol. run.
  unfold do_call. rewrite Hcomp.
  destruct (compf a) as [i|e]; cbn [enc_rid]; [|reflexivity].
  cbn [nref]. run. fold (nref i). rewrite Hagg. unfold chkG.
  destruct (Compile.has_agg (tbl i)) eqn:Ea.
  { run. rewrite Hcol. run. rewrite prim_fstring. run. rewrite prim_raise. reflexivity. }
  run. rewrite Hexp. run.
  change (prim ("call:" ++ "index") [PList (map (fun t => nref (tid t)) pts); nref i])
    with (match as_nref (nref i) with Some x => node_index tbl x (map (fun t => nref (tid t)) pts) 0 | None => Stuck end).
  rewrite as_nref_nref. rewrite <- (map_map tid nref). change 0 with (Z.of_nat 0) at 1.
  rewrite (node_index_spec tbl i (map tid pts) 0).
  destruct (Compile.index_of (tbl i) (map tbl (map tid pts)) 0) as [j|].
  - eexists. split; [run; reflexivity|]. unfold ginv. repeat split; lk; try assumption; reflexivity.
  - eexists. split; [run; rewrite Hnew; run; rewrite prim_ET; run; rewrite Hnew; run; rewrite Hexp; run; reflexivity|].
    unfold ginv, aggG. repeat split; lk; try assumption; try reflexivity.
    + rewrite map_app. reflexivity.
    + rewrite map_app. reflexivity.
    + rewrite map_length. reflexivity.
Qed.

Definition gb_tail1 : list stmt := Eval cbv in firstn 2 gb_tail.
Definition gb_tail3 : stmt := Eval cbv in nth 2 gb_tail SPass.
Definition gb_tail2 : list stmt := Eval cbv in skipn 3 gb_tail.
Lemma gb_tail_split : gb_tail = gb_tail1 ++ gb_tail3 :: gb_tail2.
Proof. reflexivity. Qed.

Lemma index_at_target pts j t : nth_error pts j = Some t ->
  index_at (map enc_target pts) (Z.of_nat j) = Ok (enc_target t).
Proof.
  intros H. assert (L : (j < length pts)%nat) by (apply nth_error_Some; congruence).
  rewrite (index_at_nat _ _ PNone) by (rewrite map_length; exact L). f_equal.
  apply nth_error_nth. rewrite nth_error_map, H. reflexivity.
Qed.

Lemma gb_tail_ok : forall loc flds pts gi (j : nat) t a,
  ginv loc pts gi -> lookup "index" loc = Some (PInt (Z.of_nat j)) -> lookup "column" loc = Some a ->
  nth_error pts j = Some t ->
  if Compile.has_agg (tbl (tid t)) then
    exec_block {| locals := loc; fields := flds |} gb_tail = Exc (CompErr Compile.EGroupRefAgg)
  else if negb (Compile.hashable (Compile.dtype (tbl (tid t)))) then
    exec_block {| locals := loc; fields := flds |} gb_tail = Exc (CompErr Compile.EGroupUnhashable)
  else exists loc', exec_block {| locals := loc; fields := flds |} gb_tail = Ok (Next {| locals := loc'; fields := flds |})
                    /\ ginv loc' pts (gi ++ [j]).
Proof.
  intros loc flds pts gi j t a (Hself & Hnew & Hexp & Hgi & Hnm & Hct & Hhi & Hgb) Hidx Hcol Hnth.
  rewrite gb_tail_split, (exec_block_app call_ref tbl kids mro msg).
  set (loc1 := update "group_indexes" (enc_idxs (gi ++ [j])) loc).
  assert (E1 : exec_block {| locals := loc; fields := flds |} gb_tail1 = Ok (Next {| locals := loc1; fields := flds |})).
  { unfold gb_tail1. run. rewrite Hidx. run. rewrite Hidx. run. rewrite Hgi. unfold enc_idxs. run.
    unfold loc1, enc_idxs. rewrite map_app. reflexivity. }
  rewrite E1. cbn [bind]. rewrite exec_block_cons.
  set (loc2 := update "c_expr" (nref (tid t)) loc1).
  assert (E2 : exec {| locals := loc1; fields := flds |} gb_tail3 = Ok (Next {| locals := loc2; fields := flds |})).
  { unfold gb_tail3.
    erewrite exec_assign
      by (erewrite eval_attr;
          [|erewrite eval_prim2 by (apply eval_name; unfold loc1; cbn [locals]; lk; eassumption);
            unfold PInt; rewrite prim_getitem, (index_at_target _ _ _ Hnth); reflexivity
           |apply enc_target_not_self];
          rewrite target_c_expr; reflexivity).
    reflexivity. }
  rewrite E2. cbn [bind]. unfold gb_tail2.
  assert (Hc2 : lookup "c_expr" loc2 = Some (nref (tid t))) by apply lookup_update_eq.
  assert (Hcol2 : lookup "column" loc2 = Some a) by (unfold loc2, loc1; lk; exact Hcol).
  destruct (Compile.has_agg (tbl (tid t))) eqn:Ea.
  { run. rewrite Hc2. run. unfold do_call. rewrite Hagg, Ea. run. rewrite Hcol2. run. rewrite prim_fstring. run.
    rewrite prim_raise. reflexivity. }
  destruct (Compile.hashable (Compile.dtype (tbl (tid t)))) eqn:Eh; cbn [negb].
  - eexists. split.
    + run. rewrite Hc2. run. unfold do_call. rewrite Hagg, Ea. run. rewrite Hc2. cbn [nref]. run. fold (nref (tid t)).
      rewrite prim_node_dtype'. cbn [nref]. run. rewrite prim_hashable, Eh. run. reflexivity.
    + unfold ginv, loc2, loc1. repeat split; lk; try assumption; reflexivity.
  - run. rewrite Hc2. run. unfold do_call. rewrite Hagg, Ea. run. rewrite Hc2. cbn [nref]. run. fold (nref (tid t)).
    rewrite prim_node_dtype'. cbn [nref]. run. rewrite prim_hashable, Eh. run. rewrite Hcol2. run. rewrite prim_fstring. run.
    rewrite prim_raise. reflexivity.
Qed.

Lemma gb_compile_skip : forall loc flds (j : nat),
  lookup "index" loc = Some (PInt (Z.of_nat j)) ->
  exec {| locals := loc; fields := flds |} gb_compile = Ok (Next {| locals := loc; fields := flds |}).
Proof. intros loc flds j Hi. unfold gb_compile. run. rewrite Hi. run. reflexivity. Qed.

Lemma names_get n dflt :
  prim ("call:" ++ "get") [NMA; PStr n; dflt] =
  Ok (match Compile.assoc_last n nm with Some j => PInt (Z.of_nat j) | None => dflt end).
Proof. unfold NMA, nm. rewrite names_all_get, names_of_from. reflexivity. Qed.

Lemma group_resolve_src : forall (k : akey) loc flds pts gi,
  lookup "_compile" flds = Some (PRef kc) -> ginv loc pts gi -> key_ok k ->
  match p_group_resolve k pts with
  | Compile.Err e =>
      exec_block (write {| locals := loc; fields := flds |} (TName "column") (enc_key k))
        [SAssign (TName "index") (XConst (PV VNull)); SIf gb_cond gb_int gb_other] = Exc (CompErr e)
  | Compile.Ok (pts', j) =>
      exists loc', exec_block (write {| locals := loc; fields := flds |} (TName "column") (enc_key k))
                     [SAssign (TName "index") (XConst (PV VNull)); SIf gb_cond gb_int gb_other] =
                   Ok (Next {| locals := loc'; fields := flds |})
                   /\ ginv loc' pts' gi /\ lookup "index" loc' = Some (PInt (Z.of_nat j))
                   /\ lookup "column" loc' = Some (enc_key k)
  end.
Proof.
  intros k loc flds pts gi Hfld Hinv Hk.
  pose proof Hinv as (Hself & Hnew & Hexp & Hgi & Hnm & Hct & Hhi & Hgb).
  rewrite exec_block_cons. cbn [PyMini.exec PyMini.eval bind write locals fields].
  set (loc1 := update "index" (PV VNull) (update "column" (enc_key k) loc)).
  assert (I1 : ginv loc1 pts gi) by (unfold ginv, loc1; repeat split; lk; assumption).
  assert (Hc1 : lookup "column" loc1 = Some (enc_key k)) by (unfold loc1; lk; reflexivity).
  assert (Hi1 : lookup "index" loc1 = Some PNone) by (unfold loc1; lk; reflexivity).
  rewrite exec_block_cons.
  assert (Ec : eval {| locals := loc1; fields := flds |} gb_cond =
               Ok ({| locals := loc1; fields := flds |}, PBool (match k with AInt _ => true | _ => false end))).
  { unfold gb_cond. erewrite eval_prim1 by (apply eval_name; exact Hc1).
    rewrite (isinstance_int_key tbl kids mro msg k Hk). reflexivity. }
  rewrite (exec_if call_ref prim _ _ _ _ _ _ _ Ec eq_refl).
  unfold p_group_resolve, SrcCompiler.p_resolve.
  destruct I1 as (Hs1 & Hn1 & He1 & Hg1 & Hnm1 & Hct1 & Hh1 & Hgb1).
  destruct k as [z|n|a]; cbn [truthy].
  - unfold gb_int. cbn [enc_key] in Hc1. unfold Compile.nat_index.
    destruct (Z.leb_spec 1 z), (Z.leb_spec z (Z.of_nat bound)); cbn [andb].
    + eexists. split.
      * run. rewrite Hc1. run. rewrite Hct1. run. rewrite map_length, !val_le_int. fold bound.
        destruct (Z.leb_spec 0 (z - 1)); [|lia]. destruct (Z.leb_spec (Z.of_nat bound) (z - 1)); [lia|].
        run. reflexivity.
      * unfold ginv. repeat split; lk; try assumption. rewrite Z2Nat.id by lia. reflexivity.
    + run. rewrite Hc1. run. rewrite Hct1. run. rewrite map_length, !val_le_int. fold bound.
      destruct (Z.leb_spec 0 (z - 1)); [|lia]. destruct (Z.leb_spec (Z.of_nat bound) (z - 1)); [|lia].
      run. rewrite Hc1. run. rewrite prim_fstring. run. rewrite prim_raise. reflexivity.
    + run. rewrite Hc1. run. rewrite Hct1. run. rewrite map_length, !val_le_int. fold bound.
      destruct (Z.leb_spec 0 (z - 1)); [lia|].
      run. rewrite Hc1. run. rewrite prim_fstring. run. rewrite prim_raise. reflexivity.
    + run. rewrite Hc1. run. rewrite Hct1. run. rewrite map_length, !val_le_int. fold bound.
      destruct (Z.leb_spec 0 (z - 1)); [lia|].
      run. rewrite Hc1. run. rewrite prim_fstring. run. rewrite prim_raise. reflexivity.
  - change gb_other with [gb_col; gb_compile]. rewrite exec_block_cons.
    assert (Ecol : exec {| locals := loc1; fields := flds |} gb_col =
                   Ok (Next {| locals := update "index" (match Compile.assoc_last n nm with
                                                          | Some j => PInt (Z.of_nat j) | None => PNone end)
                                           (update "name" (PStr n) loc1); fields := flds |})).
    { unfold gb_col.
      assert (Ec2 : eval {| locals := loc1; fields := flds |}
                      (XPrim "isinstance:beanquery.parser.ast.Column" [XName "column"]) =
                    Ok ({| locals := loc1; fields := flds |}, PBool true)).
      { erewrite eval_prim1 by (apply eval_name; exact Hc1).
        rewrite (isinstance_column_key tbl kids mro msg (ACol n) I). reflexivity. }
      rewrite (exec_if call_ref prim _ _ _ _ _ _ _ Ec2 eq_refl). cbn [truthy].
      rewrite exec_block_cons.
      erewrite exec_assign
        by (erewrite eval_attr; [|apply eval_name; exact Hc1|discriminate]; cbn [enc_key]; rewrite column_name; reflexivity).
      cbn [bind]. run. rewrite Hnm1. run. rewrite names_get. reflexivity. }
    rewrite Ecol. cbn [bind]. rewrite exec_block_cons.
    destruct (Compile.assoc_last n nm) as [j|].
    + rewrite (gb_compile_skip _ flds j) by (lk; reflexivity). cbn [bind PyMini.exec_block].
      eexists. split; [reflexivity|]. unfold ginv. repeat split; lk; try assumption; reflexivity.
    + set (loc5 := update "index" PNone (update "name" (PStr n) loc1)).
      assert (I5 : ginv loc5 pts gi) by (unfold ginv, loc5; repeat split; lk; assumption).
      assert (Hc5 : lookup "column" loc5 = Some (enc_column n)) by (unfold loc5; lk; exact Hc1).
      assert (Hi5 : lookup "index" loc5 = Some PNone) by (unfold loc5; lk; reflexivity).
      pose proof (gb_compile_ok (enc_column n) loc5 flds pts gi Hfld I5 Hc5 Hi5) as HC.
      destruct (p_new chkG aggG pts (enc_column n)) as [[pts' j]|e].
      * destruct HC as (loc' & -> & I' & Hi' & Hc'). cbn [bind PyMini.exec_block].
        eexists. split; [reflexivity|]. split; [exact I'|split; [exact Hi'|exact Hc']].
      * rewrite HC. reflexivity.
  - change gb_other with [gb_col; gb_compile]. rewrite exec_block_cons.
    assert (Ecol : exec {| locals := loc1; fields := flds |} gb_col = Ok (Next {| locals := loc1; fields := flds |})).
    { unfold gb_col.
      assert (Ec2 : eval {| locals := loc1; fields := flds |}
                      (XPrim "isinstance:beanquery.parser.ast.Column" [XName "column"]) =
                    Ok ({| locals := loc1; fields := flds |}, PBool false)).
      { erewrite eval_prim1 by (apply eval_name; exact Hc1).
        rewrite (isinstance_column_key tbl kids mro msg (AExpr a) Hk). reflexivity. }
      rewrite (exec_if call_ref prim _ _ _ _ _ _ _ Ec2 eq_refl). reflexivity. }
    rewrite Ecol. cbn [bind]. rewrite exec_block_cons.
    assert (I1 : ginv loc1 pts gi) by (unfold ginv; repeat split; assumption).
    pose proof (gb_compile_ok a loc1 flds pts gi Hfld I1 Hc1 Hi1) as HC.
    destruct (p_new chkG aggG pts a) as [[pts' j]|e].
    + destruct HC as (loc' & -> & I' & Hi' & Hc'). cbn [bind PyMini.exec_block].
      eexists. split; [reflexivity|]. split; [exact I'|split; [exact Hi'|exact Hc']].
    + rewrite HC. reflexivity.
Qed.

Lemma group_step : forall (k : akey) loc flds pts gi,
  lookup "_compile" flds = Some (PRef kc) -> ginv loc pts gi -> key_ok k -> (length pts0 <= length pts)%nat ->
  match p_group_step k pts with
  | Compile.Err e =>
      exec_block (write {| locals := loc; fields := flds |} (TName "column") (enc_key k)) gb_body = Exc (CompErr e)
  | Compile.Ok (pts', j) =>
      exists loc', exec_block (write {| locals := loc; fields := flds |} (TName "column") (enc_key k)) gb_body =
                   Ok (Next {| locals := loc'; fields := flds |})
                   /\ ginv loc' pts' (gi ++ [j]) /\ (length pts0 <= length pts')%nat
  end.
Proof.
  intros k loc flds pts gi Hfld Hinv Hk Hlen.
  rewrite gb_body_split, (exec_block_app call_ref tbl kids mro msg).
  pose proof (group_resolve_src k loc flds pts gi Hfld Hinv Hk) as HR.
  unfold p_group_step.
  destruct (p_group_resolve k pts) as [[pts' j]|e] eqn:ER; [|rewrite HR; reflexivity].
  destruct HR as (loc' & -> & I' & Hi' & Hc'). cbn [bind].
  destruct (p_group_resolve_bounds k pts pts' j Hlen ER) as [Hj Hl'].
  destruct (nth_error pts' j) as [t|] eqn:En; [|apply nth_error_None in En; lia].
  pose proof (gb_tail_ok loc' flds pts' gi j t (enc_key k) I' Hi' Hc' En) as HT.
  destruct (Compile.has_agg (tbl (tid t))); [exact HT|].
  destruct (negb (Compile.hashable (Compile.dtype (tbl (tid t))))); [exact HT|].
  destruct HT as (loc'' & -> & I''). eexists. split; [reflexivity|]. split; assumption.
Qed.

Fixpoint p_group_loop (l : list akey) (pts : list ptarget) (gi : list nat)
  : Compile.result (list ptarget * list nat) Compile.cerr :=
  match l with
  | [] => Compile.Ok (pts, gi)
  | k :: rest =>
      match p_group_step k pts with
      | Compile.Err e => Compile.Err e
      | Compile.Ok (pts', j) => p_group_loop rest pts' (gi ++ [j])
      end
  end.

Lemma p_group_loop_T : forall l pts gi,
  Compile.group_loop bound nm (map kref_of l) (map T pts) gi =
  match p_group_loop l pts gi with
  | Compile.Ok (p, g) => Compile.Ok (map T p, g)
  | Compile.Err e => Compile.Err e
  end.
Proof.
  induction l as [|k rest IH]; intros pts gi; [reflexivity|].
  cbn [map Compile.group_loop p_group_loop]. rewrite p_resolve_T. unfold p_group_step, p_group_resolve.
  change (fun n : Compile.cnode => if Compile.has_agg n then Some Compile.EGroupAgg else None) with chkG.
  change (fun _ : Compile.cnode => false) with aggG.
  destruct (p_resolve Compile.EGroupIndex chkG aggG bound nm k pts) as [[pts' j]|e]; cbn [lift_T Compile.bind]; [|reflexivity].
  rewrite nth_error_map. destruct (nth_error pts' j) as [[[i n] a]|]; cbn [option_map SrcCompiler.T Compile.ct_expr tid fst]; [|reflexivity].
  destruct (Compile.has_agg (tbl i)); [reflexivity|].
  destruct (Compile.hashable (Compile.dtype (tbl i))); cbn [negb]; [apply IH|reflexivity].
Qed.

Lemma group_loop_src : forall (l : list akey) loc flds pts gi,
  lookup "_compile" flds = Some (PRef kc) -> ginv loc pts gi -> Forall key_ok l -> (length pts0 <= length pts)%nat ->
  match p_group_loop l pts gi with
  | Compile.Err e => for_loop gb_body "column" {| locals := loc; fields := flds |} (map enc_key l) = Exc (CompErr e)
  | Compile.Ok (pts', gi') =>
      exists loc', for_loop gb_body "column" {| locals := loc; fields := flds |} (map enc_key l) =
                   Ok (Next {| locals := loc'; fields := flds |}) /\ ginv loc' pts' gi'
  end.
Proof.
  induction l as [|k rest IH]; intros loc flds pts gi Hfld Hinv Hks Hlen.
  - cbn. exists loc. split; [reflexivity|exact Hinv].
  - inversion Hks as [|? ? Hk Hrest]; subst.
    cbn [map PyMiniLemmas.for_loop p_group_loop].
    pose proof (group_step k loc flds pts gi Hfld Hinv Hk Hlen) as HS.
    destruct (p_group_step k pts) as [[pts' j]|e].
    + destruct HS as (loc1 & -> & I1 & L1). cbn [bind]. apply (IH loc1 flds pts' _ Hfld I1 Hrest L1).
    + rewrite HS. reflexivity.
Qed.

End GroupLoop.

(* ---------------------------------------------------------------- the clause *)
Definition enc_group_by (ks : list akey) (hv : option pv) : pv :=
  record (zs GROUPBY) [("columns", PList (map enc_key ks)); ("having", popt (fun h : pv => h) hv)].
Lemma gb_columns ks hv : prim ("attr:" ++ "columns") [enc_group_by ks hv] = Ok (PList (map enc_key ks)).
Proof. reflexivity. Qed.
Lemma gb_having_attr ks hv : prim ("attr:" ++ "having") [enc_group_by ks hv] = Ok (popt (fun h : pv => h) hv).
Proof. reflexivity. Qed.
Lemma gb_not_self ks hv : enc_group_by ks hv <> PSelf.
Proof. discriminate. Qed.

(* what the return statement reads *)
Definition gpost (pts0 : list ptarget) (loc : env) (pts : list ptarget) (gi : pv) (hi : pv) : Prop :=
  lookup "new_targets" loc = Some (PList (map enc_target pts))
  /\ lookup "c_targets" loc = Some (PList (map enc_target pts0))
  /\ lookup "group_indexes" loc = Some gi /\ lookup "having_index" loc = Some hi.

Definition p_having (hv : option pv) (pts : list ptarget) : Compile.result (list ptarget * option nat) Compile.cerr :=
  match hv with
  | None => Compile.Ok (pts, None)
  | Some h =>
      match compf h with
      | Compile.Err e => Compile.Err e
      | Compile.Ok i =>
          match Compile.check_aggregates (tbl i) with
          | Some er => Compile.Err er
          | None => if negb (Compile.has_agg (tbl i)) then Compile.Err Compile.EHavingNotAgg
                    else Compile.Ok (pts ++ [(i, None, true)], Some (length pts))
          end
      end
  end.

Lemma having_src : forall pts0 ks (hv : option pv) loc flds pts gi,
  lookup "_compile" flds = Some (PRef kc) ->
  ginv pts0 (enc_group_by ks hv) loc pts gi -> match hv with Some h => expr_like h | None => True end ->
  match p_having hv pts with
  | Compile.Err e => exec {| locals := loc; fields := flds |} gb_having = Exc (CompErr e)
  | Compile.Ok (pts', hi) =>
      exists loc', exec {| locals := loc; fields := flds |} gb_having = Ok (Next {| locals := loc'; fields := flds |})
                   /\ gpost pts0 loc' pts' (enc_idxs gi) (enc_oidx hi)
  end.
Proof.
  intros pts0 ks hv loc flds pts gi Hfld (Hself & Hnew & Hexp & Hgi & Hnm & Hct & Hhi & Hgb) Hh.
  unfold gb_having.
  assert (Eh : eval {| locals := loc; fields := flds |} (XAttr (XName "group_by") "having") =
               Ok ({| locals := loc; fields := flds |}, popt (fun h : pv => h) hv)).
  { erewrite eval_attr; [|apply eval_name; exact Hgb|apply gb_not_self]. rewrite gb_having_attr. reflexivity. }
  assert (Ec : eval {| locals := loc; fields := flds |}
                 (XCompare (XAttr (XName "group_by") "having") [(CIsNot, XConst (PV VNull))]) =
               Ok ({| locals := loc; fields := flds |}, PBool (match hv with Some _ => true | None => false end))).
  { eapply (eval_compare_one call_ref tbl kids mro msg); [exact Eh|reflexivity|].
    destruct hv as [h|]; [|reflexivity]. destruct Hh as (tag & fl & -> & _). reflexivity. }
  rewrite (exec_if call_ref prim _ _ _ _ _ _ _ Ec eq_refl).
  destruct hv as [h|]; cbn [truthy p_having].
  2:{ eexists. split; [reflexivity|]. unfold gpost. repeat split; assumption. }
  cbn [popt] in Eh.
  rewrite exec_block_cons.
  assert (E1 : exec {| locals := loc; fields := flds |}
                 (SAssign (TName "c_expr") (XCall (XAttr (XName "self") "_compile") [XAttr (XName "group_by") "having"] None)) =
               bind (do_call call_ref (PRef kc) [h])
                 (fun r => Ok (Next {| locals := update "c_expr" r loc; fields := flds |}))).
  { cbn [PyMini.exec]. remember (XAttr (XName "group_by") "having") as eh.
    cbn [PyMini.eval bind read locals fields]. rewrite Hself. cbn [bind read locals fields]. rewrite Hfld. cbn [bind].
    rewrite Eh. cbn [bind]. destruct (do_call call_ref (PRef kc) [h]); reflexivity. }
  rewrite E1. unfold do_call. rewrite Hcomp.
  destruct (compf h) as [i|e]; cbn [enc_rid]; [|reflexivity].
  cbn [nref bind]. fold (nref i).
  destruct (Compile.check_aggregates (tbl i)) as [er|] eqn:Ek.
  { run. fold (nref i). unfold do_call. rewrite Hchk, Ek. reflexivity. }
  destruct (Compile.has_agg (tbl i)) eqn:Ea; cbn [negb].
  - eexists. split.
    + run. fold (nref i). unfold do_call. rewrite Hchk, Ek. run. fold (nref i). unfold do_call. rewrite Hagg, Ea. run. rewrite Hnew. run.
      rewrite prim_ET. run. rewrite Hnew. run. rewrite Hexp. run. reflexivity.
    + unfold gpost. repeat split; lk; try assumption.
      * rewrite map_app. reflexivity.
      * rewrite map_length. reflexivity.
  - run. fold (nref i). unfold do_call. rewrite Hchk, Ek. run. fold (nref i). unfold do_call. rewrite Hagg, Ea. run. rewrite prim_raise. reflexivity.
Qed.

(* ---------------------------------------------------------------- no GROUP BY clause *)
Lemma any_bools {A} (f : A -> bool) l : any_truthy (map (fun t => PBool (f t)) l) = Ok (existsb f l).
Proof. induction l as [|x t IH]; [reflexivity|]. cbn. destruct (f x); cbn; [reflexivity|exact IH]. Qed.
Lemma all_bools {A} (f : A -> bool) l : all_truthy (map (fun t => PBool (f t)) l) = Ok (forallb f l).
Proof. induction l as [|x t IH]; [reflexivity|]. cbn. destruct (f x); cbn; [exact IH|reflexivity]. Qed.

Lemma comp_aggs s1 : forall pts,
  comp_go call_ref prim s1 (XAttr (XName "c_target") "is_aggregate") "c_target" None (map enc_target pts) =
  Ok (map (fun t : ptarget => PBool (snd t)) pts).
Proof.
  induction pts as [|t r IH]; [reflexivity|]. cbn [map SrcApi.comp_go bind].
  erewrite eval_attr; [|apply eval_name; cbn [write locals]; apply lookup_update_eq|apply enc_target_not_self].
  rewrite target_agg. cbn [bind snd]. rewrite IH. reflexivity.
Qed.

Fixpoint nonagg_from (i : nat) (pts : list ptarget) : list nat :=
  match pts with
  | [] => []
  | t :: r => if snd t then nonagg_from (S i) r else i :: nonagg_from (S i) r
  end.

Lemma nonagg_T pts : Compile.nonagg_indexes (map T pts) = nonagg_from 0 pts.
Proof.
  unfold Compile.nonagg_indexes. generalize 0%nat. induction pts as [|[[x n] a] r IH]; intros i; [reflexivity|].
  cbn [map length seq combine flat_map nonagg_from snd SrcCompiler.T Compile.ct_agg]. rewrite IH. destruct a; reflexivity.
Qed.

Definition nonagg_cond : expr := XNot (XAttr (XIndex (XName "$t") (XConst (PInt 1))) "is_aggregate").

Lemma comp_nonagg s1 : forall pts i,
  comp_go call_ref prim s1 (XIndex (XName "$t") (XConst (PInt 0))) "$t" (Some nonagg_cond)
    (enum_from (Z.of_nat i) (map enc_target pts)) = Ok (map (fun j => PInt (Z.of_nat j)) (nonagg_from i pts)).
Proof.
  induction pts as [|t r IH]; intros i; [reflexivity|]. cbn [map enum_from SrcApi.comp_go bind].
  set (sx := write s1 (TName "$t") (PTuple [PInt (Z.of_nat i); enc_target t])).
  assert (Ec : eval sx nonagg_cond = Ok (sx, PBool (negb (snd t)))).
  { unfold nonagg_cond. eapply (eval_not call_ref tbl kids mro msg).
    - erewrite eval_attr; [|apply (eval_t_item call_ref tbl kids mro msg s1 i t 1)|apply enc_target_not_self].
      rewrite target_agg. reflexivity.
    - destruct (snd t); reflexivity. }
  rewrite Ec. cbn [bind snd pv_truthy PBool truthy].
  replace (Z.of_nat i + 1) with (Z.of_nat (S i)) by lia.
  cbn [nonagg_from]. destruct (snd t); cbn [negb].
  - apply IH.
  - unfold sx. rewrite (eval_t_item call_ref tbl kids mro msg s1 i t 0). cbn [bind snd map]. rewrite IH. reflexivity.
Qed.

Lemma existsb_agg pts : existsb Compile.ct_agg (map T pts) = existsb (fun t : ptarget => snd t) pts.
Proof. induction pts as [|[[x n] a] r IH]; [reflexivity|]. cbn. now rewrite IH. Qed.
Lemma forallb_agg pts : forallb Compile.ct_agg (map T pts) = forallb (fun t : ptarget => snd t) pts.
Proof. induction pts as [|[[x n] a] r IH]; [reflexivity|]. cbn. now rewrite IH. Qed.

(* ---------------------------------------------------------------- the method *)
Definition grp := option (list akey * option pv).
Definition enc_grp (g : grp) : pv := match g with None => PNone | Some (ks, hv) => enc_group_by ks hv end.
Definition grp_of (g : grp) : option (list Compile.kref * option Compile.rnode) :=
  match g with
  | None => None
  | Some (ks, hv) => Some (map kref_of ks, match hv with Some h => Some (rnode_of tbl (compf h)) | None => None end)
  end.
Definition grp_ok (g : grp) : Prop :=
  match g with
  | None => True
  | Some (ks, hv) => ks <> [] /\ Forall key_ok ks /\ match hv with Some h => expr_like h | None => True end
  end.

Definition group_env (g : pv) (pts0 : list ptarget) : env :=
  [("self", PSelf); ("group_by", g); ("c_targets", PList (map enc_target pts0));
   ("new_targets", PList (map enc_target pts0));
   ("c_target_expressions", PList (map (fun t => nref (tid t)) pts0));
   ("group_indexes", PList []); ("having_index", PNone)].

Lemma group_prefix_ok : forall (pts0 : list ptarget) (g : pv) flds,
  exec_block {| locals := [("self", PSelf); ("group_by", g); ("c_targets", PList (map enc_target pts0))]; fields := flds |}
    gb_prefix = Ok (Next {| locals := group_env g pts0; fields := flds |}).
Proof.
  intros pts0 g flds. unfold gb_prefix.
  rewrite exec_block_cons.
  erewrite exec_assign by (crun; rewrite slice_all; reflexivity).
  cbn [bind]. rewrite exec_block_cons.
  erewrite exec_assign
    by (erewrite eval_listcomp_gen by (apply eval_name; reflexivity); rewrite comp_exprs; reflexivity).
  cbn [bind]. crun. reflexivity.
Qed.

Lemma p_having_T hv ts (gi : list nat) :
  match match hv with Some h => Some (rnode_of tbl (compf h)) | None => None end with
  | None => Compile.Ok (map T ts, Some gi, None)
  | Some h =>
      Compile.bind h (fun n =>
        match Compile.check_aggregates n with
        | Some er => Compile.Err er
        | None => if negb (Compile.has_agg n) then Compile.Err Compile.EHavingNotAgg
                  else Compile.Ok (map T ts ++ [Compile.mk_target n None true], Some gi, Some (length (map T ts)))
        end)
  end =
  match p_having hv ts with
  | Compile.Ok (p, hi) => Compile.Ok (map T p, Some gi, hi)
  | Compile.Err e => Compile.Err e
  end.
Proof.
  destruct hv as [h|]; cbn [p_having]; [|reflexivity].
  destruct (compf h) as [i|e]; cbn [rnode_of Compile.bind]; [|reflexivity].
  destruct (Compile.check_aggregates (tbl i)); [reflexivity|].
  destruct (Compile.has_agg (tbl i)); cbn [negb]; [|reflexivity].
  rewrite map_app, map_length. reflexivity.
Qed.

Theorem group_by_src : forall (pts0 : list ptarget) (g : grp) flds,
  lookup "_compile" flds = Some (PRef kc) -> grp_ok g ->
  match Compile.compile_group_by (map T pts0) (grp_of g) with
  | Compile.Err e =>
      call_method call_ref prim compile_group_by flds [enc_grp g; PList (map enc_target pts0)] = Exc (CompErr e)
  | Compile.Ok (ts, gi, hi) =>
      exists new : list ptarget,
        call_method call_ref prim compile_group_by flds [enc_grp g; PList (map enc_target pts0)] =
        Ok (flds, PTuple [PList (map enc_target new); enc_gi gi; enc_oidx hi])
        /\ map T new = skipn (length pts0) ts
  end.
Proof.
  intros pts0 g flds Hfld Hok.
  unfold call_method.
  change (f_params compile_group_by) with ["self"; "group_by"; "c_targets"].
  change (f_gen compile_group_by) with false. rewrite group_body_split. cbn [bind_params].
  rewrite (exec_block_app call_ref tbl kids mro msg), group_prefix_ok. cbn [bind].
  rewrite exec_block_cons.
  destruct g as [[ks hv]|]; cbn [enc_grp grp_of Compile.compile_group_by].
  - (* GROUP BY clause *)
    destruct Hok as (Hne & Hks & Hh).
    set (GB := enc_group_by ks hv).
    assert (E0 : eval {| locals := group_env GB pts0; fields := flds |} (XName "group_by") =
                 Ok ({| locals := group_env GB pts0; fields := flds |}, GB)) by reflexivity.
    rewrite (exec_if call_ref prim _ _ _ _ _ _ _ E0 eq_refl). cbn [truthy GB enc_group_by record].
    fold (enc_group_by ks hv). fold GB.
    rewrite gb_then_split.
    set (env5 := group_env GB pts0 ++ [("targets_name_map", PTuple [PStr dict_tag; PList (name_items_all 0 pts0)])]).
    assert (E12 : forall rest,
              exec_block {| locals := group_env GB pts0; fields := flds |}
                (nth 0 gb_then SPass :: nth 1 gb_then SPass :: rest) =
              exec_block {| locals := env5; fields := flds |} rest).
    { intros rest. rewrite exec_block_cons.
      assert (Ea : eval {| locals := group_env GB pts0; fields := flds |} (XNot (XAttr (XName "group_by") "columns")) =
                   Ok ({| locals := group_env GB pts0; fields := flds |}, PBool (negb true))).
      { eapply (eval_not call_ref tbl kids mro msg).
        - erewrite eval_attr; [|apply eval_name; reflexivity|apply gb_not_self]. unfold GB. rewrite gb_columns. reflexivity.
        - destruct ks; [congruence|reflexivity]. }
      change (nth 0 gb_then SPass) with
        (SIf (XNot (XAttr (XName "group_by") "columns"))
           (match nth 0 gb_then SPass with SIf _ a _ => a | _ => [] end) []).
      rewrite (exec_if call_ref prim _ _ _ _ _ _ _ Ea eq_refl). cbn [truthy negb]. rewrite exec_block_nil. cbn [bind].
      rewrite exec_block_cons.
      change (nth 1 gb_then SPass) with
        (SAssign (TName "targets_name_map")
           (XPrim "builtins.dict" [XListComp name_elt "$t" (XPrim "builtins.enumerate" [XName "c_targets"]) None])).
      erewrite exec_assign
        by (erewrite eval_prim1;
            [|erewrite eval_listcomp_gen;
              [|erewrite eval_prim1 by (apply eval_name; reflexivity);
                change (prim "builtins.enumerate" [PList (map enc_target pts0)])
                  with (Ok (A:=pv) (PList (enum_from (Z.of_nat 0) (map enc_target pts0))));
                reflexivity];
              rewrite (comp_names_all call_ref tbl kids mro msg _ pts0 0); reflexivity];
            reflexivity).
      cbn [bind]. reflexivity. }
    rewrite E12. clear E12.
    rewrite exec_block_cons.
    rewrite (exec_for call_ref prim "column" _ gb_body _ {| locals := env5; fields := flds |} (map enc_key ks))
      by (erewrite eval_attr; [|apply eval_name; reflexivity|apply gb_not_self]; unfold GB; rewrite gb_columns; reflexivity).
    assert (I0 : ginv pts0 GB env5 pts0 []) by (unfold ginv, env5; repeat split; reflexivity).
    pose proof (group_loop_src pts0 GB ks env5 flds pts0 [] Hfld I0 Hks (le_n _)) as HL.
    rewrite (map_length T pts0), names_of_from, p_group_loop_T.
    destruct (p_group_loop pts0 ks pts0 []) as [[pts1 gi1]|e]; cbn [Compile.bind]; [|rewrite HL; reflexivity].
    destruct HL as (loc1 & -> & I1). cbn [bind].
    rewrite p_having_T.
    pose proof (having_src pts0 ks hv loc1 flds pts1 gi1 Hfld I1 Hh) as HH.
    rewrite exec_block_cons.
    destruct (p_having hv pts1) as [[pts2 hi]|e]; [|rewrite HH; reflexivity].
    destruct HH as (loc2 & -> & (Hnew & Hct & Hgi & Hhi)). cbn [bind PyMini.exec_block].
    exists (skipn (length pts0) pts2). split.
    + unfold gb_ret. run. rewrite Hnew. run. rewrite Hct. run. rewrite Hgi. run. rewrite Hhi. run.
      rewrite map_length, slice_from, skipn_map. reflexivity.
    + rewrite skipn_map. reflexivity.
  - (* no GROUP BY clause *)
    assert (E0 : eval {| locals := group_env PNone pts0; fields := flds |} (XName "group_by") =
                 Ok ({| locals := group_env PNone pts0; fields := flds |}, PNone)) by reflexivity.
    rewrite (exec_if call_ref prim _ _ _ _ _ _ _ E0 eq_refl). cbn [truthy PNone].
    unfold gb_else. rewrite exec_block_cons.
    erewrite exec_assign
      by (erewrite eval_listcomp_gen by (apply eval_name; reflexivity); rewrite comp_aggs; reflexivity).
    cbn [bind]. rewrite existsb_agg, forallb_agg.
    set (bs := map (fun t : ptarget => PBool (snd t)) pts0).
    assert (Eany : prim "builtins.any" [PList bs] = Ok (PBool (existsb (fun t : ptarget => snd t) pts0)))
      by (change (prim "builtins.any" [PList bs]) with (bind (any_truthy bs) (fun b => Ok (A:=pv) (PBool b)));
          unfold bs; rewrite any_bools; reflexivity).
    assert (Eall : prim "builtins.all" [PList bs] = Ok (PBool (forallb (fun t : ptarget => snd t) pts0)))
      by (change (prim "builtins.all" [PList bs]) with (bind (all_truthy bs) (fun b => Ok (A:=pv) (PBool b)));
          unfold bs; rewrite all_bools; reflexivity).
    assert (Esk : forall l : list ctarget, l = map T pts0 -> @nil ctarget = skipn (length pts0) l)
      by (intros l ->; rewrite skipn_all2; [reflexivity|rewrite map_length; lia]).
    unfold gb_ret, group_env.
    destruct (existsb (fun t : ptarget => snd t) pts0) eqn:Ex.
    + destruct (forallb (fun t : ptarget => snd t) pts0) eqn:Ef.
      * exists []. split; [|apply Esk; reflexivity].
        crun. rewrite Eany. crun. rewrite Eall. crun.
        change (prim "list_eq" [PList []; PList []]) with (Ok (A:=pv) (PBool true)). crun.
        rewrite map_length, slice_from. rewrite skipn_all2 by (rewrite map_length; lia). reflexivity.
      * exists []. split; [|apply Esk; reflexivity].
        set (envA := [("self", PSelf); ("group_by", PNone); ("c_targets", PList (map enc_target pts0));
                      ("new_targets", PList (map enc_target pts0));
                      ("c_target_expressions", PList (map (fun t : ptarget => nref (tid t)) pts0));
                      ("group_indexes", PList []); ("having_index", PNone); ("aggregate_bools", PList bs)]).
        cbn [write locals fields update String.eqb Ascii.eqb Bool.eqb]. fold envA.
        rewrite exec_block_cons.
        erewrite exec_if; [|erewrite eval_prim1 by (apply eval_name; reflexivity); rewrite Eany; reflexivity|reflexivity].
        cbn [truthy]. rewrite exec_block_cons.
        erewrite exec_if; [|erewrite eval_prim1 by (apply eval_name; reflexivity); rewrite Eall; reflexivity|reflexivity].
        cbn [truthy]. rewrite exec_block_cons.
        erewrite exec_if; [|apply (eval_const call_ref tbl kids mro msg)|reflexivity].
        cbn [truthy]. rewrite exec_block_cons.
        erewrite exec_assign
          by (erewrite eval_listcomp_gen;
              [|erewrite eval_prim1 by (apply eval_name; reflexivity);
                change (prim "builtins.enumerate" [PList (map enc_target pts0)])
                  with (Ok (A:=pv) (PList (enum_from (Z.of_nat 0) (map enc_target pts0))));
                reflexivity];
              fold nonagg_cond; rewrite (comp_nonagg _ pts0 0); reflexivity).
        unfold envA. crun.
        rewrite map_length, slice_from. rewrite skipn_all2 by (rewrite map_length; lia). rewrite nonagg_T. reflexivity.
    + exists []. split; [|apply Esk; reflexivity].
      crun. rewrite Eany. crun.
      rewrite map_length, slice_from. rewrite skipn_all2 by (rewrite map_length; lia). reflexivity.
Qed.

End Tie.

(* the statement for Properties/C05.v: the opaque callables are named through the generated [refs] table *)
Theorem group_by_source :
  forall (call_ref : nat -> list pv -> pv) (tbl : nat -> Compile.cnode) (kids : nat -> list nat)
         (mro : string -> list string) (msg : string -> list pv -> pv)
         (compf : pv -> Compile.result nat Compile.cerr) (kc kchk kagg : nat),
  ref_of refs "beanquery.compiler.check_aggregates" = Some kchk ->
  ref_of refs "beanquery.compiler.is_aggregate" = Some kagg ->
  (forall a, call_ref kc [a] = enc_rid (compf a)) ->
  (forall i, call_ref kchk [nref i] =
             match Compile.check_aggregates (tbl i) with Some e => PV (VErr (CompErr e)) | None => PNone end) ->
  (forall i, call_ref kagg [nref i] = PBool (Compile.has_agg (tbl i))) ->
  forall (pts0 : list ptarget) (g : grp) (flds : env),
  lookup "_compile" flds = Some (PRef kc) -> grp_ok g ->
  match Compile.compile_group_by (map (T tbl) pts0) (grp_of tbl compf g) with
  | Compile.Err e =>
      call_method call_ref (prim_compiler tbl kids mro msg) compile_group_by flds
        [enc_grp g; PList (map enc_target pts0)] = Exc (CompErr e)
  | Compile.Ok (ts, gi, hi) =>
      exists new : list ptarget,
        call_method call_ref (prim_compiler tbl kids mro msg) compile_group_by flds
          [enc_grp g; PList (map enc_target pts0)] =
        Ok (flds, PTuple [PList (map enc_target new); enc_gi gi; enc_oidx hi])
        /\ map (T tbl) new = skipn (length pts0) ts
  end.
Proof.
  intros call_ref tbl kids mro msg compf kc kchk kagg H1 H2 Hc Hk Ha.
  cbn in H1, H2. injection H1 as <-. injection H2 as <-.
  apply (group_by_src call_ref tbl kids mro msg compf kc Hc Hk Ha).
Qed.
