(* Tie by translation for C08: the PyMini terms generated from the SOURCE of the subquery code of
   beanquery/query_compile.py (Gen/SrcSubquery.v, written on every run by harness/vf/src_subquery.py) compute, for every
   input, what the models the C08 theorems are stated over say:

     SubqueryTable.__init__            -> the column dict of Compile.subquery_table (names, datatypes, order), every value
                                          being the accessor made for ITS position among the visible targets
     SubqueryTable.__iter__            -> Subquery.rows_of (SSub q s), given what execute_query returns
     EvalConstantSubquery1D.__call__   -> Subquery.items_of, computed once and cached
     EvalBinaryOp.__call__ + in_ / not_in_  -> Eval.eval's clause for EIn

   Encodings and what the opaque callables / library functions are assumed to do: Model/PrimsSubquery.v. *)
From Coq Require Import String Ascii ZArith List Bool Lia.
Import ListNotations.
From Verif Require Import Base.StableSort Base.PyValue Model.Eval Model.PyMini Model.PrimsApi Model.PrimsCompiler
  Model.PrimsSubquery Gen.SrcSubquery Proofs.PyMiniLemmas Proofs.PyMiniLemmas2 Proofs.PyValueProofs Proofs.SrcApi.
From Verif Require Model.Compile Model.Exec Model.Subquery Proofs.SubqueryProofs.
Open Scope string_scope.
Open Scope list_scope.
Open Scope Z_scope.

Local Arguments val_le : simpl never.
Local Arguments val_eq : simpl never.

(* ------------------------------------------------------------------ the generated data about the column factory *)
(* the accessor of the class SubqueryTable.column makes reads the factory's FIRST parameter, its datatype is the THIRD,
   and it is an EvalColumn: checked against what was read off the source on this run *)
Lemma column_factory_shape :
  fa_name column_factory = "beanquery.query_compile.SubqueryTable.column" /\
  length (fa_params column_factory) = 3%nat /\
  nth_error (fa_params column_factory) 0 = Some (fa_accessor column_factory) /\
  nth_error (fa_params column_factory) 2 = Some (fa_dtype column_factory) /\
  fa_bases column_factory = ["beanquery.query_compile.EvalColumn"].
Proof. repeat split. Qed.

(* hence: called with (position, name, datatype) and instantiated, the factory gives the column object of that position *)
Lemma factory_obj_colobj i n d :
  factory_obj column_factory [PInt (Z.of_nat i); PStr n; PStr d] = Some (colobj i n d).
Proof. reflexivity. Qed.

(* ------------------------------------------------------------------ strings, keys *)
Lemma ascii_code_eqb a b : (Z.of_N (N_of_ascii a) =? Z.of_N (N_of_ascii b)) = Ascii.eqb a b.
Proof.
  destruct (Ascii.eqb_spec a b) as [->|N]; [apply Z.eqb_refl|].
  apply Z.eqb_neq. intros H. apply N2Z.inj in H. apply (f_equal ascii_of_N) in H.
  rewrite !ascii_N_embedding in H. contradiction.
Qed.

Lemma zeqb_zs : forall a b, zeqb (zs a) (zs b) = String.eqb a b.
Proof.
  induction a as [|x a IH]; destruct b as [|y b]; cbn; try reflexivity.
  rewrite ascii_code_eqb, IH. reflexivity.
Qed.

Lemma pv_eqb_PStr a b : pv_eqb (PStr a) (PStr b) = String.eqb a b.
Proof. unfold PStr. rewrite pv_eqb_str. apply zeqb_zs. Qed.

Lemma pv_eqb_value x y : pv_eqb (PV x) (PV y) = val_eq x y.
Proof.
  cbn [pv_eqb]. unfold val_eq, val_le. rewrite !eqv_lex.
  destruct x, y; cbn [is_null orb andb rank Z.eqb]; try reflexivity;
    try (cbn; reflexivity);
    unfold eqv at 1, on; cbn [rank]; try reflexivity.
Qed.

Lemma as_nref_nref i : as_nref (nref i) = Some i.
Proof.
  unfold as_nref, nref, PStr, PInt. rewrite zeqb_refl.
  assert (E : (0 <=? Z.of_nat i) = true) by (apply Z.leb_le; lia).
  rewrite E. cbn [andb]. now rewrite Nat2Z.id.
Qed.

(* ------------------------------------------------------------------ the model side: columns with positions *)
Definition proj_col (c : string * (nat * string)) : string * string := (fst c, snd (snd c)).

Lemma map_dict_set n (v : nat * string) d :
  map proj_col (Compile.dict_set n v d) = Compile.dict_set n (snd v) (map proj_col d).
Proof.
  induction d as [|[k w] t IH]; [reflexivity|].
  cbn [Compile.dict_set map]. unfold proj_col at 2. cbn [fst snd].
  destruct (String.eqb n k); cbn [map]; [reflexivity|]. now rewrite IH.
Qed.

Lemma sub_columns_from_fold : forall ts i d,
  map proj_col (sub_columns_from i (Compile.visible ts) d) =
  fold_left (fun d t => match Compile.ct_name t with
                        | Some n => Compile.dict_set n (Compile.dtype (Compile.ct_expr t)) d
                        | None => d
                        end) ts (map proj_col d).
Proof.
  induction ts as [|t r IH]; intros i d; [reflexivity|].
  cbn [Compile.visible filter fold_left]. destruct (Compile.ct_name t) as [n|] eqn:En.
  - cbn [sub_columns_from]. rewrite En. fold (Compile.visible r). rewrite IH, map_dict_set. reflexivity.
  - fold (Compile.visible r). apply IH.
Qed.

(* forgetting the positions gives exactly the column list of the model's subquery table *)
Lemma sub_columns_table q :
  map proj_col (sub_columns (Compile.cq_targets q)) = Compile.t_cols (Compile.subquery_table q).
Proof. unfold sub_columns. rewrite sub_columns_from_fold. reflexivity. Qed.

(* ---- what the fold says, without the fold: the names keep the order of their first occurrence, and every name is
   bound to the position and the datatype of the LAST visible target that carries it *)
Lemma dict_set_keys {A} k (w : A) d :
  map fst (Compile.dict_set k w d) = if existsb (String.eqb k) (map fst d) then map fst d else map fst d ++ [k].
Proof.
  induction d as [|[k' v] t IH]; [reflexivity|].
  cbn [Compile.dict_set map fst existsb]. destruct (String.eqb k k'); cbn [orb map fst]; [reflexivity|].
  rewrite IH. destruct (existsb (String.eqb k) (map fst t)); reflexivity.
Qed.

Lemma existsb_eqb_In k l : existsb (String.eqb k) l = true <-> In k l.
Proof.
  rewrite existsb_exists. split.
  - intros [x [Hx E]]. apply String.eqb_eq in E. now subst.
  - intros H. exists k. split; [exact H|apply String.eqb_refl].
Qed.

Lemma nodup_snoc {A} (l : list A) k : NoDup l -> ~ In k l -> NoDup (l ++ [k]).
Proof.
  induction 1 as [|x l Hx Hl IH]; intros Hk; cbn [app].
  - constructor; [intros []|constructor].
  - constructor.
    + intros Hin. apply in_app_or in Hin as [Hin|[<-|[]]]; [contradiction|]. apply Hk. now left.
    + apply IH. intros Hin. apply Hk. now right.
Qed.

Lemma dict_set_nodup {A} k (w : A) d : NoDup (map fst d) -> NoDup (map fst (Compile.dict_set k w d)).
Proof.
  intros H. rewrite dict_set_keys. destruct (existsb (String.eqb k) (map fst d)) eqn:E; [exact H|].
  apply nodup_snoc; [exact H|]. intros Hin. apply existsb_eqb_In in Hin. congruence.
Qed.

Lemma dict_set_In {A} k (w : A) d n v :
  NoDup (map fst d) ->
  (In (n, v) (Compile.dict_set k w d) <-> (n = k /\ v = w) \/ (n <> k /\ In (n, v) d)).
Proof.
  induction d as [|[k' v'] t IH]; intros Hnd.
  - cbn. split; [intros [E|[]]; injection E as <- <-; now left|intros [[-> ->]|[_ []]]; now left].
  - cbn [map fst] in Hnd. inversion Hnd as [|? ? Hnot Hnd']; subst.
    cbn [Compile.dict_set]. destruct (String.eqb k k') eqn:E.
    + apply String.eqb_eq in E. subst k'. cbn [In]. split.
      * intros [H|H]; [injection H as <- <-; now left|].
        right. split; [|now right]. intros ->. apply Hnot. apply (in_map fst) in H. exact H.
      * intros [[-> ->]|[Hne [H|H]]]; [now left| |now right]. injection H as -> _. congruence.
    + apply String.eqb_neq in E. cbn [In]. rewrite (IH Hnd'). split.
      * intros [H|[[-> ->]|[Hne H]]]; [|now left|right; split; [exact Hne|now right]].
        injection H as <- <-. right. split; [congruence|now left].
      * intros [[-> ->]|[Hne [H|H]]]; [right; now left|now left|right; right; split; assumption].
Qed.

Definition names_step (l : list string) (t : Compile.ctarget) : list string :=
  match Compile.ct_name t with
  | Some n => if existsb (String.eqb n) l then l else l ++ [n]
  | None => l
  end.

Lemma sub_columns_from_names : forall vis k d,
  map fst (sub_columns_from k vis d) = fold_left names_step vis (map fst d).
Proof.
  induction vis as [|t r IH]; intros k d; [reflexivity|].
  cbn [sub_columns_from fold_left]. rewrite IH. f_equal. unfold names_step.
  destruct (Compile.ct_name t); [apply dict_set_keys|reflexivity].
Qed.

Lemma sub_columns_from_nodup : forall vis k d, NoDup (map fst d) -> NoDup (map fst (sub_columns_from k vis d)).
Proof.
  induction vis as [|t r IH]; intros k d H; [exact H|].
  cbn [sub_columns_from]. apply IH. destruct (Compile.ct_name t); [apply dict_set_nodup|]; exact H.
Qed.

Definition last_named (vis : list Compile.ctarget) (j : nat) (n : string) (dt : string) : Prop :=
  exists t, nth_error vis j = Some t /\ Compile.ct_name t = Some n /\ dt = Compile.dtype (Compile.ct_expr t) /\
            forall j' t', (j < j')%nat -> nth_error vis j' = Some t' -> Compile.ct_name t' <> Some n.

Lemma sub_columns_from_spec : forall vis k d, NoDup (map fst d) -> forall n i dt,
  In (n, (i, dt)) (sub_columns_from k vis d) <->
  (exists j, i = (k + j)%nat /\ last_named vis j n dt) \/
  (In (n, (i, dt)) d /\ forall t, In t vis -> Compile.ct_name t <> Some n).
Proof.
  induction vis as [|t r IH]; intros k d Hnd n i dt.
  - cbn [sub_columns_from]. split.
    + intros H. right. split; [exact H|intros t []].
    + intros [[j [_ [t [Hj _]]]]|[H _]]; [destruct j; discriminate|exact H].
  - cbn [sub_columns_from].
    set (d' := match Compile.ct_name t with
               | Some m => Compile.dict_set m (k, Compile.dtype (Compile.ct_expr t)) d
               | None => d
               end).
    match goal with |- _ <-> ?R => change (In (n, (i, dt)) (sub_columns_from (S k) r d') <-> R) end.
    assert (Hnd' : NoDup (map fst d')) by (unfold d'; destruct (Compile.ct_name t); [apply dict_set_nodup|]; exact Hnd).
    rewrite (IH (S k) d' Hnd' n i dt). split.
    + intros [[j [-> [t' [Hj [Hn [Hd Hl]]]]]]|[Hin Hr]].
      * left. exists (S j). split; [lia|]. exists t'. repeat split; try assumption.
        intros [|j'] t'' Hlt Hj'; [lia|]. apply (Hl j' t''); [lia|exact Hj'].
      * unfold d' in Hin. destruct (Compile.ct_name t) as [m|] eqn:Em.
        -- apply dict_set_In in Hin; [|exact Hnd]. destruct Hin as [[-> E]|[Hne Hin]].
           ++ injection E as -> ->. left. exists 0%nat. split; [lia|]. exists t. repeat split; try assumption.
              intros [|j'] t'' Hlt Hj'; [lia|]. apply Hr. cbn [nth_error] in Hj'. apply (nth_error_In _ _ Hj').
           ++ right. split; [exact Hin|]. intros t' [<-|Ht']; [congruence|apply Hr; exact Ht'].
        -- right. split; [exact Hin|]. intros t' [<-|Ht']; [congruence|apply Hr; exact Ht'].
    + intros [[[|j] [-> [t' [Hj [Hn [Hd Hl]]]]]]|[Hin Hr]].
      * cbn in Hj. injection Hj as <-. right. split.
        -- unfold d'. rewrite Hn. apply dict_set_In; [exact Hnd|]. left. rewrite Nat.add_0_r. subst dt. now split.
        -- intros t' Ht'. apply In_nth_error in Ht' as [j' Hj']. apply (Hl (S j') t'); [lia|exact Hj'].
      * left. exists j. split; [lia|]. exists t'. repeat split; try assumption.
        intros j' t'' Hlt Hj'. apply (Hl (S j') t''); [lia|exact Hj'].
      * right. split.
        -- unfold d'. destruct (Compile.ct_name t) as [m|] eqn:Em; [|exact Hin].
           apply dict_set_In; [exact Hnd|]. right. split; [|exact Hin].
           intros ->. apply (Hr t); [now left|exact Em].
        -- intros t' Ht'. apply Hr. now right.
Qed.

(* the columns of the subquery table: no name twice, names in the order of their first visible occurrence, and the entry
   of a name holds the position among the visible targets, and the datatype, of the LAST visible target with that name *)
Theorem sub_columns_spec ts :
  NoDup (map fst (sub_columns ts)) /\
  map fst (sub_columns ts) = fold_left names_step (Compile.visible ts) [] /\
  forall n i dt, In (n, (i, dt)) (sub_columns ts) <-> last_named (Compile.visible ts) i n dt.
Proof.
  unfold sub_columns. split; [apply sub_columns_from_nodup; constructor|].
  split; [apply sub_columns_from_names|].
  intros n i dt. rewrite sub_columns_from_spec by constructor. split.
  - intros [[j [-> H]]|[[] _]]. exact H.
  - intros H. left. exists i. split; [reflexivity|exact H].
Qed.

(* ------------------------------------------------------------------ compositional evaluation (any oracles) *)
Section Gen.
Variable call_ref : nat -> list pv -> pv.
Variable prim : string -> list pv -> res pv.
Notation eval := (PyMini.eval call_ref prim).
Notation exec := (PyMini.exec call_ref prim).

Lemma eval_call0 f s s0 fv :
  eval s f = Ok (s0, fv) -> eval s (XCall f [] None) = bind (do_call call_ref fv []) (fun r => Ok (s0, r)).
Proof. intros H. cbn [PyMini.eval]. rewrite H. reflexivity. Qed.

Lemma eval_call1 f a s s0 fv s1 va :
  eval s f = Ok (s0, fv) -> eval s0 a = Ok (s1, va) ->
  eval s (XCall f [a] None) = bind (do_call call_ref fv [va]) (fun r => Ok (s1, r)).
Proof. intros H H1. cbn [PyMini.eval]. rewrite H. cbn [bind]. rewrite H1. reflexivity. Qed.

Lemma eval_call3 f a b c s s0 fv s1 va s2 vb s3 vc :
  eval s f = Ok (s0, fv) -> eval s0 a = Ok (s1, va) -> eval s1 b = Ok (s2, vb) -> eval s2 c = Ok (s3, vc) ->
  eval s (XCall f [a; b; c] None) = bind (do_call call_ref fv [va; vb; vc]) (fun r => Ok (s3, r)).
Proof.
  intros H H1 H2 H3. cbn [PyMini.eval]. rewrite H. cbn [bind]. rewrite H1. cbn [bind]. rewrite H2. cbn [bind].
  rewrite H3. reflexivity.
Qed.

Lemma eval_prim3 name a b c s s1 va s2 vb s3 vc :
  eval s a = Ok (s1, va) -> eval s1 b = Ok (s2, vb) -> eval s2 c = Ok (s3, vc) ->
  eval s (XPrim name [a; b; c]) = bind (prim name [va; vb; vc]) (fun r => Ok (s3, r)).
Proof.
  intros H1 H2 H3. cbn [PyMini.eval]. rewrite H1. cbn [bind]. rewrite H2. cbn [bind]. rewrite H3. reflexivity.
Qed.

Lemma eval_self_attr s a v :
  lookup "self" (locals s) = Some PSelf -> lookup a (fields s) = Some v -> eval s (XAttr (XName "self") a) = Ok (s, v).
Proof. intros H1 H2. cbn [PyMini.eval read]. rewrite H1. cbn [bind read]. rewrite H2. reflexivity. Qed.

Lemma eval_name_attr s x a v :
  lookup x (locals s) = Some v -> v <> PSelf ->
  eval s (XAttr (XName x) a) = bind (prim ("attr:" ++ a) [v]) (fun r => Ok (s, r)).
Proof. intros H N. apply eval_attr; [apply eval_name; exact H|exact N]. Qed.

Lemma eval_compare_one a op b s s1 av s2 bv :
  eval s a = Ok (s1, av) -> eval s1 b = Ok (s2, bv) ->
  eval s (XCompare a [(op, b)]) = bind (compare1 op av bv) (fun r => Ok (s2, PBool r)).
Proof.
  intros H1 H2. cbn [PyMini.eval]. rewrite H1. cbn [bind]. rewrite H2. cbn [bind].
  destruct (compare1 op av bv) as [[|]| |]; reflexivity.
Qed.

Lemma eval_index_tuple a i s s1 s2 l z :
  eval s a = Ok (s1, PTuple l) -> eval s1 i = Ok (s2, PV (VInt z)) ->
  eval s (XIndex a i) = bind (index_at l z) (fun x => Ok (s2, x)).
Proof. intros H1 H2. cbn [PyMini.eval]. rewrite H1. cbn [bind]. rewrite H2. reflexivity. Qed.

Lemma exec_unpack2 x y e s s1 a b :
  eval s e = Ok (s1, PTuple [a; b]) ->
  exec s (SUnpack [TName x; TName y] e) = Ok (Next (write (write s1 (TName x) a) (TName y) b)).
Proof. intros H. cbn [PyMini.exec]. rewrite H. reflexivity. Qed.

End Gen.

Ltac step_env :=
  repeat (rewrite ?lookup_update_eq;
          rewrite ?lookup_update_neq by reflexivity).

(* ------------------------------------------------------------------ the tie *)
Section Tie.
Variable call_ref : nat -> list pv -> pv.
Variable tbl : nat -> Compile.cnode.
Notation prim := (prim_subquery tbl).
Notation eval := (PyMini.eval call_ref prim).
Notation exec := (PyMini.exec call_ref prim).
Notation exec_block := (PyMini.exec_block call_ref prim).

Definition T := target_of tbl.

Definition named (t : ptarget) : bool := match t with (_, Some _, _) => true | _ => false end.

Lemma visible_map pts : Compile.visible (map T pts) = map T (filter named pts).
Proof.
  induction pts as [|[[i [n|]] a] r IH]; cbn [map Compile.visible filter named T target_of Compile.ct_name];
    [reflexivity| |]; fold (Compile.visible (map T r)); now rewrite IH.
Qed.

(* ---- attribute reads *)
Lemma attr_c_targets pts : prim "attr:c_targets" [enc_query pts] = Ok (PList (map enc_target pts)).
Proof. reflexivity. Qed.

Lemma attr_name i n a : prim "attr:name" [enc_target (i, n, a)] = Ok (popt PStr n).
Proof. reflexivity. Qed.

Lemma attr_c_expr i n a : prim "attr:c_expr" [enc_target (i, n, a)] = Ok (nref i).
Proof. reflexivity. Qed.

Lemma attr_dtype i : prim "attr:dtype" [nref i] = Ok (PStr (Compile.dtype (tbl i))).
Proof.
  unfold prim_subquery. change (strip_prefix "attr:" "attr:dtype") with (Some "dtype").
  cbv iota beta. rewrite as_nref_nref. reflexivity.
Qed.

Lemma enc_target_not_self t : enc_target t <> PSelf.
Proof. destruct t as [[i n] a]. discriminate. Qed.

(* ---- the dict *)
Definition enc_entry (c : string * (nat * string)) : pv :=
  PTuple [PStr (fst c); colobj (fst (snd c)) (fst c) (snd (snd c))].

Lemma pdict_set_enc n i dt d :
  pdict_set (map enc_entry d) (PStr n) (colobj i n dt) = map enc_entry (Compile.dict_set n (i, dt) d).
Proof.
  induction d as [|[k [j e]] t IH]; [reflexivity|].
  cbn [map pdict_set Compile.dict_set]. unfold enc_entry at 1. cbn [fst snd entry_has].
  rewrite pv_eqb_PStr, String.eqb_sym.
  destruct (String.eqb n k) eqn:E; cbn [map].
  - apply String.eqb_eq in E. subst k. reflexivity.
  - rewrite IH. reflexivity.
Qed.

(* ---- SubqueryTable.__init__ *)
Definition vis_cond : expr := XCompare (XAttr (XName "target") "name") [(CIsNot, XConst PNone)].

(* [target for target in subquery.c_targets if target.name is not None] *)
Lemma comp_visible s1 : forall pts,
  comp_go call_ref prim s1 (XName "target") "target" (Some vis_cond) (map enc_target pts) =
  Ok (map enc_target (filter named pts)).
Proof.
  induction pts as [|[[i n] a] r IH]; [reflexivity|].
  cbn [map comp_go]. set (sx := write s1 (TName "target") (enc_target (i, n, a))).
  assert (Hl : lookup "target" (locals sx) = Some (enc_target (i, n, a))) by apply lookup_update_eq.
  assert (Hc : eval sx vis_cond = Ok (sx, PBool (match n with Some _ => true | None => false end))).
  { unfold vis_cond.
    rewrite (eval_compare_one call_ref prim _ CIsNot _ sx sx (popt PStr n) sx PNone).
    - destruct n; reflexivity.
    - rewrite (eval_name_attr call_ref prim sx "target" "name" _ Hl (enc_target_not_self _)).
      change ("attr:" ++ "name")%string with "attr:name". rewrite attr_name. reflexivity.
    - reflexivity. }
  rewrite Hc. cbn [bind snd].
  destruct n as [n|]; cbn [pv_truthy PBool truthy bind filter named].
  - rewrite (eval_name _ _ sx "target" _ Hl). cbn [bind snd]. rewrite IH. reflexivity.
  - exact IH.
Qed.

Definition init_loop_body : list stmt :=
  Eval cbv in match nth 2 (f_body subq_table_init) SPass with SForUnpack _ _ b => b | _ => [] end.

Definition F (es : list pv) (Q : pv) : env := [("columns", PList es); ("subquery", Q)].

(* the column factory, an opaque callable: called on a0 a1 a2 it returns a class (a reference m) whose instantiation is
   the object Model/PrimsSubquery.v derives from the structure of the factory's source *)
Definition factory_behaves (kcol : nat) (args : list pv) : Prop :=
  exists m, call_ref kcol args = PRef m /\ factory_obj column_factory args = Some (call_ref m []).

Section Loop.
Variable kcol : nat.
Hypothesis Hk : ref_of refs "beanquery.query_compile.SubqueryTable.column" = Some kcol.

Lemma init_body_step loc es Q k i n a :
  lookup "self" loc = Some PSelf ->
  factory_behaves kcol [PInt (Z.of_nat k); PStr n; PStr (Compile.dtype (tbl i))] ->
  exists loc',
    exec_block {| locals := update "target" (enc_target (i, Some n, a)) (update "i" (PInt (Z.of_nat k)) loc);
                  fields := F es Q |} init_loop_body =
    Ok (Next {| locals := loc';
                fields := F (pdict_set es (PStr n) (colobj k n (Compile.dtype (tbl i)))) Q |})
    /\ lookup "self" loc' = Some PSelf.
Proof.
  intros Hself [m [Hm Hobj]].
  cbv in Hk. injection Hk as <-.
  rewrite factory_obj_colobj in Hobj. injection Hobj as Hobj.
  set (loc1 := update "target" _ _).
  assert (Ht : lookup "target" loc1 = Some (enc_target (i, Some n, a))) by apply lookup_update_eq.
  assert (Hi : lookup "i" loc1 = Some (PInt (Z.of_nat k))) by (unfold loc1; step_env; reflexivity).
  assert (Hs : lookup "self" loc1 = Some PSelf) by (unfold loc1; step_env; exact Hself).
  clearbody loc1.
  unfold init_loop_body. rewrite exec_block_cons.
  set (s1 := {| locals := loc1; fields := F es Q |}).
  assert (Hname : forall s, lookup "target" (locals s) = Some (enc_target (i, Some n, a)) ->
                  eval s (XAttr (XName "target") "name") = Ok (s, PStr n)).
  { intros s H. rewrite (eval_name_attr call_ref prim s "target" "name" _ H (enc_target_not_self _)).
    change ("attr:" ++ "name")%string with "attr:name". rewrite attr_name. reflexivity. }
  assert (Hdt : eval s1 (XAttr (XAttr (XName "target") "c_expr") "dtype") = Ok (s1, PStr (Compile.dtype (tbl i)))).
  { rewrite (eval_attr call_ref prim _ "dtype" s1 s1 (nref i)).
    - change ("attr:" ++ "dtype")%string with "attr:dtype". rewrite attr_dtype. reflexivity.
    - rewrite (eval_name_attr call_ref prim s1 "target" "c_expr" _ Ht (enc_target_not_self _)).
      change ("attr:" ++ "c_expr")%string with "attr:c_expr". rewrite attr_c_expr. reflexivity.
    - discriminate. }
  rewrite (exec_assign call_ref prim (TName "column") _ s1 s1 (PRef m)).
  2:{ rewrite (eval_call3 call_ref prim _ _ _ _ s1 s1 (PRef 0) s1 (PInt (Z.of_nat k)) s1 (PStr n) s1
                 (PStr (Compile.dtype (tbl i)))); [|reflexivity|apply eval_name; exact Hi|apply Hname; exact Ht|exact Hdt].
      cbn [do_call]. rewrite Hm. reflexivity. }
  cbn [bind]. set (s2 := write s1 (TName "column") (PRef m)).
  assert (Ht2 : lookup "target" (locals s2) = Some (enc_target (i, Some n, a)))
    by (unfold s2, s1; cbn [write locals]; step_env; exact Ht).
  assert (Hs2 : lookup "self" (locals s2) = Some PSelf)
    by (unfold s2, s1; cbn [write locals]; step_env; exact Hs).
  assert (Hc2 : lookup "column" (locals s2) = Some (PRef m)) by apply lookup_update_eq.
  rewrite exec_block_cons.
  rewrite (exec_assign call_ref prim (TSelf "columns") _ s2 s2
             (PList (pdict_set es (PStr n) (colobj k n (Compile.dtype (tbl i)))))).
  2:{ rewrite (eval_prim3 call_ref prim "dict.set" _ _ _ s2 s2 (PList es) s2 (PStr n) s2
                 (colobj k n (Compile.dtype (tbl i)))).
      - reflexivity.
      - apply eval_self_attr; [exact Hs2|reflexivity].
      - apply Hname; exact Ht2.
      - rewrite (eval_call0 call_ref prim _ s2 s2 (PRef m) (eval_name _ _ s2 "column" _ Hc2)).
        cbn [do_call]. rewrite <- Hobj. reflexivity. }
  cbn [bind exec_block]. eexists. split; [reflexivity|].
  cbn [write locals]. exact Hs2.
Qed.

Lemma init_loop : forall vis k loc d Q,
  Forall (fun t => named t = true) vis ->
  lookup "self" loc = Some PSelf ->
  (forall j t n, nth_error (map T vis) j = Some t -> Compile.ct_name t = Some n ->
     factory_behaves kcol [PInt (Z.of_nat (k + j)); PStr n; PStr (Compile.dtype (Compile.ct_expr t))]) ->
  exists loc',
    for_unpack_loop call_ref prim init_loop_body ["i"; "target"]
      {| locals := loc; fields := F (map enc_entry d) Q |} (enum_from (Z.of_nat k) (map enc_target vis)) =
    Ok (Next {| locals := loc'; fields := F (map enc_entry (sub_columns_from k (map T vis) d)) Q |}).
Proof.
  induction vis as [|[[i [n|]] a] r IH]; intros k loc d Q Hn Hself Hf.
  - exists loc. reflexivity.
  - inversion Hn as [|? ? _ Hr]; subst.
    cbn [map enum_from for_unpack_loop unpack_names write locals fields bind].
    destruct (init_body_step loc (map enc_entry d) Q k i n a Hself) as [loc1 [E Hs1]].
    { specialize (Hf 0%nat (T (i, Some n, a)) n eq_refl eq_refl). rewrite Nat.add_0_r in Hf. exact Hf. }
    rewrite E. cbn [bind]. rewrite pdict_set_enc.
    replace (Z.of_nat k + 1) with (Z.of_nat (S k)) by lia.
    cbn [sub_columns_from T target_of Compile.ct_name Compile.ct_expr].
    apply IH; [exact Hr|exact Hs1|].
    intros j t m Hj Hm. replace (S k + j)%nat with (k + S j)%nat by lia. apply (Hf (S j) t m); assumption.
  - inversion Hn as [|? ? Hbad _]; discriminate.
Qed.

End Loop.

(* SubqueryTable.__init__(self, subquery) on a fresh instance (no attribute yet): afterwards `columns` is the dict obtained
   by dict_set over the visible targets in order, each value being the column object made for the target's position
   among the visible targets, its name and its datatype; `subquery` is the argument *)
Theorem subquery_table_init_src : forall kcol pts,
  ref_of refs "beanquery.query_compile.SubqueryTable.column" = Some kcol ->
  (forall j t n, nth_error (Compile.visible (map T pts)) j = Some t -> Compile.ct_name t = Some n ->
     factory_behaves kcol [PInt (Z.of_nat j); PStr n; PStr (Compile.dtype (Compile.ct_expr t))]) ->
  call_method call_ref prim subq_table_init [] [enc_query pts] =
  Ok ([("columns", enc_columns (sub_columns (map T pts))); ("subquery", enc_query pts)], PNone).
Proof.
  intros kcol pts Hk Hf.
  unfold call_method, subq_table_init. cbn [f_params f_body f_gen bind_params].
  set (Q := enc_query pts).
  rewrite exec_block_cons.
  rewrite (exec_assign call_ref prim (TSelf "columns") _ _ _ (PList [])) by reflexivity.
  cbn [bind write locals fields update]. rewrite exec_block_cons.
  rewrite (exec_assign call_ref prim (TSelf "subquery") _ _ _ Q) by reflexivity.
  cbn [bind write locals fields update String.eqb Ascii.eqb Bool.eqb]. rewrite exec_block_cons.
  set (s0 := {| locals := [("self", PSelf); ("subquery", Q)]; fields := [("columns", PList []); ("subquery", Q)] |}).
  erewrite exec_for_unpack.
  2:{ erewrite eval_prim1.
      2:{ erewrite eval_listcomp_gen.
          2:{ rewrite (eval_name_attr call_ref prim s0 "subquery" "c_targets" Q eq_refl) by discriminate.
              change ("attr:" ++ "c_targets")%string with "attr:c_targets". unfold Q. rewrite attr_c_targets.
              reflexivity. }
          fold vis_cond. rewrite comp_visible. reflexivity. }
      reflexivity. }
  destruct (init_loop kcol Hk (filter named pts) 0%nat (locals s0) [] Q) as [loc' E].
  - apply Forall_forall. intros t Ht. apply filter_In in Ht. apply Ht.
  - reflexivity.
  - intros j t n Hj Hn. rewrite <- visible_map in Hj. apply (Hf j t n Hj Hn).
  - fold init_loop_body. change 0 with (Z.of_nat 0). unfold s0 in *. cbn [locals] in E.
    change (F (map enc_entry []) Q) with [("columns", PList []); ("subquery", Q)] in E.
    rewrite E. cbn [bind exec_block fields].
    unfold sub_columns. rewrite visible_map. reflexivity.
Qed.

(* the same over a compiled query of Model/Compile.v whose targets the encoded ones are, with the link to its table *)
Theorem subquery_table_init_model : forall kcol pts q,
  Compile.cq_targets q = map T pts ->
  ref_of refs "beanquery.query_compile.SubqueryTable.column" = Some kcol ->
  (forall j t n, nth_error (Compile.visible (Compile.cq_targets q)) j = Some t -> Compile.ct_name t = Some n ->
     factory_behaves kcol [PInt (Z.of_nat j); PStr n; PStr (Compile.dtype (Compile.ct_expr t))]) ->
  let cols := sub_columns (Compile.cq_targets q) in
  call_method call_ref prim subq_table_init [] [enc_query pts] =
    Ok ([("columns", enc_columns cols); ("subquery", enc_query pts)], PNone)
  /\ map proj_col cols = Compile.t_cols (Compile.subquery_table q).
Proof.
  intros kcol pts q Eq Hk Hf cols. split; [|apply sub_columns_table].
  unfold cols. rewrite Eq in *. apply (subquery_table_init_src kcol pts Hk Hf).
Qed.

(* ---- SubqueryTable.__iter__ and EvalConstantSubquery1D: execute_query is an opaque callable *)
Lemma index0_row r : r <> [] -> index_at (map PV r) 0 = Ok (PV (cell 0 r)).
Proof. destruct r as [|x t]; [congruence|reflexivity]. Qed.

(* `columns, rows = execute_query(self.subquery)` *)
Lemma exec_execute_query kexec s Q cols rows :
  lookup "self" (locals s) = Some PSelf -> lookup "subquery" (fields s) = Some Q ->
  call_ref kexec [Q] = PTuple [cols; rows] ->
  exec s (SUnpack [TName "columns"; TName "rows"]
            (XCall (XConst (PRef kexec)) [XAttr (XName "self") "subquery"] None)) =
  Ok (Next (write (write s (TName "columns") cols) (TName "rows") rows)).
Proof.
  intros Hs Hq Hc. apply exec_unpack2.
  rewrite (eval_call1 call_ref prim (XConst (PRef kexec)) _ s s (PRef kexec) s Q eq_refl
             (eval_self_attr _ _ s "subquery" Q Hs Hq)).
  cbn [do_call]. rewrite Hc. reflexivity.
Qed.

(* iterating the subquery table yields the rows execute_query returns for the subquery, in that order; the instance is
   not changed *)
Theorem subquery_iter_src : forall kexec flds Q cols rows,
  ref_of refs "beanquery.query_execute.execute_query" = Some kexec ->
  lookup "subquery" flds = Some Q ->
  call_ref kexec [Q] = PTuple [cols; rows_pv rows] ->
  call_method call_ref prim subq_table_iter flds [] = Ok (flds, rows_pv rows).
Proof.
  intros kexec flds Q cols rows Hk Hq Hc. cbv in Hk. injection Hk as <-.
  unfold call_method, subq_table_iter. cbn [f_params f_body f_gen bind_params]. rewrite exec_block_cons.
  rewrite (exec_execute_query _ {| locals := [("self", PSelf)]; fields := flds |} Q cols (rows_pv rows) eq_refl Hq Hc).
  cbn [bind write locals fields]. reflexivity.
Qed.

Theorem in_subquery_init_src : forall klist kmark Q,
  ref_of refs "builtins.list" = Some klist ->
  ref_of refs "beanquery.query_compile.MARKER" = Some kmark ->
  call_method call_ref prim subq_in_init [] [Q] =
  Ok ([("dtype", PRef klist); ("subquery", Q); ("value", PRef kmark)], PNone).
Proof.
  intros klist kmark Q Hl Hk. cbv in Hl. injection Hl as <-. cbv in Hk. injection Hk as <-.
  reflexivity.
Qed.

(* first call (the attribute value still is the sentinel MARKER): the subquery is executed, the first field of every
   row collected, an empty result stored as None; the value is stored on the node and returned *)
Theorem in_subquery_first_call_src : forall kexec kmark flds ctx Q cols rows,
  ref_of refs "beanquery.query_execute.execute_query" = Some kexec ->
  ref_of refs "beanquery.query_compile.MARKER" = Some kmark ->
  lookup "subquery" flds = Some Q -> lookup "value" flds = Some (PRef kmark) ->
  call_ref kexec [Q] = PTuple [cols; rows_pv rows] ->
  Forall (fun r => r <> []) rows ->
  call_method call_ref prim subq_in_call flds [ctx] =
  Ok (update "value" (items_pv (Subquery.items_of rows)) flds, items_pv (Subquery.items_of rows)).
Proof.
  intros kexec kmark flds ctx Q cols rows Hk Hm Hq Hv Hc Hrows.
  cbv in Hk. injection Hk as <-. cbv in Hm. injection Hm as <-.
  unfold call_method, subq_in_call. cbn [f_params f_body f_gen bind_params]. rewrite exec_block_cons.
  set (s0 := {| locals := [("self", PSelf); ("context", ctx)]; fields := flds |}).
  erewrite exec_if.
  2:{ erewrite eval_compare_one; [|apply eval_self_attr; [reflexivity|exact Hv]|reflexivity]. reflexivity. }
  2:{ reflexivity. }
  cbn [pv_is_ref Nat.eqb truthy].
  rewrite exec_block_cons.
  rewrite (exec_execute_query _ s0 Q cols (rows_pv rows) eq_refl Hq Hc). cbn [bind].
  set (s1 := write (write s0 (TName "columns") cols) (TName "rows") (rows_pv rows)).
  rewrite exec_block_cons.
  rewrite (exec_assign call_ref prim (TName "value") _ s1 s1 (PList (map PV (map (cell 0) rows)))).
  2:{ unfold rows_pv. erewrite eval_listcomp; [|reflexivity].
      rewrite (map_res_ok _ (fun v => match v with PTuple (x :: _) => x | _ => PNone end)).
      - cbn [bind]. rewrite !map_map. do 3 f_equal. apply map_ext_in. intros r Hr.
        rewrite Forall_forall in Hrows. specialize (Hrows r Hr). destruct r; [congruence|reflexivity].
      - intros v Hin. apply in_map_iff in Hin as [r [<- Hr]].
        rewrite Forall_forall in Hrows. specialize (Hrows r Hr).
        erewrite eval_index_tuple; [|apply eval_name; apply lookup_update_eq|reflexivity].
        unfold row_pv. destruct r as [|x t]; [congruence|reflexivity]. }
  cbn [bind]. set (s2 := write s1 (TName "value") _). rewrite exec_block_cons.
  set (V := items_pv (Subquery.items_of rows)).
  rewrite (exec_assign call_ref prim (TSelf "value") _ s2 s2 V).
  2:{ cbn [PyMini.eval read]. unfold s2. cbn [write locals]. rewrite lookup_update_eq. cbn [bind pv_truthy].
      unfold V. destruct rows as [|r0 rt]; cbn [map bind PyMini.eval read locals]; [reflexivity|].
      rewrite lookup_update_eq. reflexivity. }
  cbn [bind exec_block]. cbn [PyMini.exec PyMini.eval read write locals fields bind update].
  unfold s2, s1, s0. cbn [write locals fields update String.eqb Ascii.eqb Bool.eqb lookup bind].
  rewrite lookup_update_eq. reflexivity.
Qed.

(* a later call (the attribute value holds a cached result, a list or None, never the sentinel): the cached value is
   returned and the node is unchanged.  Nothing is assumed of [call_ref]: whatever execute_query would do, it is not called *)
Theorem in_subquery_cached_src : forall kmark flds ctx items,
  ref_of refs "beanquery.query_compile.MARKER" = Some kmark ->
  lookup "value" flds = Some (items_pv items) ->
  call_method call_ref prim subq_in_call flds [ctx] = Ok (flds, items_pv items).
Proof.
  intros kmark flds ctx items Hm Hv. cbv in Hm. injection Hm as <-.
  unfold call_method, subq_in_call. cbn [f_params f_body f_gen bind_params]. rewrite exec_block_cons.
  set (s0 := {| locals := [("self", PSelf); ("context", ctx)]; fields := flds |}).
  erewrite exec_if with (t := false) (cv := PBool false) (s1 := s0).
  2:{ erewrite eval_compare_one; [|apply eval_self_attr; [reflexivity|exact Hv]|reflexivity].
      destruct items; reflexivity. }
  2:{ reflexivity. }
  cbn [exec_block bind]. cbn [PyMini.exec PyMini.eval read bind locals fields s0 lookup String.eqb Ascii.eqb Bool.eqb].
  rewrite Hv. reflexivity.
Qed.

(* ---- the same, stated over Model/Subquery.v: the subquery is (q over s) and execute_query returns the model's rows *)
Theorem subquery_iter_rows_of : forall kexec flds Q cols q s,
  ref_of refs "beanquery.query_execute.execute_query" = Some kexec ->
  lookup "subquery" flds = Some Q ->
  call_ref kexec [Q] = PTuple [cols; rows_pv (Exec.exec q (Subquery.rows_of s))] ->
  call_method call_ref prim subq_table_iter flds [] = Ok (flds, rows_pv (Subquery.rows_of (Subquery.SSub q s))).
Proof. intros kexec flds Q cols q s. apply subquery_iter_src. Qed.

Theorem in_subquery_items_src : forall kexec kmark flds ctx Q cols q s,
  ref_of refs "beanquery.query_execute.execute_query" = Some kexec ->
  ref_of refs "beanquery.query_compile.MARKER" = Some kmark ->
  lookup "subquery" flds = Some Q -> lookup "value" flds = Some (PRef kmark) ->
  call_ref kexec [Q] = PTuple [cols; rows_pv (Exec.exec q (Subquery.rows_of s))] ->
  Exec.q_vis q <> [] ->
  let v := items_pv (Subquery.items_of (Subquery.rows_of (Subquery.SSub q s))) in
  call_method call_ref prim subq_in_call flds [ctx] = Ok (update "value" v flds, v).
Proof.
  intros kexec kmark flds ctx Q cols q s Hk Hm Hq Hv Hc Hvis v.
  apply (in_subquery_first_call_src kexec kmark flds ctx Q cols _ Hk Hm Hq Hv Hc).
  eapply Forall_impl; [|apply SubqueryProofs.exec_width].
  cbv beta. intros r Hr E. subst r. destruct (Exec.q_vis q); [congruence|discriminate].
Qed.

(* ---- the IN / NOT IN operator node: EvalBinaryOp.__call__ with the function of the registered overloads *)
Section Node.
Variable ctx : pv.
Variable r : row.
Variable st : list value.
Notation mev := (Verif.Model.Eval.eval r st).

Definition is_err (v : value) : bool := match v with VErr _ => true | _ => false end.
(* reference k behaves as child node a on this row (operand values are not exceptions: C04) *)
Definition child (k : nat) (a : enode) : Prop := call_ref k [ctx] = PV (mev a) /\ is_err (mev a) = false.
Definition expect (flds : env) (v : value) : res (env * pv)%type :=
  match v with VErr k => Exc k | _ => Ok (flds, PV v) end.
(* the opaque callable k IS the translated function f: wherever f returns a value, k returns it *)
Definition op_is (k : nat) (f : fdef) : Prop :=
  forall x y v, call_function call_ref prim f [x; y] = Ok v -> call_ref k [x; y] = v.

Lemma existsb_pv_value x l : existsb (pv_eqb (PV x)) (map PV l) = existsb (val_eq x) l.
Proof. induction l as [|y t IH]; [reflexivity|]. cbn [map existsb]. now rewrite pv_eqb_value, IH. Qed.

Theorem in_node_src : forall (negate : bool) ka kb kop a items,
  child ka a -> call_ref kb [ctx] = items_pv items ->
  op_is kop (if negate then subq_not_in else subq_in) ->
  let flds := [("left", PRef ka); ("right", PRef kb); ("operator", PRef kop)] in
  call_method call_ref prim subq_node_binary flds [ctx] = expect flds (mev (EIn negate a items)).
Proof.
  intros negate ka kb kop a items [Ha Ea] Hb Hop flds.
  assert (Hin : forall x l, is_null x = false ->
            call_ref kop [PV x; PList (map PV l)] = PV (VBool (xorb negate (existsb (val_eq x) l)))).
  { intros x l _. apply Hop. destruct negate; cbn -[existsb map pv_eqb]; rewrite existsb_pv_value; destruct (existsb (val_eq x) l); reflexivity. }
  cbn. rewrite Ha.
  destruct (mev a) eqn:Eva; try discriminate; try reflexivity;
    cbn; rewrite Hb; destruct items as [l|]; try reflexivity;
    cbn; rewrite Hin by reflexivity; reflexivity.
Qed.

End Node.

End Tie.
