(* C18 -- exhaustive evaluation over every date 1900-01-01 .. 2100-12-31 (73 414 dates), part A *)
From Coq Require Import String ZArith List Bool Lia.
Import ListNotations.
From Verif Require Import Base.Out Base.PyValue Model.Dates Model.StrFuncs Proofs.DatesProofs Proofs.DatesChecks.
Open Scope Z_scope.

Lemma range_units_A : all_in_range (check_units [UMonth; UQuarter; UYear]) LO NDATES = true.
Proof. vm_cast_no_check (eq_refl true). Qed.
